(* C13: executable model of the ROUTE DRIVERS that sit above the Newick tree-statement parser.

   Transcribed (statement by statement) from
     dataio/tokenizer.py + nexusprocessing.NexusTokenizer   next_token / require_next_token /
                                                            *_ucase / skip_to_semicolon /
                                                            pull / clear captured comments, is_eof
     dataio/newickreader.py   NewickReader.tree_iter, NewickReader._read
     dataio/newickyielder.py  NewickTreeDataYielder._yield_items_from_stream
     dataio/nexusreader.py    _parse_nexus_stream, _parse_taxa_block, _parse_taxlabels_statement,
                              _parse_dimensions_statement, _parse_title_statement,
                              _parse_link_statement, _parse_translate_statement,
                              _parse_tree_statement, _parse_trees_block, _consume_to_end_of_block,
                              _new_taxon_namespace, _get_taxon_namespace, _new_tree_list
     dataio/nexusyielder.py   NexusTreeDataYielder._yield_items_from_stream,
                              _yield_from_trees_block      (its OWN copies of the two loops)
     datamodel: TreeList._parse_and_create_from_stream / _parse_and_add_from_stream,
                Tree._parse_and_create_from_stream, Tree.yield_from_files,
                TreeArray.read_from_files, DataSet._parse_and_create_from_stream,
                DataReader.read_tree_lists / read_dataset (which factories each route passes)

   The document is the token sequence produced by the library's own NexusTokenizer (token text,
   is_token_quoted, the comments captured while fetching it, is_eof() right after it) plus the way
   the stream ends.  The Newick statement parser (NewickReader._parse_tree_statement) is a
   PARAMETER `parse_tree` of the drivers: an arbitrary function of the symbol mapper and the
   tokenizer state.  Definitions only; proofs in Proofs/C13*.v.

   Not modelled: CHARACTERS/DATA blocks when characters are read (exclude_chars = False; only the
   exclude_chars branch, which every tree route takes, is modelled), SETS blocks when characters
   are read, store_ignored_blocks, automatically_*_missing_taxa_blocks,
   unconstrained_taxa_accumulation_mode, case-sensitive namespaces, TaxonNamespace.is_mutable
   beyond the TRANSLATE check, string/stream/path dispatch (basemodel._get_from/_read_from). *)
From Coq Require Import ZArith List Bool.
From Coq Require String Ascii.
Import String.StringSyntax.
From DV Require Import Model.PyPrims.
Import ListNotations.
Open Scope Z_scope.

(* ------------------------------------------------------------------------------------------ *)
(* strings                                                                                      *)
Definition str := list Z.
Definition str_eqb (a b : str) : bool := list_eqb Z.eqb a b.

Fixpoint s2z (s : String.string) : str :=
  match s with
  | String.EmptyString => []
  | String.String a r => Z.of_N (Ascii.N_of_ascii a) :: s2z r
  end.
Arguments s2z s%string_scope.

Definition is_nil {A} (l : list A) : bool := match l with [] => true | _ => false end.

(* ------------------------------------------------------------------------------------------ *)
(* the token sequence of a document, as delivered by NexusTokenizer                            *)
Record token : Type := mkTok {
  t_text : str;            (* current_token *)
  t_quoted : bool;         (* is_token_quoted *)
  t_comments : list str;   (* comments appended to captured_comments while fetching it *)
  t_eof : bool             (* is_eof() right after fetching it *)
}.

Inductive tend : Type :=
| EndEof (comments : list str)     (* StopIteration; trailing comments captured on the way *)
| EndErr (e : err).                (* UnterminatedQuoteError raised by the fetch after the last token *)

(* tokenizer state *)
Record tz : Type := mkTz {
  z_cur : option str;      (* current_token *)
  z_quoted : bool;         (* is_token_quoted *)
  z_eof : bool;            (* is_eof() *)
  z_com : list str;        (* captured_comments *)
  z_toks : list token;     (* tokens not yet fetched *)
  z_end : tend
}.

Definition tz_init (toks : list token) (e : tend) : tz := mkTz None false false [] toks e.

Definition set_cur (z : tz) (c : option str) : tz :=
  mkTz c (z_quoted z) (z_eof z) (z_com z) (z_toks z) (z_end z).
Definition set_com (z : tz) (c : list str) : tz :=
  mkTz (z_cur z) (z_quoted z) (z_eof z) c (z_toks z) (z_end z).

(* Tokenizer.__next__: (true, state) = a token was fetched; (false, state) = StopIteration *)
Definition fetch (z : tz) : res (bool * tz) :=
  match z_toks z with
  | t :: r => Ok (true, mkTz (Some (t_text t)) (t_quoted t) (t_eof t) (z_com z ++ t_comments t) r (z_end z))
  | [] =>
    match z_end z with
    | EndEof cs => Ok (false, mkTz (z_cur z) false true (z_com z ++ cs) [] (EndEof []))
    | EndErr e => Err e
    end
  end.

(* next_token: StopIteration sets current_token = None *)
Definition next_token (z : tz) : res tz :=
  do r <- fetch z ;; let '(b, z') := r in Ok (if b then z' else set_cur z' None).

(* require_next_token: UnexpectedEndOfStreamError is a DataParseError *)
Definition require_next_token (z : tz) : res tz :=
  do r <- fetch z ;; let '(b, z') := r in if b then Ok z' else Err ParseErr.

Definition pull_comments (z : tz) : list str * tz := (z_com z, set_com z []).
Definition clear_comments (z : tz) : tz := set_com z [].

Definition tok_is (z : tz) (s : str) : bool :=
  match z_cur z with Some t => str_eqb t s | None => false end.
Definition cur_none (z : tz) : bool := match z_cur z with None => true | Some _ => false end.
(* `not current_token` *)
Definition cur_falsy (z : tz) : bool := match z_cur z with None => true | Some t => is_nil t end.
Definition cur_text (z : tz) : str := match z_cur z with Some t => t | None => [] end.

Definition otok_is (t : option str) (s : str) : bool :=
  match t with Some x => str_eqb x s | None => false end.

(* keywords *)
Definition K_SEMI := s2z ";".       Definition K_EQ := s2z "=".        Definition K_COMMA := s2z ",".
Definition K_STAR := s2z "*".       Definition K_NEXUS := s2z "#NEXUS". Definition K_BEGIN := s2z "BEGIN".
Definition K_END := s2z "END".      Definition K_ENDBLOCK := s2z "ENDBLOCK".
Definition K_TAXA := s2z "TAXA".    Definition K_TREES := s2z "TREES".
Definition K_CHARACTERS := s2z "CHARACTERS".  Definition K_DATA := s2z "DATA".
Definition K_SETS := s2z "SETS".    Definition K_ASSUMPTIONS := s2z "ASSUMPTIONS".
Definition K_CODONS := s2z "CODONS".
Definition K_TITLE := s2z "TITLE".  Definition K_LINK := s2z "LINK".
Definition K_DIMENSIONS := s2z "DIMENSIONS". Definition K_TAXLABELS := s2z "TAXLABELS".
Definition K_NTAX := s2z "NTAX".    Definition K_NCHAR := s2z "NCHAR".
Definition K_TRANSLATE := s2z "TRANSLATE".   Definition K_TREE := s2z "TREE".
Definition K_DUMMY := s2z "DUMMY".

Definition is_end (t : option str) : bool := otok_is t K_END || otok_is t K_ENDBLOCK.

(* str.isdigit() / int() on ASCII digit strings *)
Definition is_digit_str (s : str) : bool :=
  negb (is_nil s) && forallb (fun c => (48 <=? c) && (c <=? 57)) s.
Definition int_of_str (s : str) : Z := fold_left (fun a c => 10 * a + (c - 48)) s 0.

(* str(n), n >= 0 *)
Fixpoint uint_digits (u : Decimal.uint) : str :=
  match u with
  | Decimal.Nil => []
  | Decimal.D0 r => 48 :: uint_digits r | Decimal.D1 r => 49 :: uint_digits r
  | Decimal.D2 r => 50 :: uint_digits r | Decimal.D3 r => 51 :: uint_digits r
  | Decimal.D4 r => 52 :: uint_digits r | Decimal.D5 r => 53 :: uint_digits r
  | Decimal.D6 r => 54 :: uint_digits r | Decimal.D7 r => 55 :: uint_digits r
  | Decimal.D8 r => 56 :: uint_digits r | Decimal.D9 r => 57 :: uint_digits r
  end.
Definition dec_of_nat (n : nat) : str := uint_digits (N.to_uint (N.of_nat n)).

(* Python list indexing with negative offsets; None = IndexError *)
Definition py_index {A} (l : list A) (i : Z) : option A :=
  let n := Z.of_nat (length l) in
  if (0 <=? i) && (i <? n) then nth_error l (Z.to_nat i)
  else if (i <? 0) && (0 <=? n + i) then nth_error l (Z.to_nat (n + i))
  else None.

(* l[i:] *)
Definition py_slice_from {A} (l : list A) (i : Z) : list A :=
  let n := Z.of_nat (length l) in
  if 0 <=? i then skipn (Z.to_nat i) l
  else if 0 <=? n + i then skipn (Z.to_nat (n + i)) l else l.

Fixpoint assoc {A} (k : str) (l : list (str * A)) : option A :=
  match l with
  | [] => None
  | (k', v) :: r => if str_eqb k k' then Some v else assoc k r
  end.

Fixpoint enum_from {A} (i : nat) (l : list A) : list (nat * A) :=
  match l with [] => [] | x :: r => (i, x) :: enum_from (S i) r end.

Fixpoint list_set {A} (l : list A) (i : nat) (x : A) : list A :=
  match l, i with
  | [], _ => []
  | _ :: r, O => x :: r
  | y :: r, S j => y :: list_set r j x
  end.

(* ------------------------------------------------------------------------------------------ *)
(* namespaces and the NEXUS symbol mapper                                                       *)
(* A Taxon is identified with its position in its namespace; a namespace is the list of the
   labels of its members; its own label (the TAXA block TITLE) is kept apart (`regs`). *)

(* NexusTaxonSymbolMapper; `m_ns` is the content of the namespace it manages *)
Record mapper : Type := mkMapper {
  m_ns : list str;
  m_tokens : list (str * nat);     (* token_taxon_map (TRANSLATE) *)
  m_labels : list (str * nat);     (* label_taxon_map, most recent assignment first *)
  m_numbers : list (str * nat);    (* number_taxon_map *)
  m_by_number : bool               (* enable_lookup_by_taxon_number *)
}.

Section Drivers.

Variable T : Type.                       (* a parsed tree *)
Variables lower upper : str -> str.      (* str.lower, str.upper *)
(* NewickReader._parse_tree_statement(nexus_tokenizer, tree_factory, taxon_symbol_map_fn):
   None = no further tree.  An arbitrary function. *)
Variable parse_tree : mapper -> tz -> res (option T * mapper * tz).
Variable set_label : T -> option str -> T.          (* tree.label = ... *)
Variable add_comments : T -> list str -> T.         (* process_comments_for_item(tree, comments, ..) *)
(* variant: _parse_link_statement upper-cases the token that follows a `X = title` clause
   (repaired form) or leaves it as written (form as found: a lower-case second keyword is skipped) *)
Variable v_link_ucase : bool.

Definition next_token_ucase (z : tz) : res tz :=
  do r <- fetch z ;; let '(b, z') := r in
  Ok (if b then set_cur z' (Some (upper (cur_text z'))) else set_cur z' None).

Definition require_next_token_ucase (z : tz) : res tz :=
  do r <- fetch z ;; let '(b, z') := r in
  if b then Ok (set_cur z' (Some (upper (cur_text z')))) else Err ParseErr.

(* cast_current_token_to_ucase *)
Definition cast_ucase (z : tz) : tz :=
  if cur_falsy z then z else set_cur z (Some (upper (cur_text z))).

(* skip_to_semicolon *)
Fixpoint skip_loop (fuel : nat) (z : tz) : res tz :=
  match fuel with
  | O => OutOfFuel
  | S f =>
    if negb (tok_is z K_SEMI) && negb (z_eof z) && negb (cur_none z)
    then do z1 <- next_token z ;; skip_loop f z1
    else Ok z
  end.
Definition skip_to_semicolon (fuel : nat) (z : tz) : res tz :=
  do z1 <- next_token z ;; skip_loop fuel z1.

(* process_comments_for_item does nothing for an empty list *)
Definition add_comments_opt (t : T) (cs : list str) : T := if is_nil cs then t else add_comments t cs.

(* --- TaxonNamespace (case-insensitive) --- *)
Fixpoint find_label (i : nat) (l : str) (taxa : list str) : option nat :=
  match taxa with
  | [] => None
  | x :: r => if str_eqb (lower x) (lower l) then Some i else find_label (S i) l r
  end.
(* get_taxon(label): first member whose lower-cased label equals the lower-cased argument *)
Definition ns_get_taxon (taxa : list str) (l : str) : option nat := find_label O l taxa.
(* require_taxon(label) on a mutable namespace *)
Definition ns_require_taxon (taxa : list str) (l : str) : nat * list str :=
  match ns_get_taxon taxa l with
  | Some i => (i, taxa)
  | None => (length taxa, taxa ++ [l])
  end.

(* --- NexusTaxonSymbolMapper --- *)
(* __init__ + reset_supplemental_mappings: label_taxon_map() of the namespace folded into a
   CaseInsensitiveDict: later members with an equal folded label shadow earlier ones; the maps are
   association lists, most recent assignment first (number_taxon_map[str(idx+1)] = taxon in member order) *)
Definition new_mapper (taxa : list str) (by_number : bool) : mapper :=
  mkMapper taxa []
           (rev (map (fun p => (lower (snd p), fst p)) (enum_from O taxa)))
           (rev (map (fun p => (dec_of_nat (S (fst p)), fst p)) (enum_from O taxa)))
           by_number.

Definition add_translate_token (m : mapper) (tok : str) (taxon : nat) : mapper :=
  mkMapper (m_ns m) ((lower tok, taxon) :: m_tokens m) (m_labels m) (m_numbers m) (m_by_number m).

Definition mapper_set_ns (m : mapper) (taxa : list str) : mapper :=
  mkMapper taxa (m_tokens m) (m_labels m) (m_numbers m) (m_by_number m).

Definition mapper_new_taxon (m : mapper) (label : str) : nat * mapper :=
  let i := length (m_ns m) in
  (i, mkMapper (m_ns m ++ [label]) (m_tokens m) ((lower label, i) :: m_labels m)
               ((dec_of_nat (S i), i) :: m_numbers m) (m_by_number m)).

(* lookup_taxon_symbol(symbol, create_taxon_if_not_found=True): token, label, number, new *)
Definition require_taxon_for_symbol (m : mapper) (symbol : str) : nat * mapper :=
  match assoc (lower symbol) (m_tokens m) with
  | Some i => (i, m)
  | None =>
    match assoc (lower symbol) (m_labels m) with
    | Some i => (i, m)
    | None =>
      match (if m_by_number m then assoc symbol (m_numbers m) else None) with
      | Some i => (i, m)
      | None => mapper_new_taxon m symbol
      end
    end
  end.

(* lookup_taxon_symbol(symbol, create_taxon_if_not_found): the three-stage look-up - TRANSLATE token, taxon label
   (both case-insensitive), taxon number (only when enable_lookup_by_taxon_number) - then a new taxon or None *)
Definition lookup_taxon_symbol (m : mapper) (symbol : str) (create : bool) : option nat * mapper :=
  match assoc (lower symbol) (m_tokens m) with
  | Some i => (Some i, m)
  | None =>
    match assoc (lower symbol) (m_labels m) with
    | Some i => (Some i, m)
    | None =>
      match (if m_by_number m then assoc symbol (m_numbers m) else None) with
      | Some i => (Some i, m)
      | None => if create then (Some (fst (mapper_new_taxon m symbol)), snd (mapper_new_taxon m symbol)) else (None, m)
      end
    end
  end.

(* ========================================================================================== *)
(* NEWICK                                                                                      *)

(* NewickReader._read: tree_iter consumed by `for tree in ...: pass`; every tree is appended to
   the tree list by tree_factory = tree_list.new_tree *)
Fixpoint newick_read_loop (fuel : nat) (m : mapper) (z : tz) (acc : list T) : res (list T * mapper * tz) :=
  match fuel with
  | O => OutOfFuel
  | S f =>
    do r <- parse_tree m z ;;
    let '(ot, m1, z1) := r in
    match ot with
    | None => Ok (acc, m1, z1)
    | Some t => newick_read_loop f m1 z1 (acc ++ [t])
    end
  end.

(* what a yielder produced: the trees handed out so far and how the generator ended *)
Definition yres (X : Type) : Type := (list T * res X)%type.

(* NewickTreeDataYielder._yield_items_from_stream: `while True: tree = ...; if tree is None: break;
   yield tree` *)
Fixpoint newick_yield_loop (fuel : nat) (m : mapper) (z : tz) : yres (mapper * tz) :=
  match fuel with
  | O => ([], OutOfFuel)
  | S f =>
    match parse_tree m z with
    | Ok (None, m1, z1) => ([], Ok (m1, z1))
    | Ok (Some t, m1, z1) => let '(out, r) := newick_yield_loop f m1 z1 in (t :: out, r)
    | Err e => ([], Err e)
    | OutOfFuel => ([], OutOfFuel)
    end
  end.

(* ========================================================================================== *)
(* NEXUS reader state                                                                          *)

(* which taxon_namespace_factory a route passes to DataReader._read *)
Inductive tns_factory : Type :=
| FacNew                       (* dataset.new_taxon_namespace: a new namespace per call *)
| FacFixed (set_label : bool). (* always namespace 0; Tree.get's tns_factory and TreeList's
                                  pseudo-factory set its label when it has none *)
(* which tree_list_factory *)
Inductive tl_factory : Type :=
| TLNew                        (* TreeList(...) / dataset.new_tree_list: one list per TREES block *)
| TLFixed.                     (* tree_list._tree_list_pseudofactory: always list 0 *)

(* the namespace side of a route's configuration (all the iterator has), and the whole of it *)
Record nscfg : Type := mkNsCfg {
  c_attached : bool;           (* reader.attached_taxon_namespace is not None (it is namespace 0) *)
  c_fac : tns_factory
}.
Record cfg : Type := mkCfg {
  c_ns : nscfg;
  c_tlfac : tl_factory
}.

(* The reader object's state is kept in three parts so that each sub-parser only sees what the
   Python code touches:
     core  - tokenizer, _file_specified_ntax, the member labels of every TaxonNamespace object
     regs  - the labels (TITLE) of the namespaces and self._taxon_namespaces
     tree lists (reader only) *)
Record core : Type := mkCore {
  k_z : tz;
  k_ntax : option Z;           (* self._file_specified_ntax *)
  k_nss : list (list str)      (* member labels of every TaxonNamespace object, by identity *)
}.
Record regs : Type := mkRegs {
  g_labels : list (option str);   (* TaxonNamespace.label, by identity *)
  g_reg : list nat                (* self._taxon_namespaces *)
}.
Record tlval : Type := mkTl { tl_label : option str; tl_trees : list T; tl_comments : list str }.
Record rs : Type := mkRs {
  r_k : core;
  r_g : regs;
  r_tls : list tlval;          (* every TreeList object, by identity *)
  r_tlreg : list nat           (* self._tree_lists *)
}.

Definition set_z (k : core) (z : tz) : core := mkCore z (k_ntax k) (k_nss k).
Definition set_ntax (k : core) (n : option Z) : core := mkCore (k_z k) n (k_nss k).
Definition ns_taxa_at (k : core) (i : nat) : list str := nth i (k_nss k) [].
Definition set_ns_taxa (k : core) (i : nat) (taxa : list str) : core :=
  mkCore (k_z k) (k_ntax k) (list_set (k_nss k) i taxa).

(* lift a tokenizer step *)
Definition zstep (k : core) (f : tz -> res tz) : res core := do z <- f (k_z k) ;; Ok (set_z k z).

Variable c : nscfg.
Variable tlf : tl_factory.

(* _new_taxon_namespace(title) *)
Definition new_tns (k : core) (g : regs) (title : option str) : nat * core * regs :=
  if c_attached c then (O, k, g)
  else
    match c_fac c with
    | FacNew =>
      let i := length (k_nss k) in
      (i, mkCore (k_z k) (k_ntax k) (k_nss k ++ [[]]), mkRegs (g_labels g ++ [title]) (g_reg g ++ [i]))
    | FacFixed sl =>
      let labels := match title, nth O (g_labels g) None with
                    | Some t, None => if sl then list_set (g_labels g) O (Some t) else g_labels g
                    | _, _ => g_labels g
                    end in
      (O, k, mkRegs labels (g_reg g ++ [O]))
    end.

(* _get_taxon_namespace(title) *)
Definition get_tns (k : core) (g : regs) (title : option str) : res (nat * core * regs) :=
  if c_attached c then Ok (O, k, g)
  else
    match title with
    | None =>
      match g_reg g with
      | [] => Ok (new_tns k g None)
      | [i] => Ok (i, k, g)
      | _ => Err ParseErr                       (* LinkRequiredError *)
      end
    | Some t =>
      match filter (fun i => match nth i (g_labels g) None with
                             | Some l => str_eqb (upper l) (upper t)
                             | None => false end) (g_reg g) with
      | [] => Err ParseErr                      (* UndefinedBlockError *)
      | [i] => Ok (i, k, g)
      | _ => Err ParseErr                       (* MultipleBlockWithSameTitleError *)
      end
    end.

(* _new_tree_list(taxon_namespace, title) *)
Definition new_tree_list (tls : list tlval) (tlreg : list nat) (title : option str) : nat * list tlval * list nat :=
  match tlf with
  | TLNew =>
    let i := length tls in (i, tls ++ [mkTl title [] []], tlreg ++ [i])
  | TLFixed =>
    let t0 := nth O tls (mkTl None [] []) in
    let tls1 := match title, tl_label t0 with
                | Some t, None => list_set tls O (mkTl (Some t) (tl_trees t0) (tl_comments t0))
                | _, _ => tls
                end in
    (O, tls1, tlreg ++ [O])
  end.

Definition tl_at (tls : list tlval) (i : nat) : tlval := nth i tls (mkTl None [] []).
Definition tl_add_comments (tls : list tlval) (i : nat) (cs : list str) : list tlval :=
  let t := tl_at tls i in list_set tls i (mkTl (tl_label t) (tl_trees t) (tl_comments t ++ cs)).
Definition tl_append (tls : list tlval) (i : nat) (t : T) : list tlval :=
  let l := tl_at tls i in list_set tls i (mkTl (tl_label l) (tl_trees l ++ [t]) (tl_comments l)).

(* _consume_to_end_of_block(token) *)
Fixpoint consume_loop (fuel : nat) (token : option str) (z : tz) : res tz :=
  match fuel with
  | O => OutOfFuel
  | S f =>
    if negb (is_end token) && negb (z_eof z) && (match token with Some _ => true | None => false end)
    then do z1 <- skip_to_semicolon fuel z ;;
         do z2 <- next_token_ucase z1 ;;
         consume_loop f (z_cur z2) z2
    else Ok z
  end.
Definition consume_to_end_of_block (fuel : nat) (token : option str) (z : tz) : res tz :=
  consume_loop fuel (Some (match token with
                           | Some t => if is_nil t then K_DUMMY else upper t
                           | None => K_DUMMY end)) z.

(* _parse_title_statement *)
Definition parse_title (z : tz) : res (str * tz) :=
  let z0 := cast_ucase z in
  if negb (tok_is z0 K_TITLE) then Err ParseErr
  else do z1 <- require_next_token z0 ;;
       let title := cur_text z1 in
       do z2 <- require_next_token z1 ;;
       if negb (tok_is z2 K_SEMI) then Err ParseErr else Ok (title, z2).

(* _parse_link_statement: returns links.get("taxa") (a link to None is None).
   `while token != ';'`: TAXA = x / CHARACTERS = x are read, any other token is skipped with
   require_next_token_ucase (UnexpectedEndOfStreamError at the end of the stream). *)
Fixpoint link_loop (fuel : nat) (z : tz) (taxa : option str) : res (option str * tz) :=
  match fuel with
  | O => OutOfFuel
  | S f =>
    if tok_is z K_SEMI then Ok (taxa, z)
    else if tok_is z K_TAXA then
      do z1 <- next_token z ;;
      if negb (tok_is z1 K_EQ) then Err ParseErr
      else do z2 <- next_token z1 ;;
           let v := z_cur z2 in
           do z3 <- (if v_link_ucase then next_token_ucase z2 else next_token z2) ;; link_loop f z3 v
    else if tok_is z K_CHARACTERS then
      do z1 <- next_token z ;;
      if negb (tok_is z1 K_EQ) then Err ParseErr
      else do z2 <- next_token z1 ;;
           do z3 <- (if v_link_ucase then next_token_ucase z2 else next_token z2) ;; link_loop f z3 taxa
    else do z1 <- require_next_token_ucase z ;; link_loop f z1 taxa
  end.
Definition parse_link (fuel : nat) (z : tz) : res (option str * tz) :=
  do z1 <- next_token_ucase z ;; link_loop fuel z1 None.

(* _parse_dimensions_statement: (ntax', state); NCHAR is checked but not kept *)
Fixpoint dimensions_loop (fuel : nat) (z : tz) (ntax : option Z) : res (option Z * tz) :=
  match fuel with
  | O => OutOfFuel
  | S f =>
    if tok_is z K_SEMI then Ok (ntax, z)
    else if tok_is z K_NTAX || tok_is z K_NCHAR then
      let is_ntax := tok_is z K_NTAX in
      do z1 <- require_next_token_ucase z ;;
      if tok_is z1 K_EQ then
        do z2 <- require_next_token_ucase z1 ;;
        if is_digit_str (cur_text z2) then
          do z3 <- require_next_token_ucase z2 ;;
          dimensions_loop f z3 (if is_ntax then Some (int_of_str (cur_text z2)) else ntax)
        else Err ParseErr
      else Err ParseErr
    else if tok_is z K_BEGIN then Err ParseErr
    else do z1 <- require_next_token_ucase z ;; dimensions_loop f z1 ntax
  end.
Definition parse_dimensions (fuel : nat) (z : tz) (ntax : option Z) : res (option Z * tz) :=
  do z1 <- require_next_token_ucase z ;; dimensions_loop fuel z1 ntax.

(* _parse_taxlabels_statement(taxon_namespace): the namespace is case-insensitive, so the
   label_set test `label.lower() in label_set` is the get_taxon test *)
Fixpoint taxlabels_loop (fuel : nat) (z : tz) (taxa : list str) (ntax : option Z) : res (list str * tz) :=
  match fuel with
  | O => OutOfFuel
  | S f =>
    match z_cur z with
    | None => Err AttrErr                         (* None.lower(): unreachable, every fetch here is require_next_token *)
    | Some label =>
      if str_eqb label K_SEMI then Ok (taxa, z)
      else
        do taxa1 <- (match ns_get_taxon taxa label with
                     | Some _ => Ok taxa
                     | None =>
                       match ntax with
                       | None => Ok (taxa ++ [label])   (* no DIMENSIONS NTAX: no limit *)
                       | Some n =>
                         if (n <=? Z.of_nat (length taxa))
                            && negb (c_attached c && negb (is_nil taxa))   (* `not self.attached_taxon_namespace`: an empty namespace is falsy *)
                         then Err ParseErr        (* TooManyTaxaError *)
                         else Ok (taxa ++ [label])
                       end
                     end) ;;
        do z1 <- require_next_token z ;;
        taxlabels_loop f (clear_comments z1) taxa1 ntax
    end
  end.
Definition parse_taxlabels (fuel : nat) (k : core) (ns : nat) : res core :=
  do z1 <- require_next_token (k_z k) ;;
  do r <- taxlabels_loop fuel z1 (ns_taxa_at k ns) (k_ntax k) ;;
  let '(taxa, z2) := r in
  Ok (set_z (set_ns_taxa k ns taxa) z2).

(* _parse_taxa_block: `token` is the local variable of the Python loop *)
Fixpoint taxa_loop (fuel : nat) (k : core) (g : regs) (token : str) (tns : option nat) : res (core * regs) :=
  match fuel with
  | O => OutOfFuel
  | S f =>
    if str_eqb token K_END || str_eqb token K_ENDBLOCK then Ok (k, g)
    else
      do z1 <- require_next_token_ucase (k_z k) ;;
      let k1 := set_z k z1 in
      let token1 := cur_text z1 in
      (* if token == "TITLE" *)
      do r1 <- (if str_eqb token1 K_TITLE
                then do r <- parse_title (k_z k1) ;;
                     let '(title, z2) := r in
                     let '(i, k2, g2) := new_tns (set_z k1 z2) g (Some title) in
                     Ok (title, k2, g2, Some i)
                else Ok (token1, k1, g, tns)) ;;
      let '(token2, k2, g2, tns2) := r1 in
      (* if token == 'DIMENSIONS' *)
      do k3 <- (if str_eqb token2 K_DIMENSIONS
                then do r <- parse_dimensions fuel (k_z k2) (k_ntax k2) ;;
                     let '(n, z3) := r in Ok (set_z (set_ntax k2 n) z3)
                else Ok k2) ;;
      (* if token == 'TAXLABELS' *)
      if str_eqb token2 K_TAXLABELS
      then let '(i, k4, g4) := match tns2 with Some i => (i, k3, g2) | None => new_tns k3 g2 None end in
           do k5 <- parse_taxlabels fuel (set_z k4 (clear_comments (k_z k4))) i ;;
           taxa_loop f k5 g4 token2 (Some i)
      else taxa_loop f k3 g2 token2 tns2
  end.
Definition parse_taxa_block (fuel : nat) (k : core) (g : regs) : res (core * regs) :=
  do k1 <- zstep k (skip_to_semicolon fuel) ;;
  do r <- taxa_loop fuel k1 g [] None ;;
  let '(k2, g2) := r in
  do k3 <- zstep k2 (skip_to_semicolon fuel) ;; Ok (k3, g2).

(* _parse_translate_statement(taxon_namespace): a NEW mapper over the namespace.
   require_taxon on the namespace directly (the mapper's label map is not told); the namespace
   was locked by the mapper and is unlocked only when no TAXA block has been read *)
Fixpoint translate_loop (fuel : nat) (z : tz) (m : mapper) (ntax : option Z) : res (mapper * tz) :=
  match fuel with
  | O => OutOfFuel
  | S f =>
    do z1 <- next_token z ;;
    if tok_is z1 K_SEMI && negb (z_quoted z1) then Err ParseErr
    else
      let tt := z_cur z1 in
      do z2 <- next_token z1 ;;
      match z_cur z2 with
      | None => Err OtherErr                      (* require_taxon(label=None): not modelled *)
      | Some tl =>
        do r <- (match ntax with
                 | None => Ok (ns_require_taxon (m_ns m) tl)
                 | Some _ => match ns_get_taxon (m_ns m) tl with
                             | Some i => Ok (i, m_ns m)
                             | None => Err ParseErr      (* UndefinedTaxonError *)
                             end
                 end) ;;
        let '(i, taxa) := r in
        let m1 := add_translate_token (mapper_set_ns m taxa)
                                      (match tt with Some t => t | None => s2z "None" end) i in
        do z3 <- next_token z2 ;;
        if cur_falsy z3 || tok_is z3 K_SEMI then Ok (m1, z3)
        else if negb (tok_is z3 K_COMMA) then Err ParseErr
        else translate_loop f z3 m1 ntax
      end
  end.
Definition parse_translate (fuel : nat) (k : core) (ns : nat) : res (mapper * core) :=
  do r <- translate_loop fuel (k_z k) (new_mapper (ns_taxa_at k ns) true) (k_ntax k) ;;
  let '(m, z) := r in
  Ok (m, set_z (set_ns_taxa k ns (m_ns m)) z).

(* _parse_tree_statement(tree_factory, taxon_symbol_mapper) *)
Definition parse_tree_stmt (m : mapper) (z : tz) : res (T * mapper * tz) :=
  do z1 <- next_token z ;;
  do z2 <- (if tok_is z1 K_STAR then next_token z1 else Ok z1) ;;
  let tree_name := z_cur z2 in
  do z3 <- next_token z2 ;;
  let '(pre, z4) := pull_comments z3 in
  if negb (tok_is z4 K_EQ) then Err ParseErr
  else
    (* tree_comments = pull_captured_comments(): nothing was fetched since the last pull *)
    do z5 <- next_token z4 ;;
    do r <- parse_tree m z5 ;;
    let '(ot, m1, z6) := r in
    match ot with
    | None => Err ParseErr                        (* "Expecting tree description ... but found end of stream" *)
    | Some t => Ok (add_comments_opt (set_label t tree_name) pre, m1, z6)
    end.

(* the local variables of _parse_trees_block / _yield_from_trees_block *)
Record tb_locals : Type := mkLoc {
  l_token : option str;
  l_link : option str;
  l_ns : option nat;
  l_map : option mapper;
  l_title : option str
}.
Definition loc_token (l : tb_locals) (t : option str) : tb_locals :=
  mkLoc t (l_link l) (l_ns l) (l_map l) (l_title l).

(* `if taxon_namespace is None: taxon_namespace = self._get_taxon_namespace(link_title)` *)
Definition loc_get_ns (k : core) (g : regs) (l : tb_locals) : res (nat * core * regs) :=
  match l_ns l with Some i => Ok (i, k, g) | None => get_tns k g (l_link l) end.

(* the state after one TREE statement: the tokenizer moved, the namespace holds what the mapper
   added *)
Definition after_tree (k : core) (ns : nat) (m1 : mapper) (z1 : tz) : core :=
  set_z (set_ns_taxa k ns (m_ns m1)) z1.

(* --- reader: the `while True:` over consecutive TREE statements in _parse_trees_block --- *)
(* result: (core, tree lists, mapper, token') where token' = Some t when `token = current_token`
   was executed before the break *)
Fixpoint r_tree_loop (fuel : nat) (k : core) (tls : list tlval) (ns tb : nat) (m : mapper)
  : res (core * list tlval * mapper * option (option str)) :=
  match fuel with
  | O => OutOfFuel
  | S f =>
    do r <- parse_tree_stmt m (k_z k) ;;
    let '(t, m1, z1) := r in
    let tls1 := tl_append tls tb t in
    let k1 := after_tree k ns m1 z1 in
    if z_eof z1 || cur_falsy z1 then Ok (k1, tls1, m1, None)
    else
      let z2 := cast_ucase z1 in
      let k2 := set_z k1 z2 in
      if negb (tok_is z2 K_TREE) then Ok (k2, tls1, m1, Some (z_cur z2))
      else r_tree_loop f k2 tls1 ns tb m1
  end.

Definition loop_guard (z : tz) (token : option str) : bool :=
  negb (z_eof z) && (match token with Some _ => true | None => false end) && negb (is_end token).

(* --- reader: _parse_trees_block after the exclude_trees test; tb = trees_block --- *)
Fixpoint r_trees_loop (fuel : nat) (s : rs) (l : tb_locals) (tb : option nat) : res rs :=
  match fuel with
  | O => OutOfFuel
  | S f =>
    if loop_guard (k_z (r_k s)) (l_token l)
    then
      do k1 <- zstep (r_k s) next_token_ucase ;;
      let token := z_cur (k_z k1) in
      if otok_is token K_LINK then
        do r <- parse_link fuel (k_z k1) ;;
        let '(lt, z2) := r in
        r_trees_loop f (mkRs (set_z k1 z2) (r_g s) (r_tls s) (r_tlreg s))
                     (mkLoc token lt (l_ns l) (l_map l) (l_title l)) tb
      else if otok_is token K_TITLE then
        do r <- parse_title (k_z k1) ;;
        let '(bt, z2) := r in
        r_trees_loop f (mkRs (set_z k1 z2) (r_g s) (r_tls s) (r_tlreg s))
                     (mkLoc (Some []) (l_link l) (l_ns l) (l_map l) (Some bt)) tb
      else if otok_is token K_TRANSLATE then
        do r <- loc_get_ns k1 (r_g s) l ;;
        let '(ns, k2, g2) := r in
        do r2 <- parse_translate fuel k2 ns ;;
        let '(m, k3) := r2 in
        r_trees_loop f (mkRs k3 g2 (r_tls s) (r_tlreg s))
                     (mkLoc (Some []) (l_link l) (Some ns) (Some m) (l_title l)) tb
      else if otok_is token K_TREE then
        do r <- loc_get_ns k1 (r_g s) l ;;
        let '(ns, k2, g2) := r in
        let m := match l_map l with Some m => m | None => new_mapper (ns_taxa_at k2 ns) true end in
        let '(pre, z3) := pull_comments (k_z k2) in
        let k3 := set_z k2 z3 in
        let '(i, tls4, reg4) := match tb with
                                | Some i => (i, r_tls s, r_tlreg s)
                                | None => new_tree_list (r_tls s) (r_tlreg s) (l_title l)
                                end in
        let tls5 := if is_nil pre then tls4 else tl_add_comments tls4 i pre in
        do r3 <- r_tree_loop fuel k3 tls5 ns i m ;;
        let '(k6, tls6, m1, tk) := r3 in
        r_trees_loop f (mkRs k6 g2 tls6 reg4)
                     (mkLoc (match tk with Some t => t | None => token end)
                            (l_link l) (Some ns) (Some m1) (l_title l)) (Some i)
      else if otok_is token K_BEGIN then Err ParseErr
      else r_trees_loop f (mkRs k1 (r_g s) (r_tls s) (r_tlreg s)) (loc_token l token) tb
    else Ok s
  end.

Variable exclude_trees : bool.
(* variant: with characters excluded the reader skips a SETS / ASSUMPTIONS / CODONS block to its END
   like every other block it does not read (repaired form) instead of leaving it unconsumed and
   scanning its tokens for BEGIN (form as found) *)
Variable v_sets_consume : bool.

Definition r_parse_trees_block (fuel : nat) (s : rs) : res rs :=
  let z0 := cast_ucase (k_z (r_k s)) in
  let k0 := set_z (r_k s) z0 in
  if negb (tok_is z0 K_TREES) then Err ParseErr
  else if exclude_trees then
    do k1 <- zstep k0 (consume_to_end_of_block fuel (z_cur z0)) ;; Ok (mkRs k1 (r_g s) (r_tls s) (r_tlreg s))
  else
    do k1 <- zstep k0 (skip_to_semicolon fuel) ;;
    do s2 <- r_trees_loop fuel (mkRs k1 (r_g s) (r_tls s) (r_tlreg s)) (mkLoc (z_cur z0) None None None None) None ;;
    do k3 <- zstep (r_k s2) (skip_to_semicolon fuel) ;; Ok (mkRs k3 (r_g s2) (r_tls s2) (r_tlreg s2)).

(* the scan for BEGIN (textually duplicated in both outer loops) *)
Fixpoint scan_begin (fuel : nat) (z : tz) : res tz :=
  match fuel with
  | O => OutOfFuel
  | S f =>
    if negb (cur_none z) && negb (tok_is z K_BEGIN) && negb (z_eof z)
    then do z1 <- next_token_ucase z ;; scan_begin f z1
    else Ok z
  end.

(* the first statements of both outer loops: find BEGIN, clear the comments, fetch the block name *)
Definition block_head (fuel : nat) (k : core) : res core :=
  do k1 <- zstep k next_token_ucase ;;
  do k2 <- zstep k1 (scan_begin fuel) ;;
  zstep (set_z k2 (clear_comments (k_z k2))) next_token_ucase.

Definition is_sets_kw (token : option str) : bool :=
  otok_is token K_SETS || otok_is token K_ASSUMPTIONS || otok_is token K_CODONS.

(* --- reader: _parse_nexus_stream (tree routes: exclude_chars = True) --- *)
Fixpoint r_blocks_loop (fuel : nat) (s : rs) : res rs :=
  match fuel with
  | O => OutOfFuel
  | S f =>
    if negb (z_eof (k_z (r_k s))) then
      do k4 <- block_head fuel (r_k s) ;;
      let token := z_cur (k_z k4) in
      if otok_is token K_TAXA then
        do r <- parse_taxa_block fuel k4 (r_g s) ;;
        let '(k5, g5) := r in r_blocks_loop f (mkRs k5 g5 (r_tls s) (r_tlreg s))
      else if otok_is token K_CHARACTERS || otok_is token K_DATA then
        (* _parse_characters_data_block with exclude_chars *)
        let z0 := cast_ucase (k_z k4) in
        if negb (tok_is z0 K_CHARACTERS || tok_is z0 K_DATA) then Err ParseErr
        else do k5 <- zstep (set_z k4 z0) (consume_to_end_of_block fuel (z_cur z0)) ;;
             r_blocks_loop f (mkRs k5 (r_g s) (r_tls s) (r_tlreg s))
      else if otok_is token K_TREES then
        do s5 <- r_parse_trees_block fuel (mkRs k4 (r_g s) (r_tls s) (r_tlreg s)) ;; r_blocks_loop f s5
      else if is_sets_kw token then
        if v_sets_consume then
          do k5 <- zstep k4 (consume_to_end_of_block fuel token) ;;
          r_blocks_loop f (mkRs k5 (r_g s) (r_tls s) (r_tlreg s))
        else
          r_blocks_loop f (mkRs k4 (r_g s) (r_tls s) (r_tlreg s))   (* `if not self.exclude_chars:` - nothing is consumed *)
      else if otok_is token K_BEGIN then Err ParseErr
      else
        do k5 <- zstep k4 (consume_to_end_of_block fuel token) ;;
        r_blocks_loop f (mkRs k5 (r_g s) (r_tls s) (r_tlreg s))
    else Ok s
  end.

Definition r_parse_nexus_stream (fuel : nat) (s : rs) : res rs :=
  do k1 <- zstep (r_k s) require_next_token ;;
  match z_cur (k_z k1) with
  | None => Err AttrErr                           (* unreachable after require_next_token *)
  | Some t =>
    if negb (str_eqb (upper t) K_NEXUS) then Err ParseErr     (* NotNexusFileError *)
    else r_blocks_loop fuel (mkRs k1 (r_g s) (r_tls s) (r_tlreg s))
  end.

(* ========================================================================================== *)
(* NEXUS yielder: nexusyielder.py's own copies of the two loops                                *)

Definition ybind {X Y} (a : yres X) (f : X -> yres Y) : yres Y :=
  match a with
  | (out, Ok x) => let '(out2, r) := f x in (out ++ out2, r)
  | (out, Err e) => (out, Err e)
  | (out, OutOfFuel) => (out, OutOfFuel)
  end.
Definition ylift {X} (r : res X) : yres X := ([], r).

(* the `while True:` of _yield_from_trees_block: `yield tree` after every statement *)
Fixpoint y_tree_loop (fuel : nat) (k : core) (ns : nat) (m : mapper) : yres (core * mapper * option (option str)) :=
  match fuel with
  | O => ([], OutOfFuel)
  | S f =>
    match parse_tree_stmt m (k_z k) with
    | Err e => ([], Err e)
    | OutOfFuel => ([], OutOfFuel)
    | Ok (t, m1, z1) =>
      let k1 := after_tree k ns m1 z1 in
      if z_eof z1 || cur_falsy z1 then ([t], Ok (k1, m1, None))
      else
        let z2 := cast_ucase z1 in
        let k2 := set_z k1 z2 in
        if negb (tok_is z2 K_TREE) then ([t], Ok (k2, m1, Some (z_cur z2)))
        else let '(out, r) := y_tree_loop f k2 ns m1 in (t :: out, r)
    end
  end.

Fixpoint y_trees_loop (fuel : nat) (k : core) (g : regs) (l : tb_locals) : yres (core * regs) :=
  match fuel with
  | O => ([], OutOfFuel)
  | S f =>
    if loop_guard (k_z k) (l_token l)
    then
      ybind (ylift (zstep k next_token_ucase)) (fun k1 =>
      let token := z_cur (k_z k1) in
      if otok_is token K_LINK then
        ybind (ylift (parse_link fuel (k_z k1))) (fun r =>
        let '(lt, z2) := r in
        y_trees_loop f (set_z k1 z2) g (mkLoc token lt (l_ns l) (l_map l) (l_title l)))
      else if otok_is token K_TITLE then
        ybind (ylift (parse_title (k_z k1))) (fun r =>
        let '(bt, z2) := r in
        y_trees_loop f (set_z k1 z2) g (mkLoc (Some []) (l_link l) (l_ns l) (l_map l) (Some bt)))
      else if otok_is token K_TRANSLATE then
        ybind (ylift (loc_get_ns k1 g l)) (fun r =>
        let '(ns, k2, g2) := r in
        ybind (ylift (parse_translate fuel k2 ns)) (fun r2 =>
        let '(m, k3) := r2 in
        y_trees_loop f k3 g2 (mkLoc (Some []) (l_link l) (Some ns) (Some m) (l_title l))))
      else if otok_is token K_TREE then
        ybind (ylift (loc_get_ns k1 g l)) (fun r =>
        let '(ns, k2, g2) := r in
        let m := match l_map l with Some m => m | None => new_mapper (ns_taxa_at k2 ns) true end in
        let '(_, z3) := pull_comments (k_z k2) in      (* pre_tree_comments: pulled and dropped *)
        let k3 := set_z k2 z3 in
        ybind (y_tree_loop fuel k3 ns m) (fun r3 =>
        let '(k6, m1, tk) := r3 in
        y_trees_loop f k6 g2 (mkLoc (match tk with Some t => t | None => token end)
                                    (l_link l) (Some ns) (Some m1) (l_title l))))
      else if otok_is token K_BEGIN then ([], Err ParseErr)
      else y_trees_loop f k1 g (loc_token l token))
    else ([], Ok (k, g))
  end.

Definition y_trees_block (fuel : nat) (k : core) (g : regs) : yres (core * regs) :=
  let z0 := cast_ucase (k_z k) in
  let k0 := set_z k z0 in
  if negb (tok_is z0 K_TREES) then ([], Err ParseErr)
  else if exclude_trees then
    ylift (do k1 <- zstep k0 (consume_to_end_of_block fuel (z_cur z0)) ;; Ok (k1, g))
  else
    ybind (ylift (zstep k0 (skip_to_semicolon fuel))) (fun k1 =>
    ybind (y_trees_loop fuel k1 g (mkLoc (z_cur z0) None None None None)) (fun r =>
    let '(k2, g2) := r in
    ylift (do k3 <- zstep k2 (skip_to_semicolon fuel) ;; Ok (k3, g2)))).

(* _yield_items_from_stream, schema "nexus" (assume_newick_if_not_nexus = False) *)
Fixpoint y_blocks_loop (fuel : nat) (k : core) (g : regs) : yres (core * regs) :=
  match fuel with
  | O => ([], OutOfFuel)
  | S f =>
    if negb (z_eof (k_z k)) then
      ybind (ylift (block_head fuel k)) (fun k4 =>
      let token := z_cur (k_z k4) in
      if otok_is token K_TAXA then
        ybind (ylift (parse_taxa_block fuel k4 g)) (fun r => let '(k5, g5) := r in y_blocks_loop f k5 g5)
      else if otok_is token K_TREES then
        ybind (y_trees_block fuel k4 g) (fun r => let '(k5, g5) := r in y_blocks_loop f k5 g5)
      else if otok_is token K_BEGIN then ([], Err ParseErr)
      else
        ybind (ylift (zstep k4 (consume_to_end_of_block fuel token))) (fun k5 => y_blocks_loop f k5 g))
    else ([], Ok (k, g))
  end.

Definition y_items_from_stream (fuel : nat) (k : core) (g : regs) : yres (core * regs) :=
  ybind (ylift (zstep k require_next_token)) (fun k1 =>
  match z_cur (k_z k1) with
  | None => ([], Err AttrErr)
  | Some t =>
    if negb (str_eqb (upper t) K_NEXUS) then ([], Err ParseErr)
    else y_blocks_loop fuel k1 g
  end).

End Drivers.

Arguments mkTl {T} _ _ _.
Arguments tl_label {T} _.
Arguments tl_trees {T} _.
Arguments tl_comments {T} _.
Arguments mkRs {T} _ _ _ _.
Arguments r_k {T} _.
Arguments r_g {T} _.
Arguments r_tls {T} _.
Arguments r_tlreg {T} _.

(* ========================================================================================== *)
(* the routes of the data model                                                                *)
Section Routes.

Variable T : Type.
Variables lower upper : str -> str.
Variable parse_tree : mapper -> tz -> res (option T * mapper * tz).
Variable set_label : T -> option str -> T.
Variable add_comments : T -> list str -> T.
(* Two sites with a recorded finding are modelled in both forms; the correspondence run decides
   which form the working tree has by replaying the finding on the implementation.
     v_attach     - TreeList / Tree `_parse_and_create_from_stream` attach their namespace to the
                    reader (repaired form) instead of only handing it over through the
                    taxon-namespace factory (current form: false)
     v_keep_label - Tree.get keeps the tree name read from the source when no `label` keyword is
                    given (repaired form) instead of assigning None (current form: false) *)
Variables v_attach v_keep_label : bool.
Variable v_link_ucase : bool.   (* see Section Drivers *)
Variable v_sets_consume : bool. (* see Section Drivers *)

Definition doc : Type := (list token * tend)%type.
Definition doc_tz (d : doc) : tz := tz_init (fst d) (snd d).
(* every loop iteration fetches a token or ends the loop *)
Definition doc_fuel (d : doc) : nat := (length (fst d) + 4)%nat.

(* the configurations the routes pass to DataReader._read *)
Definition cfg_list : cfg := mkCfg (mkNsCfg v_attach (FacFixed true)) TLFixed.     (* TreeList.get / .read *)
Definition cfg_blocks : cfg := mkCfg (mkNsCfg v_attach (FacFixed true)) TLNew.     (* Tree.get; TreeList.get(collection_offset=..) *)
Definition cfg_yield : cfg := mkCfg (mkNsCfg true (FacFixed false)) TLNew.      (* NexusTreeDataYielder; DataSet.get(taxon_namespace=ns) *)
Definition cfg_dataset : cfg := mkCfg (mkNsCfg false FacNew) TLNew.             (* DataSet.get *)

Inductive schema : Type := Newick | Nexus.

(* -------- one full parse: (per-block tree lists in block order, content of namespace 0,
            all trees in arrival order) -------- *)

(* DataSet.get without a namespace starts with no TaxonNamespace object at all; every other route
   owns namespace 0 (holding ns0) before the reader starts *)
Definition has_ns0 (c : nscfg) : bool :=
  match c_fac c with FacNew => c_attached c | FacFixed _ => true end.
Definition core_init (c : nscfg) (ns0 : list str) (d : doc) : core :=
  mkCore (doc_tz d) None (if has_ns0 c then [ns0] else []).
Definition regs_init (c : nscfg) : regs := mkRegs (if has_ns0 c then [None] else []) [].
Definition nexus_init (c : cfg) (ns0 : list str) (d : doc) : rs T :=
  mkRs (core_init (c_ns c) ns0 d) (regs_init (c_ns c))
       (match c_tlfac c with TLFixed => [mkTl None [] []] | TLNew => [] end)
       [].

Definition rs_blocks (s : rs T) : list (list T) :=
  map (fun i => tl_trees (nth i (r_tls s) (mkTl None [] []))) (r_tlreg s).
Definition rs_list0 (s : rs T) : list T := tl_trees (nth O (r_tls s) (mkTl None [] [])).
Definition rs_ns0 (s : rs T) : list str := nth O (k_nss (r_k s)) [].

Definition nexus_read (c : cfg) (ns0 : list str) (d : doc) : res (rs T) :=
  r_parse_nexus_stream T lower upper parse_tree set_label add_comments v_link_ucase (c_ns c) (c_tlfac c) false v_sets_consume (doc_fuel d) (nexus_init c ns0 d).

Definition newick_read (ns0 : list str) (d : doc) : res (list T * list str) :=
  do r <- newick_read_loop T parse_tree (doc_fuel d) (new_mapper lower ns0 false) (doc_tz d) [] ;;
  let '(ts, m, _) := r in Ok (ts, m_ns m).

(* TreeList.get / TreeList.read(collection_offset=None, tree_offset=None): the trees ADDED and
   the namespace afterwards *)
Definition treelist_read (sch : schema) (ns0 : list str) (d : doc) : res (list T * list str) :=
  match sch with
  | Newick => newick_read ns0 d
  | Nexus => do s <- nexus_read cfg_list ns0 d ;; Ok (rs_list0 s, rs_ns0 s)
  end.
Definition treelist_get (sch : schema) (d : doc) : res (list T * list str) := treelist_read sch [] d.

(* one TreeList per collection *)
Definition read_blocks (sch : schema) (c : cfg) (ns0 : list str) (d : doc) : res (list (list T) * list str) :=
  match sch with
  | Newick => do r <- newick_read ns0 d ;; Ok ([fst r], snd r)
  | Nexus => do s <- nexus_read c ns0 d ;; Ok (rs_blocks s, rs_ns0 s)
  end.

(* TreeList.get(collection_offset=c, tree_offset=k), at least one of them given *)
Definition select_offsets (blocks : list (list T)) (c : Z) (k : option Z) : res (list T) :=
  if Z.of_nat (length blocks) <=? c then Err IndexErr
  else match py_index blocks c with
       | None => Err IndexErr
       | Some tl =>
         match k with
         | None => Ok tl
         | Some k => if Z.of_nat (length tl) <=? k then Err IndexErr else Ok (py_slice_from tl k)
         end
       end.
Definition treelist_get_off (sch : schema) (c : option Z) (k : option Z) (d : doc) : res (list T) :=
  match c, k with
  | None, None => do r <- treelist_get sch d ;; Ok (fst r)
  | _, _ =>
    do r <- read_blocks sch cfg_blocks [] d ;;
    select_offsets (fst r) (match c with Some c => c | None => 0 end) k
  end.

(* Tree.get(collection_offset=c, tree_offset=k): None means 0; `tree.label = label` with the
   label keyword None (current form) *)
Definition got_label (t : T) : T := if v_keep_label then t else set_label t None.
Definition select_tree (blocks : list (list T)) (c k : Z) : res T :=
  if is_nil blocks then Err ValueErr
  else match py_index blocks c with
       | None => Err IndexErr
       | Some tl =>
         if is_nil tl then Err ValueErr
         else match py_index tl k with
              | None => Err IndexErr
              | Some t => Ok (got_label t)
              end
       end.
Definition tree_get (sch : schema) (c k : option Z) (d : doc) : res T :=
  do r <- read_blocks sch cfg_blocks [] d ;;
  select_tree (fst r) (match c with Some c => c | None => 0 end) (match k with Some k => k | None => 0 end).

(* Tree.yield_from_files([one file]): trees handed out, how the generator ended (Ok ns = exhausted) *)
Definition yield_from_files (sch : schema) (ns0 : list str) (d : doc) : list T * res (list str) :=
  match sch with
  | Newick =>
    let '(out, r) := newick_yield_loop T parse_tree (doc_fuel d) (new_mapper lower ns0 false) (doc_tz d) in
    (out, do x <- r ;; Ok (m_ns (fst x)))
  | Nexus =>
    let '(out, r) := y_items_from_stream T lower upper parse_tree set_label add_comments v_link_ucase (c_ns cfg_yield) false
                                         (doc_fuel d) (core_init (c_ns cfg_yield) ns0 d) (regs_init (c_ns cfg_yield)) in
    (out, do s <- r ;; Ok (nth O (k_nss (fst s)) []))
  end.

(* TreeArray.read(tree_offset=k): the trees passed to add_tree *)
Definition treearray_read (sch : schema) (k : Z) (ns0 : list str) (d : doc) : list T * res (list str) :=
  let '(out, r) := yield_from_files sch ns0 d in (skipn (Z.to_nat k) out, r).

(* DataSet.get: dataset.tree_lists *)
Definition dataset_get (sch : schema) (attached : bool) (d : doc) : res (list (list T)) :=
  do r <- read_blocks sch (if attached then cfg_yield else cfg_dataset) [] d ;; Ok (fst r).

(* TreeList.read twice into the same list / namespace: the trees added by the second call *)
Definition treelist_read_twice (sch : schema) (ns0 : list str) (d : doc) : res (list T * list str) :=
  do r <- treelist_read sch ns0 d ;; treelist_read sch (snd r) d.

End Routes.

(* ========================================================================================== *)
(* concrete instance used by the correspondence run: a SKELETON of NewickReader._parse_tree_statement
   (statement boundaries, comment handling, rooting comments, taxon symbol resolution in token
   order; no structural validation).  The theorems do not depend on it. *)

Inductive item : Type :=
| IOpen | IClose | IComma | ILen (s : str) | ITaxon (i : nat) | ILabel (s : str).

Record sktree : Type := mkSk {
  sk_label : option (option str);   (* None: never assigned; Some l: tree.label = l *)
  sk_rooted : option bool;
  sk_comments : list str;           (* tree.comments *)
  sk_items : list item;
  sk_node_comments : list str       (* comments attached below the tree level, in token order *)
}.

Definition lower_char (tbl : list (Z * Z)) (c : Z) : Z :=
  if (65 <=? c) && (c <=? 90) then c + 32
  else match find (fun p => fst p =? c) tbl with Some p => snd p | None => c end.
Definition upper_char (tbl : list (Z * Z)) (c : Z) : Z :=
  if (97 <=? c) && (c <=? 122) then c - 32
  else match find (fun p => snd p =? c) tbl with Some p => fst p | None => c end.
Definition lower_with (tbl : list (Z * Z)) (s : str) : str := map (lower_char tbl) s.
Definition upper_with (tbl : list (Z * Z)) (s : str) : str := map (upper_char tbl) s.

Definition is_space (c : Z) : bool := ((9 <=? c) && (c <=? 13)) || ((28 <=? c) && (c <=? 32)).
Fixpoint lstrip (s : str) : str := match s with c :: r => if is_space c then lstrip r else s | [] => [] end.
Definition py_strip (s : str) : str := rev (lstrip (rev (lstrip s))).

(* _process_tree_comments with store_tree_weights = False, extract_comment_metadata = False,
   rooting = None *)
Fixpoint sk_tree_comments (cs : list str) (rooted : option bool) (kept : list str) : option bool * list str :=
  match cs with
  | [] => (rooted, kept)
  | c :: r =>
    let s := py_strip c in
    if str_eqb s (s2z "&R") || str_eqb s (s2z "&r") then sk_tree_comments r (Some true) kept
    else if str_eqb s (s2z "&U") || str_eqb s (s2z "&u") then sk_tree_comments r (Some false) kept
    else sk_tree_comments r rooted (kept ++ [c])
  end.

Section Skeleton.
Variable lower : str -> str.

Definition P_OPEN := s2z "(". Definition P_CLOSE := s2z ")". Definition P_COLON := s2z ":".

Fixpoint sk_skip_semis (fuel : nat) (z : tz) (tc : list str) : res (list str * tz) :=
  match fuel with
  | O => OutOfFuel
  | S f =>
    if (tok_is z K_SEMI || cur_none z) && negb (z_eof z) then
      do z1 <- require_next_token z ;;
      let '(cs, z2) := pull_comments z1 in sk_skip_semis f z2 cs
    else Ok (tc, z)
  end.

Fixpoint sk_body (fuel : nat) (m : mapper) (z : tz) (items : list item) (ncs : list str) (after_close : bool)
                 (seen : list nat)
  : res (list item * list str * mapper * tz) :=
  match fuel with
  | O => OutOfFuel
  | S f =>
    let '(cs, z) := pull_comments z in
    let ncs := ncs ++ cs in
    if tok_is z K_SEMI then do z1 <- next_token z ;; Ok (items, ncs, m, z1)
    else if tok_is z P_OPEN then do z1 <- require_next_token z ;; sk_body f m z1 (items ++ [IOpen]) ncs false seen
    else if tok_is z P_CLOSE then do z1 <- require_next_token z ;; sk_body f m z1 (items ++ [IClose]) ncs true seen
    else if tok_is z K_COMMA then do z1 <- require_next_token z ;; sk_body f m z1 (items ++ [IComma]) ncs false seen
    else if tok_is z P_COLON then
      do z1 <- require_next_token z ;;
      let '(cs1, z1) := pull_comments z1 in
      do z2 <- require_next_token z1 ;;
      sk_body f m z2 (items ++ [ILen (cur_text z1)]) (ncs ++ cs1) after_close seen
    else
      let label := cur_text z in
      if after_close then
        do z1 <- require_next_token z ;; sk_body f m z1 (items ++ [ILabel label]) ncs after_close seen
      else let '(i, m1) := require_taxon_for_symbol lower m label in
           (* self._seen_taxa: NewickReaderDuplicateTaxonError *)
           if existsb (Nat.eqb i) seen then Err ParseErr
           else do z1 <- require_next_token z ;; sk_body f m1 z1 (items ++ [ITaxon i]) ncs after_close (i :: seen)
  end.

Fixpoint sk_trailing (fuel : nat) (z : tz) : res tz :=
  match fuel with
  | O => OutOfFuel
  | S f =>
    if tok_is z K_SEMI && negb (z_eof z) then do z1 <- next_token (clear_comments z) ;; sk_trailing f z1
    else Ok z
  end.

Definition sk_parse_tree (m : mapper) (z : tz) : res (option sktree * mapper * tz) :=
  let fuel := (length (z_toks z) + 3)%nat in
  let '(tc, z) := pull_comments z in
  do r <- sk_skip_semis fuel z tc ;;
  let '(tree_comments, z1) := r in
  if z_eof z1 then Ok (None, m, z1)
  else
    let '(rooted, kept) := sk_tree_comments tree_comments None [] in
    do r2 <- sk_body fuel m z1 [] [] false [] ;;
    let '(items, ncs, m1, z2) := r2 in
    do z3 <- sk_trailing fuel z2 ;;
    Ok (Some (mkSk None rooted kept items ncs), m1, z3).

End Skeleton.

Definition sk_set_label (t : sktree) (l : option str) : sktree :=
  mkSk (Some l) (sk_rooted t) (sk_comments t) (sk_items t) (sk_node_comments t).
Definition sk_add_comments (t : sktree) (cs : list str) : sktree :=
  mkSk (sk_label t) (sk_rooted t) (sk_comments t ++ cs) (sk_items t) (sk_node_comments t).

(* ------------------------------------------------------------------------------------------ *)
(* correspondence cases                                                                        *)

Definition item_eqb (a b : item) : bool :=
  match a, b with
  | IOpen, IOpen | IClose, IClose | IComma, IComma => true
  | ILen x, ILen y => str_eqb x y
  | ITaxon i, ITaxon j => Nat.eqb i j
  | ILabel x, ILabel y => str_eqb x y
  | _, _ => false
  end.

(* insertion sort of comments (they are compared as multisets) *)
Fixpoint str_leb (a b : str) : bool :=
  match a, b with
  | [], _ => true
  | _ :: _, [] => false
  | x :: r, y :: q => if x <? y then true else if y <? x then false else str_leb r q
  end.
Fixpoint ins_str (x : str) (l : list str) : list str :=
  match l with [] => [x] | y :: r => if str_leb x y then x :: l else y :: ins_str x r end.
Definition sort_strs (l : list str) : list str := fold_right ins_str [] l.

(* expected tree as observed on the implementation: the label actually found on the tree *)
Definition sk_eqb (model obs : sktree) : bool :=
  option_eqb str_eqb (match sk_label model with Some l => l | None => None end)
                     (match sk_label obs with Some l => l | None => None end)
  && option_eqb Bool.eqb (sk_rooted model) (sk_rooted obs)
  && list_eqb str_eqb (sk_comments model) (sk_comments obs)
  && list_eqb item_eqb (sk_items model) (sk_items obs)
  && list_eqb str_eqb (sort_strs (sk_node_comments model)) (sort_strs (sk_node_comments obs)).

Inductive route : Type :=
| RList                                   (* TreeList.get *)
| RListOff (c k : option Z)               (* TreeList.get(collection_offset, tree_offset) *)
| RTree (c k : option Z)                  (* Tree.get(collection_offset, tree_offset) *)
| RRead (ns0 : list str)                  (* TreeList.read into a list whose namespace holds ns0 *)
| RReadTwice (ns0 : list str)             (* ... the second of two reads of the same text *)
| RYield (ns0 : list str)                 (* Tree.yield_from_files *)
| RArray (k : Z)                          (* TreeArray.read(tree_offset=k): trees added *)
| RDataset (attached : bool).             (* DataSet.get [taxon_namespace=ns] *)

Inductive robs : Type :=
| OList (r : res (list sktree * list str))            (* trees, namespace labels afterwards *)
| OTrees (r : res (list sktree))
| OTree (r : res sktree)
| OYield (out : list sktree) (r : res (list str))     (* delivered prefix; Ok ns = exhausted *)
| OCount (n : nat) (r : res unit)                     (* number of trees added; how it ended *)
| OBlocks (r : res (list (list sktree))).

Record case : Type := mkCase {
  k_vattach : bool;                (* which form the working tree has, see Section Routes *)
  k_vkeep : bool;
  k_vlink : bool;
  k_vsets : bool;
  k_nexus : bool;
  k_lower : list (Z * Z);          (* non-ASCII (upper, lower) pairs occurring in the document *)
  k_toks : list token;
  k_end : tend;
  k_obs : list (route * robs)
}.

Definition pair_eqb {A B} (f : A -> A -> bool) (g : B -> B -> bool) (x y : A * B) : bool :=
  f (fst x) (fst y) && g (snd x) (snd y).
Definition unit_eqb (_ _ : unit) : bool := true.

Section Case.
Variable k : case.
Let lo := lower_with (k_lower k).
Let up := upper_with (k_lower k).
Let sch := if k_nexus k then Nexus else Newick.
Let d : doc := (k_toks k, k_end k).
Let PT := sk_parse_tree lo.

Definition m_treelist_read := treelist_read sktree lo up PT sk_set_label sk_add_comments (k_vattach k) (k_vlink k) (k_vsets k) sch.
Definition m_yield := yield_from_files sktree lo up PT sk_set_label sk_add_comments (k_vlink k) sch.

Definition route_run (r : route) : robs :=
  match r with
  | RList => OList (treelist_get sktree lo up PT sk_set_label sk_add_comments (k_vattach k) (k_vlink k) (k_vsets k) sch d)
  | RListOff c kk => OTrees (treelist_get_off sktree lo up PT sk_set_label sk_add_comments (k_vattach k) (k_vlink k) (k_vsets k) sch c kk d)
  | RTree c kk => OTree (tree_get sktree lo up PT sk_set_label sk_add_comments (k_vattach k) (k_vkeep k) (k_vlink k) (k_vsets k) sch c kk d)
  | RRead ns0 => OList (m_treelist_read ns0 d)
  | RReadTwice ns0 => OList (treelist_read_twice sktree lo up PT sk_set_label sk_add_comments (k_vattach k) (k_vlink k) (k_vsets k) sch ns0 d)
  | RYield ns0 => let '(out, r) := m_yield ns0 d in OYield out r
  | RArray kk =>
    let '(out, r) := treearray_read sktree lo up PT sk_set_label sk_add_comments (k_vlink k) sch kk [] d in
    OCount (length out) (do _ <- r ;; Ok tt)
  | RDataset a => OBlocks (dataset_get sktree lo up PT sk_set_label sk_add_comments (k_vlink k) (k_vsets k) sch a d)
  end.

Definition sks_eqb := list_eqb sk_eqb.
Definition strs_eqb := list_eqb str_eqb.

Definition robs_eqb (a b : robs) : bool :=
  match a, b with
  | OList x, OList y => res_eqb (pair_eqb sks_eqb strs_eqb) x y
  | OTrees x, OTrees y => res_eqb sks_eqb x y
  | OTree x, OTree y => res_eqb sk_eqb x y
  | OYield o x, OYield p y => sks_eqb o p && res_eqb strs_eqb x y
  | OCount n x, OCount m y => Nat.eqb n m && res_eqb unit_eqb x y
  | OBlocks x, OBlocks y => res_eqb (list_eqb sks_eqb) x y
  | _, _ => false
  end.

Definition case_ok : bool := forallb (fun p => robs_eqb (route_run (fst p)) (snd p)) (k_obs k).
Definition case_run : list robs := map (fun p => route_run (fst p)) (k_obs k).

End Case.

(* short constructors for the case terms *)
Definition w (s : str) : token := mkTok s false [] false.
Definition wc (s : str) (cs : list str) : token := mkTok s false cs false.
Definition q (s : String.string) : str := s2z s.
Arguments q s%string_scope.
