(* C13 (wave 8): the operations over which py/dv/gen_routes_select.py compiles the namespace selection of
   DataReader.read_dataset and DataSet._parse_and_add_from_stream (-> Gen/RoutesSelect.v).

   A namespace expression is a handle or None (option nat).  What Python does with such a value depends on
   the operator:
     `x is None`, `x is y`      identity: sel_is_none / sel_same, independent of what the namespace contains;
     bool(x), `if x:`, `x or y`, `x and y`, `not x`
                                TaxonNamespace defines __len__ (no __bool__): the truth value is len(x) != 0, so it
                                depends on the STORE - an empty namespace is falsy like None, but it is not None.
   The store gives the members (labels) of every namespace object. *)
From Coq Require Import List Bool.
Import ListNotations.
From DV Require Import Model.PyPrims Model.C13Model.

Definition nsstore : Type := nat -> list str.

Definition sel_is_none (o : option nat) : bool := match o with None => true | Some _ => false end.
(* a is b on two namespace objects / None *)
Definition sel_same (a b : option nat) : bool :=
  match a, b with Some x, Some y => Nat.eqb x y | None, None => true | _, _ => false end.
(* bool(x) *)
Definition ns_truthy (st : nsstore) (o : option nat) : bool :=
  match o with Some h => negb (is_nil (st h)) | None => false end.
(* x or y ; x and y  (as values) *)
Definition ns_or (st : nsstore) (a b : option nat) : option nat := if ns_truthy st a then a else b.
Definition ns_and (st : nsstore) (a b : option nat) : option nat := if ns_truthy st a then b else a.

(* the taxon_namespace_factory a reader is given: `lambda label: <namespace>` returns that object for every TAXA
   block; dataset.new_taxon_namespace creates a new namespace object per block *)
Inductive selfac : Type :=
  | SelNew
  | SelFixed (o : option nat).
