(* C05: executable model of dendropy.datamodel.treecollectionmodel.SplitDistribution,
   SplitDistributionSummarizer, the TreeArray score functions, Tree.from_split_bitmasks (greedy
   insertion) and the calculate.statistics kernel used by `summarize`.

   Hand transcription, tied to the source by py/dv/c05.py (differential run) and by
   Gen/Consts.v (threshold constants, comparison operators of the threshold tests, the
   `_almost_one` tolerance) and Gen/BitFns.v (compatibility / triviality of bitmasks).

   Numbers are exact rationals (Q).  Binary64 rounding is outside the model (DESIGN section 3);
   the harness compares floats with the exact value up to a stated tolerance.

   A tree contributes the list of its bipartitions AS ENCODED BY THE LIBRARY
   (tree.bipartition_encoding order): (split bitmask, edge length, node age); how the
   encoding is computed is C01's subject.  *)
From Coq Require Import ZArith QArith Qabs Qreduction List Bool.
From DV Require Import Model.PyPrims Gen.BitFns Gen.Consts.
Import ListNotations.
Open Scope Z_scope.

(* ------------------------------------------------------------------------- *)
(* rationals, kept reduced *)

Definition qplus (a b : Q) : Q := Qred (a + b)%Q.
Definition qminus (a b : Q) : Q := Qred (a - b)%Q.
Definition qmult (a b : Q) : Q := Qred (a * b)%Q.
Definition qdiv (a b : Q) : Q := Qred (a / b)%Q.
Definition qlt_bool (a b : Q) : bool := negb (Qle_bool b a).
Definition qZ (z : Z) : Q := inject_Z z.

Definition oq_eqb (a b : option Q) : bool := option_eqb Qeq_bool a b.

(* ------------------------------------------------------------------------- *)
(* insertion-ordered dictionaries keyed by int (Python dict / defaultdict) *)

Fixpoint aget {V} (k : Z) (l : list (Z * V)) : option V :=
  match l with
  | [] => None
  | (k', v) :: r => if Z.eqb k k' then Some v else aget k r
  end.

(* d[k] = f(d.get(k, dflt))  -- new keys are appended (insertion order) *)
Fixpoint aupd {V} (k : Z) (dflt : V) (f : V -> V) (l : list (Z * V)) : list (Z * V) :=
  match l with
  | [] => [(k, f dflt)]
  | (k', v) :: r => if Z.eqb k k' then (k', f v) :: r else (k', v) :: aupd k dflt f r
  end.

Definition aget_d {V} (k : Z) (dflt : V) (l : list (Z * V)) : V :=
  match aget k l with Some v => v | None => dflt end.

(* ------------------------------------------------------------------------- *)
(* generic insertion sort (Python sorted(); keys are totally ordered so stability is moot) *)

Fixpoint insert_by {A} (le : A -> A -> bool) (x : A) (l : list A) : list A :=
  match l with
  | [] => [x]
  | y :: r => if le x y then x :: l else y :: insert_by le x r
  end.

Definition sort_by {A} (le : A -> A -> bool) (l : list A) : list A :=
  fold_right (insert_by le) [] l.

(* ------------------------------------------------------------------------- *)
(* inputs *)

Record brec := mkRec {
  r_split : Z;             (* bipartition.split_bitmask *)
  r_len : option Q;        (* edge.length *)
  r_age : option Q         (* edge.head_node.age (after calc_node_ages) *)
}.

Record tree_in := mkTree {
  t_recs : list brec;          (* tree.bipartition_encoding, in order *)
  t_weight : option Q;         (* tree.weight *)
  t_rooting : option bool;     (* tree.is_rooted at the time of the call *)
  t_leafset : Z                (* tree.seed_node.edge.bipartition.leafset_bitmask *)
}.

Record config := mkCfg {
  ignore_len : bool;           (* ignore_edge_lengths *)
  ignore_ages : bool;          (* ignore_node_ages *)
  use_w : bool;                (* use_tree_weights *)
  default_len : option Q       (* default_edge_length_value *)
}.

(* ------------------------------------------------------------------------- *)
(* SplitDistribution state *)

Record sd := mkSd {
  total : Z;                                  (* total_trees_counted *)
  sum_w : Q;                                  (* sum_of_tree_weights *)
  rootings : list bool;                       (* tree_rooting_types_counted (set) *)
  counts : list (Z * Q);                      (* split_counts *)
  elens : list (Z * list (option Q));         (* split_edge_lengths *)
  nages : list (Z * list (option Q));         (* split_node_ages *)
  freqs : option (list (Z * Q));              (* _split_freqs *)
  counted_for_freqs : Z                       (* _trees_counted_for_freqs *)
}.
(* _split_edge_length_summaries/_split_node_age_summaries: the code never advances
   _trees_counted_for_summaries (it is only ever set to 0), so the two summary tables are
   recomputed on every access as soon as a tree was counted; with no tree counted both
   tables are computed from the same (possibly empty) data each time.  They are therefore a
   pure function of elens / nages and carry no observable cache state; not a field here. *)

Definition sd_empty : sd := mkSd 0 0 [] [] [] [] None 0.

Definition weight_to_use (c : config) (t : tree_in) : Q :=
  match t_weight t with
  | Some w => if use_w c then w else 1
  | None => 1
  end.

Definition add_rooting (b : bool) (l : list bool) : list bool :=
  if existsb (Bool.eqb b) l then l else l ++ [b].

Definition is_rooted_truthy (r : option bool) : bool :=
  match r with Some true => true | _ => false end.

Definition rec_len (c : config) (r : brec) : option Q :=
  match r_len r with None => default_len c | Some x => Some x end.

Fixpoint count_recs (c : config) (w : Q) (rs : list brec)
         (cnt : list (Z * Q)) (el ag : list (Z * list (option Q)))
  : list (Z * Q) * list (Z * list (option Q)) * list (Z * list (option Q)) :=
  match rs with
  | [] => (cnt, el, ag)
  | r :: rest =>
    let cnt' := aupd (r_split r) 0%Q (fun x => qplus x w) cnt in
    let el' := if ignore_len c then el else aupd (r_split r) [] (fun l => l ++ [rec_len c r]) el in
    let ag' := if ignore_ages c then ag else aupd (r_split r) [] (fun l => l ++ [r_age r]) ag in
    count_recs c w rest cnt' el' ag'
  end.

(* SplitDistribution.count_splits_on_tree: returns the new state and (splits, edge_lengths, node_ages) *)
Definition count_tree (c : config) (d : sd) (t : tree_in)
  : sd * (list Z * list (option Q) * list (option Q)) :=
  let w := weight_to_use c t in
  let '(cnt, el, ag) := count_recs c w (t_recs t) (counts d) (elens d) (nages d) in
  (mkSd (total d + 1) (qplus (sum_w d) w) (add_rooting (is_rooted_truthy (t_rooting t)) (rootings d))
        cnt el ag (freqs d) (counted_for_freqs d),
   (map r_split (t_recs t),
    if ignore_len c then [] else map (rec_len c) (t_recs t),
    if ignore_ages c then [] else map r_age (t_recs t))).

Definition count_trees (c : config) (d : sd) (ts : list tree_in) : sd :=
  fold_left (fun d t => fst (count_tree c d t)) ts d.

(* SplitDistribution.add_split_count *)
Definition add_split_count (d : sd) (s : Z) (x : Q) : sd :=
  mkSd (total d) (sum_w d) (rootings d) (aupd s 0%Q (fun y => qplus y x) (counts d))
       (elens d) (nages d) (freqs d) (counted_for_freqs d).

(* calc_normalization_weight: `if not self.sum_of_tree_weights: return total_trees_counted` *)
Definition normalization_weight (d : sd) : Q :=
  if Qeq_bool (sum_w d) 0 then qZ (total d) else sum_w d.

(* calc_freqs *)
Definition freq_table (d : sd) : list (Z * Q) :=
  if total d =? 0 then map (fun kv => (fst kv, 1%Q)) (counts d)
  else map (fun kv => (fst kv, qdiv (snd kv) (normalization_weight d))) (counts d).

Definition calc_freqs (d : sd) : sd * list (Z * Q) :=
  let tbl := freq_table d in
  (mkSd (total d) (sum_w d) (rootings d) (counts d) (elens d) (nages d) (Some tbl) (total d), tbl).

(* _get_split_frequencies *)
Definition get_freqs (d : sd) : sd * list (Z * Q) :=
  match freqs d with
  | None => calc_freqs d
  | Some tbl => if negb (counted_for_freqs d =? total d) then calc_freqs d else (d, tbl)
  end.

(* __getitem__ *)
Definition query (d : sd) (s : Z) : sd * Q :=
  let '(d', tbl) := get_freqs d in (d', aget_d s 0%Q tbl).

Fixpoint union_rootings (a b : list bool) : list bool :=
  match b with [] => a | x :: r => union_rootings (add_rooting x a) r end.

(* update(split_dist): note that _split_freqs is not reset here *)
Definition update_step (o : sd)
           (acc : list (Z * Q) * list (Z * list (option Q)) * list (Z * list (option Q))) (kv : Z * Q) :=
  let '(cnt, el, ag) := acc in
  let s := fst kv in
  (aupd s 0%Q (fun x => qplus x (snd kv)) cnt,
   aupd s [] (fun l => l ++ aget_d s [] (elens o)) el,
   aupd s [] (fun l => l ++ aget_d s [] (nages o)) ag).

Definition update (d o : sd) : sd :=
  let '(cnt, el, ag) := fold_left (update_step o) (counts o) (counts d, elens d, nages d) in
  mkSd (total d + total o) (qplus (sum_w d) (sum_w o)) (union_rootings (rootings d) (rootings o))
       cnt el ag (freqs d) (counted_for_freqs d).

Definition is_all_rooted (d : sd) : bool :=
  existsb (Bool.eqb true) (rootings d) && (Z.of_nat (length (rootings d)) =? 1).
Definition is_all_strictly_unrooted (d : sd) : bool :=
  existsb (Bool.eqb false) (rootings d) && (Z.of_nat (length (rootings d)) =? 1).
Definition is_all_treated_as_unrooted (d : sd) : bool :=
  negb (existsb (Bool.eqb true) (rootings d)).

(* ------------------------------------------------------------------------- *)
(* statistics kernel (calculate/statistics.py) *)

(* _mean_and_variance_pop_n: one pass accumulating n, s, ss *)
Fixpoint acc_n_s_ss (xs : list Q) (n : Z) (s ss : Q) : Z * Q * Q :=
  match xs with
  | [] => (n, s, ss)
  | v :: r => acc_n_s_ss r (n + 1) (qplus s v) (qplus ss (qmult v v))
  end.

Definition mean_and_variance_pop_n (xs : list Q) : res (Q * Q * Z) :=
  let '(n, s, ss) := acc_n_s_ss xs 0 0%Q 0%Q in
  if n =? 0 then Err IndexErr
  else let mean := qdiv s (qZ n) in
       let var := qdiv (qminus ss (qmult mean s)) (qZ n) in
       Ok (mean, var, n).

(* mean_and_sample_variance: None stands for float('inf') (n = 1) *)
Definition mean_and_sample_variance (xs : list Q) : res (Q * option Q) :=
  match mean_and_variance_pop_n xs with
  | Ok (mean, pop_var, n) =>
    if n =? 1 then Ok (mean, None)
    else Ok (mean, Some (qdiv (qmult (qZ n) pop_var) (qZ (n - 1))))
  | Err e => Err e
  | OutOfFuel => OutOfFuel
  end.

Definition qsorted (xs : list Q) : list Q := sort_by Qle_bool xs.

(* median: sorted copy, middle element or mean of the two middle elements *)
Definition median (xs : list Q) : res Q :=
  let copy := qsorted xs in
  let size := Z.of_nat (length copy) in
  if size =? 0 then Err IndexErr
  else if size mod 2 =? 1 then Ok (nth (Z.to_nat ((size - 1) / 2)) copy 0%Q)
  else Ok (qdiv (qplus (nth (Z.to_nat (size / 2 - 1)) copy 0%Q) (nth (Z.to_nat (size / 2)) copy 0%Q)) 2).

Definition qmin_list (x : Q) (xs : list Q) : Q := fold_left (fun m v => if qlt_bool v m then v else m) xs x.
Definition qmax_list (x : Q) (xs : list Q) : Q := fold_left (fun m v => if qlt_bool m v then v else m) xs x.

Record summary := mkSum {
  s_mean : Q;
  s_var : option Q;     (* sample variance; None = inf (one value) ; sd = var ** 0.5 is outside Q *)
  s_median : Q;
  s_min : Q;
  s_max : Q
}.

(* statistics.summarize restricted to the fields the property names
   (hpd95 and quant_5_95 are not modelled) *)
Definition summarize (xs : list Q) : res summary :=
  match xs with
  | [] => Err ValueErr
  | x :: r =>
    match mean_and_sample_variance xs, median xs with
    | Ok (m, v), Ok md => Ok (mkSum m v md (qmin_list x r) (qmax_list x r))
    | Err e, _ => Err e
    | _, Err e => Err e
    | _, _ => OutOfFuel
    end
  end.

Fixpoint all_some (l : list (option Q)) : option (list Q) :=
  match l with
  | [] => Some []
  | None :: _ => None
  | Some x :: r => match all_some r with Some xs => Some (x :: xs) | None => None end
  end.

(* calc_split_edge_length_summaries / calc_split_node_age_summaries:
   empty lists are skipped; a list containing None makes min() raise TypeError, which is
   swallowed: no entry *)
Fixpoint calc_summaries (tbl : list (Z * list (option Q))) : list (Z * summary) :=
  match tbl with
  | [] => []
  | (s, l) :: r =>
    match l with
    | [] => calc_summaries r
    | _ => match all_some l with
           | Some xs => match summarize xs with
                        | Ok sm => (s, sm) :: calc_summaries r
                        | _ => calc_summaries r
                        end
           | None => calc_summaries r
           end
    end
  end.

(* ------------------------------------------------------------------------- *)
(* Tree.from_split_bitmasks *)

(* the filter and de-normalisation loop in front of the insertion loop *)
Definition fsb_nontrivial (all m : Z) : bool :=
  negb (m =? all) && negb (Z.land (m - 1) m =? 0).

Definition fsb_denorm (all : Z) (rooted : bool) (s : Z) : Z :=
  let m := Z.land s all in
  if rooted then m
  else if negb (Z.land 1 m =? 0) then Z.land (Z.lnot m) all else m.

Definition fsb_prepare (all : Z) (rooted : bool) (ss : list Z) : list Z :=
  flat_map (fun s => if fsb_nontrivial all (Z.land s all) then [fsb_denorm all rooted s] else []) ss.

Definition compat (all a b : Z) : bool := py_is_compatible_bitmasks a b all.

Definition zmem (x : Z) (l : list Z) : bool := existsb (Z.eqb x) l.

(* a leaf of the star tree (can arise when a rooted clade of n-1 taxa containing the first
   taxon is complemented for an unrooted reconstruction): "already in tree" *)
Definition is_single (c : Z) : bool := Z.land (c - 1) c =? 0.

(* set level: a split is accepted iff it is new and compatible with everything accepted before *)
Fixpoint greedy (all : Z) (acc : list Z) (cands : list Z) : list Z :=
  match cands with
  | [] => acc
  | c :: r =>
    if is_single c || zmem c acc then greedy all acc r
    else if forallb (compat all c) acc then greedy all (acc ++ [c]) r
    else greedy all acc r
  end.

(* tree level: the insertion as coded *)
Inductive ctree := CT (mask : Z) (kids : list ctree).
Definition ct_mask (t : ctree) : Z := match t with CT m _ => m end.
Definition ct_kids (t : ctree) : list ctree := match t with CT _ k => k end.

Definition contains (m s : Z) : bool := Z.land s m =? s.

Fixpoint ct_insert (s : Z) (t : ctree) : ctree :=
  match t with
  | CT m kids =>
    if existsb (fun k => contains (ct_mask k) s) kids then
      CT m (map (fun k => if contains (ct_mask k) s then ct_insert s k else k) kids)
    else if m =? s then t
    else
      let inside := filter (fun k => negb (Z.land (ct_mask k) s =? 0)) kids in
      let new_mask := fold_left Z.lor (map ct_mask inside) 0 in
      if new_mask =? s
      then CT m (filter (fun k => Z.land (ct_mask k) s =? 0) kids ++ [CT s inside])
      else t
  end.

Definition ct_add (t : ctree) (s : Z) : ctree :=
  if negb (contains (ct_mask t) s) then t else ct_insert s t.

(* star tree over the namespace: one leaf per taxon bit, in namespace order *)
(* the root edge's leafset bitmask is what encode_bipartitions computes on the star: the OR of
   the leaves (equal to all_taxa_bitmask() unless the namespace has vacated bits) *)
Definition ct_star (all : Z) (bits : list Z) : ctree :=
  CT (fold_left Z.lor bits 0) (map (fun b => CT b []) bits).

Fixpoint ct_clades (t : ctree) : list Z :=
  match t with
  | CT m kids => match kids with [] => [] | _ => m :: flat_map ct_clades kids end
  end.

Fixpoint ct_leaves (t : ctree) : list Z :=
  match t with
  | CT m kids => match kids with [] => [m] | _ => flat_map ct_leaves kids end
  end.

Definition fsb_tree (all : Z) (bits : list Z) (rooted : bool) (ss : list Z) : ctree :=
  fold_left ct_add (fsb_prepare all rooted ss) (ct_star all bits).

(* ------------------------------------------------------------------------- *)
(* consensus_tree: selection of the splits *)

Definition almost_one (x : Q) : bool := Qle_bool (Qabs (x - 1)) almost_one_tol.

Definition passes (min_freq : option Q) (f : Q) : bool :=
  match min_freq with
  | None => true
  | Some m => (if threshold_test_is_ge then Qle_bool m f else qlt_bool m f)
              || (almost_one m && almost_one f)
  end.

(* tuple comparison (freq, split): a >= b *)
Definition pair_geb (a b : Q * Z) : bool :=
  qlt_bool (fst b) (fst a) || (Qeq_bool (fst a) (fst b) && (snd b <=? snd a)).
Definition pair_leb (a b : Q * Z) : bool := pair_geb b a.

Definition consensus_order (l : list (Q * Z)) : list (Q * Z) :=
  if consensus_sort_descending then sort_by pair_geb l else sort_by pair_leb l.

Definition candidates (min_freq : option Q) (tbl : list (Z * Q)) : list (Q * Z) :=
  consensus_order (map (fun kv => (snd kv, fst kv)) (filter (fun kv => passes min_freq (snd kv)) tbl)).

Definition resolve_rooting (d : sd) (is_rooted : option bool) : option bool :=
  match is_rooted with
  | Some b => Some b
  | None => if is_all_rooted d then Some true
            else if is_all_strictly_unrooted d then Some false else None
  end.

Definition truthy (r : option bool) : bool := match r with Some true => true | _ => false end.

(* returns: new state, the ordered candidate splits, the accepted clade masks (set level),
   the tree (tree level), the rooting given to the tree *)
Definition consensus (d : sd) (all : Z) (bits : list Z) (min_freq : option Q) (is_rooted : option bool)
  : sd * (list (Q * Z) * list Z * ctree * option bool) :=
  let r := resolve_rooting d is_rooted in
  let '(d', tbl) := get_freqs d in
  let cands := candidates min_freq tbl in
  let ss := map snd cands in
  (d', (cands, greedy all [] (fsb_prepare all (truthy r) ss), fsb_tree all bits (truthy r) ss, r)).

(* ------------------------------------------------------------------------- *)
(* summarize_splits_on_tree *)

(* target tree: per node the split bitmask of its edge (as encoded by the library), the
   current edge length, children *)
Inductive stree := SN (split : Z) (len : option Q) (kids : list stree).
Definition sn_split (t : stree) := match t with SN s _ _ => s end.
Definition sn_len (t : stree) := match t with SN _ l _ => l end.
Definition sn_kids (t : stree) := match t with SN _ _ k => k end.

Inductive elmode := ELNone | ELKeep | ELSupport | ELClear | ELMeanLen | ELMedianLen | ELMeanAge | ELMedianAge.

Record sopts := mkOpts {
  o_mode : elmode;                 (* set_edge_lengths *)
  o_percent : bool;                (* support_as_percentages *)
  o_min_len : option Q;            (* minimum_edge_length *)
  o_err_neg : bool                 (* error_on_negative_edge_lengths *)
}.

(* (mean, median, variance (None = inf), range) as decorated; no-data values 0,0,0,[] *)
Definition sfields := (Q * Q * option Q * option (Q * Q))%type.

Definition fields_of (tbl : list (Z * summary)) (s : Z) : sfields :=
  match aget s tbl with
  | Some sm => (s_mean sm, s_median sm, s_var sm, Some (s_min sm, s_max sm))
  | None => (0%Q, 0%Q, Some 0%Q, None)
  end.

Record node_out := mkOut {
  n_split : Z;
  n_support : Q;                   (* node.support (after the percentage scaling) *)
  n_len : option Q;                (* edge.length after the call *)
  n_lenf : option sfields;         (* length_mean, length_median, length_sd^2, length_range; None: not set *)
  n_agef : option sfields;         (* age_* likewise *)
  n_age : option Q                 (* node.age as assigned by the age modes *)
}.

Definition clamp_min (mn : option Q) (x : Q) : Q :=
  match mn with Some m => if qlt_bool x m then m else x | None => x end.

Section Summ.
  Variable ftbl : list (Z * Q).
  Variable lsum asum : list (Z * summary).
  Variable o : sopts.

  Definition support_of (s : Z) : Q :=
    let f := aget_d s 0%Q ftbl in if o_percent o then qmult f 100 else f.

  Definition assigned_age (s : Z) : option Q :=
    match o_mode o with
    | ELMeanAge => Some (match aget s asum with Some sm => s_mean sm | None => 0%Q end)
    | ELMedianAge => Some (match aget s asum with Some sm => s_median sm | None => 0%Q end)
    | _ => None
    end.

  (* edge length of a node after both loops; parent_age = None for the seed node *)
  Definition new_len (parent_age : option Q) (s : Z) (cur : option Q) : res (option Q) :=
    match o_mode o with
    | ELNone | ELKeep => Ok cur
    | ELClear => Ok None
    | ELSupport => Ok (Some (clamp_min (o_min_len o) (support_of s)))
    | ELMeanLen =>
      Ok (Some (clamp_min (o_min_len o) (match aget s lsum with Some sm => s_mean sm | None => 0%Q end)))
    | ELMedianLen =>
      Ok (Some (clamp_min (o_min_len o) (match aget s lsum with Some sm => s_median sm | None => 0%Q end)))
    | ELMeanAge | ELMedianAge =>
      match parent_age, assigned_age s with
      | Some pa, Some a =>
        let el := clamp_min (o_min_len o) (qminus pa a) in
        if o_err_neg o && qlt_bool el 0 then Err ValueErr else Ok (Some el)
      | _, _ => Ok cur
      end
    end.

  Fixpoint summ_nodes (parent_age : option Q) (t : stree) : list (res node_out) :=
    match t with
    | SN s cur kids =>
      let me :=
          match new_len parent_age s cur with
          | Ok l => Ok (mkOut s (support_of s) l
                              (match lsum with [] => None | _ => Some (fields_of lsum s) end)
                              (match asum with [] => None | _ => Some (fields_of asum s) end)
                              (assigned_age s))
          | Err e => Err e
          | OutOfFuel => OutOfFuel
          end in
      me :: flat_map (summ_nodes (assigned_age s)) kids
    end.
End Summ.

Fixpoint sequence {A} (l : list (res A)) : res (list A) :=
  match l with
  | [] => Ok []
  | Ok x :: r => match sequence r with Ok xs => Ok (x :: xs) | Err e => Err e | OutOfFuel => OutOfFuel end
  | Err e :: _ => Err e
  | OutOfFuel :: _ => OutOfFuel
  end.

Definition is_age_mode (m : elmode) : bool := match m with ELMeanAge | ELMedianAge => true | _ => false end.
Definition is_len_mode (m : elmode) : bool := match m with ELMeanLen | ELMedianLen => true | _ => false end.

(* SplitDistributionSummarizer.summarize_splits_on_tree (default attribute/annotation flags) *)
Definition summarize_tree (d : sd) (o : sopts) (t : stree) : sd * res (list node_out) :=
  let asum := calc_summaries (nages d) in
  let lsum := calc_summaries (elens d) in
  let '(d', ftbl) := get_freqs d in
  (d',
   match asum, is_age_mode (o_mode o) with
   | [], true => Err ValueErr                 (* "Node ages not available" *)
   | _, _ =>
     match lsum, is_len_mode (o_mode o) with
     | [], true => Err ValueErr               (* "Edge lengths not available" *)
     | _, _ => sequence (summ_nodes ftbl lsum asum o None t)
     end
   end).

(* ------------------------------------------------------------------------- *)
(* collapse_edges_with_less_than_minimum_support *)

Definition low_support (ftbl : list (Z * Q)) (min_freq : Q) (s : Z) : bool :=
  match aget s ftbl with
  | None => true
  | Some f => if collapse_test_is_lt then qlt_bool f min_freq else Qle_bool f min_freq
  end.

(* Edge.collapse(adjust_collapsed_head_children_edge_lengths=True): the children take the place
   of the node; child.length += self.length (None counts as "take self.length") *)
Definition lift_child (l : option Q) (k : stree) : stree :=
  match k with
  | SN s kl kk =>
    SN s (match l with
          | None => kl
          | Some x => match kl with None => Some x | Some y => Some (qplus y x) end
          end) kk
  end.

Section Collapse.
  Variable ftbl : list (Z * Q).
  Variable min_freq : Q.

  (* processes the subtree below a node; returns the list that replaces the node in its
     parent's child list *)
  Fixpoint collapse_below (t : stree) : res (list stree) :=
    match t with
    | SN s l kids =>
      let go := fix go (ks : list stree) : res (list stree) :=
                  match ks with
                  | [] => Ok []
                  | k :: r => match collapse_below k, go r with
                              | Ok a, Ok b => Ok (a ++ b)
                              | Err e, _ => Err e
                              | _, Err e => Err e
                              | _, _ => OutOfFuel
                              end
                  end in
      match go kids with
      | Ok kids' =>
        if low_support ftbl min_freq s then
          match kids with
          | [] => Err ValueErr               (* "collapse_self called with a terminal." *)
          | _ => Ok (map (lift_child l) kids')
          end
        else Ok [SN s l kids']
      | Err e => Err e
      | OutOfFuel => OutOfFuel
      end
    end.

  (* the seed node has no parent: Edge.collapse returns without doing anything *)
  Definition collapse_root (t : stree) : res stree :=
    match t with
    | SN s l kids =>
      let go := fix go (ks : list stree) : res (list stree) :=
                  match ks with
                  | [] => Ok []
                  | k :: r => match collapse_below k, go r with
                              | Ok a, Ok b => Ok (a ++ b)
                              | Err e, _ => Err e
                              | _, Err e => Err e
                              | _, _ => OutOfFuel
                              end
                  end in
      match go kids with
      | Ok kids' => Ok (SN s l kids')
      | Err e => Err e
      | OutOfFuel => OutOfFuel
      end
    end.
End Collapse.

Definition collapse_tree (d : sd) (tree_rooting : option bool) (min_freq : Q) (t : stree)
  : sd * res stree :=
  if negb (truthy tree_rooting) && is_all_rooted d then (d, Err ValueErr)
  else if truthy tree_rooting && is_all_treated_as_unrooted d then (d, Err ValueErr)
  else let '(d', ftbl) := get_freqs d in (d', collapse_root ftbl min_freq t).

(* ------------------------------------------------------------------------- *)
(* TreeArray *)

Record ta := mkTa {
  ta_rooting : option bool;                (* _is_rooted_trees *)
  ta_splits : list (list Z);               (* _tree_split_bitmasks *)
  ta_elens : list (list (option Q));       (* _tree_edge_lengths *)
  ta_leafsets : list Z;                    (* _tree_leafset_bitmasks *)
  ta_weights : list Q;                     (* _tree_weights *)
  ta_sd : sd                               (* _split_distribution *)
}.

Definition ta_empty (r : option bool) : ta := mkTa r [] [] [] [] sd_empty.

(* TreeArray.__init__ builds its SplitDistribution WITHOUT forwarding use_tree_weights
   (so the distribution keeps the default True).  `forwards` says whether the working tree
   forwards the flag (Gen-independent parameter; the harness passes what it observes). *)
Definition ta_sd_cfg (forwards : bool) (c : config) : config :=
  mkCfg (ignore_len c) (ignore_ages c) (if forwards then use_w c else true) (Some 0%Q).

Definition orooting_eqb (a b : option bool) : bool := option_eqb Bool.eqb a b.

(* add_tree (index=None) *)
Definition ta_add_tree (forwards : bool) (c : config) (a : ta) (t : tree_in) : res ta :=
  (* rooting = tree.is_rooted; None -> False when the working tree does so (Gen/Consts) *)
  let tr := match t_rooting t with
            | None => if treearray_none_rooting_is_unrooted then Some false else None
            | x => x
            end in
  (* validate_rooting *)
  let r := match ta_rooting a with
           | None => Ok tr
           | Some b => if orooting_eqb (Some b) tr then Ok (Some b) else Err ValueErr
           end in
  match r with
  | Ok r' =>
    let '(d', (splits, el, _)) := count_tree (ta_sd_cfg forwards c) (ta_sd a) t in
    let el' := if ignore_len c then map (fun _ => None) splits else el in
    let w := weight_to_use c t in
    Ok (mkTa r' (ta_splits a ++ [splits]) (ta_elens a ++ [el']) (ta_leafsets a ++ [t_leafset t])
             (ta_weights a ++ [w]) d')
  | Err e => Err e
  | OutOfFuel => OutOfFuel
  end.

(* TreeArray.update(other) for arrays built with the same configuration *)
Definition ta_update (a o : ta) : res ta :=
  match ta_splits o with
  | [] => Ok a
  | _ =>
    match ta_splits a with
    | [] => Ok (mkTa (ta_rooting o) (ta_splits o) (ta_elens o) (ta_leafsets o) (ta_weights o)
                     (update (ta_sd a) (ta_sd o)))
    | _ => if orooting_eqb (ta_rooting a) (ta_rooting o)
           then Ok (mkTa (ta_rooting a) (ta_splits a ++ ta_splits o) (ta_elens a ++ ta_elens o)
                         (ta_leafsets a ++ ta_leafsets o) (ta_weights a ++ ta_weights o)
                         (update (ta_sd a) (ta_sd o)))
           else Err OtherErr
    end
  end.

Definition score_counts (include_external : bool) (leafset s : Z) : bool :=
  include_external || (s =? leafset) || negb (py_is_trivial_bitmask s leafset).

(* calculate_sum_of_split_supports: per-tree score *)
Definition sum_score (ftbl : list (Z * Q)) (ext : bool) (leafset : Z) (ss : list Z) : Q :=
  fold_left (fun acc s => if score_counts ext leafset s then qplus acc (aget_d s 0%Q ftbl) else acc) ss 0%Q.

(* calculate_log_product_of_split_supports: the exponential of the per-tree score, i.e. the
   product of the non-zero supports (rounding boundary: the code adds math.log of floats) *)
Definition prod_score (ftbl : list (Z * Q)) (ext : bool) (leafset : Z) (ss : list Z) : Q :=
  fold_left (fun acc s => if score_counts ext leafset s
                          then let f := aget_d s 0%Q ftbl in if Qeq_bool f 0 then acc else qmult acc f
                          else acc) ss 1%Q.

(* the arg-max loop: `if max_score is None or max_score < score` *)
Fixpoint argmax_from (scores : list Q) (i : nat) (best : option (Q * nat)) : option (Q * nat) :=
  match scores with
  | [] => best
  | x :: r =>
    argmax_from r (S i) (match best with
                         | None => Some (x, i)
                         | Some (m, j) => if qlt_bool m x then Some (x, i) else Some (m, j)
                         end)
  end.

Definition argmax_first (scores : list Q) : option nat :=
  match argmax_from scores O None with Some (_, i) => Some i | None => None end.

Fixpoint zip {A B} (a : list A) (b : list B) : list (A * B) :=
  match a, b with x :: r, y :: s => (x, y) :: zip r s | _, _ => [] end.

Definition ta_scores (product : bool) (a : ta) (ext : bool) : ta * (list Q * option nat) :=
  let '(d', ftbl) := get_freqs (ta_sd a) in
  let sc := map (fun ls => (if product then prod_score else sum_score) ftbl ext (fst ls) (snd ls))
                (zip (ta_leafsets a) (ta_splits a)) in
  (mkTa (ta_rooting a) (ta_splits a) (ta_elens a) (ta_leafsets a) (ta_weights a) d',
   (sc, argmax_first sc)).

(* restore_tree(index): from_split_bitmasks on the stored splits *)
Definition ta_restore (a : ta) (all : Z) (i : nat) : list Z :=
  greedy all [] (fsb_prepare all (truthy (ta_rooting a)) (nth i (ta_splits a) [])).

(* ------------------------------------------------------------------------- *)
(* the world of the correspondence check: one TreeArray (whose distribution is also the
   stand-alone SplitDistribution of the `sd` path) *)

Inductive path := PathSD | PathTA.

Inductive op :=
| OCount (i : nat) (w : option Q)                   (* count pool tree i with tree.weight = w *)
| OUpdate (l : list (nat * option Q))               (* update from a fresh collection built from these *)
| OQuery (s : Z)                                    (* sd[s] *)
| OCalc                                             (* sd.calc_freqs() *)
| OFreqs                                            (* sd.split_frequencies *)
| OConsensus (min_freq : option (option Q))         (* None: default argument; Some None: min_freq=None *)
| OSummarize (tgt : nat) (o : sopts)                (* on a copy of pool tree tgt *)
| OCollapse (tgt : nat) (min_freq : option Q)       (* None: default argument *)
| OScores (product ext : bool) (restore_at : option nat)   (* restore the tree at the index the library chose
                                                               (binary64 near-ties may differ from the exact arg-max) *)
| OLenSummaries                                     (* sd.split_edge_length_summaries *)
| OAddSplitCount (s : Z) (x : Q).

Inductive out :=
| UUnit
| UErr (e : err)
| UQ (q : Q)
| UTable (t : list (Z * Q))
| UConsensus (clades : list Z) (rooting : option bool)
| UNodes (l : list node_out)
| UTree (t : stree)
| UScores (sc : list Q) (idx : option nat) (restored : list Z)
| USummaries (l : list (Z * summary)).

Record world := mkWorld {
  w_ta : ta
}.

Record env := mkEnv {
  e_path : path;
  e_cfg : config;
  e_forwards : bool;                 (* does TreeArray forward use_tree_weights (observed) *)
  e_all : Z;                         (* taxon_namespace.all_taxa_bitmask() *)
  e_bits : list Z;                   (* taxon bitmasks in namespace order *)
  e_pool : list tree_in;             (* distinct input trees (records as encoded by the library) *)
  e_targets : list (stree * option bool)   (* the same trees as summarisation / collapse targets *)
}.

Definition with_sd (a : ta) (d : sd) : ta :=
  mkTa (ta_rooting a) (ta_splits a) (ta_elens a) (ta_leafsets a) (ta_weights a) d.

Definition pool_tree (e : env) (i : nat) (w : option Q) : option tree_in :=
  match nth_error (e_pool e) i with
  | Some t => Some (mkTree (t_recs t) w (t_rooting t) (t_leafset t))
  | None => None
  end.

Definition sd_cfg (e : env) : config :=
  match e_path e with PathSD => e_cfg e | PathTA => ta_sd_cfg (e_forwards e) (e_cfg e) end.

Fixpoint add_all (e : env) (a : ta) (l : list (nat * option Q)) : res ta :=
  match l with
  | [] => Ok a
  | (i, w) :: r =>
    match pool_tree e i w with
    | None => Err IndexErr
    | Some t =>
      match e_path e with
      | PathSD => add_all e (with_sd a (fst (count_tree (e_cfg e) (ta_sd a) t))) r
      | PathTA => match ta_add_tree (e_forwards e) (e_cfg e) a t with
                  | Ok a' => add_all e a' r
                  | Err x => Err x
                  | OutOfFuel => OutOfFuel
                  end
      end
    end
  end.

Definition nontrivial_norm (all : Z) (rooted : bool) (m : Z) : option Z :=
  if rooted then (if fsb_nontrivial all m then Some m else None)
  else if py_is_trivial_bitmask m all then None
       else Some (py_normalize_bitmask m all 1).

Fixpoint filter_map {A B} (f : A -> option B) (l : list A) : list B :=
  match l with [] => [] | x :: r => match f x with Some y => y :: filter_map f r | None => filter_map f r end end.

Definition zsort (l : list Z) : list Z := sort_by Z.leb l.

Fixpoint dedup_sorted (l : list Z) : list Z :=
  match l with
  | [] => []
  | x :: r => match r with
              | [] => [x]
              | y :: _ => if Z.eqb x y then dedup_sorted r else x :: dedup_sorted r
              end
  end.

Fixpoint nodupb (l : list Z) : bool :=
  match l with [] => true | x :: r => negb (zmem x r) && nodupb r end.

(* hypotheses of consensus_tree_clades: one distinct positive single bit per taxon, at least two
   taxa, all_taxa_bitmask = OR of the bits (fails for namespaces with vacated bits) *)
Definition ns_okb (all : Z) (bits : list Z) : bool :=
  forallb (fun b => (0 <? b) && is_single b) bits && nodupb bits
  && (2 <=? Z.of_nat (length bits)) && (fold_left Z.lor bits 0 =? all).

Definition step (e : env) (w : world) (o : op) : world * out :=
  let a := w_ta w in
  let d := ta_sd a in
  match o with
  | OCount i wt =>
    match add_all e a [(i, wt)] with
    | Ok a' => (mkWorld a', UUnit)
    | Err x => (w, UErr x)
    | OutOfFuel => (w, UErr Hang)
    end
  | OUpdate l =>
    match add_all e (ta_empty None) l with
    | Ok other =>
      match e_path e with
      | PathSD => (mkWorld (with_sd a (update d (ta_sd other))), UUnit)
      | PathTA => match ta_update a other with
                  | Ok a' => (mkWorld a', UUnit)
                  | Err x => (w, UErr x)
                  | OutOfFuel => (w, UErr Hang)
                  end
      end
    | Err x => (w, UErr x)
    | OutOfFuel => (w, UErr Hang)
    end
  | OQuery s => let '(d', q) := query d s in (mkWorld (with_sd a d'), UQ q)
  | OCalc => let '(d', t) := calc_freqs d in (mkWorld (with_sd a d'), UTable t)
  | OFreqs => let '(d', t) := get_freqs d in (mkWorld (with_sd a d'), UTable t)
  | OConsensus mf =>
    let mf' := match mf with None => Some default_min_freq | Some x => x end in
    let rarg := match e_path e with PathSD => None | PathTA => ta_rooting a end in
    let '(d', (_, acc, tr, r)) := consensus d (e_all e) (e_bits e) mf' rarg in
    let rooted := truthy r in
    let real := fold_left Z.lor (e_bits e) 0 in
    (* the answer is read off the tree the coded insertion builds; on a namespace without
       vacated bits the set-level selection must give the same clades (consensus_tree_clades),
       otherwise report garbage *)
    let cl_tree := filter (fun m => negb (m =? ct_mask tr)) (ct_clades tr) in
    if (negb (ns_okb (e_all e) (e_bits e)) || list_eqb Z.eqb (zsort acc) (zsort cl_tree))
       && list_eqb Z.eqb (zsort (ct_leaves tr)) (zsort (e_bits e))
    then (mkWorld (with_sd a d'),
          UConsensus (dedup_sorted (zsort (filter_map (nontrivial_norm real rooted) cl_tree))) r)
    else (mkWorld (with_sd a d'), UErr OtherErr)
  | OSummarize tgt so =>
    match nth_error (e_targets e) tgt with
    | Some (t, _) => let '(d', r) := summarize_tree d so t in
                     (mkWorld (with_sd a d'),
                      match r with Ok l => UNodes l | Err x => UErr x | OutOfFuel => UErr Hang end)
    | None => (w, UErr IndexErr)
    end
  | OCollapse tgt mf =>
    match nth_error (e_targets e) tgt with
    | Some (t, rt) =>
      let mf' := match mf with None => default_min_freq | Some x => x end in
      let '(d', r) := collapse_tree d rt mf' t in
      (mkWorld (with_sd a d'),
       match r with Ok t' => UTree t' | Err x => UErr x | OutOfFuel => UErr Hang end)
    | None => (w, UErr IndexErr)
    end
  | OScores product ext restore_at =>
    let '(a', (sc, idx)) := ta_scores product a ext in
    (mkWorld a',
     UScores sc idx
             (match (match restore_at with Some i => Some i | None => idx end) with
              | Some i => zsort (filter_map (nontrivial_norm (fold_left Z.lor (e_bits e) 0) (truthy (ta_rooting a))) (ta_restore a (e_all e) i))
              | None => []
              end))
  | OLenSummaries => (w, USummaries (calc_summaries (elens d)))
  | OAddSplitCount s x => (mkWorld (with_sd a (add_split_count d s x)), UUnit)
  end.

(* what the harness reads after every step without touching the caches *)
Record snapshot := mkSnap {
  sn_total : Z;
  sn_sum_w : Q;
  sn_counts : list (Z * Q);                    (* in dict order *)
  sn_cache : option (list (Z * Q));            (* _split_freqs as is *)
  sn_counted_for : Z;
  sn_rootings : list bool;                     (* sorted *)
  sn_ta_rooting : option bool;
  sn_ntrees : Z
}.

Definition snap (w : world) : snapshot :=
  let a := w_ta w in
  let d := ta_sd a in
  mkSnap (total d) (sum_w d) (counts d) (freqs d) (counted_for_freqs d)
         (sort_by implb (rootings d)) (ta_rooting a) (Z.of_nat (length (ta_splits a))).

Fixpoint run (e : env) (w : world) (ops : list op) : list (out * snapshot) :=
  match ops with
  | [] => []
  | o :: r => let '(w', x) := step e w o in (x, snap w') :: run e w' r
  end.

(* ------------------------------------------------------------------------- *)
(* comparison with the implementation's observation.
   Exact where binary64 is exact on the generated inputs (dyadic weights: counts, sums),
   tolerance where the code divides (frequencies 1e-12; means, variances, scaled supports 1e-9). *)

Definition tol12 : Q := (1 # 1000000000000)%Q.
Definition tol9 : Q := (1 # 1000000000)%Q.

Definition q_close (t a b : Q) : bool := Qle_bool (Qabs (a - b)) t.
Definition q_close_rel (t a b : Q) : bool := Qle_bool (Qabs (a - b)) (t * (1 + Qabs a))%Q.
Definition oq_close (t : Q) (a b : option Q) : bool := option_eqb (q_close_rel t) a b.

Definition table_close (t : Q) (a b : list (Z * Q)) : bool :=
  list_eqb (fun x y => Z.eqb (fst x) (fst y) && q_close t (snd x) (snd y)) a b.
Definition table_eq (a b : list (Z * Q)) : bool :=
  list_eqb (fun x y => Z.eqb (fst x) (fst y) && Qeq_bool (snd x) (snd y)) a b.

(* observed sd field = sd (float); model field = variance: compare sd^2 *)
Definition sfields_close (m ob : sfields) : bool :=
  let '(mm, mmd, mv, mr) := m in
  let '(om, omd, osd, or) := ob in
  q_close_rel tol9 mm om && q_close_rel tol9 mmd omd
  && match mv, osd with
     | None, None => true
     | Some v, Some s => q_close_rel tol9 v (s * s)%Q
     | _, _ => false
     end
  && option_eqb (fun x y => Qeq_bool (fst x) (fst y) && Qeq_bool (snd x) (snd y)) mr or.

Definition node_close (m ob : node_out) : bool :=
  Z.eqb (n_split m) (n_split ob)
  && q_close_rel tol9 (n_support m) (n_support ob)
  && oq_close tol9 (n_len m) (n_len ob)
  && option_eqb sfields_close (n_lenf m) (n_lenf ob)
  && option_eqb sfields_close (n_agef m) (n_agef ob)
  && oq_close tol9 (n_age m) (n_age ob).

Fixpoint stree_close (a b : stree) : bool :=
  match a, b with
  | SN s l ks, SN s' l' ks' =>
    Z.eqb s s' && oq_close tol9 l l' &&
    (fix go (p q : list stree) : bool :=
       match p, q with
       | [], [] => true
       | x :: r1, y :: r2 => stree_close x y && go r1 r2
       | _, _ => false
       end) ks ks'
  end.

Definition obool_eqb := option_eqb Bool.eqb.
Definition onat_eqb := option_eqb Nat.eqb.

Definition summary_close (m ob : summary) : bool :=
  sfields_close (s_mean m, s_median m, s_var m, Some (s_min m, s_max m))
                (s_mean ob, s_median ob, s_var ob, Some (s_min ob, s_max ob)).

(* scores: sum compared absolutely; product: the harness passes exp(score) *)
Definition out_close (m ob : out) : bool :=
  match m, ob with
  | UUnit, UUnit => true
  | UErr a, UErr b => err_eqb a b
  | UQ a, UQ b => q_close tol12 a b
  | UTable a, UTable b => table_close tol12 a b
  | UConsensus c r, UConsensus c' r' => list_eqb Z.eqb c c' && obool_eqb r r'
  | UNodes a, UNodes b => list_eqb node_close a b
  | UTree a, UTree b => stree_close a b
  | UScores sc i rs, UScores sc' i' rs' =>
    list_eqb (q_close_rel tol9) sc sc'
    (* the index the collection returns is the first arg-max of the scores IT reports *)
    && onat_eqb (argmax_first sc') i'
    (* and, unless rounding separates exact ties, also of the exact scores *)
    && (onat_eqb i i' || match i, i' with
                         | Some x, Some y => q_close_rel tol9 (nth x sc 0%Q) (nth y sc 0%Q)
                         | _, _ => false
                         end)
    && list_eqb Z.eqb rs rs'
  | USummaries a, USummaries b =>
    list_eqb (fun x y => Z.eqb (fst x) (fst y) && summary_close (snd x) (snd y)) a b
  | _, _ => false
  end.

Definition snap_eqb (m ob : snapshot) : bool :=
  Z.eqb (sn_total m) (sn_total ob)
  && Qeq_bool (sn_sum_w m) (sn_sum_w ob)
  && table_eq (sn_counts m) (sn_counts ob)
  && option_eqb (table_close tol12) (sn_cache m) (sn_cache ob)
  && Z.eqb (sn_counted_for m) (sn_counted_for ob)
  && list_eqb Bool.eqb (sn_rootings m) (sn_rootings ob)
  && obool_eqb (sn_ta_rooting m) (sn_ta_rooting ob)
  && Z.eqb (sn_ntrees m) (sn_ntrees ob).

Definition step_close (m ob : out * snapshot) : bool :=
  out_close (fst m) (fst ob) && snap_eqb (snd m) (snd ob).

(* hypothesis of the consensus theorems, checked on every input the library encoded:
   the de-normalised clade masks of one tree are pairwise compatible and occur once *)
Definition tree_compatible (all : Z) (rooted : bool) (t : tree_in) : bool :=
  let ms := map (fun r => fsb_denorm all rooted (r_split r)) (t_recs t) in
  forallb (fun a => forallb (fun b => compat all a b) ms) ms.

Definition tree_nodup (t : tree_in) : bool := nodupb (map r_split (t_recs t)).

Record case := mkCase {
  c_env : env;
  c_init_rooting : option bool;         (* is_rooted_trees given to the TreeArray constructor *)
  c_ops : list op;
  c_expected : list (out * snapshot)
}.

Definition case_run (c : case) : list (out * snapshot) :=
  run (c_env c) (mkWorld (ta_empty (c_init_rooting c))) (c_ops c).

Definition case_hyps (c : case) : bool :=
  forallb (fun t => tree_nodup t
                    && tree_compatible (e_all (c_env c)) (truthy (t_rooting t)) t)
          (e_pool (c_env c)).

Definition case_ok (c : case) : bool :=
  case_hyps c && list_eqb step_close (case_run c) (c_expected c).
