(* Run-time library of the translator py/dv/gen_supp_obj.py (coq/Gen/SuppObj.v): TRUSTED meanings.
   The heap is Model/C01ObjModel.v oheap. *)
From Coq Require Import ZArith List Bool.
From DV Require Import Model.PyPrims Model.Tree Model.C01Model Model.C01GenPrims Model.C01ObjModel.
Import ListNotations.
Open Scope Z_scope.

(* what is put into / looked up in the set bipartitions_to_delete:
   id(obj): an int, the identity of the object;
   obj    : the Bipartition itself, hashed and compared by Bipartition.__hash__ / __eq__ = the split bitmask *)
Inductive skey : Type :=
| KId (c : Z)
| KVal (b : option bip).

Definition skey_eqb (a b : skey) : bool :=
  match a, b with
  | KId x, KId y => Z.eqb x y
  | KVal (Some x), KVal (Some y) => oz_eqb (b_split x) (b_split y)
  | _, _ => false
  end.

Definition prim_id (h : oheap) (c : Z) : skey := KId c.
Definition prim_obj (h : oheap) (c : Z) : skey := KVal (st_get (oh_store h) c).

(* `x in s` / `x not in s` on a set *)
Definition set_in (k : skey) (s : list skey) : bool := existsb (skey_eqb k) s.
Definition set_elems (d : option (list skey)) : list skey := match d with Some l => l | None => [] end.

(* truthiness: None and empty containers are false *)
Definition truthy_stored (o : option (list Z)) : bool := match o with Some (_ :: _) => true | _ => false end.
Definition truthy_set (o : option (list skey)) : bool := match o with Some (_ :: _) => true | _ => false end.

(* nd.edge.bipartition of a node that is being removed: the object on its edge.  An edge that never had one gets a
   NEW object from the property getter, bound to the edge of the node that leaves the tree: its identity is in no
   list and nothing reachable refers to it; no key is recorded for it (the stored list then has the same contents) *)
Definition prim_edge_bipartition (h : oheap) (nid : Z) : option Z := oh_slot h nid.
