(* Run-time library of the translator py/dv/gen_bipartition.py (coq/Gen/Bipartition.v).
   Each definition states the Python semantics it stands for; these meanings are TRUSTED (they are the
   translator's primitive semantics), everything built from them in Gen/Bipartition.v is generated
   from the source's AST. *)
From Coq Require Import ZArith List Bool.
From DV Require Import Model.PyPrims Model.Tree Model.C01Model.
Import ListNotations.
Open Scope Z_scope.

(* ---------------------------------------------------------------------------------------- *)
(* values                                                                                    *)

(* `x is None` *)
Definition is_none {A} (o : option A) : bool := match o with None => true | Some _ => false end.
(* truth value of an int-or-None / bool-or-None *)
Definition truthy_oz (o : option Z) : bool := match o with Some v => negb (Z.eqb v 0) | None => false end.
Definition truthy_ob (o : option bool) : bool := match o with Some b => b | None => false end.
(* an arithmetic / bitwise operand that is None raises TypeError *)
Definition need_int (o : option Z) : res Z := match o with Some v => Ok v | None => Err TypeErr end.
(* kwargs.get(key, default): None = key absent *)
Definition kw_get {A} (k : option A) (d : A) : A := match k with Some v => v | None => d end.

(* ---------------------------------------------------------------------------------------- *)
(* a Bipartition object: its attributes (None = Python None)                                 *)

Record bip : Type := mkB {
  b_split : option Z;          (* _split_bitmask *)
  b_leafset : option Z;        (* _leafset_bitmask *)
  b_tree_leafset : option Z;   (* _tree_leafset_bitmask *)
  b_lrb : option Z;            (* _lowest_relevant_bit *)
  b_rooted : option bool;      (* _is_rooted *)
  b_mutable : option bool      (* is_mutable *)
}.

Definition set_b_split v b := mkB v (b_leafset b) (b_tree_leafset b) (b_lrb b) (b_rooted b) (b_mutable b).
Definition set_b_leafset v b := mkB (b_split b) v (b_tree_leafset b) (b_lrb b) (b_rooted b) (b_mutable b).
Definition set_b_tree_leafset v b := mkB (b_split b) (b_leafset b) v (b_lrb b) (b_rooted b) (b_mutable b).
Definition set_b_lrb v b := mkB (b_split b) (b_leafset b) (b_tree_leafset b) v (b_rooted b) (b_mutable b).
Definition set_b_rooted v b := mkB (b_split b) (b_leafset b) (b_tree_leafset b) (b_lrb b) v (b_mutable b).
Definition set_b_mutable v b := mkB (b_split b) (b_leafset b) (b_tree_leafset b) (b_lrb b) (b_rooted b) v.

(* object before __init__ has assigned anything *)
Definition bip_blank : bip := mkB None None None None None None.

(* an argument that is an int or a Bipartition (isinstance(other, int)) *)
Inductive int_or_bip : Type := IsInt (z : Z) | IsBip (b : bip).

(* ---------------------------------------------------------------------------------------- *)
(* encode_bipartitions: one iteration of `for edge in self.postorder_edge_iter()`.
   Post-order: when an edge is visited its head node's CURRENT children have been visited; a child is
   seen through what stands in its place now (a subtree), its edge's bipartition and the tree_edges
   entries (node id of the edge's head, the edge's Bipartition object) appended below it.        *)

Record vchild : Type := mkVC {
  vc_tree : tree;                 (* the child node (subtree) as it is now; t_len = child.edge.length *)
  vc_bip : bip;                   (* child.edge.bipartition *)
  vc_entries : list (Z * bip)     (* tree_edges entries appended below and at the child *)
}.

Record nview : Type := mkNV {
  nv_id : Z; nv_taxon : option Z; nv_label : option Z;
  nv_length : option Z;           (* head_node.edge.length *)
  nv_has_parent : bool;           (* head_node._parent_node is not None *)
  nv_children : list vchild       (* head_node._child_nodes *)
}.

(* effects of one loop iteration *)
Record vstate : Type := mkVS {
  vs_child_length : option (option Z);   (* Some v: child_nodes[0].edge.length was assigned v *)
  vs_spliced : bool;                     (* head_node was taken out and child_nodes[0] put in its place:
                                            pos = parent._child_nodes.index(head_node); parent.remove_child(head_node);
                                            parent.insert_child(index=pos, node=child_nodes[0]); head_node._parent_node = None
                                            -- or, for the seed: child_nodes[0]._parent_node = None; self.seed_node = child_nodes[0] *)
  vs_appended : bool;                    (* tree_edges.append(edge) *)
  vs_bip : option bip                    (* edge.bipartition assigned *)
}.

Definition vs_init : vstate := mkVS None false false None.
Definition vs_set_child_length v s := mkVS (Some v) (vs_spliced s) (vs_appended s) (vs_bip s).
Definition vs_splice s := mkVS (vs_child_length s) true (vs_appended s) (vs_bip s).
Definition vs_append s := mkVS (vs_child_length s) (vs_spliced s) true (vs_bip s).
Definition vs_set_bip b s := mkVS (vs_child_length s) (vs_spliced s) (vs_appended s) (Some b).
(* edge.bipartition.<attr> = v on the bipartition assigned in this iteration (AttributeError without) *)
Definition vs_update_bip (f : bip -> bip) (s : vstate) : res vstate :=
  match vs_bip s with
  | Some b => Ok (mkVS (vs_child_length s) (vs_spliced s) (vs_appended s) (Some (f b)))
  | None => Err AttrErr
  end.

Definition py_len {A} (l : list A) : Z := Z.of_nat (length l).

(* child_nodes[0].edge.length as it is now in this iteration *)
Definition child0_length (s : vstate) (cs : list vchild) : res (option Z) :=
  match vs_child_length s with
  | Some v => Ok v
  | None => match cs with c :: _ => Ok (t_len (vc_tree c)) | [] => Err IndexErr end
  end.

(* `a += b` on edge lengths (floats): TypeError when an operand is None *)
Definition len_add (a b : option Z) : res (option Z) :=
  match a, b with Some x, Some y => Ok (Some (x + y)) | _, _ => Err TypeErr end.

(* what the iteration leaves behind for the parent's iteration: the subtree now standing at this
   position, its edge's bipartition, the tree_edges entries so far *)
Definition finish_visit (nd : nview) (s : vstate) : res vchild :=
  let cs := nv_children nd in
  let below := concat (map vc_entries cs) in
  if vs_spliced s then
    match cs with
    | c :: _ =>
      let c' := match vs_child_length s with Some v => set_len v (vc_tree c) | None => vc_tree c end in
      Ok (mkVC c' (vc_bip c) below)
    | [] => Err IndexErr
    end
  else
    match vs_bip s with
    | Some b =>
      Ok (mkVC (T (nv_id nd) (nv_taxon nd) (nv_label nd) (nv_length nd) (map vc_tree cs)) b
               (if vs_appended s then below ++ [(nv_id nd, b)] else below))
    | None => Err AttrErr     (* a later child.edge.bipartition._leafset_bitmask would fail *)
    end.

(* `for edge in self.postorder_edge_iter(): body` by structural recursion (the traversal itself is
   C15's subject); has_parent = false for the seed *)
Fixpoint for_postorder (body : nview -> res vchild) (has_parent : bool) (t : tree) : res vchild :=
  match t with
  | T i x l e ks =>
    (fix go (ks : list tree) (done : list vchild) : res vchild :=
       match ks with
       | [] => body (mkNV i x l e has_parent (rev done))
       | k :: r => match for_postorder body true k with
                   | Ok c => go r (c :: done)
                   | Err er => Err er
                   | OutOfFuel => OutOfFuel
                   end
       end) ks []
  end.

(* self.collapse_basal_bifurcation(): the model's primitive (Model/C01Model.v collapse_basal) *)
Definition prim_collapse_basal_bifurcation (t : tree) (rooted : option bool) : tree * option bool :=
  let '(t', changed) := collapse_basal t in (t', if changed then Some false else rooted).

(* map(f, l) forced to the end, first exception wins *)
Fixpoint map_res {A B} (f : A -> res B) (l : list A) : res (list B) :=
  match l with
  | [] => Ok []
  | a :: r => match f a with
              | Ok b => match map_res f r with Ok bs => Ok (b :: bs) | Err e => Err e | OutOfFuel => OutOfFuel end
              | Err e => Err e
              | OutOfFuel => OutOfFuel
              end
  end.

(* result of encode_bipartitions: structure, rooting flag, the edges with their compiled bipartitions
   (post-order, head node id), self.bipartition_encoding (None when suppress_storage) *)
Record genc : Type := mkGE {
  ge_tree : tree; ge_rooted : option bool; ge_edges : list (Z * bip); ge_encoding : option (list bip)
}.

(* ---------------------------------------------------------------------------------------- *)
(* from_split_bitmasks.  Working tree = Model/C01Model.v mtree (mask = edge.bipartition.leafset_bitmask). *)

(* reconstructed_tree after `for taxon in taxon_namespace: seed_node.new_child(taxon=taxon)`,
   `encode_bipartitions()`: the encoded star tree read back with the masks stored on its edges *)
Definition prim_working_tree (enc : option genc) : res mtree :=
  match enc with
  | None => Err AttrErr
  | Some g =>
    match map_res (fun e => match b_leafset (snd e) with Some m => Ok (fst e, m) | None => Err TypeErr end) (ge_edges g) with
    | Ok masks => Ok (to_mtree masks (ge_tree g))
    | Err er => Err er
    | OutOfFuel => OutOfFuel
    end
  end.

(* lb = least_significant_set_bit(split_to_add); one_leaf = to_leaf_dict[lb]; parent_node = one_leaf;
   while <not_covers(parent_node.edge.bipartition.leafset_bitmask)>: parent_node = parent_node.parent_node;
   <rest of the iteration acts on parent_node: f>.
   Realised on the rose tree as the model does: walk from the root towards the leaf lb while the child
   on that path is still accepted by the test; f is applied to the last such node.  (On masks that grow
   towards the root this is the node the climb stops at; KeyError for a missing leaf is not modelled.) *)
Fixpoint prim_locate_apply (not_covers : Z -> bool) (lb : Z) (f : mtree -> res mtree) (t : mtree) : res mtree :=
  match t with
  | M m x ks =>
    if existsb (fun c => hits lb c && negb (not_covers (m_mask c))) ks then
      match (fix go (l : list mtree) : res (list mtree) :=
               match l with
               | [] => Ok []
               | c :: r =>
                 match (if hits lb c && negb (not_covers (m_mask c))
                        then prim_locate_apply not_covers lb f c else Ok c) with
                 | Ok c' => match go r with Ok r' => Ok (c' :: r') | Err er => Err er | OutOfFuel => OutOfFuel end
                 | Err er => Err er
                 | OutOfFuel => OutOfFuel
                 end
               end) ks with
      | Ok ks' => Ok (M m x ks')
      | Err er => Err er
      | OutOfFuel => OutOfFuel
      end
    else f t
  end.

(* for child in new_node_children: parent_node.remove_child(child); new_node.add_child(child)
   parent_node.add_child(new_node)          -- new_node's edge carries the bipartition with mask new_mask *)
Fixpoint remove_first (c : mtree) (l : list mtree) : list mtree :=
  match l with
  | [] => []
  | d :: r => if mtree_eqb c d then r else d :: remove_first c r
  end.

Definition prim_regroup (parent : mtree) (gathered : list mtree) (new_mask : Z) : mtree :=
  match parent with
  | M m x ks => M m x (fold_left (fun l c => remove_first c l) gathered ks ++ [M new_mask None gathered])
  end.

(* `for b in l: if not <test b>: return False` ... `return True` (first exception wins) *)
Fixpoint all_res {A} (f : A -> res bool) (l : list A) : res bool :=
  match l with
  | [] => Ok true
  | a :: r => match f a with
              | Ok true => all_res f r
              | Ok false => Ok false
              | Err e => Err e
              | OutOfFuel => OutOfFuel
              end
  end.
