(* C12, fifth wave: specification-level definitions of the isomorphism theorem (Props/C12.v:
   deepcopy_isomorphism).

   iso_rel h s' root y a b : the correspondence between the source graph and the copy's graph.
     a is reachable from the source root, b from the copy's root, and
       - (a, b) is a recorded (source, copy) pair (memo[id(a)] = b for an object allocated as the copy of a), or
       - a = b is an old object (shared: reached by the copy as the very same object), or
       - a / b are the AnnotationSet (or its _item_list / _item_set) owned by an annotable source object x /
         by the recorded copy yy of x (these three objects are rebuilt by `annotations.add`, memo has the
         pair (sx, sy) only and the interpreter's ghost list sc none of them). *)
From Coq Require Import ZArith List Bool Lia.
From DV Require Import Model.PyPrims Model.C12Model Model.C12Spec2.
Import ListNotations.
Open Scope Z_scope.

Definition cont_pair (h : heap) (s' : st) (a b : Z) : Prop :=
  exists x yy ox oy sx sy sxo syo,
    In (x, yy) (sc s') /\ hget h x = Some ox /\ is_annk (okind ox) = true /\ hget (sh s') yy = Some oy
    /\ bget (obody ox) NM_ANN = Some (R sx) /\ bget (obody oy) NM_ANN = Some (R sy)
    /\ hget h sx = Some sxo /\ hget (sh s') sy = Some syo
    /\ ((a = sx /\ b = sy)
        \/ (bget (obody sxo) NM_ILIST = Some (R a) /\ bget (obody syo) NM_ILIST = Some (R b))
        \/ (bget (obody sxo) NM_ISET = Some (R a) /\ bget (obody syo) NM_ISET = Some (R b))).

Definition iso_rel (h : heap) (s' : st) (root y a b : Z) : Prop :=
  reach h root a /\ reach (sh s') y b /\
  (In (a, b) (sc s') \/ (a = b /\ 0 <= a < hlen h) \/ cont_pair h s' a b).

(* values correspond: equal immutable values, or references to corresponding objects *)
Definition viso (rho : Z -> Z -> Prop) (v v' : val) : Prop :=
  match v, v' with
  | P p, P q => p = q
  | R a, R b => rho a b
  | _, _ => False
  end.

(* a is an EMPTY owned annotation set of the source (x._annotations exists and lists no annotation), or its
   _item_list / _item_set.  Annotable.__deepcopy__ skips `_annotations` and deep_copy_annotations_from adds
   the copies one by one through `self.annotations.add`: with nothing to add the copy gets no `_annotations`
   attribute at all (it is created lazily by the `annotations` property on first access). *)
Definition empty_annset_part (h : heap) (a : Z) : Prop :=
  exists x ox sx sxo, hget h x = Some ox /\ is_annk (okind ox) = true /\ bget (obody ox) NM_ANN = Some (R sx)
    /\ hget h sx = Some sxo /\ refs_of (ann_items h ox) = []
    /\ (a = sx \/ bget (obody sxo) NM_ILIST = Some (R a) \/ bget (obody sxo) NM_ISET = Some (R a)).

(* ---- exact shape of owned annotation sets (hypothesis wf_heap4, executable) --------------------------
   x._annotations = sx is an AnnotationSet object with _item_list = lx (a list of objects), _item_set = zx
   (a set with exactly the members of lx; the dumper lists it in list order) and target = x; no two owners
   share an annotation set or a container. *)
Fixpoint body_eqb (b1 b2 : list (val * val)) : bool :=
  match b1, b2 with
  | [], [] => true
  | (k1, v1) :: r1, (k2, v2) :: r2 => val_eqb k1 k2 && val_eqb v1 v2 && body_eqb r1 r2
  | _, _ => false
  end.

Definition owned_exact (h : heap) (x : Z) (ob : obj) : bool :=
  match bget (obody ob) NM_ANN with
  | Some (R sx) =>
    match hget h sx with
    | Some sxo =>
      match bget (obody sxo) NM_ILIST, bget (obody sxo) NM_ISET, bget (obody sxo) NM_TARGET with
      | Some (R lx), Some (R zx), Some (R t) =>
        Z.eqb t x && Z.eqb (ocls sxo) CLS_ANNSET && kind_eqb (okind sxo) KAnnSet &&
        match hget h lx, hget h zx with
        | Some l, Some z =>
          Z.eqb (ocls l) CLS_LIST && kind_eqb (okind l) KList
          && forallb (fun e => negb (is_prim (snd e))) (obody l)
          && Z.eqb (ocls z) CLS_SET && kind_eqb (okind z) KSet
          && body_eqb (obody z) (map (fun e => (snd e, PNone)) (obody l))
        | _, _ => false
        end
      | _, _, _ => false
      end
    | None => false
    end
  | Some (P _) => false
  | None => true
  end.

Definition wf_heap4 (h : heap) : bool :=
  forallbi (fun x ob => negb (is_annk (okind ob)) || owned_exact h x ob) 0 h && nodup_z (owned_conts h).

(* the root is not an owned annotation set or one of its containers *)
Definition root_ok4 (h : heap) (root : Z) : bool := negb (memz root (owned_conts h)).

(* counted by the harness: the dumped heap satisfies the hypotheses of deepcopy_isomorphism *)
Definition case_iso4_hyp (c : case) : bool :=
  match c_expect c with
  | ESkip _ => true
  | _ => wf_heap3s (c_heap c) && wf_heap4 (c_heap c) && root_ok4 (c_heap c) (c_root c)
  end.

(* executable counts used by the _refuted witnesses *)
Definition reach_count (h : heap) (r : Z) : nat := length (reach_list h [r]).
Definition copies_of (c : list (Z * Z)) (a : Z) : list Z :=
  flat_map (fun p => if Z.eqb (fst p) a then [snd p] else []) c.
