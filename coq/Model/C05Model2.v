(* C05, second part of the model: the per-tree score functions of SplitDistribution
   (split_support_iter, sum_of_split_support_on_tree, log_product_of_split_support_on_tree),
   TreeList.frequency_of_bipartition, TreeArray.split_bitmask_set_frequencies, and the extended
   correspondence case.  Definitions only. *)
From Coq Require Import ZArith QArith Qabs Qreduction List Bool.
From DV Require Import Model.PyPrims Gen.BitFns Gen.Consts Model.C05Model Model.C05Spec.
Import ListNotations.
Open Scope Z_scope.

(* ---------------------------------------------------------------- split_support_iter *)

Fixpoint st_postorder (t : stree) : list stree :=
  match t with SN _ _ ks => flat_map st_postorder ks ++ [t] end.

(* preorder_node_iter / preorder_internal_node_iter (seed node included) and the postorder twins *)
Definition support_nodes (postorder ext : bool) (t : stree) : list stree :=
  filter (fun n => ext || negb (st_is_leaf n)) (if postorder then st_postorder t else st_preorder t).

Definition split_support_iter (d : sd) (postorder ext : bool) (t : stree) : sd * list Q :=
  let '(d', ftbl) := get_freqs d in
  (d', map (fun n => aget_d (sn_split n) 0%Q ftbl) (support_nodes postorder ext t)).

(* sum_of_split_support_on_tree: preorder, sum *)
Definition sum_of_split_support_on_tree (d : sd) (ext : bool) (t : stree) : sd * Q :=
  let '(d', l) := split_support_iter d false ext t in
  (d', fold_left qplus l 0%Q).

(* log_product_of_split_support_on_tree: preorder, `if split_support: += math.log(..)`;
   modelled as the product of the non-zero supports (rounding boundary) *)
Definition product_of_split_support_on_tree (d : sd) (ext : bool) (t : stree) : sd * Q :=
  let '(d', l) := split_support_iter d false ext t in
  (d', fold_left (fun acc f => if Qeq_bool f 0 then acc else qmult acc f) l 1%Q).

(* ---------------------------------------------------------------- TreeList.frequency_of_bipartition *)

(* per tree: the split bitmasks of its encoding and tree.is_unrooted AFTER encode_bipartitions
   (None for an undefined rooting: `tree.is_unrooted` is then None, i.e. falsy) *)
Record fob_tree := mkFob { f_splits : list Z; f_unrooted : option bool }.

Definition fob_found (all s : Z) (t : fob_tree) : bool :=
  match f_unrooted t with
  | Some true => zmem (py_normalize_bitmask s all 1) (f_splits t)
  | _ => zmem s (f_splits t)
  end.

Definition frequency_of_bipartition (all s : Z) (ts : list fob_tree) : Q :=
  match ts with
  | [] => 0%Q                                            (* ZeroDivisionError -> 0 *)
  | _ => qdiv (inject_Z (Z.of_nat (length (filter (fob_found all s) ts))))
              (inject_Z (Z.of_nat (length ts)))
  end.

(* ---------------------------------------------------------------- split_bitmask_set_frequencies *)

(* frozenset(split tuple) as the sorted duplicate-free list *)
Definition canon_set (ss : list Z) : list Z := dedup_sorted (zsort ss).

Definition key_eqb (a b : list Z) : bool := list_eqb Z.eqb a b.

Fixpoint kget (k : list Z) (l : list (list Z * Q)) : option Q :=
  match l with
  | [] => None
  | (k', v) :: r => if key_eqb k k' then Some v else kget k r
  end.

Fixpoint kadd (k : list Z) (w : Q) (l : list (list Z * Q)) : list (list Z * Q) :=
  match l with
  | [] => [(k, qplus 0 w)]
  | (k', v) :: r => if key_eqb k k' then (k', qplus v w) :: r else (k', v) :: kadd k w r
  end.

Definition set_counts (splits : list (list Z)) (weights : list Q) : list (list Z * Q) :=
  fold_left (fun acc sw => kadd (canon_set (fst sw)) (snd sw) acc) (zip splits weights) [].

Definition split_bitmask_set_frequencies (a : ta) : list (list Z * Q) :=
  map (fun kv => (fst kv, qdiv (snd kv) (normalization_weight (ta_sd a))))
      (set_counts (ta_splits a) (ta_weights a)).

(* ---------------------------------------------------------------- specification vocabulary *)

(* product of the non-zero entries *)
Fixpoint qprod_nz (l : list Q) : Q :=
  match l with [] => 1%Q | x :: r => if Qeq_bool x 0 then qprod_nz r else (x * qprod_nz r)%Q end.

Definition fob_of (u : option bool) (t : tree_in) : fob_tree := mkFob (splits_of t) u.

Definition kget_d (k : list Z) (l : list (list Z * Q)) : Q := match kget k l with Some v => v | None => 0%Q end.

(* weight of the trees whose split set is K *)
Fixpoint topo_weight (K : list Z) (sw : list (list Z * Q)) : Q :=
  match sw with
  | [] => 0%Q
  | (ss, w) :: r => if key_eqb (canon_set ss) K then (w + topo_weight K r)%Q else topo_weight K r
  end.

(* ---------------------------------------------------------------- extended correspondence case *)

Inductive op2 :=
| O1 (o : op)
| OTreeScore (tgt : nat) (product ext : bool)
| OSupportIter (tgt : nat) (postorder ext : bool)
| OFreqOfBip (occ : list nat) (s : Z)        (* TreeList of these pool trees, split_bitmask=s *)
| OSetFreqs.

Inductive out2 :=
| U1 (o : out)
| UQList (l : list Q)
| USetFreqs (l : list (list Z * Q)).

Definition step2 (e : env) (unrooted_after : list (option bool)) (w : world) (o : op2) : world * out2 :=
  let a := w_ta w in
  let d := ta_sd a in
  match o with
  | O1 o1 => let '(w', x) := step e w o1 in (w', U1 x)
  | OTreeScore tgt product ext =>
    match nth_error (e_targets e) tgt with
    | Some (t, _) =>
      let '(d', q) := (if product then product_of_split_support_on_tree else sum_of_split_support_on_tree) d ext t in
      (mkWorld (with_sd a d'), UQList [q])
    | None => (w, U1 (UErr IndexErr))
    end
  | OSupportIter tgt post ext =>
    match nth_error (e_targets e) tgt with
    | Some (t, _) => let '(d', l) := split_support_iter d post ext t in (mkWorld (with_sd a d'), UQList l)
    | None => (w, U1 (UErr IndexErr))
    end
  | OFreqOfBip occ s =>
    let ts := filter_map (fun i => match nth_error (e_pool e) i with
                                   | Some t => Some (mkFob (map r_split (t_recs t)) (nth i unrooted_after None))
                                   | None => None
                                   end) occ in
    (w, U1 (UQ (frequency_of_bipartition (e_all e) s ts)))
  | OSetFreqs => (w, USetFreqs (split_bitmask_set_frequencies a))
  end.

Fixpoint run2 (e : env) (ua : list (option bool)) (w : world) (ops : list op2) : list (out2 * snapshot) :=
  match ops with
  | [] => []
  | o :: r => let '(w', x) := step2 e ua w o in (x, snap w') :: run2 e ua w' r
  end.

Definition out2_close (m ob : out2) : bool :=
  match m, ob with
  | U1 a, U1 b => out_close a b
  | UQList a, UQList b => list_eqb (q_close_rel tol9) a b
  | USetFreqs a, USetFreqs b =>
    list_eqb (fun x y => list_eqb Z.eqb (fst x) (fst y) && q_close tol12 (snd x) (snd y)) a b
  | _, _ => false
  end.

Record case2 := mkCase2 {
  c2_env : env;
  c2_unrooted_after : list (option bool);
  c2_in_quantifier : bool;   (* no vacated bits, every tree spans the namespace *)
  c2_init_rooting : option bool;
  c2_ops : list op2;
  c2_expected : list (out2 * snapshot)
}.

Definition case2_run (c : case2) : list (out2 * snapshot) :=
  run2 (c2_env c) (c2_unrooted_after c) (mkWorld (ta_empty (c2_init_rooting c))) (c2_ops c).

Definition case2_hyps (c : case2) : bool :=
  ns_okb (e_all (c2_env c)) (e_bits (c2_env c))
  && forallb (fun t => tree_nodup t && tree_compatible (e_all (c2_env c)) (truthy (t_rooting t)) t)
             (e_pool (c2_env c)).

Definition case2_ok (c : case2) : bool :=
  (negb (c2_in_quantifier c) || case2_hyps c)
  && list_eqb (fun m ob => out2_close (fst m) (fst ob) && snap_eqb (snd m) (snd ob)) (case2_run c) (c2_expected c).
