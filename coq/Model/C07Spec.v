(* C07: the quantities the property speaks about, defined directly on rose trees
   (executable; independent of the operations in C07Model.v).

   leaf_taxa     (Model/Tree.v) the leaf taxa, left to right
   down a t      path length from the root of t down to the leaf with taxon a (t's own edge excluded)
   dist a b t    path length between the leaves with taxa a and b (None: not both present);
                 an absent length (None) counts 0, as in PhylogeneticDistanceMatrix
   total_length  sum of all edge lengths incl. the seed's own edge, None counts 0 (= Tree.length())
   clades t      the leaf-taxon list below every node of t (root included)
   is_usplit t S S is one side of an unrooted bipartition of the leaf set induced by an edge of t
                 (sides are identified with their complements; as sets) *)
From Coq Require Import ZArith List Bool.
From DV Require Import Model.PyPrims Model.Tree Model.C07Model.
Import ListNotations.
Open Scope Z_scope.

Definition oadd (d : Z) (o : option Z) : option Z := option_map (Z.add d) o.

Fixpoint down (a : option Z) (t : tree) : option Z :=
  match t with
  | T i x l e ks =>
    match ks with
    | [] => if oz_eqb x a then Some 0 else None
    | _ => first_some (fun k => oadd (len0 (t_len k)) (down a k)) ks
    end
  end.

(* the same, the tree's own edge included *)
Definition downT (a : option Z) (k : tree) : option Z := oadd (len0 (t_len k)) (down a k).
Definition downF (a : option Z) (ks : list tree) : option Z := first_some (downT a) ks.

Definition distF_gen (a b : option Z) (D : tree -> option Z) : list tree -> option Z :=
  fix go (ks : list tree) : option Z :=
    match ks with
    | [] => None
    | k :: r =>
      match downT a k, downT b k with
      | Some _, Some _ => D k
      | Some da, None => oadd da (downF b r)
      | None, Some db => oadd db (downF a r)
      | None, None => go r
      end
    end.

Fixpoint dist (a b : option Z) (t : tree) : option Z :=
  match t with
  | T i x l e ks =>
    match ks with
    | [] => if oz_eqb x a && oz_eqb x b then Some 0 else None
    | _ => distF_gen a b (dist a b) ks
    end
  end.

Definition distF (a b : option Z) (ks : list tree) : option Z := distF_gen a b (dist a b) ks.

Definition zsum (l : list Z) : Z := fold_right Z.add 0 l.

Fixpoint total_length (t : tree) : Z :=
  match t with T _ _ _ e ks => len0 e + zsum (map total_length ks) end.

Fixpoint clades (t : tree) : list (list (option Z)) :=
  match t with T i x l e ks => leaf_taxa (T i x l e ks) :: flat_map clades ks end.

Definition seteq {A} (X Y : list A) : Prop := forall x, In x X <-> In x Y.
(* S = L \ C *)
Definition is_compl {A} (L C S : list A) : Prop := forall x, In x S <-> (In x L /\ ~ In x C).

Definition is_usplit (t : tree) (S : list (option Z)) : Prop :=
  exists C, In C (clades t) /\ (seteq S C \/ is_compl (leaf_taxa t) C S).

(* all edge lengths below the root *)
Fixpoint all_lens (t : tree) : list (option Z) :=
  match t with T _ _ _ e ks => e :: flat_map all_lens ks end.
Definition nonroot_lens (t : tree) : list (option Z) := flat_map all_lens (t_kids t).

(* the node with identity n exists and has children *)
Definition is_internal_node (n : Z) (t : tree) : Prop :=
  exists X, find_node n t = Some X /\ t_kids X <> [].
