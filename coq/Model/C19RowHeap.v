(* C19: OBJECT-LEVEL model of the CharacterMatrix row operations.

   C19Model.v treats a row as a value.  In the library a row is a mutable CharacterDataSequence OBJECT
   and `_taxon_sequence_map` maps a taxon to a reference.  Here: a store of row objects
   (row id -> cells, `alloc` = evaluation of a constructor call, `mutate` = an in-place list
   operation) and matrices as insertion-ordered maps taxon -> row id.  Every operation is
   transcribed as to WHICH object is stored, copied (`character_sequence_type(x)` = alloc of the
   cells of x) or mutated in place:

     new_sequence            cv = cst(values); map[taxon] = cv                      alloc
     __getitem__             returns the stored object itself (creates one if missing)
     __setitem__             `if not isinstance(values, cst): values = cst(values)`; map[taxon] = values
                             a list is converted (alloc); a row OBJECT of the matrix's own sequence
                             type is stored AS IT IS (o_setitem_obj adopt=true)
     fill_taxa               for taxon in ns: if taxon not in self: self[taxon] = CharacterDataSequence()
                             the constructor call is INSIDE the loop: one alloc per iteration; the
                             plain CharacterMatrix adopts that object, typed matrices convert it again
     fill                    v = self[k]; v.append / v.insert(0, ..)                 in place
     add_/replace_/update_   map[taxon] = cst(other.map[taxon])                      alloc (copy)
     extend_sequences/matrix map[taxon].extend(other.map[taxon])                     in place on the receiver's
                             row (argument materialised first: list(...)), new taxa: alloc (copy)
     remove/discard/keep     del map[taxon]                                          map only
     export_character_indices  clone = cls(self): copy.deepcopy - every row object copied ONCE (memo), so
                             sharing inside the source is preserved in the clone, none with the source;
                             then `del vec[i]` in place for vec in clone.values()
     concatenate             acc = cls(..); acc.extend_matrix(cm) per argument
     copy.copy(m)            __copy__: other.map[taxon] = self.map[taxon]            the SAME objects
   In-place operations on a row obtained by m[key]: append, extend, [i] = v, del [i].

   The heap is an association list with the newest binding first (alloc and mutate both cons). *)
From Coq Require Import ZArith List Bool.
From DV Require Import Model.PyPrims Model.C19Model.
Import ListNotations.
Open Scope Z_scope.

Definition rid := Z.
Definition heap := list (rid * row).
Definition orows := list (tid * rid).

Record store := mkS { s_heap : heap; s_next : rid }.

Definition hget (s : store) (r : rid) : row :=
  match aget r (s_heap s) with Some c => c | None => [] end.

(* evaluation of `CharacterDataSequence(cells)` / `character_sequence_type(cells)`: a NEW object *)
Definition alloc (s : store) (c : row) : store * rid :=
  (mkS ((s_next s, c) :: s_heap s) (s_next s + 1), s_next s).

(* an in-place list operation on object r *)
Definition mutate (s : store) (r : rid) (c : row) : store := mkS ((r, c) :: s_heap s) (s_next s).

Definition deref (s : store) (rs : orows) : rows := map (fun p => (fst p, hget s (snd p))) rs.
Definition ids (rs : orows) : list rid := map snd rs.

Record omatrix := mkOM {
  om_ns : nsid;
  om_label : option lbl;
  om_rows : orows;               (* _taxon_sequence_map: taxon -> row OBJECT *)
  om_subs : subsets
}.

Definition oset_rows (m : omatrix) (rs : orows) : omatrix := mkOM (om_ns m) (om_label m) rs (om_subs m).
Definition oset_subs (m : omatrix) (ss : subsets) : omatrix := mkOM (om_ns m) (om_label m) (om_rows m) ss.

(* the abstraction function: dereference every row id *)
Definition abs_m (s : store) (m : omatrix) : matrix :=
  mkM (om_ns m) (om_label m) (deref s (om_rows m)) (om_subs m).

(* items(): namespace order, taxa that have a row (C19Model.items on references) *)
Fixpoint oitems (T : list tid) (rs : orows) : orows :=
  match T with
  | [] => []
  | t :: T' => match aget t rs with Some r => (t, r) :: oitems T' rs | None => oitems T' rs end
  end.

(* ---- single-matrix operations ---- *)

Definition o_new_sequence (T : list tid) (s : store) (m : omatrix) (t : tid) (vals : row)
  : res (store * omatrix * rid) :=
  if ahas t (om_rows m) then Err ValueErr
  else if negb (memb t T) then Err ValueErr
  else let '(s', r) := alloc s vals in Ok (s', oset_rows m (aput t r (om_rows m)), r).

Definition o_getitem (T : list tid) (s : store) (m : omatrix) (k : key) : res (store * omatrix * rid) :=
  match resolve_key T k with
  | Ok t => match aget t (om_rows m) with
            | Some r => Ok (s, m, r)
            | None => o_new_sequence T s m t []
            end
  | Err e => Err e
  | OutOfFuel => OutOfFuel
  end.

(* m[k] = <list of values>: not a sequence object, converted *)
Definition o_setitem_vals (T : list tid) (s : store) (m : omatrix) (k : key) (vals : row) : res (store * omatrix) :=
  match resolve_key T k with
  | Ok t => if negb (memb t T) then Err ValueErr
            else let '(s', r) := alloc s vals in Ok (s', oset_rows m (aput t r (om_rows m)))
  | Err e => Err e
  | OutOfFuel => OutOfFuel
  end.

(* m[k] = <row object r>;  adopt = isinstance(r, type(m).character_sequence_type) *)
Definition o_setitem_obj (adopt : bool) (T : list tid) (s : store) (m : omatrix) (k : key) (r : rid)
  : res (store * omatrix) :=
  match resolve_key T k with
  | Ok t => if negb (memb t T) then Err ValueErr
            else if adopt then Ok (s, oset_rows m (aput t r (om_rows m)))
            else let '(s', r') := alloc s (hget s r) in Ok (s', oset_rows m (aput t r' (om_rows m)))
  | Err e => Err e
  | OutOfFuel => OutOfFuel
  end.

(* fill_taxa; generic = the matrix class is the plain CharacterMatrix (sequence type = the base class) *)
Definition o_fill_taxa_rows (generic : bool) (T : list tid) (st : store * orows) : store * orows :=
  fold_left (fun st t =>
               if ahas t (snd st) then st
               else let '(s1, e) := alloc (fst st) [] in              (* CharacterDataSequence() *)
                    if generic then (s1, aput t e (snd st))           (* adopted as it is *)
                    else let '(s2, r) := alloc s1 (hget s1 e) in      (* converted to the typed class *)
                         (s2, aput t r (snd st))) T st.

Definition o_fill_store (T : list tid) (v : cell) (size : Z) (append : bool) (s : store) (sr : orows) : store :=
  fold_left (fun s p => mutate s (snd p) (pad v size append (hget s (snd p)))) (oitems T sr) s.

Definition o_fill (T : list tid) (s : store) (m : omatrix) (v : cell) (size : option Z) (append : bool)
  : store * Z :=
  let sz := fill_size T (abs_m s m) size in
  (o_fill_store T v sz append s (om_rows m), sz).

Definition o_pack (generic : bool) (T : list tid) (s : store) (m : omatrix) (v : cell) (size : option Z)
           (append : bool) : store * omatrix :=
  let '(s1, sr) := o_fill_taxa_rows generic T (s, om_rows m) in
  let m1 := oset_rows m sr in
  (fst (o_fill T s1 m1 v size append), m1).

(* ---- the row algebra;  o = the rows (references) of other_matrix ---- *)
Definition o_copy_in (st : store * orows) (t : tid) (ro : rid) : store * orows :=
  let '(s', r) := alloc (fst st) (hget (fst st) ro) in (s', aput t r (snd st)).

Definition o_extend_in (st : store * orows) (rs ro : rid) : store * orows :=
  (mutate (fst st) rs (hget (fst st) rs ++ hget (fst st) ro), snd st).

Definition o_add_rows (st : store * orows) (o : orows) : store * orows :=
  fold_left (fun st p => if ahas (fst p) (snd st) then st else o_copy_in st (fst p) (snd p)) o st.

Definition o_replace_rows (st : store * orows) (o : orows) : store * orows :=
  fold_left (fun st p => if ahas (fst p) (snd st) then o_copy_in st (fst p) (snd p) else st) o st.

Definition o_update_rows (st : store * orows) (o : orows) : store * orows :=
  fold_left (fun st p => o_copy_in st (fst p) (snd p)) o st.

Definition o_extend_rows (addnew : bool) (st : store * orows) (o : orows) : store * orows :=
  fold_left (fun st p => match aget (fst p) (snd st) with
                         | None => if addnew then o_copy_in st (fst p) (snd p) else st
                         | Some rs => o_extend_in st rs (snd p)
                         end) o st.

Definition o_extend_matrix_rows (st : store * orows) (o : orows) : store * orows :=
  fold_left (fun st p => match aget (fst p) (snd st) with
                         | Some rs => o_extend_in st rs (snd p)
                         | None => o_copy_in st (fst p) (snd p)
                         end) o st.

Definition o_binary (f : store * orows -> orows -> store * orows) (s : store) (self other : omatrix)
  : res (store * omatrix) :=
  if negb (Z.eqb (om_ns other) (om_ns self)) then Err ValueErr
  else let '(s', sr) := f (s, om_rows self) (om_rows other) in Ok (s', oset_rows self sr).

Fixpoint o_remove_rows (rs : orows) (ts : list tid) : orows * option err :=
  match ts with
  | [] => (rs, None)
  | t :: r => if ahas t rs then o_remove_rows (adel t rs) r else (rs, Some KeyErr)
  end.

Definition o_discard_rows (rs : orows) (ts : list tid) : orows :=
  fold_left (fun s t => if ahas t s then adel t s else s) ts rs.

Definition o_keep_rows (rs : orows) (ts : list tid) : orows :=
  filter (fun p => memb (fst p) ts) rs.

(* ---- export: deep copy (memo: source object -> its copy), then column deletion in place ---- *)
Fixpoint o_deepcopy_rows (s : store) (memo : list (rid * rid)) (sr : orows) : store * orows :=
  match sr with
  | [] => (s, [])
  | (t, r) :: rest =>
    match aget r memo with
    | Some r' => let '(s', out) := o_deepcopy_rows s memo rest in (s', (t, r') :: out)
    | None => let '(s1, r') := alloc s (hget s r) in
              let '(s', out) := o_deepcopy_rows s1 ((r, r') :: memo) rest in (s', (t, r') :: out)
    end
  end.

Definition o_select_store (T : list tid) (idx : list Z) (s : store) (cr : orows) : store :=
  fold_left (fun s p => mutate s (snd p) (select_from idx 0 (hget s (snd p)))) (oitems T cr) s.

Definition o_export (T : list tid) (s : store) (m : omatrix) (idx : list Z) : store * omatrix :=
  let '(s1, cr) := o_deepcopy_rows s [] (om_rows m) in
  (o_select_store T idx s1 cr, mkOM (om_ns m) (om_label m) cr []).

(* copy.copy(m): a new matrix holding the SAME row objects; character_subsets are not copied *)
Definition o_shallow_copy (m : omatrix) : omatrix := mkOM (om_ns m) (om_label m) (om_rows m) [].

(* a matrix delivered by a reader / built by new_sequence calls: every row a fresh object *)
Fixpoint o_install_rows (s : store) (rs : rows) : store * orows :=
  match rs with
  | [] => (s, [])
  | (t, c) :: rest => let '(s1, r) := alloc s c in
                      let '(s2, out) := o_install_rows s1 rest in (s2, (t, r) :: out)
  end.

Definition o_install (s : store) (m : matrix) : store * omatrix :=
  let '(s', sr) := o_install_rows s (m_rows m) in (s', mkOM (m_ns m) (m_label m) sr (m_subs m)).

Section WithLabels.
Variable lower : lbl -> lbl.
Variable suffix : lbl -> Z -> lbl.
Variable locus : Z -> lbl.

Definition o_new_character_subset (m : omatrix) (l : lbl) (idx : list Z) : res omatrix :=
  if has_key lower l (om_subs m) then Err ValueErr
  else Ok (oset_subs m (om_subs m ++ [(l, idx)])).

(* concatenate: the checks read the arguments (through the store), extend_matrix works on acc *)
Fixpoint o_concat_loop (T : list tid) (ns0 : nsid) (nseqs : Z) (cms : list omatrix) (cidx : Z)
         (s : store) (acc : omatrix) (pos : Z) : res (store * omatrix) :=
  match cms with
  | [] => Ok (s, acc)
  | cm :: rest =>
    if negb (Z.eqb (om_ns cm) ns0) then Err ValueErr
    else if negb (Z.eqb (zlen (om_rows cm)) (zlen T)) then Err ValueErr
    else if negb (Z.eqb (zlen (om_rows cm)) nseqs) then Err ValueErr
    else
      match T with
      | [] => Err IndexErr
      | t0 :: _ =>
        match aget t0 (om_rows cm) with
        | None => Err AssertErr
        | Some r0 =>
          if negb (forallb (fun p => Z.eqb (zlen (hget s (snd p))) (zlen (hget s r0))) (oitems T (om_rows cm)))
          then Err ValueErr
          else
            match o_binary o_extend_matrix_rows s acc cm with
            | Ok (s1, acc1) =>
              let new_label := match om_label cm with None => locus cidx | Some l => l end in
              match free_name lower suffix (free_name_fuel (om_subs acc1)) (om_subs acc1) new_label new_label 2 with
              | Ok cs_label =>
                let w := vector_size (deref s (om_rows cm)) in
                match o_new_character_subset acc1 cs_label (zrange pos w) with
                | Ok acc2 => o_concat_loop T ns0 nseqs rest (cidx + 1) s1 acc2 (pos + w)
                | Err e => Err e
                | OutOfFuel => OutOfFuel
                end
              | Err e => Err e
              | OutOfFuel => OutOfFuel
              end
            | Err e => Err e
            | OutOfFuel => OutOfFuel
            end
        end
      end
  end.

Definition o_concatenate (taxa_of : nsid -> list tid) (s : store) (cms : list omatrix) : res (store * omatrix) :=
  match cms with
  | [] => Err IndexErr
  | c0 :: _ =>
    o_concat_loop (taxa_of (om_ns c0)) (om_ns c0) (zlen (om_rows c0)) cms 0 s (mkOM (om_ns c0) None [] []) 0
  end.

(* ---- the world ---- *)
Record oworld := mkOW {
  ow_nss : list (nsid * list tid);
  ow_store : store;
  ow_ms : list (mid * omatrix);
  ow_next : mid;
  ow_generic : bool              (* all matrices of a history have one class: the plain CharacterMatrix or a typed one *)
}.

Definition abs_w (w : oworld) : world :=
  mkW (ow_nss w) (map (fun p => (fst p, abs_m (ow_store w) (snd p))) (ow_ms w)) (ow_next w).

Definition otaxa_of (w : oworld) (n : nsid) : list tid :=
  match aget n (ow_nss w) with Some T => T | None => [] end.

Definition oupd (w : oworld) (s : store) (m : mid) (mm : omatrix) : oworld :=
  mkOW (ow_nss w) s (aput m mm (ow_ms w)) (ow_next w) (ow_generic w).

Definition oadd_new (w : oworld) (s : store) (mm : omatrix) : oworld :=
  mkOW (ow_nss w) s (ow_ms w ++ [(ow_next w, mm)]) (ow_next w + 1) (ow_generic w).

(* operations: those of the value model, the in-place operations on a row obtained by m[key],
   and the two routes on which a caller can put one row object under two (matrix, taxon) slots *)
Inductive oop :=
| OBase (o : op)
| ORowAppend (m : mid) (k : key) (v : cell)           (* m[k].append(v) *)
| ORowExtend (m : mid) (k : key) (vs : row)           (* m[k].extend(vs) *)
| ORowSet (m : mid) (k : key) (i : Z) (v : cell)      (* m[k][i] = v *)
| ORowDel (m : mid) (k : key) (i : Z)                 (* del m[k][i] *)
| OSetItemRow (m : mid) (k : key) (o : mid) (t : tid) (* m[k] = o[t]    (o[t]: __getitem__ with a Taxon) *)
| OCopy (m : mid).                                    (* copy.copy(m) / m.clone(0) *)

Definition olift (w : oworld) (m : mid) (r : res (store * omatrix)) (o : out) : oworld * out :=
  match r with
  | Ok (s, mm) => (oupd w s m mm, o)
  | Err e => (w, OErr e)
  | OutOfFuel => (w, OErr Hang)
  end.

Definition olift_new (w : oworld) (r : res (store * omatrix)) : oworld * out :=
  match r with
  | Ok (s, mm) => (oadd_new w s mm, ONew (ow_next w))
  | Err e => (w, OErr e)
  | OutOfFuel => (w, OErr Hang)
  end.

Definition obad_id (w : oworld) : oworld * out := (w, OErr OtherErr).

Definition owith1 (w : oworld) (m : mid) (f : list tid -> omatrix -> oworld * out) : oworld * out :=
  match aget m (ow_ms w) with
  | Some mm => f (otaxa_of w (om_ns mm)) mm
  | None => obad_id w
  end.

Definition owith2 (w : oworld) (m o : mid) (f : omatrix -> omatrix -> oworld * out) : oworld * out :=
  match aget m (ow_ms w), aget o (ow_ms w) with
  | Some mm, Some mo => f mm mo
  | _, _ => obad_id w
  end.

(* the index of an in-place element operation: negative counts from the end *)
Definition norm_index (n i : Z) : option nat :=
  let j := if Z.ltb i 0 then n + i else i in
  if Z.leb 0 j && Z.ltb j n then Some (Z.to_nat j) else None.

Fixpoint set_nth (n : nat) (v : cell) (l : row) : row :=
  match n, l with
  | _, [] => []
  | O, _ :: r => v :: r
  | S k, x :: r => x :: set_nth k v r
  end.

Fixpoint del_nth (n : nat) (l : row) : row :=
  match n, l with
  | _, [] => []
  | O, _ :: r => r
  | S k, x :: r => x :: del_nth k r
  end.

(* what an in-place operation makes of the cells; None = IndexError *)
Inductive rowop := RAppend (v : cell) | RExtend (vs : row) | RSet (i : Z) (v : cell) | RDel (i : Z).

Definition apply_rowop (f : rowop) (c : row) : option row :=
  match f with
  | RAppend v => Some (c ++ [v])
  | RExtend vs => Some (c ++ vs)
  | RSet i v => match norm_index (zlen c) i with Some n => Some (set_nth n v c) | None => None end
  | RDel i => match norm_index (zlen c) i with Some n => Some (del_nth n c) | None => None end
  end.

(* m[k].<op>: __getitem__ (which may create the row) and then the list operation on that object *)
Definition o_rowop (w : oworld) (m : mid) (k : key) (f : rowop) : oworld * out :=
  owith1 w m (fun T mm =>
    match o_getitem T (ow_store w) mm k with
    | Ok (s, mm', r) =>
      match apply_rowop f (hget s r) with
      | Some c => (oupd w (mutate s r c) m mm', OUnit)
      | None => (oupd w s m mm', OErr IndexErr)
      end
    | Err e => (w, OErr e)
    | OutOfFuel => (w, OErr Hang)
    end).

Fixpoint oget_all (ms : list (mid * omatrix)) (l : list mid) : option (list omatrix) :=
  match l with
  | [] => Some []
  | i :: r => match aget i ms, oget_all ms r with
              | Some m, Some l => Some (m :: l)
              | _, _ => None
              end
  end.

Definition o_step_base (w : oworld) (o : op) : oworld * out :=
  let s := ow_store w in
  match o with
  | Concat l =>
    match oget_all (ow_ms w) l with
    | Some cms => olift_new w (o_concatenate (otaxa_of w) s cms)
    | None => obad_id w
    end
  | ConcatRead l =>
    (* the matrices come from a reader (fresh objects, dropped afterwards) *)
    match oget_all (ow_ms w) l with
    | Some cms =>
      olift_new w (match concatenate lower suffix locus (otaxa_of w)
                           (map (fun cm => as_read (otaxa_of w) (abs_m s cm)) cms) with
                   | Ok vm => Ok (o_install s vm)
                   | Err e => Err e
                   | OutOfFuel => OutOfFuel
                   end)
    | None => obad_id w
    end
  | ExportIdx m idx => owith1 w m (fun T mm => olift_new w (Ok (o_export T s mm idx)))
  | ExportSub m l =>
    owith1 w m (fun T mm => match find_sub lower l (om_subs mm) with
                            | None => (w, OErr KeyErr)
                            | Some idx => olift_new w (Ok (o_export T s mm idx))
                            end)
  | Fill m v size append =>
    owith1 w m (fun T mm => let '(s', sz) := o_fill T s mm v size append in (oupd w s' m mm, OInt sz))
  | FillTaxa m =>
    owith1 w m (fun T mm => let '(s', sr) := o_fill_taxa_rows (ow_generic w) T (s, om_rows mm) in
                            (oupd w s' m (oset_rows mm sr), OUnit))
  | Pack m v size append =>
    owith1 w m (fun T mm => let '(s', mm') := o_pack (ow_generic w) T s mm v size append in (oupd w s' m mm', OUnit))
  | AddSeqs m o => owith2 w m o (fun mm mo => olift w m (o_binary o_add_rows s mm mo) OUnit)
  | ReplaceSeqs m o => owith2 w m o (fun mm mo => olift w m (o_binary o_replace_rows s mm mo) OUnit)
  | UpdateSeqs m o => owith2 w m o (fun mm mo => olift w m (o_binary o_update_rows s mm mo) OUnit)
  | ExtendSeqs m o addnew => owith2 w m o (fun mm mo => olift w m (o_binary (o_extend_rows addnew) s mm mo) OUnit)
  | ExtendMatrix m o => owith2 w m o (fun mm mo => olift w m (o_binary o_extend_matrix_rows s mm mo) OUnit)
  | RemoveSeqs m ts =>
    owith1 w m (fun T mm => let '(rs, e) := o_remove_rows (om_rows mm) ts in
                            (oupd w s m (oset_rows mm rs), match e with None => OUnit | Some x => OErr x end))
  | DiscardSeqs m ts => owith1 w m (fun T mm => (oupd w s m (oset_rows mm (o_discard_rows (om_rows mm) ts)), OUnit))
  | KeepSeqs m ts => owith1 w m (fun T mm => (oupd w s m (oset_rows mm (o_keep_rows (om_rows mm) ts)), OUnit))
  | NewSeq m t vals =>
    owith1 w m (fun T mm => match o_new_sequence T s mm t vals with
                            | Ok (s', mm', _) => (oupd w s' m mm', ORow vals)
                            | Err e => (w, OErr e)
                            | OutOfFuel => (w, OErr Hang)
                            end)
  | SetItem m k vals => owith1 w m (fun T mm => olift w m (o_setitem_vals T s mm k vals) OUnit)
  | GetItem m k =>
    owith1 w m (fun T mm => match o_getitem T s mm k with
                            | Ok (s', mm', r) => (oupd w s' m mm', ORow (hget s' r))
                            | Err e => (w, OErr e)
                            | OutOfFuel => (w, OErr Hang)
                            end)
  | NewSubset m l idx =>
    owith1 w m (fun T mm => match o_new_character_subset mm l idx with
                            | Ok mm' => (oupd w s m mm', OUnit)
                            | Err e => (w, OErr e)
                            | OutOfFuel => (w, OErr Hang)
                            end)
  end.

Definition o_step (w : oworld) (o : oop) : oworld * out :=
  match o with
  | OBase b => o_step_base w b
  | ORowAppend m k v => o_rowop w m k (RAppend v)
  | ORowExtend m k vs => o_rowop w m k (RExtend vs)
  | ORowSet m k i v => o_rowop w m k (RSet i v)
  | ORowDel m k i => o_rowop w m k (RDel i)
  | OSetItemRow m k o t =>
    (* the right-hand side o[t] is evaluated first (it creates the row in o when there is none) *)
    match aget o (ow_ms w) with
    | None => obad_id w
    | Some mo =>
      match o_getitem (otaxa_of w (om_ns mo)) (ow_store w) mo (KTax t) with
      | Ok (s1, mo', r) =>
        let w1 := oupd w s1 o mo' in
        owith1 w1 m (fun T mm =>
          match o_setitem_obj true T s1 mm k r with
          | Ok (s2, mm') => (oupd w1 s2 m mm', OUnit)
          | Err e => (w1, OErr e)
          | OutOfFuel => (w1, OErr Hang)
          end)
      | Err e => (w, OErr e)
      | OutOfFuel => (w, OErr Hang)
      end
    end
  | OCopy m => owith1 w m (fun T mm => olift_new w (Ok (ow_store w, o_shallow_copy mm)))
  end.

Definition o_run (w : oworld) (ops : list oop) : oworld :=
  fold_left (fun w o => fst (o_step w o)) ops w.

End WithLabels.

(* the operations that never store an object they were handed *)
Definition copying (o : oop) : bool :=
  match o with OSetItemRow _ _ _ _ | OCopy _ => false | _ => true end.

(* every matrix built by the constructor + new_sequence: all rows fresh objects *)
Fixpoint o_init_ms (s : store) (ms : list (mid * matrix)) : store * list (mid * omatrix) :=
  match ms with
  | [] => (s, [])
  | (j, m) :: rest => let '(s1, om) := o_install s m in
                      let '(s2, out) := o_init_ms s1 rest in (s2, (j, om) :: out)
  end.

Definition o_init (nss : list (nsid * list tid)) (generic : bool) (ms : list (mid * matrix)) : oworld :=
  let '(s, oms) := o_init_ms (mkS [] 0) ms in mkOW nss s oms (zlen ms) generic.

Definition all_ids (w : oworld) : list rid := flat_map (fun p => ids (om_rows (snd p))) (ow_ms w).

(* ---- comparison with the implementation's observation (cases.v) ---- *)
Definition idrows := list (tid * Z).
Definition idrows_eqb (a b : idrows) : bool :=
  list_eqb (fun x y => Z.eqb (fst x) (fst y) && Z.eqb (snd x) (snd y)) a b.

Definition id_view (ms : list (mid * omatrix)) : list (mid * idrows) := map (fun p => (fst p, om_rows (snd p))) ms.

Definition id_delta (before after : list (mid * idrows)) : list (mid * idrows) :=
  filter (fun p => match aget (fst p) before with
                   | Some r => negb (idrows_eqb r (snd p))
                   | None => true
                   end) after.

(* extend a partial injective renaming (model id -> observed id) by one pair; None = clash *)
Definition ren_add (ren : list (rid * Z)) (a : rid) (b : Z) : option (list (rid * Z)) :=
  match aget a ren with
  | Some b' => if Z.eqb b' b then Some ren else None
  | None => if existsb (fun p => Z.eqb (snd p) b) ren then None else Some ((a, b) :: ren)
  end.

Fixpoint ren_rows (ren : list (rid * Z)) (a b : idrows) : option (list (rid * Z)) :=
  match a, b with
  | [], [] => Some ren
  | (t, x) :: ra, (t', y) :: rb =>
    if Z.eqb t t' then match ren_add ren x y with Some ren' => ren_rows ren' ra rb | None => None end
    else None
  | _, _ => None
  end.

Fixpoint ren_views (ren : list (rid * Z)) (a b : list (mid * idrows)) : option (list (rid * Z)) :=
  match a, b with
  | [], [] => Some ren
  | (j, x) :: ra, (j', y) :: rb =>
    if Z.eqb j j' then match ren_rows ren x y with Some ren' => ren_views ren' ra rb | None => None end
    else None
  | _, _ => None
  end.

Record ocase := mkOCase {
  oc_base : case;          (* label tables, namespaces, initial matrices; its c_ops / c_expected are the
                              history again when it consists of operations of the value model only *)
  oc_generic : bool;
  oc_init_ids : list (mid * idrows);                       (* observed row-object ids of the initial matrices *)
  oc_ops : list oop;
  oc_expected : list (out * list (mid * matrix) * list (mid * idrows))
      (* per step: result, matrices whose VALUE changed, matrices whose taxon -> object map changed *)
}.

Definition ocase_step (c : ocase) :=
  o_step (tbl1 (c_lower (oc_base c)) (fun x => x)) (tbl2 (c_suffix (oc_base c)))
         (tbl1 (c_locus (oc_base c)) (fun i => -(2000000 + i))).

Definition ocase_world (c : ocase) : oworld := o_init (c_nss (oc_base c)) (oc_generic c) (c_init (oc_base c)).

(* walks the history; the renaming is threaded through all steps, so an object keeps its identity *)
Fixpoint ocheck (c : ocase) (w : oworld) (ren : list (rid * Z)) (ops : list oop)
         (exp : list (out * list (mid * matrix) * list (mid * idrows))) : bool :=
  match ops, exp with
  | [], [] => true
  | o :: ro, (x, dv, di) :: re =>
    let '(w', y) := ocase_step c w o in
    out_eqb y x
    && list_eqb idm_eqb (delta (w_ms (abs_w w)) (w_ms (abs_w w'))) dv
    && match ren_views ren (id_delta (id_view (ow_ms w)) (id_view (ow_ms w'))) di with
       | Some ren' => ocheck c w' ren' ro re
       | None => false
       end
  | _, _ => false
  end.

Definition ocase_ok (c : ocase) : bool :=
  case_ok (oc_base c)
  && match ren_views [] (id_view (ow_ms (ocase_world c))) (oc_init_ids c) with
     | Some ren => ocheck c (ocase_world c) ren (oc_ops c) (oc_expected c)
     | None => false
     end.

(* for show_fn: what the object-level model computes *)
Fixpoint ocase_trace (c : ocase) (w : oworld) (ops : list oop) :=
  match ops with
  | [] => []
  | o :: r => let '(w', y) := ocase_step c w o in
              (y, delta (w_ms (abs_w w)) (w_ms (abs_w w')), id_delta (id_view (ow_ms w)) (id_view (ow_ms w')))
              :: ocase_trace c w' r
  end.
Definition ocase_run (c : ocase) := ocase_trace c (ocase_world c) (oc_ops c).
