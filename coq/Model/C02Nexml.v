(* C02: element-level executable model of the NeXML tree writer and reader.

   The XML text layer (Python's xml library, the attribute quoting of xml.sax.saxutils.quoteattr,
   the rendering "d<k>" of identifiers, str(float)/float() of lengths) is TRUSTED: the model works on
   element records.  The correspondence harness parses the text the library wrote with ElementTree
   into these records (writer side) and compares the reader's result on that text with the model
   reader run on the records (reader side).

   Writer : NexmlWriter._write for one tree list over one namespace: _write_taxon_namespace,
            _write_tree_list, _write_tree, _write_node, _write_edge, _get_nexml_id (ids are handed
            out in the order objects are first written: namespace, taxa, tree list, then per tree:
            the tree, its nodes in preorder, its edges in preorder)            (nexmlwriter.py)
   Reader : NexmlReader._parse_taxon_namespaces (otu list), _parse_tree_list,
            _NexmlTreeParser.build_tree / _parse_nodes / _parse_edge_info       (nexmlreader.py)

   Not modelled: annotations/comments (meta elements), tree/edge/namespace labels, length_type other
   than float, several otus/trees elements, attached_taxon_namespace.  build_tree with more than one
   parentless node iterates a Python set of Nodes (id()-dependent order): NUnmodelledX. *)
From Coq Require Import ZArith List Bool.
From DV Require Import Model.PyPrims Gen.CharClasses Model.Tokenizer Model.Newick.
Import ListNotations.

Section Nexml.
Variable L : Type.

Record xnode : Type := mkXNode { xn_id : nat; xn_label : option str; xn_otu : option nat; xn_root : bool }.
Record xedge : Type := mkXEdge { xe_id : nat; xe_source : option nat; xe_target : option nat; xe_length : option L }.
Record xtree : Type := mkXTree { xt_id : nat; xt_nodes : list xnode; xt_rootedge : option xedge; xt_edges : list xedge }.
Record xdoc : Type := mkXDoc {
  xd_otus_id : nat;
  xd_otus : list (nat * option str);     (* <otu id= label=> in document order *)
  xd_trees_id : nat;
  xd_trees_otus : nat;                   (* <trees otus=> *)
  xd_trees : list xtree
}.

(* ------------------------------------------------------------------------------------------ *)
(* writer                                                                                      *)

Fixpoint index_of_label (l : str) (ns : list str) (i : nat) : option nat :=
  match ns with
  | [] => None
  | x :: r => if str_eqb x l then Some i else index_of_label l r (S i)
  end.

(* truthiness of a label: `if node.label:` *)
Definition truthy_label (l : option str) : option str :=
  match l with Some (c :: s) => Some (c :: s) | _ => None end.

(* the nodes of a tree in preorder with the ids k, k+1, ...: (elements, next id).
   taxon ids: the i-th taxon of the namespace has id otu0 + i.  A taxon that is not a member of the
   namespace makes _taxon_id_map raise KeyError: None. *)
Fixpoint write_nodes (ns : list str) (otu0 : nat) (is_rooted : bool) (is_seed : bool) (t : ntree L) (k : nat)
  : option (list xnode * nat) :=
  match t with
  | Nd tx lb ln ks =>
    match (match tx with
           | None => Some None
           | Some l => match index_of_label l ns O with Some i => Some (Some (otu0 + i)%nat) | None => None end
           end) with
    | None => None
    | Some otu =>
      let me := mkXNode k (truthy_label lb) otu (is_rooted && is_seed) in
      (fix go (ks : list (ntree L)) (k : nat) (acc : list xnode) : option (list xnode * nat) :=
         match ks with
         | [] => Some (acc, k)
         | c :: r => match write_nodes ns otu0 is_rooted false c k with
                     | None => None
                     | Some (xs, k') => go r k' (acc ++ xs)
                     end
         end) ks (S k) [me]
    end
  end.

(* the ids given to the nodes by write_nodes: the id of a node = k + its preorder rank *)
Fixpoint nsize (t : ntree L) : nat :=
  match t with Nd _ _ _ ks => S (fold_right (fun c n => (nsize c + n)%nat) O ks) end.

(* the edges in preorder_edge_iter order; node ids start at nk, edge ids at ek.
   `parent` = id of the tail node (None for the seed: <rootedge>) *)
Fixpoint write_edges (parent : option nat) (t : ntree L) (nk ek : nat) : list xedge * nat :=
  match t with
  | Nd tx lb ln ks =>
    let me := mkXEdge ek parent (Some nk) ln in
    (fix go (ks : list (ntree L)) (cnk ek : nat) (acc : list xedge) : list xedge * nat :=
       match ks with
       | [] => (acc, ek)
       | c :: r => let '(es, ek') := write_edges (Some nk) c cnk ek in
                   go r (cnk + nsize c)%nat ek' (acc ++ es)
       end) ks (S nk) (S ek) [me]
  end.

(* _write_tree: tree id, then node ids, then edge ids *)
Definition write_xtree (ns : list str) (otu0 : nat) (rt : option bool * ntree L) (k : nat) : option (xtree * nat) :=
  let rooted := match fst rt with Some true => true | _ => false end in
  match write_nodes ns otu0 rooted true (snd rt) (S k) with
  | None => None
  | Some (nodes, k1) =>
    let '(edges, k2) := write_edges None (snd rt) (S k) k1 in
    match edges with
    | re :: es => Some (mkXTree k nodes (Some re) es, k2)
    | [] => None
    end
  end.

Fixpoint write_xtrees (ns : list str) (otu0 : nat) (ts : list (option bool * ntree L)) (k : nat) : option (list xtree * nat) :=
  match ts with
  | [] => Some ([], k)
  | rt :: r => match write_xtree ns otu0 rt k with
               | None => None
               | Some (x, k') => match write_xtrees ns otu0 r k' with
                                 | None => None
                                 | Some (xs, k'') => Some (x :: xs, k'')
                                 end
               end
  end.

(* _write: namespace id 0, taxa 1..n, tree list n+1, trees from n+2 *)
Definition write_nexml (ns : list str) (ts : list (option bool * ntree L)) : option xdoc :=
  let n := length ns in
  match write_xtrees ns 1 ts (S (S n)) with
  | None => None
  | Some (xs, _) =>
    Some (mkXDoc O (map (fun il => (S (fst il), truthy_label (Some (snd il)))) (enum_from O ns)) (S n) O xs)
  end.

(* ------------------------------------------------------------------------------------------ *)
(* reader                                                                                      *)

Inductive xres (A : Type) : Type :=
| XOk : A -> xres A
| XErr : err -> xres A
| XFuel : xres A
| XUnmodelled : xres A.
Arguments XOk {A} _.
Arguments XErr {A} _.
Arguments XFuel {A}.
Arguments XUnmodelled {A}.

Definition xbind {A B} (r : xres A) (f : A -> xres B) : xres B :=
  match r with XOk a => f a | XErr e => XErr e | XFuel => XFuel | XUnmodelled => XUnmodelled end.
Notation "'dx' x <- r ;; k" := (xbind r (fun x => k)) (at level 200, x pattern, r at level 100, k at level 200).

(* a Node object under construction *)
Record cell : Type := mkCell {
  c_label : option str; c_taxon : option nat; c_parent : option nat; c_kids : list nat; c_len : option L
}.

Fixpoint lookup_nat {A} (k : nat) (l : list (nat * A)) : option A :=
  match l with
  | [] => None
  | (k', v) :: r => if Nat.eqb k k' then Some v else lookup_nat k r
  end.

Fixpoint update_nat {A} (k : nat) (v : A) (l : list (nat * A)) : list (nat * A) :=
  match l with
  | [] => []
  | (k', v') :: r => if Nat.eqb k k' then (k', v) :: r else (k', v') :: update_nat k v r
  end.

(* _parse_nodes: node_id_map (later nodes with the same id replace earlier ones in the dict; the
   model keeps the first and reports duplicate ids as unmodelled) *)
Fixpoint parse_nodes (taxa : list (nat * nat)) (xs : list xnode) (cells : list (nat * cell)) (roots : list nat)
  : xres (list (nat * cell) * list nat) :=
  match xs with
  | [] => XOk (cells, roots)
  | x :: r =>
    match lookup_nat (xn_id x) cells with
    | Some _ => XUnmodelled
    | None =>
      dx tx <- (match xn_otu x with
                | None => XOk None
                | Some oid => match lookup_nat oid taxa with
                              | Some i => XOk (Some i)
                              | None => XErr OtherErr     (* "Taxon with id ... not defined" *)
                              end
                end) ;;
      parse_nodes taxa r (cells ++ [(xn_id x, mkCell (xn_label x) tx None [] None)])
                  (if xn_root x then roots ++ [xn_id x] else roots)
    end
  end.

(* the loop over the <edge> elements: head.parent_node = tail (appends head to tail's children) *)
Fixpoint attach_edges (es : list xedge) (cells : list (nat * cell)) (unparented : list nat)
  : xres (list (nat * cell) * list nat) :=
  match es with
  | [] => XOk (cells, unparented)
  | e :: r =>
    match xe_target e with
    | None => XErr OtherErr
    | Some hid =>
      match lookup_nat hid cells with
      | None => XErr OtherErr
      | Some hc =>
        match xe_source e with
        | None =>
          (* an <edge> without source: `assert head_node.parent_node is None`, then edge details *)
          match c_parent hc with
          | Some _ => XErr AssertErr
          | None => attach_edges r (update_nat hid (mkCell (c_label hc) (c_taxon hc) None (c_kids hc) (xe_length e)) cells) unparented
          end
        | Some tid =>
          match lookup_nat tid cells with
          | None => XErr OtherErr
          | Some tc =>
            (* re-parenting an already attached node, or a self loop, is not modelled *)
            match c_parent hc with
            | Some _ => XUnmodelled
            | None =>
              if Nat.eqb hid tid then XUnmodelled
              else
                let cells1 := update_nat tid (mkCell (c_label tc) (c_taxon tc) (c_parent tc) (c_kids tc ++ [hid]) (c_len tc)) cells in
                let cells2 := update_nat hid (mkCell (c_label hc) (c_taxon hc) (Some tid) (c_kids hc) (xe_length e)) cells1 in
                attach_edges r cells2 (filter (fun i => negb (Nat.eqb i hid)) unparented)
            end
          end
        end
      end
    end
  end.

(* the Node structure below a node, as a tree (fuel = number of cells) *)
Fixpoint build (fuel : nat) (cells : list (nat * cell)) (id : nat) : xres (ptree L) :=
  match fuel with
  | O => XFuel
  | S f =>
    match lookup_nat id cells with
    | None => XErr OtherErr
    | Some c =>
      dx ks <- (fix go (ids : list nat) : xres (list (ptree L)) :=
                  match ids with
                  | [] => XOk []
                  | i :: r => dx k <- build f cells i ;; dx ks <- go r ;; XOk (k :: ks)
                  end) (c_kids c) ;;
      XOk (PN (c_taxon c) (c_label c) (c_len c) [] ks)
    end
  end.

(* _NexmlTreeParser.build_tree *)
Definition build_tree (taxa : list (nat * nat)) (x : xtree) : xres (ptree_result L) :=
  dx cr <- parse_nodes taxa (xt_nodes x) [] [] ;;
  let '(cells0, roots) := cr in
  dx seed0 <- (match roots with
               | [] => XOk None
               | [r] => XOk (Some r)
               | _ => XErr OtherErr            (* "Multiple root nodes defined" *)
               end) ;;
  dx cu <- attach_edges (xt_edges x) cells0 (map fst cells0) ;;
  let '(cells1, unparented) := cu in
  dx seed <- (match unparented with
              | [u] => match seed0 with
                       | Some r => if Nat.eqb r u then XOk u else XErr OtherErr
                       | None => XOk u
                       end
              | [] => XErr OtherErr              (* "tree must be acyclic" *)
              | _ => XUnmodelled                 (* children added in set iteration order *)
              end) ;;
  dx cells2 <- (match xt_rootedge x with
                | None => XOk cells1
                | Some re =>
                  match xe_target re with
                  | None => XErr KeyErr
                  | Some t =>
                    match lookup_nat t cells1 with
                    | None => XErr KeyErr
                    | Some c => if Nat.eqb t seed
                                then XOk (update_nat t (mkCell (c_label c) (c_taxon c) (c_parent c) (c_kids c) (xe_length re)) cells1)
                                else XErr OtherErr
                    end
                  end
                end) ;;
  dx t <- build (S (length cells2)) cells2 seed ;;
  XOk (mkPR (Some (match seed0 with Some _ => true | None => false end)) [] t).

Fixpoint build_trees (taxa : list (nat * nat)) (xs : list xtree) : xres (list (ptree_result L)) :=
  match xs with
  | [] => XOk []
  | x :: r => dx t <- build_tree taxa x ;; dx ts <- build_trees taxa r ;; XOk (t :: ts)
  end.

(* NexmlReader: one <otus>, one <trees>.  Result: namespace labels, trees (taxon = position) *)
Definition read_nexml (d : xdoc) : xres (list (option str) * list (ptree_result L)) :=
  let labels := map snd (xd_otus d) in
  let taxa := map (fun il => (fst (snd il), fst il)) (enum_from O (xd_otus d)) in
  if negb (Nat.eqb (xd_trees_otus d) (xd_otus_id d)) then XErr OtherErr
  else if is_nil (xd_otus d) then XErr OtherErr        (* `if not taxon_namespace` : an empty namespace is falsy *)
  else dx ts <- build_trees taxa (xd_trees d) ;; XOk (labels, ts).

End Nexml.

Arguments XOk {A} _.
Arguments XErr {A} _.
Arguments XFuel {A}.
Arguments XUnmodelled {A}.
