(* C04, specification-level definitions used by the second group of theorems (Props/C04.v):
     - the domain "leaves carry pairwise distinct taxa of the namespace" as a check on the tree,
     - the exact domain of the listed finding weighted-distance-root-adjacent-edge-collision,
     - Tree.reseed_at(node) (default arguments) on a tree as a rotation along the path from the seed
       to the node followed by the clean-up reseed_at performs itself.
   Executable; the reseed function is tied to the library by py/dv/c04.py (a second group of cases:
   the dump of the real tree after the real reseed_at is compared with it, inside Coq). *)
From Coq Require Import ZArith List Bool.
From DV Require Import Model.PyPrims Model.Tree Model.C04Model.
Import ListNotations.
Open Scope Z_scope.

(* accession indices of the leaf taxa, left to right (a leaf without taxon, or whose taxon is not a
   member of the namespace, contributes nothing) *)
Fixpoint bits (acc : acc_map) (t : tree) : list Z :=
  match t with
  | T _ x _ _ [] =>
    match x with
    | Some tx => match zlookup tx acc with Some i => [i] | None => [] end
    | None => []
    end
  | T _ _ _ _ ks => flat_map (bits acc) ks
  end.

(* every leaf carries a taxon that is a member of the namespace *)
Fixpoint has_bits (acc : acc_map) (t : tree) : bool :=
  match t with
  | T _ x _ _ [] =>
    match x with
    | Some tx => match zlookup tx acc with Some _ => true | None => false end
    | None => false
    end
  | T _ _ _ _ ks => forallb (has_bits acc) ks
  end.

(* every leaf carries a taxon of the namespace; accession indices are non-negative and pairwise
   distinct (TaxonNamespace guarantees the latter two for its members: property C10) *)
Definition distinct_taxa (acc : acc_map) (t : tree) : bool :=
  has_bits acc t && forallb (fun i => Z.leb 0 i) (bits acc t) && nodupb (bits acc t).

(* the domain of the second group of theorems: distinct leaf taxa, distinct node identities *)
Definition proper (acc : acc_map) (s : struct) : bool :=
  distinct_taxa acc (fst s) && nodupb (map t_id (postorder (fst s))).

(* no node of outdegree one *)
Fixpoint unifurcation_free (t : tree) : bool :=
  match t with
  | T _ _ _ _ ks => negb (Nat.eqb (length ks) 1) && forallb unifurcation_free ks
  end.

Definition n_leaves (t : tree) : nat := length (leaf_taxa t).

(* the domain of the finding: a tree that is not rooted and whose seed still has exactly two children
   after encode_bipartitions() has normalised it *)
Definition collides (mg : bool) (s : struct) : bool :=
  negb (is_true (snd s)) && Nat.eqb (nkids (fst (normalise mg s))) 2.

(* ------------------------------------------------------------------------------------------ *)
(* reseed_at *)

Fixpoint remove_nth {A} (n : nat) (l : list A) : list A :=
  match l, n with
  | [], _ => []
  | _ :: r, O => r
  | x :: r, S m => x :: remove_nth m r
  end.

(* Edge.invert() of the edge between the seed and its p-th child c: c becomes the seed, the old seed
   its LAST child; the two edge lengths are exchanged (the length stays with the edge, the seed edge's
   length with the seed) *)
Definition rotate1 (t : tree) (p : nat) : option tree :=
  match t with
  | T i x l e ks =>
    match nth_error ks p with
    | Some (T ci cx cl ce cks) =>
      match cks with
      | [] => None                      (* reseed_at takes an internal node *)
      | _ => Some (T ci cx cl e (cks ++ [T i x l ce (remove_nth p ks)]))
      end
    | None => None
    end
  end.

(* the edges on the path are inverted from the seed downwards; a path is the list of child positions,
   each taken in the tree as rotated so far *)
Fixpoint rotate (t : tree) (path : list nat) : option tree :=
  match path with
  | [] => Some t
  | p :: rest => match rotate1 t p with Some t' => rotate t' rest | None => None end
  end.

(* Tree.reseed_at(node, update_bipartitions=False, collapse_unrooted_basal_bifurcation=True,
   suppress_unifurcations=True): rotation, then collapse_basal_bifurcation() if the tree is not rooted
   and the new seed has two children, then suppress_unifurcations() - the same two steps
   encode_bipartitions() starts with *)
Definition reseed (mg : bool) (s : struct) (path : list nat) : option struct :=
  match rotate (fst s) path with
  | Some t' => Some (normalise mg (t', snd s))
  | None => None
  end.

(* ------------------------------------------------------------------------------------------ *)
(* second group of correspondence cases: structure, path, expected structure after reseed_at *)

Record rcase := mkRCase {
  rc_mg : bool;
  rc_struct : struct;
  rc_path : list nat;
  rc_expect : option struct     (* None: the harness expects the model to refuse the path *)
}.

Definition ostruct_eqb (a b : option struct) : bool :=
  match a, b with
  | Some x, Some y => struct_eqb x y
  | None, None => true
  | _, _ => false
  end.

Definition rcase_ok (c : rcase) : bool := ostruct_eqb (reseed (rc_mg c) (rc_struct c) (rc_path c)) (rc_expect c).
Definition rcase_run (c : rcase) : option struct := reseed (rc_mg c) (rc_struct c) (rc_path c).
