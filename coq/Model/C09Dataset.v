(* C09: data sets with several taxon namespaces in NEXUS, token level:
   - the titles NexusWriter._get_block_title hands out (uniquified against the titles already
     given, by exact string comparison),
   - NexusReader._get_taxon_namespace: the namespace a block's LINK TAXA title (or no LINK)
     resolves to (titles compared after .upper()),
   - the resolver a CHARACTERS block is read with (Model/C09Nexus.v `resolve`).
   The TAXA block itself (TITLE, DIMENSIONS, TAXLABELS -> a namespace with that label and those
   taxa) and the payload of TREES blocks are the token-level tree reader's (property C02); a
   TREES block resolves its LINK through the same `get_taxon_namespace`. *)
From Coq Require Import ZArith List Bool.
From DV Require Import Model.PyPrims Model.C09AlphaTypes Model.C09Model Model.C09Nexus.
Import ListNotations.
Open Scope Z_scope.

(* the reader's self._taxon_namespaces: (label, taxon labels) in the order the TAXA blocks came *)
Definition ns_table := list (option tok * list text).

Fixpoint titled (title : tok) (tab : ns_table) (i : nat) : list nat :=
  match tab with
  | [] => []
  | (Some l, _) :: r => if text_eqb (ucase l) (ucase title) then i :: titled title r (S i) else titled title r (S i)
  | (None, _) :: r => titled title r (S i)
  end.

(* _get_taxon_namespace(title): no attached namespace, automatically_* options off.
   Returns the table (a namespace is created when there is none at all) and the index. *)
Definition get_taxon_namespace (tab : ns_table) (title : option tok) : res (ns_table * nat) :=
  match title with
  | None =>
    match tab with
    | [] => Ok ([(None, [])], O)
    | [_] => Ok (tab, O)
    | _ => Err ParseErr                              (* LinkRequiredError *)
    end
  | Some t =>
    match titled t tab O with
    | [] => Err ParseErr                             (* UndefinedBlockError *)
    | [i] => Ok (tab, i)
    | _ => Err ParseErr                              (* MultipleBlockWithSameTitleError *)
    end
  end.

Definition resolve_in (tab : ns_table) (link : option tok) (_ : list text) : res (list text) :=
  do x <- get_taxon_namespace tab link ;;
  let (tab', i) := x in
  match nth_error tab' i with Some (_, labels) => Ok labels | None => Err OtherErr end.

(* ---- writer: titles ---- *)

Section Titles.
(* nexusprocessing.escape_nexus_token with the writer's options: the TEXT a title is written as.
   An uninterpreted function here (its properties are the token layer's, C02); the harness
   supplies its values on the titles of a case. *)
Variable esc : tok -> text.
(* the key a title goes by in _title_block_map: the title itself in the writer as it was (exact
   comparison), title.upper() after the repair (what the reader compares) *)
Variable norm : text -> text.

(* _get_block_title for one block whose label (or str(id(block))) is `l`: the title is escaped
   FIRST and the key of the escaped text is what is tested against, and stored in,
   _title_block_map (`used`: the keys of the titles handed out so far); each retry escapes
   "<label>.<idx>" *)
Fixpoint uniq_title (fuel : nat) (l : tok) (used : list text) (idx : Z) (title : text) : res text :=
  match fuel with
  | O => OutOfFuel
  | S f => if text_mem (norm title) used then uniq_title f l used (idx + 1) (esc (l ++ 46 :: render_nat idx))
           else Ok title
  end.

(* the escaped titles of a sequence of blocks, in the order they ask for a title *)
Fixpoint assign_titles (labels : list tok) (used : list text) : res (list text) :=
  match labels with
  | [] => Ok []
  | l :: r => do t <- uniq_title (S (length used)) l used 1 (esc l) ;;
              do ts <- assign_titles r (used ++ [norm t]) ;; Ok (t :: ts)
  end.
End Titles.

(* _link_blocks *)
Definition link_blocks (suppress_block_titles : option bool) (n_namespaces : Z) : bool :=
  match suppress_block_titles with
  | None => 1 <? n_namespaces
  | Some b => negb b
  end.

(* ---- _get_block_title as a whole: one request for the title of one block ----
   A block (taxon namespace, matrix, tree list) is its identity (a number) plus its label; `given`
   lists (block, escaped title) in the order the titles were handed out: it is the writer's
   _block_title_map, and read the other way round its _title_block_map. *)
Section BlockTitle.
Variable esc : tok -> text.
Variable norm : text -> text.
Variable idstr : nat -> text.          (* str(id(block)): an input *)

(* the string a title is made from: the label, or str(id(block)) when the label is None or empty *)
Definition title_source (b : nat) (label : option text) : tok :=
  match label with
  | Some (c :: r) => c :: r
  | _ => idstr b
  end.

Fixpoint title_of_block (given : list (nat * text)) (b : nat) : option text :=
  match given with
  | [] => None
  | (j, t) :: r => if Nat.eqb b j then Some t else title_of_block r b
  end.

(* the writer's _title_block_map: the same pairs, keyed by the key of the (escaped) title *)
Definition title_block_map (given : list (nat * text)) : list (text * nat) := map (fun e => (norm (snd e), fst e)) given.

Definition get_block_title (fuel : nat) (linked : bool) (given : list (nat * text)) (b : nat) (label : option text)
  : res (list (nat * text) * option text) :=
  if negb linked then Ok (given, None)
  else match title_of_block given b with
       | Some t => Ok (given, Some t)
       | None => do t <- uniq_title esc norm fuel (title_source b label) (map norm (map snd given)) 1 (esc (title_source b label)) ;;
                 Ok (given ++ [(b, t)], Some t)
       end.

(* the titles a sequence of blocks gets, each asking once, in this order *)
Fixpoint request_titles (blocks : list (nat * option text)) (given : list (nat * text)) : res (list text) :=
  match blocks with
  | [] => Ok []
  | (b, l) :: r =>
    do x <- get_block_title (S (length given)) true given b l ;;
    match snd x with
    | Some t => do ts <- request_titles r (fst x) ;; Ok (t :: ts)
    | None => Err OtherErr
    end
  end.
End BlockTitle.
