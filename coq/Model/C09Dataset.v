(* C09: data sets with several taxon namespaces in NEXUS, token level:
   - the titles NexusWriter._get_block_title hands out (uniquified against the titles already
     given, by exact string comparison),
   - NexusReader._get_taxon_namespace: the namespace a block's LINK TAXA title (or no LINK)
     resolves to (titles compared after .upper()),
   - the resolver a CHARACTERS block is read with (Model/C09Nexus.v `resolve`).
   The TAXA block itself (TITLE, DIMENSIONS, TAXLABELS -> a namespace with that label and those
   taxa) and the payload of TREES blocks are the token-level tree reader's (property C02); a
   TREES block resolves its LINK through the same `get_taxon_namespace`. *)
From Coq Require Import ZArith List Bool.
From DV Require Import Model.PyPrims Model.C09AlphaTypes Model.C09Model Model.C09Nexus.
Import ListNotations.
Open Scope Z_scope.

(* the reader's self._taxon_namespaces: (label, taxon labels) in the order the TAXA blocks came *)
Definition ns_table := list (option tok * list text).

Fixpoint titled (title : tok) (tab : ns_table) (i : nat) : list nat :=
  match tab with
  | [] => []
  | (Some l, _) :: r => if text_eqb (ucase l) (ucase title) then i :: titled title r (S i) else titled title r (S i)
  | (None, _) :: r => titled title r (S i)
  end.

(* _get_taxon_namespace(title): no attached namespace, automatically_* options off.
   Returns the table (a namespace is created when there is none at all) and the index. *)
Definition get_taxon_namespace (tab : ns_table) (title : option tok) : res (ns_table * nat) :=
  match title with
  | None =>
    match tab with
    | [] => Ok ([(None, [])], O)
    | [_] => Ok (tab, O)
    | _ => Err ParseErr                              (* LinkRequiredError *)
    end
  | Some t =>
    match titled t tab O with
    | [] => Err ParseErr                             (* UndefinedBlockError *)
    | [i] => Ok (tab, i)
    | _ => Err ParseErr                              (* MultipleBlockWithSameTitleError *)
    end
  end.

Definition resolve_in (tab : ns_table) (link : option tok) (_ : list text) : res (list text) :=
  do x <- get_taxon_namespace tab link ;;
  let (tab', i) := x in
  match nth_error tab' i with Some (_, labels) => Ok labels | None => Err OtherErr end.

(* ---- writer: titles ---- *)

(* _get_block_title for one block whose label (or str(id(block))) is `l`, given the titles handed
   out so far; the token-level title is the label itself (escaping is C02's) *)
Fixpoint uniq_title (fuel : nat) (l : tok) (used : list tok) (idx : Z) (title : tok) : res tok :=
  match fuel with
  | O => OutOfFuel
  | S f => if text_mem title used then uniq_title f l used (idx + 1) (l ++ 46 :: render_nat idx)
           else Ok title
  end.

Fixpoint assign_titles (labels : list tok) (used : list tok) : res (list tok) :=
  match labels with
  | [] => Ok []
  | l :: r => do t <- uniq_title (S (length used)) l used 1 l ;;
              do ts <- assign_titles r (used ++ [t]) ;; Ok (t :: ts)
  end.

(* _link_blocks *)
Definition link_blocks (suppress_block_titles : option bool) (n_namespaces : Z) : bool :=
  match suppress_block_titles with
  | None => 1 <? n_namespaces
  | Some b => negb b
  end.
