(* C09, wave 7: the matrix as an OBJECT.

   Part 1 - iteration order.  A CharacterMatrix is a taxon namespace (an ordered list of taxa) plus
   `_taxon_sequence_map`, a dictionary taxon -> sequence in the order in which the rows were ENTERED.
   `for taxon in char_matrix` / values() / items() walk the NAMESPACE and skip taxa without a row
   (CharacterMatrix.__iter__), so the order of entry is never observable through them.  Every writer
   iterates the matrix that way; `iter_rows` is the matrix all the writer models of C09Model.v /
   C09Nexus.v are applied to.  `entered_rows` is the other order (the dictionary's own), which a writer
   must NOT use: with simple=True (no TAXA block) the reader rebuilds the namespace from the MATRIX rows.

   Part 2 - construction routes over several matrices.  The value list of a row
   (`CharacterDataSequence._character_values`) is a mutable OBJECT; rid = its identity.  The merge
   operations are transcribed as to WHICH list is allocated, copied or mutated in place (the pattern of
   coq/Model/C19RowHeap.v, property C19, restricted to what a construction route of C09 uses):
     CharacterDataSequence(other)     self._character_values = []; self.extend(other)   -> a NEW list (copy)
     add_/replace_/update_sequences   map[taxon] = character_sequence_type(other.map[taxon])
     extend_sequences / extend_matrix map[taxon].extend(other.map[taxon]) in place on the RECEIVER's list;
                                      taxa new to the receiver: a copy as above
     concatenate                      acc = cls(); acc.extend_matrix(cm) for every argument
     export_character_indices         deep copy, then `del vec[i]` in place on the copies
   `cds_mode` says what `CharacterDataSequence(other)` does with other's list: CopyValues (the library) or
   ShareValues (`self._character_values = other.values()`, the list itself).  Which one the current source
   does is read off the source on every run (coq/Gen/CharObj.v). *)
From Coq Require Import ZArith List Bool.
From DV Require Import Model.PyPrims Model.C09AlphaTypes Model.C09Model.
Import ListNotations.
Open Scope Z_scope.

(* ------------------------------------------------------------------------- *)
(* Part 1                                                                     *)
(* ------------------------------------------------------------------------- *)

Definition rowmap := list (text * list Z).        (* _taxon_sequence_map, order of entry *)

Fixpoint rm_get (l : text) (rm : rowmap) : option (list Z) :=
  match rm with
  | [] => None
  | (k, c) :: r => if text_eqb l k then Some c else rm_get l r
  end.

(* CharacterMatrix.__iter__ with __getitem__: namespace order, taxa that have a row *)
Definition iter_rows (ns : list text) (rm : rowmap) : matrix :=
  flat_map (fun l => match rm_get l rm with Some c => [(l, c)] | None => [] end) ns.

(* _taxon_sequence_map.items(): order of entry *)
Definition entered_rows (ns : list text) (rm : rowmap) : matrix := rm.

Inductive row_iter := IterMatrix | IterEntered.
Definition rows_by (it : row_iter) (ns : list text) (rm : rowmap) : matrix :=
  match it with IterMatrix => iter_rows ns rm | IterEntered => entered_rows ns rm end.

(* ------------------------------------------------------------------------- *)
(* Part 2                                                                     *)
(* ------------------------------------------------------------------------- *)

Definition rid := Z.
Record store := mkS { s_heap : list (rid * list Z); s_next : rid }.

Fixpoint h_get (r : rid) (h : list (rid * list Z)) : option (list Z) :=
  match h with
  | [] => None
  | (k, c) :: t => if Z.eqb r k then Some c else h_get r t
  end.
Definition hget (s : store) (r : rid) : list Z :=
  match h_get r (s_heap s) with Some c => c | None => [] end.

(* a NEW list object *)
Definition alloc (s : store) (c : list Z) : store * rid :=
  (mkS ((s_next s, c) :: s_heap s) (s_next s + 1), s_next s).
(* an in-place list operation on object r *)
Definition mutate (s : store) (r : rid) (c : list Z) : store := mkS ((r, c) :: s_heap s) (s_next s).

Definition orows := list (text * rid).            (* taxon -> value-list OBJECT, order of entry *)

Fixpoint o_get (l : text) (rs : orows) : option rid :=
  match rs with
  | [] => None
  | (k, r) :: t => if text_eqb l k then Some r else o_get l t
  end.
(* dict assignment: an existing key keeps its position *)
Fixpoint o_put (l : text) (r : rid) (rs : orows) : orows :=
  match rs with
  | [] => [(l, r)]
  | (k, x) :: t => if text_eqb l k then (k, r) :: t else (k, x) :: o_put l r t
  end.

Definition ids (rs : orows) : list rid := map snd rs.
Definition deref (s : store) (rs : orows) : rowmap := map (fun p => (fst p, hget s (snd p))) rs.

Inductive cds_mode := CopyValues | ShareValues.

(* the value list of CharacterDataSequence(other) *)
Definition new_from (md : cds_mode) (s : store) (ro : rid) : store * rid :=
  match md with
  | CopyValues => alloc s (hget s ro)
  | ShareValues => (s, ro)
  end.

Definition copy_in (md : cds_mode) (st : store * orows) (l : text) (ro : rid) : store * orows :=
  let '(s', r) := new_from md (fst st) ro in (s', o_put l r (snd st)).
Definition extend_in (st : store * orows) (rs ro : rid) : store * orows :=
  (mutate (fst st) rs (hget (fst st) rs ++ hget (fst st) ro), snd st).

Inductive binop := BAdd | BReplace | BUpdate | BExtend (addnew : bool) | BExtendMatrix.

Definition bin_step (md : cds_mode) (b : binop) (st : store * orows) (p : text * rid) : store * orows :=
  match o_get (fst p) (snd st) with
  | None => match b with
            | BAdd | BUpdate | BExtendMatrix | BExtend true => copy_in md st (fst p) (snd p)
            | BReplace | BExtend false => st
            end
  | Some rs => match b with
               | BAdd => st
               | BReplace | BUpdate => copy_in md st (fst p) (snd p)
               | BExtend _ | BExtendMatrix => extend_in st rs (snd p)
               end
  end.

(* receiver.op(argument): `for taxon in other._taxon_sequence_map` *)
Definition bin_rows (md : cds_mode) (b : binop) (st : store * orows) (o : orows) : store * orows :=
  fold_left (bin_step md b) o st.

Fixpoint select_cols (idx : list Z) (i : Z) (c : list Z) : list Z :=
  match c with
  | [] => []
  | x :: r => if existsb (Z.eqb i) idx then x :: select_cols idx (i + 1) r else select_cols idx (i + 1) r
  end.

(* export_character_indices: every row a new list holding the selected columns *)
Fixpoint export_rows (idx : list Z) (s : store) (rs : orows) : store * orows :=
  match rs with
  | [] => (s, [])
  | (l, r) :: t => let '(s1, r') := alloc s (select_cols idx 0 (hget s r)) in
                   let '(s2, out) := export_rows idx s1 t in (s2, (l, r') :: out)
  end.

Record oworld := mkOW { ow_store : store; ow_ms : list orows }.

Inductive oop :=
| OBin (b : binop) (k j : nat)            (* matrix k . op (matrix j) *)
| OConcat (js : list nat)                 (* cls.concatenate([matrix j ..]) : a new matrix *)
| OExport (j : nat) (idx : list Z).       (* matrix j . export_character_indices(idx) : a new matrix *)

Fixpoint set_nth {A} (n : nat) (x : A) (l : list A) : list A :=
  match n, l with
  | _, [] => []
  | O, _ :: t => x :: t
  | S n', y :: t => y :: set_nth n' x t
  end.

Definition receiver (o : oop) : option nat :=
  match o with OBin _ k _ => Some k | _ => None end.

Definition concat_rows (md : cds_mode) (s : store) (ms : list orows) (js : list nat) : store * orows :=
  fold_left (fun st j => bin_rows md BExtendMatrix st (nth j ms [])) js (s, []).

Definition o_step (md : cds_mode) (w : oworld) (o : oop) : res oworld :=
  match o with
  | OBin b k j =>
    if Nat.eqb k j then Err OtherErr
    else match nth_error (ow_ms w) k, nth_error (ow_ms w) j with
         | Some mk, Some mj =>
           let '(s', rk) := bin_rows md b (ow_store w, mk) mj in
           Ok (mkOW s' (set_nth k rk (ow_ms w)))
         | _, _ => Err IndexErr
         end
  | OConcat js =>
    if forallb (fun j => Nat.ltb j (length (ow_ms w))) js then
      let '(s', acc) := concat_rows md (ow_store w) (ow_ms w) js in
      Ok (mkOW s' (ow_ms w ++ [acc]))
    else Err IndexErr
  | OExport j idx =>
    match nth_error (ow_ms w) j with
    | Some mj => let '(s', cr) := export_rows idx (ow_store w) mj in Ok (mkOW s' (ow_ms w ++ [cr]))
    | None => Err IndexErr
    end
  end.

Fixpoint o_run (md : cds_mode) (w : oworld) (ops : list oop) : res oworld :=
  match ops with
  | [] => Ok w
  | o :: r => match o_step md w o with
              | Ok w' => o_run md w' r
              | Err e => Err e
              | OutOfFuel => OutOfFuel
              end
  end.

(* matrices delivered by from_dict / a reader: every row a fresh list *)
Fixpoint install_rows (s : store) (rm : rowmap) : store * orows :=
  match rm with
  | [] => (s, [])
  | (l, c) :: t => let '(s1, r) := alloc s c in
                   let '(s2, out) := install_rows s1 t in (s2, (l, r) :: out)
  end.
Fixpoint install_all (s : store) (ms : list rowmap) : store * list orows :=
  match ms with
  | [] => (s, [])
  | m :: t => let '(s1, rs) := install_rows s m in
              let '(s2, out) := install_all s1 t in (s2, rs :: out)
  end.
Definition o_init (ms : list rowmap) : oworld :=
  let '(s, os) := install_all (mkS [] 0) ms in mkOW s os.

Definition all_ids (w : oworld) : list rid := concat (map ids (ow_ms w)).
Definition contents (w : oworld) : list rowmap := map (deref (ow_store w)) (ow_ms w).

(* separation: no value list under two (matrix, taxon) slots, every id allocated *)
Definition sepb (w : oworld) : bool :=
  (fix nodup (l : list rid) : bool :=
     match l with [] => true | x :: r => negb (existsb (Z.eqb x) r) && nodup r end) (all_ids w)
  && forallb (fun r => r <? s_next (ow_store w)) (all_ids w).

(* ---- correspondence case: a pool route.  `expect`: every matrix after the route, rows in order of
   entry (what the implementation holds); `shared`: did the harness see one list under two slots *)
Record ocase := mkOC {
  oc_mode : cds_mode;
  oc_init : list rowmap;
  oc_ops : list oop;
  oc_expect : list rowmap;
  oc_shared : bool
}.

Definition rowmap_eqb (x y : rowmap) : bool :=
  list_eqb (fun r s => text_eqb (fst r) (fst s) && list_eqb Z.eqb (snd r) (snd s)) x y.

Definition ocase_ok (c : ocase) : bool :=
  match o_run (oc_mode c) (o_init (oc_init c)) (oc_ops c) with
  | Ok w => list_eqb rowmap_eqb (contents w) (oc_expect c) && Bool.eqb (negb (sepb w)) (oc_shared c)
  | _ => false
  end.

Definition ocase_show (c : ocase) :=
  match o_run (oc_mode c) (o_init (oc_init c)) (oc_ops c) with
  | Ok w => Ok (contents w, sepb w)
  | Err e => Err e
  | OutOfFuel => OutOfFuel
  end.

(* iteration-order case: namespace, rows in order of entry, the matrix as the implementation iterates it *)
Record icase := mkIC { ic_ns : list text; ic_entered : rowmap; ic_iter : matrix }.
Definition icase_ok (c : icase) : bool :=
  list_eqb (fun r s => text_eqb (fst r) (fst s) && list_eqb Z.eqb (snd r) (snd s))
           (iter_rows (ic_ns c) (ic_entered c)) (ic_iter c).

Inductive wcase := WObj (c : ocase) | WIter (c : icase).
Definition wcase_ok (c : wcase) : bool := match c with WObj c => ocase_ok c | WIter c => icase_ok c end.
Definition wcase_show (c : wcase) :=
  match c with
  | WObj c => (ocase_show c, [])
  | WIter c => (Err OtherErr, iter_rows (ic_ns c) (ic_entered c))
  end.
