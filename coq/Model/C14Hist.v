(* C14: histories on ONE PhylogeneticDistanceMatrix object.
   The object's state is the tables (Model/C14Model.v pdm); every query is a function of the CURRENT
   tables only - the source keeps no other state between calls, so anything an implementation remembers
   across compile_from_tree / compile_from_dict / clear shows up as a disagreement. *)
From Coq Require Import ZArith QArith List Bool.
From DV Require Import Model.PyPrims Model.Tree Model.C14Model.
Import ListNotations.
Open Scope Z_scope.

Inductive hop :=
| HNone                    (* no call: further queries on the object as it is *)
| HTree (t : tree)         (* self.compile_from_tree(tree) *)
| HDict (d : tbl Z)        (* self.compile_from_dict(distances, taxon_namespace); distances in units *)
| HClear.                  (* self.clear() *)

(* compile_from_dict:
     self.clear()
     for t1 in distances:
         self._mapped_taxa.add(t1); self._taxon_phylogenetic_distances[t1] = {t1: 0.0}
         for t2 in distances[t1]:
             self._taxon_phylogenetic_distances[t1][t2] = distances[t1][t2]
             if t2 is not t1: self._all_distinct_mapped_taxa_pairs.add(frozenset([t1, t2]))
     self._mirror_lookups()
   (_tree_length and _num_edges stay None: the histories ask no normalised value of such an object) *)
Definition dict_row (t1 : Z) (row : dict Z) (s : pdm) : res pdm :=
  fold_left (fun r t2v =>
               do s <- r ;;
               do d <- tset2 t1 (fst t2v) (snd t2v) (p_dist s) ;;
               let pairs := if Z.eqb (fst t2v) t1 then p_pairs s
                            else if pair_mem t1 (fst t2v) (p_pairs s) then p_pairs s else p_pairs s ++ [(t1, fst t2v)] in
               Ok (mkPdm (p_tree_length s) (p_num_edges s) d (p_steps s) (p_mrca s) (p_mapped s) pairs (p_log s)))
            row
            (Ok (mkPdm (p_tree_length s) (p_num_edges s) (dset t1 [(t1, 0)] (p_dist s)) (p_steps s) (p_mrca s)
                       (add_once t1 (p_mapped s)) (p_pairs s) (p_log s))).

Definition compile_from_dict (d : tbl Z) : res pdm :=
  do s <- fold_left (fun r row => do s <- r ;; dict_row (fst row) (snd row) s) d (Ok pdm_empty) ;;
  mirror s.

Definition apply_hop (op : hop) (p : pdm) : res pdm :=
  match op with
  | HNone => Ok p
  | HTree t => compile_from_tree t
  | HDict d => compile_from_dict d
  | HClear => Ok pdm_empty
  end.

(* what is compared after an operation that leaves _tree_length / _num_edges / steps / mrca undefined *)
Definition pdm_obs_ok_dist (p : pdm) (o : pdm_obs) : bool :=
  list_eqb Z.eqb (zsort (p_mapped p)) (po_taxa o)
  && zll_eqb (raw (-1) (p_dist p) (po_taxa o)) (po_dist o)
  && zll_eqb (raw (-1) (p_steps p) (po_taxa o)) (po_steps o)
  && zll_eqb (raw (-1) (p_mrca p) (po_taxa o)) (po_mrca o)
  && Z.eqb (Z.of_nat (length (p_pairs p))) (po_npairs o)
  && forallb (fun q => match q with (a, b, w, n, r) => resq_close eps12 (distance p a b w n) r end) (po_acc o)
  && forallb (fun q => match q with
                       | (MPD, f, w, n, r) => resq_close eps12 (mean_pairwise_distance p f w n) r
                       | (MNTD, f, w, n, r) => resq_close eps12 (mean_nearest_taxon_distance p f w n) r
                       end) (po_means o).

(* full = the object was last compiled from a tree (every field defined) *)
Fixpoint hist_ok (p : pdm) (full : bool) (stages : list (hop * res pdm_obs)) : bool :=
  match stages with
  | [] => true
  | (op, exp) :: rest =>
    let full' := match op with HNone => full | HTree _ => true | _ => false end in
    match apply_hop op p, exp with
    | Ok p', Ok o => (if full' then pdm_obs_ok p' o else pdm_obs_ok_dist p' o) && hist_ok p' full' rest
    | Err e, Err f => err_eqb e f
    | _, _ => false
    end
  end.

Definition hist_case_ok (stages : list (hop * res pdm_obs)) : bool := hist_ok pdm_empty false stages.

Definition hist_show (stages : list (hop * res pdm_obs)) :=
  (fix go (p : pdm) (l : list (hop * res pdm_obs)) :=
     match l with
     | [] => []
     | (op, exp) :: rest =>
       match apply_hop op p with
       | Ok p' =>
         Ok (zsort (p_mapped p'), p_dist p',
             match exp with
             | Ok o => map (fun q => match q with
                                     | (MPD, f, w, n, _) => mean_pairwise_distance p' f w n
                                     | (MNTD, f, w, n, _) => mean_nearest_taxon_distance p' f w n
                                     end) (po_means o)
             | _ => []
             end) :: go p' rest
       | Err e => [Err e]
       | OutOfFuel => [OutOfFuel]
       end
     end) pdm_empty stages.
