(* C09: one interface over the three modelled formats: writing a matrix and reading the result
   back (`through`), and the boolean admissibility of a matrix for a format (`admissible`). *)
From Coq Require Import ZArith List Bool.
From DV Require Import Model.PyPrims Model.C09AlphaTypes Model.C09Alphabets Model.C09Model Model.C09Spec Model.C09Nexus.
Import ListNotations.
Open Scope Z_scope.

(* a taxon label as a NEXUS token: the MATRIX loop stops at the token ";" and next_token never
   returns an end of line; everything else about labels in NEXUS text is the token layer's (C02) *)
Definition label_token_ok (l : tok) : bool := negb (is_eol l) && negb (text_eqb l t_semi).

(* the data types NEXUS names in DATATYPE= and the reader maps to a fixed alphabet *)
Definition fixed_dtype (dt : dtype) : bool :=
  match dt with DtDna | DtRna | DtNucleotide | DtProtein => true | _ => false end.

Inductive format :=
| FFasta (wrap : bool) (width : Z)
| FPhylip (wo : phy_wopts) (ro : phy_ropts)
| FNexus (simple : bool).

Definition through (lower : text -> text) (dt : dtype) (f : format) (m : matrix) : res matrix :=
  let a := alphabet_of_dtype dt in
  match f with
  | FFasta w k => read_fasta lower a (write_fasta a w k m)
  | FPhylip wo ro =>
    do t <- write_phylip (symbols_as_string a) wo m ;; read_phylip lower Z (phylip_states a) ro t
  | FNexus simple =>
    do toks <- write_chars_block dt [a] [] (mkNW simple None None) m ;;
    do x <- read_chars_block lower keep_ns
              (if simple then nx_init [] None false else nx_init (map fst m) (Some (len m)) false) toks ;;
    match x with
    | (_, [b], _) => Ok (br_rows b)
    | _ => Err OtherErr
    end
  end.

Definition labels_ok_for (f : format) (labels : list text) : bool :=
  match f with
  | FFasta _ _ => forallb fasta_label_ok labels
  | FPhylip wo ro => Bool.eqb (r_strict ro) (w_strict wo) && forallb (phylip_label_ok wo ro) labels
  | FNexus _ => forallb label_token_ok labels
  end.

(* a non-empty nchar-column matrix (nchar >= 1) over the states of the data type's alphabet, taxa
   distinct up to case, labels admissible for the format *)
Definition admissible (lower : text -> text) (dt : dtype) (nchar : Z) (f : format) (m : matrix) : bool :=
  fixed_dtype dt && negb (is_nil m) && (1 <=? nchar) && rectangular nchar m
  && cells_ok (alphabet_of_dtype dt) m && labels_distinct lower (map fst m)
  && labels_ok_for f (map fst m).

(* ---- alphabets NexusWriter writes as DATATYPE=STANDARD SYMBOLS="..." ---- *)

(* every state is fundamental or the missing-data state "?", every fundamental symbol is one
   plain character without case variants other than "?", and one of them is not the gap "-" *)
Definition std_alphabet_ok (a : alphabet) : bool :=
  forallb (fun s => skind_eqb (s_kind s) Fundamental || text_eqb (s_symbol s) t_qm) (a_states a)
  && forallb (fun s => match s with
                       | [c] => (ascii_upper c =? c) && (ascii_lower c =? c) && negb (c =? 63)
                                && plain_symbol_char c
                       | _ => false
                       end) (fundamental_symbols [a])
  && existsb (fun s => negb (text_eqb s t_dash)) (fundamental_symbols [a])
  && texts_distinct (fundamental_symbols [a])
  && alphabet_cells_ok a
  && match amb_terms_all [a] with
     | Ok amb => list_eqb text_eqb amb [] || list_eqb text_eqb amb [kw_MISSING; t_eq; t_qm]
     | _ => false
     end.

Definition std_dtype (dt : dtype) : bool :=
  match dt with DtStandard | DtRestriction | DtInfinite => true | _ => false end.
