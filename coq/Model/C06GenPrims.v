(* C06: run-time library of the translator py/dv/gen_treearray.py (Gen/TreeArrayGen.v).

   The generated code follows treecollectionmodel.py / sumtrees.py statement by statement; what the
   individual Python operations MEAN on the model's data is fixed here (this is the trusted part of
   the translator):

   objects      a TreeArray is a `tarr`, a SplitDistribution a `sdist`, a Tree the record `trec`
                of what add_tree reads from it (C06Model); attribute reads are the record
                projections, attribute writes the setters below
   None/bool    `_is_rooted_trees` and `tree.is_rooted` are `option bool`; `x is y`, `x != y` on
                None/True/False are equality of option bool (singletons); truthiness of an
                optional bool is "is True"
   None/int     loop counters that start as None are `option Z`; `x != y` on them is (in)equality of
                option Z; `x >= n` and `x += 1` on None raise TypeError (generated as a match)
   yielder      the tree yielder of read_from_files is the list of (current_file_index, tree) pairs it
                delivers (an input; a source without trees contributes no pair)
   numbers      Python ints and the floats of this code (weights, counts, totals: dyadic, in units of
                2^-10) are Z; `1.0` is UNITW; `float(x)` of an int/float is the identity
   lists        Python lists and tuples are Coq lists; extend = ++, append = ++ [x], insert =
                C06Model.py_insert (negative / out-of-range indices as in CPython)
   dicts        defaultdict(float) / defaultdict(list) are the association lists of C06Model:
                d[k] (read) = cnt / lst (0 / [] for a missing key), d[k] += v = dict_add / dict_app,
                iteration = the keys in insertion order
   set          tree_rooting_types_counted is the pair (True in s, False in s)
   not modelled taxon namespaces (one namespace: `a.taxon_namespace is b.taxon_namespace` is true),
                message strings (unit), default_edge_length_value / tree_type /
                ultrametricity_precision and the summary caches of SplitDistribution (unit)
   hand model   SplitDistribution.count_splits_on_tree is NOT translated: `count_splits_on_tree`
                below is the corresponding piece of the hand-written model (C06Model.add_tree
                inlines it) *)
From Coq Require Import ZArith List Bool.
From DV Require Import Model.PyPrims Model.C06Model.
Import ListNotations.
Open Scope Z_scope.

(* ---- TreeArray attribute writes *)
Definition set_ta_rooting (t : tarr) (v : option bool) : tarr :=
  mkTa v (ta_ign_el t) (ta_ign_ages t) (ta_use_w t) (ta_splits t) (ta_elens t) (ta_leafsets t) (ta_weights t) (ta_sd t).
Definition set_ta_ign_el (t : tarr) (v : bool) : tarr :=
  mkTa (ta_rooting t) v (ta_ign_ages t) (ta_use_w t) (ta_splits t) (ta_elens t) (ta_leafsets t) (ta_weights t) (ta_sd t).
Definition set_ta_ign_ages (t : tarr) (v : bool) : tarr :=
  mkTa (ta_rooting t) (ta_ign_el t) v (ta_use_w t) (ta_splits t) (ta_elens t) (ta_leafsets t) (ta_weights t) (ta_sd t).
Definition set_ta_use_w (t : tarr) (v : bool) : tarr :=
  mkTa (ta_rooting t) (ta_ign_el t) (ta_ign_ages t) v (ta_splits t) (ta_elens t) (ta_leafsets t) (ta_weights t) (ta_sd t).
Definition set_ta_splits (t : tarr) (v : list (list Z)) : tarr :=
  mkTa (ta_rooting t) (ta_ign_el t) (ta_ign_ages t) (ta_use_w t) v (ta_elens t) (ta_leafsets t) (ta_weights t) (ta_sd t).
Definition set_ta_elens (t : tarr) (v : list (list (option Z))) : tarr :=
  mkTa (ta_rooting t) (ta_ign_el t) (ta_ign_ages t) (ta_use_w t) (ta_splits t) v (ta_leafsets t) (ta_weights t) (ta_sd t).
Definition set_ta_leafsets (t : tarr) (v : list Z) : tarr :=
  mkTa (ta_rooting t) (ta_ign_el t) (ta_ign_ages t) (ta_use_w t) (ta_splits t) (ta_elens t) v (ta_weights t) (ta_sd t).
Definition set_ta_weights (t : tarr) (v : list Z) : tarr :=
  mkTa (ta_rooting t) (ta_ign_el t) (ta_ign_ages t) (ta_use_w t) (ta_splits t) (ta_elens t) (ta_leafsets t) v (ta_sd t).
Definition set_ta_sd (t : tarr) (v : sdist) : tarr :=
  mkTa (ta_rooting t) (ta_ign_el t) (ta_ign_ages t) (ta_use_w t) (ta_splits t) (ta_elens t) (ta_leafsets t) (ta_weights t) v.

(* ---- SplitDistribution attribute reads / writes *)
Definition sd_rtypes (s : sdist) : bool * bool := (sd_rt s, sd_rf s).
Definition set_sd_total (s : sdist) (v : Z) : sdist :=
  mkSd (sd_ign_el s) (sd_ign_ages s) (sd_use_w s) v (sd_sumw s) (sd_rt s) (sd_rf s) (sd_counts s) (sd_elens s) (sd_ages s).
Definition set_sd_sumw (s : sdist) (v : Z) : sdist :=
  mkSd (sd_ign_el s) (sd_ign_ages s) (sd_use_w s) (sd_total s) v (sd_rt s) (sd_rf s) (sd_counts s) (sd_elens s) (sd_ages s).
Definition set_sd_rtypes (s : sdist) (v : bool * bool) : sdist :=
  mkSd (sd_ign_el s) (sd_ign_ages s) (sd_use_w s) (sd_total s) (sd_sumw s) (fst v) (snd v) (sd_counts s) (sd_elens s) (sd_ages s).
Definition set_sd_counts (s : sdist) (v : list (Z * Z)) : sdist :=
  mkSd (sd_ign_el s) (sd_ign_ages s) (sd_use_w s) (sd_total s) (sd_sumw s) (sd_rt s) (sd_rf s) v (sd_elens s) (sd_ages s).
Definition set_sd_elens (s : sdist) (v : list (Z * list Z)) : sdist :=
  mkSd (sd_ign_el s) (sd_ign_ages s) (sd_use_w s) (sd_total s) (sd_sumw s) (sd_rt s) (sd_rf s) (sd_counts s) v (sd_ages s).
Definition set_sd_ages (s : sdist) (v : list (Z * list (option Z))) : sdist :=
  mkSd (sd_ign_el s) (sd_ign_ages s) (sd_use_w s) (sd_total s) (sd_sumw s) (sd_rt s) (sd_rf s) (sd_counts s) (sd_elens s) v.

(* set.update on the rooting-types set *)
Definition rtset_update (a b : bool * bool) : bool * bool := (fst a || fst b, snd a || snd b).

(* ---- Python operators *)
Definition py_is_none {A} (o : option A) : bool := match o with None => true | Some _ => false end.
Definition ob_is (a b : option bool) : bool := obool_eqb a b.        (* `is`, `==` on None/True/False *)
Definition ob_truthy (o : option bool) : bool := match o with Some true => true | _ => false end.
Definition b_is (a b : bool) : bool := Bool.eqb a b.
Definition oz_is (a b : option Z) : bool := oz_eqb a b.              (* `==`, `!=` on None / int *)
Definition ns_is : bool := true.
Definition py_len {A} (l : list A) : Z := Z.of_nat (length l).
Definition py_range (n : Z) : list Z := map Z.of_nat (seq 0 (Z.to_nat n)).
Definition py_float (o : option Z) : Z := match o with Some w => w | None => 0 end.
Definition oint (o : option Z) : Z := match o with Some i => i | None => 0 end.
Definition list_extend {A} (l m : list A) : list A := l ++ m.
Definition list_append {A} (l : list A) (x : A) : list A := l ++ [x].
Definition list_insert {A} (l : list A) (i : Z) (x : A) : list A := py_insert i x l.
Definition dnum_get (d : list (Z * Z)) (k : Z) : Z := cnt k d.
Definition dnum_iadd (d : list (Z * Z)) (k v : Z) : list (Z * Z) := dict_add k v d.
Definition dlist_get {A} (d : list (Z * list A)) (k : Z) : list A := lst k d.
Definition dlist_iadd {A} (d : list (Z * list A)) (k : Z) (l : list A) : list (Z * list A) := dict_app k l d.
Definition dict_keys {V} (d : list (Z * V)) : list Z := keys d.

(* TreeArray(is_rooted_trees=.., ignore_edge_lengths=.., ignore_node_ages=.., use_tree_weights=..) *)
Definition ta_new (r : option bool) (iel iag uw : bool) : tarr := new_ta r iel iag uw.

(* ---- the untranslated callee: SplitDistribution.count_splits_on_tree(tree, ...)
   returns the distribution afterwards, the exception if any, and (splits, edge_lengths, node_ages);
   edge lengths are returned as Python values (a float: Some z) *)
Definition count_splits_on_tree (sd : sdist) (x : trec)
  : sdist * option terr * (list Z * list (option Z) * list (option Z)) :=
  let total1 := sd_total sd + 1 in
  match (if sd_ign_ages sd then None else tr_ages_err x) with
  | Some e =>
    (mkSd (sd_ign_el sd) (sd_ign_ages sd) (sd_use_w sd) total1 (sd_sumw sd)
          (sd_rt sd) (sd_rf sd) (sd_counts sd) (sd_elens sd) (sd_ages sd), Some e, ([], [], []))
  | None =>
    let w := sd_weight sd x in
    let '(c, e, g) := count_items (sd_ign_el sd) (sd_ign_ages sd) w (tr_items x)
                                  (sd_counts sd) (sd_elens sd) (sd_ages sd) in
    (mkSd (sd_ign_el sd) (sd_ign_ages sd) (sd_use_w sd) total1 (sd_sumw sd + w)
          (sd_rt sd || tr_rooted x) (sd_rf sd || negb (tr_rooted x)) c e g,
     None,
     (tr_splits x,
      (if sd_ign_el sd then [] else map (fun it => Some (it_elen it)) (tr_items x)),
      (if sd_ign_ages sd then [] else map it_age (tr_items x))))
  end.

(* ---- results queue entries of the collation loop: a worker's array or the exception it put *)
Definition is_exn (r : tarr * option terr) : bool := match snd r with Some _ => true | None => false end.
Definition exn_of (r : tarr * option terr) : terr := match snd r with Some e => e | None => EPy OtherErr end.
Definition result_array (r : tarr * option terr) : tarr := fst r.
