(* C05: run-time library of the translator py/dv/gen_splitdist.py (Gen/SplitDist.v).
   Each primitive states the Python operation it stands for.  TRUSTED: that these definitions
   are the meaning of the Python operations named (floats as exact rationals kept reduced;
   dicts as insertion-ordered association lists; Python exceptions as PyPrims.err). *)
From Coq Require Import ZArith QArith Qabs Qreduction List Bool.
From DV Require Import Model.PyPrims Gen.BitFns Model.C05Model.
Import ListNotations.
Open Scope Z_scope.

(* ---- the dict statistics.summarize returns, restricted to the exact keys
   ('sd' = math.sqrt(var), 'hpd95', 'quant_5_95' are outside exact arithmetic: not represented).
   A key holds None when its computation raised one of the handled exceptions. *)
Record gsummary := mkGs {
  gs_range : option (Q * Q);
  gs_mean : option Q;
  gs_var : option (option Q);        (* Some None = float('inf') *)
  gs_median : option Q
}.
Definition gs_empty : gsummary := mkGs None None None None.

(* ---- the SplitDistribution object: the model's state plus the summary-cache attributes *)
Record sdx := mkSdx {
  x_sd : sd;
  x_len_summ : option (list (Z * gsummary));      (* _split_edge_length_summaries *)
  x_age_summ : option (list (Z * gsummary));      (* _split_node_age_summaries *)
  x_counted_for_summ : Z                          (* _trees_counted_for_summaries *)
}.
Definition sdx_new : sdx := mkSdx sd_empty None None 0.

Definition upd_sd (x : sdx) (d : sd) : sdx := mkSdx d (x_len_summ x) (x_age_summ x) (x_counted_for_summ x).

(* attribute reads / writes: a_<attr> / sa_<attr> *)
Definition a_total_trees_counted (x : sdx) := total (x_sd x).
Definition a_sum_of_tree_weights (x : sdx) := sum_w (x_sd x).
Definition a_tree_rooting_types_counted (x : sdx) := rootings (x_sd x).
Definition a_split_counts (x : sdx) := counts (x_sd x).
Definition a_split_edge_lengths (x : sdx) := elens (x_sd x).
Definition a_split_node_ages (x : sdx) := nages (x_sd x).
Definition a__split_freqs (x : sdx) := freqs (x_sd x).
Definition a__trees_counted_for_freqs (x : sdx) := counted_for_freqs (x_sd x).
Definition a__split_edge_length_summaries (x : sdx) := x_len_summ x.
Definition a__split_node_age_summaries (x : sdx) := x_age_summ x.
Definition a__trees_counted_for_summaries (x : sdx) := x_counted_for_summ x.

Definition sa_total_trees_counted (x : sdx) (v : Z) : sdx :=
  let d := x_sd x in upd_sd x (mkSd v (sum_w d) (rootings d) (counts d) (elens d) (nages d) (freqs d) (counted_for_freqs d)).
Definition sa_sum_of_tree_weights (x : sdx) (v : Q) : sdx :=
  let d := x_sd x in upd_sd x (mkSd (total d) v (rootings d) (counts d) (elens d) (nages d) (freqs d) (counted_for_freqs d)).
Definition sa_tree_rooting_types_counted (x : sdx) (v : list bool) : sdx :=
  let d := x_sd x in upd_sd x (mkSd (total d) (sum_w d) v (counts d) (elens d) (nages d) (freqs d) (counted_for_freqs d)).
Definition sa_split_counts (x : sdx) (v : list (Z * Q)) : sdx :=
  let d := x_sd x in upd_sd x (mkSd (total d) (sum_w d) (rootings d) v (elens d) (nages d) (freqs d) (counted_for_freqs d)).
Definition sa_split_edge_lengths (x : sdx) (v : list (Z * list (option Q))) : sdx :=
  let d := x_sd x in upd_sd x (mkSd (total d) (sum_w d) (rootings d) (counts d) v (nages d) (freqs d) (counted_for_freqs d)).
Definition sa_split_node_ages (x : sdx) (v : list (Z * list (option Q))) : sdx :=
  let d := x_sd x in upd_sd x (mkSd (total d) (sum_w d) (rootings d) (counts d) (elens d) v (freqs d) (counted_for_freqs d)).
Definition sa__split_freqs (x : sdx) (v : option (list (Z * Q))) : sdx :=
  let d := x_sd x in upd_sd x (mkSd (total d) (sum_w d) (rootings d) (counts d) (elens d) (nages d) v (counted_for_freqs d)).
Definition sa__trees_counted_for_freqs (x : sdx) (v : Z) : sdx :=
  let d := x_sd x in upd_sd x (mkSd (total d) (sum_w d) (rootings d) (counts d) (elens d) (nages d) (freqs d) v).
Definition sa__split_edge_length_summaries (x : sdx) (v : option (list (Z * gsummary))) : sdx :=
  mkSdx (x_sd x) v (x_age_summ x) (x_counted_for_summ x).
Definition sa__split_node_age_summaries (x : sdx) (v : option (list (Z * gsummary))) : sdx :=
  mkSdx (x_sd x) (x_len_summ x) v (x_counted_for_summ x).
Definition sa__trees_counted_for_summaries (x : sdx) (v : Z) : sdx :=
  mkSdx (x_sd x) (x_len_summ x) (x_age_summ x) v.

(* configuration attributes (never assigned by the translated methods) *)
Definition c_ignore_edge_lengths (c : config) := ignore_len c.
Definition c_ignore_node_ages (c : config) := ignore_ages c.
Definition c_use_tree_weights (c : config) := use_w c.

(* ---- loops: `for x in l: body`  (the tuple of carried variables is threaded) *)
Definition py_for {A S} (l : list A) (body : A -> S -> S) (s : S) : S := fold_left (fun s x => body x s) l s.
Fixpoint py_forM {A S} (l : list A) (body : A -> S -> res S) (s : S) : res S :=
  match l with
  | [] => Ok s
  | x :: r => match body x s with Ok s' => py_forM r body s' | Err e => Err e | OutOfFuel => OutOfFuel end
  end.

(* ---- numbers.  float +,-,*,/ : exact, kept reduced.  int -> float: inject_Z *)
Definition py_fadd := qplus.
Definition py_fsub := qminus.
Definition py_fmul := qmult.
Definition py_fdiv := qdiv.
Definition py_Z2Q (z : Z) : Q := inject_Z z.
Definition py_feq (a b : Q) : bool := Qeq_bool a b.
Definition py_fle (a b : Q) : bool := Qle_bool a b.             (* a <= b *)
Definition py_flt (a b : Q) : bool := negb (Qle_bool b a).      (* a < b *)
Definition py_fabs (a : Q) : Q := Qabs a.
Definition py_truth_float (a : Q) : bool := negb (Qeq_bool a 0).   (* bool(x) for a float *)
(* float(x) where x is known not to be None (guarded by `x is not None`) *)
Definition py_float_of_opt (o : option Q) : Q := match o with Some q => q | None => 0%Q end.
(* int(a / b) for ints: true division then truncation toward zero *)
Definition py_int_truediv (a b : Z) : Z := Z.quot a b.
(* a % b for ints *)
Definition py_imod (a b : Z) : Z := Z.modulo a b.
(* float('inf') as the missing value of "finite or inf" *)
Definition py_inf : option Q := None.
Definition py_finite (q : Q) : option Q := Some q.

(* ---- truthiness of tree.is_rooted (None / False -> False) *)
Definition py_truth_obool (r : option bool) : bool := match r with Some true => true | _ => false end.
Definition py_is_none {A} (o : option A) : bool := match o with None => true | Some _ => false end.

(* ---- lists *)
Definition py_len {A} (l : list A) : Z := Z.of_nat (length l).
Definition py_append {A} (l : list A) (x : A) : list A := l ++ [x].
Definition py_truth_list {A} (l : list A) : bool := match l with [] => false | _ => true end.
(* l[i] with Python's negative indices; IndexError when out of range *)
Definition py_index {A} (l : list A) (i : Z) : res A :=
  let j := if i <? 0 then i + py_len l else i in
  if (j <? 0) || (py_len l <=? j) then Err IndexErr
  else match nth_error l (Z.to_nat j) with Some x => Ok x | None => Err IndexErr end.
Definition py_sorted_float (l : list Q) : list Q := qsorted l.
(* min(l) / max(l): ValueError on an empty list *)
Definition py_min_float (l : list Q) : res Q := match l with [] => Err ValueErr | x :: r => Ok (qmin_list x r) end.
Definition py_max_float (l : list Q) : res Q := match l with [] => Err ValueErr | x :: r => Ok (qmax_list x r) end.
(* a list of "float or None" used as numbers: the first arithmetic/comparison on None raises TypeError *)
Definition py_as_floats (l : list (option Q)) : res (list Q) :=
  match all_some l with Some xs => Ok xs | None => Err TypeErr end.
(* list of (freq, split) tuples: .sort(reverse=..) by tuple order *)
Definition py_sort_pairs (reverse : bool) (l : list (Q * Z)) : list (Q * Z) :=
  if reverse then sort_by pair_geb l else sort_by pair_leb l.

(* ---- dicts keyed by int (insertion ordered) *)
Definition py_dict_keys {V} (d : list (Z * V)) : list Z := map fst d.
Definition py_dict_items {V} (d : list (Z * V)) : list (Z * V) := d.
(* defaultdict(float)[k] / defaultdict(list)[k] read *)
Definition py_dd_get_float (d : list (Z * Q)) (k : Z) : Q := aget_d k 0%Q d.
Definition py_dd_get_list {A} (d : list (Z * list A)) (k : Z) : list A := aget_d k [] d.
(* d[k] += v on a defaultdict(float) *)
Definition py_dd_iadd_float (d : list (Z * Q)) (k : Z) (v : Q) : list (Z * Q) := aupd k 0%Q (fun x => qplus x v) d.
(* d[k] += l on a defaultdict(list) *)
Definition py_dd_iadd_list {A} (d : list (Z * list A)) (k : Z) (l : list A) : list (Z * list A) :=
  aupd k [] (fun x => x ++ l) d.
(* sel = d.setdefault(k, []); sel.append(v)  (sel aliases the list stored in d) *)
Definition py_setdefault_append {A} (d : list (Z * list A)) (k : Z) (v : A) : list (Z * list A) :=
  aupd k [] (fun x => x ++ [v]) d.
(* d[k] = v *)
Definition py_dict_set {V} (d : list (Z * V)) (k : Z) (v : V) : list (Z * V) := aupd k v (fun _ => v) d.
(* d.get(k, dflt) ;  k in d ;  d[k] *)
Definition py_dict_get {V} (d : list (Z * V)) (k : Z) (dflt : V) : V := aget_d k dflt d.
Definition py_dict_has {V} (d : list (Z * V)) (k : Z) : bool := match aget k d with Some _ => true | None => false end.
(* the same through an attribute that holds "None or dict" (None cannot occur where used: the
   attribute was assigned a dict before) *)
Definition py_odict_set {V} (od : option (list (Z * V))) (k : Z) (v : V) : option (list (Z * V)) :=
  match od with Some d => Some (py_dict_set d k v) | None => None end.
Definition py_odict_get {V} (od : option (list (Z * V))) (k : Z) (dflt : V) : V :=
  match od with Some d => aget_d k dflt d | None => dflt end.

(* ---- set of booleans: tree_rooting_types_counted *)
Definition py_set_add (s : list bool) (b : bool) : list bool := add_rooting b s.
Definition py_set_update (s o : list bool) : list bool := union_rootings s o.
Definition py_set_has (s : list bool) (b : bool) : bool := existsb (Bool.eqb b) s.
Definition py_set_len (s : list bool) : Z := Z.of_nat (length s).

(* ---- the tree argument: a tree_in record lists the bipartitions AS ENCODED (so
   tree.calc_node_ages(..) and tree.encode_bipartitions() have already happened: they are
   translated to nothing); the edge of a bipartition is the record itself *)
Definition py_tree_weight (t : tree_in) : option Q := t_weight t.
Definition py_tree_is_rooted (t : tree_in) : option bool := t_rooting t.
Definition py_tree_bipartition_encoding (t : tree_in) : list brec := t_recs t.
Definition py_bip_split_bitmask (r : brec) : Z := r_split r.
Definition py_edge_length (r : brec) : option Q := r_len r.
Definition py_edge_head_age (r : brec) : option Q := r_age r.

(* Tree.from_split_bitmasks(split_bitmasks, taxon_namespace, is_rooted): the two levels of the
   model (proved equal on namespaces without vacated bits: consensus_tree_clades) *)
Definition py_from_split_bitmasks (all : Z) (bits : list Z) (is_rooted : option bool) (ss : list Z)
  : list Z * ctree :=
  (greedy all [] (fsb_prepare all (py_truth_obool is_rooted) ss), fsb_tree all bits (py_truth_obool is_rooted) ss).

(* ---- exceptions *)
Definition py_bind {A B} (r : res A) (f : A -> res B) : res B := bind r f.
(* try: v = e  except (handled..): v = None *)
Definition py_try_none {A} (handled : list err) (r : res A) : res (option A) :=
  match r with
  | Ok v => Ok (Some v)
  | Err e => if existsb (err_eqb e) handled then Ok None else Err e
  | OutOfFuel => OutOfFuel
  end.
(* try: <update using e> except (handled..): pass *)
Definition py_try_pass {A S} (handled : list err) (r : res A) (upd : A -> S) (keep : S) : res S :=
  match r with
  | Ok v => Ok (upd v)
  | Err e => if existsb (err_eqb e) handled then Ok keep else Err e
  | OutOfFuel => OutOfFuel
  end.
