(* C08 - pruning / retaining / extracting = induced subtree.   Executable definitions only.

   Two layers, both on the id-carrying rose trees of Model/Tree.v:

   (1) SPECIFICATION  `restrict sup keep t`  (and its generalisation `restrictG`): one structural
       recursion that says what the induced subtree is.  It does not follow either algorithm of
       the library.

   (2) TRANSCRIPTIONS of the library's algorithms
         Tree.prune_taxa / prune_taxa_with_labels / retain_taxa / retain_taxa_with_labels /
         filter_leaf_nodes / prune_leaves_without_taxa / prune_subtree / suppress_unifurcations
         (+ the structural effect of update_bipartitions = encode_bipartitions()),
         Node.remove_child, Node.extract_subtree, Tree.extract_tree and its four wrappers.
       In-place algorithms are loops over a list of node ids taken from the tree at the start of the
       loop (the library's stack iterators expand a node's child list before any of the visited
       node's own removals can touch it, so the visiting order is the post-order of the tree at loop
       entry), each iteration being one pointer-level operation `upd f id` on the current tree.
       Node identity = node id; a node that survives keeps its id, label and taxon.
       `extract_subtree` is a fold over the post-order of the (unchanged) source with the memo
       dictionary as an association list.  A new node is *named by its extraction_source* in the
       model; the observation renumbers the result in pre-order from a fresh base (that is how the
       harness names nodes the library created) and lists the source ids in the same order. *)
From Coq Require Import ZArith List Bool Lia.
From DV Require Import Model.PyPrims Model.Tree.
Import ListNotations.
Open Scope Z_scope.

(* ------------------------------------------------------------------------------------------ *)
(* small helpers                                                                              *)
(* ------------------------------------------------------------------------------------------ *)

Definition set_len (t : tree) (e : option Z) : tree :=
  match t with T i x l _ ks => T i x l e ks end.
Definition set_kids (t : tree) (ks : list tree) : tree :=
  match t with T i x l e _ => T i x l e ks end.

Definition memz (x : Z) (l : list Z) : bool := existsb (Z.eqb x) l.

Definition is_nil {A} (l : list A) : bool := match l with [] => true | _ => false end.

(* the library's rule when a node of out-degree one is merged into its child
   (suppress_unifurcations, encode_bipartitions, extract_subtree):
       if nd.edge.length is not None:
           if child.edge.length is None: child.edge.length = nd.edge.length
           else: child.edge.length += nd.edge.length                                   *)
Definition merge_len (pe ce : option Z) : option Z :=
  match pe with
  | None => ce
  | Some a => match ce with None => Some a | Some b => Some (b + a) end
  end.

(* try: child.edge.length += self.edge.length  except: pass      (Node.remove_child, suppressing) *)
Definition try_add (k d : option Z) : option Z :=
  match k, d with Some x, Some y => Some (x + y) | _, _ => k end.

Fixpoint first_some {A} (l : list (option A)) : option A :=
  match l with [] => None | Some a :: _ => Some a | None :: r => first_some r end.

Fixpoint find (id : Z) (t : tree) : option tree :=
  match t with
  | T i _ _ _ ks => if Z.eqb i id then Some t else first_some (map (find id) ks)
  end.

(* ------------------------------------------------------------------------------------------ *)
(* (1) the specification                                                                      *)
(* ------------------------------------------------------------------------------------------ *)

(* a predicate on nodes that only looks at identity and taxon (never at lengths or children) *)
Definition npred := Z -> option Z -> bool.
Definition app_np (p : npred) (n : tree) : bool := p (t_id n) (t_taxon n).

Definition omap_list {A B} (f : A -> option B) (l : list A) : list B :=
  flat_map (fun a => match f a with Some b => [b] | None => [] end) l.

(* restrictG sup keepl keepi keepe t :
     a leaf survives iff keepl;
     an internal node failing keepi disappears with everything below it;
     an internal node left without children survives (as a leaf) iff keepe;
     an internal node left with one child is merged into that child when sup.          *)
Fixpoint restrictG (sup : bool) (keepl keepi keepe : npred) (t : tree) : option tree :=
  match t with
  | T i x l e [] => if keepl i x then Some t else None
  | T i x l e ks =>
    if keepi i x then
      match omap_list (restrictG sup keepl keepi keepe) ks with
      | [] => if keepe i x then Some (T i x l e []) else None
      | [c] => if sup then Some (set_len c (merge_len e (t_len c))) else Some (T i x l e [c])
      | ks' => Some (T i x l e ks')
      end
    else None
  end.

Definition np_true : npred := fun _ _ => true.
Definition np_false : npred := fun _ _ => false.

(* THE induced subtree: drop leaves not kept, drop internal nodes left without children,
   optionally merge single-child nodes into their child *)
Definition restrict (sup : bool) (keep : npred) (t : tree) : option tree :=
  restrictG sup keep np_true np_false t.

Definition keep_taxa (S : list Z) : npred :=
  fun _ x => match x with Some a => memz a S | None => false end.
Definition drop_taxa (S : list Z) : npred :=
  fun _ x => match x with Some a => negb (memz a S) | None => false end.
Definition keep_ids (S : list Z) : npred := fun i _ => memz i S.

Definition has_taxon : npred := fun _ x => match x with Some _ => true | None => false end.

(* clades, distances, accumulated lengths (used by the theorems) *)
Definition leaf_ids (t : tree) : list Z := map t_id (leaves t).
Definition clades (t : tree) : list (list Z) := map leaf_ids (preorder t).
(* the surviving leaves below a node of the source, in leaf order *)
Definition kept_ids (p : npred) (n : tree) : list Z := map t_id (filter (app_np p) (leaves n)).

(* n, n+1, ..., n+k-1 *)
Fixpoint zseq (n : Z) (k : nat) : list Z :=
  match k with O => [] | S k' => n :: zseq (n + 1) k' end.

(* the content of a tree with node identities forgotten *)
Fixpoint erase (t : tree) : tree :=
  match t with T _ x l e ks => T 0 x l e (map erase ks) end.

(* length of the path from the root NODE of t down to node a (t's own edge not counted) *)
Fixpoint rd (a : Z) (t : tree) : option Z :=
  match t with
  | T i _ _ _ ks =>
    if Z.eqb i a then Some 0
    else first_some (map (fun k => match rd a k, t_len k with
                                   | Some d, Some e => Some (e + d)
                                   | _, _ => None end) ks)
  end.

Fixpoint dist (a b : Z) (t : tree) : option Z :=
  match t with
  | T _ _ _ _ ks =>
    match first_some (map (dist a b) ks) with
    | Some d => Some d
    | None => match rd a t, rd b t with Some x, Some y => Some (x + y) | _, _ => None end
    end
  end.

(* length accumulated on the way from above the root of t down to node a under the None rules *)
Fixpoint acc_len (a : Z) (t : tree) : option (option Z) :=
  match t with
  | T i _ _ e ks =>
    if Z.eqb i a then Some e
    else match first_some (map (acc_len a) ks) with
         | Some ce => Some (merge_len e ce)
         | None => None
         end
  end.

Fixpoint all_len (t : tree) : bool :=
  match t with T _ _ _ e ks => (match e with Some _ => true | None => false end) && forallb all_len ks end.

(* the trees the property speaks about: every leaf carries a taxon, internal nodes carry none *)
Fixpoint leaf_taxa_only (t : tree) : bool :=
  match t with
  | T _ x _ _ [] => match x with Some _ => true | None => false end
  | T _ x _ _ ks => match x with Some _ => false | None => forallb leaf_taxa_only ks end
  end.

(* ------------------------------------------------------------------------------------------ *)
(* (2) transcriptions - common machinery                                                      *)
(* ------------------------------------------------------------------------------------------ *)

Inductive xerr : Type := ESeedDel | EAttr | EValue | EType.
Definition xerr_eqb (a b : xerr) : bool :=
  match a, b with ESeedDel, ESeedDel | EAttr, EAttr | EValue, EValue | EType, EType => true | _, _ => false end.

(* result of an in-place operation; after an exception the tree object is still there and is
   observed by the harness, so the error carries the tree as it was when the exception rose *)
Inductive ires (A : Type) : Type :=
| IOk (a : A)
| IErr (e : xerr) (t : tree)
| IFuel.
Arguments IOk {A} _.
Arguments IErr {A} _ _.
Arguments IFuel {A}.

(* replace the subtree rooted at node `id` (below the root of the argument) by the forest f gives *)
Fixpoint upd (f : tree -> list tree) (id : Z) (t : tree) : list tree :=
  match t with
  | T i x l e ks => if Z.eqb i id then f t else [T i x l e (flat_map (upd f id) ks)]
  end.
Definition updF (f : tree -> list tree) (id : Z) (F : list tree) : list tree := flat_map (upd f id) F.

(* the same for a node that is known not to be the seed *)
Definition upd_below (f : tree -> list tree) (id : Z) (t : tree) : tree :=
  set_kids t (updF f id (t_kids t)).

Definition post_ids (t : tree) : list Z := map t_id (postorder t).

(* ---- Node.remove_child(node) as called by the pruning methods (suppress_unifurcations=False):
        parent.remove_child(nd) detaches nd together with everything below it ---- *)
Definition rm_f (_ : tree) : list tree := [].

(* one iteration of `for nd in nodes_to_remove: nd.edge.tail_node.remove_child(nd)`;
   on the seed tail_node is None: filter_leaf_nodes tests that and raises
   SeedNodeDeletionException, prune_leaves_without_taxa / prune_taxa hit
   AttributeError: 'NoneType' object has no attribute 'remove_child' *)
Definition rm_step (e : xerr) (s : ires tree) (id : Z) : ires tree :=
  match s with
  | IOk t => if Z.eqb (t_id t) id then IErr e t else IOk (upd_below rm_f id t)
  | x => x
  end.

(* ---- the loop shared by filter_leaf_nodes and prune_leaves_without_taxa:
        while True:
            nodes_to_remove = [nd for nd in self.leaf_node_iter() if bad(nd)]
            for nd in nodes_to_remove: ...remove_child(nd)
            nodes_removed += nodes_to_remove
            if not nodes_to_remove or not recursive: break                       ---- *)
Fixpoint lf_loop (bad : npred) (e : xerr) (recursive : bool) (fuel : nat) (t : tree) (acc : list Z)
  : ires (list Z * tree) :=
  match fuel with
  | O => IFuel
  | S fu =>
    let rem := map t_id (filter (app_np bad) (leaves t)) in
    match fold_left (rm_step e) rem (IOk t) with
    | IOk t' =>
      if is_nil rem || negb recursive then IOk (acc ++ rem, t')
      else lf_loop bad e recursive fu t' (acc ++ rem)
    | IErr x t' => IErr x t'
    | IFuel => IFuel
    end
  end.

(* ---- Tree.suppress_unifurcations ---- *)
Definition su_f (n : tree) : list tree :=
  match t_kids n with
  | [c] => [set_len c (merge_len (t_len n) (t_len c))]
  | _ => [n]
  end.

(* one iteration of `for nd in self.postorder_node_iter(): children = nd._child_nodes;
   if len(children) == 1: ...`; the log is the returned `remapped_nodes` *)
Definition su_step (s : tree * list (Z * Z)) (id : Z) : tree * list (Z * Z) :=
  let (t, log) := s in
  if Z.eqb (t_id t) id then
    (* nd._parent_node is None:  children[0]._parent_node = None; self.seed_node = children[0] *)
    match t_kids t with
    | [c] => (set_len c (merge_len (t_len t) (t_len c)), log ++ [(id, t_id c)])
    | _ => s
    end
  else
    (* parent.remove_child(nd); parent.insert_child(pos, children[0]) when nd has one child
       (su_f leaves a node with another number of children alone) *)
    (upd_below su_f id t,
     log ++ match find id t with
            | Some n => match t_kids n with [c] => [(id, t_id c)] | _ => [] end
            | None => []
            end).

Definition su_run (t : tree) : tree * list (Z * Z) := fold_left su_step (post_ids t) (t, []).

(* ---- structural effect of encode_bipartitions(): collapse an unrooted basal bifurcation, then
        suppress unifurcations if asked to ---- *)
(* collapse_basal_bifurcation: the removed basal edge's length goes to the kept basal edge
     if to_del_edge.length is not None:
         if to_keep.edge.length is None: to_keep.edge.length = to_del_edge.length
         else: to_keep.edge.length += to_del_edge.length
   i.e. the same rule as merge_len *)
Definition collapse_basal (t : tree) : option tree :=
  match t_kids t with
  | [a; b] =>
    if (2 <=? Z.of_nat (length (t_kids b))) then
      Some (set_kids t (set_len a (merge_len (t_len b) (t_len a)) :: t_kids b))
    else if (2 <=? Z.of_nat (length (t_kids a))) then
      Some (set_kids t (t_kids a ++ [set_len b (merge_len (t_len a) (t_len b))]))
    else None
  | _ => None
  end.

Definition rooted_true (r : option bool) : bool := match r with Some true => true | _ => false end.

(* self.update_bipartitions(suppress_unifurcations=sup) = encode_bipartitions(suppress_unifurcations=sup) *)
Definition encode_effect (sup : bool) (rooted : option bool) (t : tree) : tree * option bool :=
  let '(t1, r1) :=
    if negb (rooted_true rooted) then
      match collapse_basal t with Some t' => (t', Some false) | None => (t, rooted) end
    else (t, rooted) in
  ((if sup then fst (su_run t1) else t1), r1).

(* state of a Tree object as far as this property is concerned *)
Definition tstate := (tree * option bool)%type.
(* what an in-place method leaves behind: returned node list, tree, rooting flag *)
Definition iout := (list Z * tree * option bool)%type.

Definition finish (upd_bip sup : bool) (ret : list Z) (t : tree) (rooted : option bool) : iout :=
  let t2 := if sup then fst (su_run t) else t in
  let '(t3, r3) := if upd_bip then encode_effect sup rooted t2 else (t2, rooted) in
  (ret, t3, r3).

(* ------------------------------------------------------------------------------------------ *)
(* in-place methods                                                                           *)
(* ------------------------------------------------------------------------------------------ *)

Definition no_taxon : npred := fun _ x => match x with None => true | Some _ => false end.

Definition prune_leaves_without_taxa (recursive upd_bip sup : bool) (s : tstate) : ires iout :=
  let (t, rooted) := s in
  match lf_loop no_taxon EAttr recursive (S (size t)) t [] with
  | IOk (rem, t1) => IOk (finish upd_bip sup rem t1 rooted)
  | IErr e t' => IErr e t'
  | IFuel => IFuel
  end.

Definition filter_leaf_nodes (ok : list Z) (recursive upd_bip sup : bool) (s : tstate) : ires iout :=
  let (t, rooted) := s in
  match lf_loop (fun i _ => negb (memz i ok)) ESeedDel recursive (S (size t)) t [] with
  | IOk (rem, t1) => IOk (finish upd_bip sup rem t1 rooted)
  | IErr e t' => IErr e t'
  | IFuel => IFuel
  end.

(* prune_taxa, first loop:
     for nd in self.postorder_node_iter():
         if ((is_apply_filter_to_internal_nodes and nd._child_nodes)
             or (is_apply_filter_to_leaf_nodes and not nd._child_nodes))
            and (nd.taxon and nd.taxon in taxa):
             nd.edge.tail_node.remove_child(nd)                                    *)
Definition p1_cond (lf intn : bool) (taxa : list Z) (n : tree) : bool :=
  ((intn && negb (is_leaf n)) || (lf && is_leaf n))
  && match t_taxon n with Some x => memz x taxa | None => false end.

Definition p1_f (lf intn : bool) (taxa : list Z) (n : tree) : list tree :=
  if p1_cond lf intn taxa n then [] else [n].

Definition p1_step (lf intn : bool) (taxa : list Z) (s : ires tree) (id : Z) : ires tree :=
  match s with
  | IOk t =>
    if Z.eqb (t_id t) id then (if p1_cond lf intn taxa t then IErr EAttr t else IOk t)
    else IOk (upd_below (p1_f lf intn taxa) id t)
  | x => x
  end.

Definition prune_phase1 (lf intn : bool) (taxa : list Z) (t : tree) : ires tree :=
  fold_left (p1_step lf intn taxa) (post_ids t) (IOk t).

Definition prune_taxa (taxa : list Z) (upd_bip sup lf intn : bool) (s : tstate) : ires iout :=
  let (t, rooted) := s in
  match prune_phase1 lf intn taxa t with
  | IOk t1 =>
    (* self.prune_leaves_without_taxa(update_bipartitions=..., suppress_unifurcations=...);
       its list is dropped, prune_taxa returns None *)
    match prune_leaves_without_taxa true upd_bip sup (t1, rooted) with
    | IOk (_, t2, r2) => IOk ([], t2, r2)
    | x => x
    end
  | IErr e t' => IErr e t'
  | IFuel => IFuel
  end.

(* the namespace: members in order, each with a label id; labels 2k and 2k+1 differ only in case *)
Definition nspace := list (Z * Z).
Definition lab_match (cs : bool) (a b : Z) : bool := if cs then Z.eqb a b else Z.eqb (a / 2) (b / 2).

(* TaxonNamespace.get_taxa(labels): every member matching some label, no duplicates *)
Definition get_taxa (ns : nspace) (cs : bool) (labels : list Z) : list Z :=
  fold_left (fun acc lb =>
               fold_left (fun acc2 (m : Z * Z) =>
                            if lab_match cs (snd m) lb && negb (memz (fst m) acc2) then acc2 ++ [fst m] else acc2)
                         ns acc)
            labels [].

(* retain_taxa: to_prune = [t for t in self.taxon_namespace if t not in taxa] *)
Definition retain_taxa (ns : nspace) (taxa : list Z) (upd_bip sup : bool) (s : tstate) : ires iout :=
  prune_taxa (filter (fun x => negb (memz x taxa)) (map fst ns)) upd_bip sup true false s.

Definition prune_taxa_with_labels (ns : nspace) (cs : bool) (labels : list Z) (upd_bip sup lf intn : bool)
           (s : tstate) : ires iout :=
  prune_taxa (get_taxa ns cs labels) upd_bip sup lf intn s.

Definition retain_taxa_with_labels (ns : nspace) (cs : bool) (labels : list Z) (upd_bip sup : bool)
           (s : tstate) : ires iout :=
  retain_taxa ns (get_taxa ns cs labels) upd_bip sup s.

(* prune_subtree(node): TypeError on the seed, else parent.remove_child(node) *)
Definition prune_subtree (id : Z) (upd_bip sup : bool) (s : tstate) : ires iout :=
  let (t, rooted) := s in
  if Z.eqb (t_id t) id then IErr EType t
  else IOk (finish upd_bip sup [] (upd_below rm_f id t) rooted).

(* Tree.suppress_unifurcations(update_bipartitions) called directly; the returned pairs are
   flattened [nd; child; nd; child ...].  (update_bipartitions only filters the stored encoding.) *)
Definition suppress_unifurcations (s : tstate) : ires iout :=
  let (t, rooted) := s in
  let (t', log) := su_run t in
  IOk (flat_map (fun p => [fst p; snd p]) log, t', rooted).

(* ---- Node.remove_child(node, suppress_unifurcations=True) (not used by the Tree methods above;
        anchored, so transcribed and checked): `par` is the id of the node whose child is removed *)
Definition try_add_child (c s : option Z) : option Z := try_add c s.

Definition rc_suppress_f (id : Z) (n : tree) : list tree :=
  (* n = self (has a parent); remove child id, then if one child is left replace self by it *)
  let ks := flat_map (upd rm_f id) (t_kids n) in
  match ks with
  | [c] => [set_len c (try_add (t_len c) (t_len n))]
  | _ => [set_kids n ks]
  end.

Definition remove_child (par id : Z) (suppress : bool) (s : tstate) : ires iout :=
  let (t, rooted) := s in
  match find par t with
  | None => IErr EValue t
  | Some p =>
    if negb (existsb (fun k => Z.eqb (t_id k) id) (t_kids p)) then IErr EValue t
    else if negb suppress then
      IOk ([id], (if Z.eqb (t_id t) par then set_kids t (flat_map (upd rm_f id) (t_kids t))
                  else upd_below (fun n => [set_kids n (flat_map (upd rm_f id) (t_kids n))]) par t), rooted)
    else if Z.eqb (t_id t) par then
      (* self has no parent *)
      let ks := flat_map (upd rm_f id) (t_kids t) in
      match ks with
      | [a; b] =>
        if negb (is_leaf a) then
          IOk ([id], set_kids t (t_kids a ++ [set_len b (try_add (t_len b) (t_len a))]), rooted)
        else if negb (is_leaf b) then
          IOk ([id], set_kids t (set_len a (try_add (t_len a) (t_len b)) :: t_kids b), rooted)
        else IOk ([id], set_kids t ks, rooted)
      | _ => IOk ([id], set_kids t ks, rooted)
      end
    else IOk ([id], upd_below (rc_suppress_f id) par t, rooted)
  end.

(* ------------------------------------------------------------------------------------------ *)
(* Node.extract_subtree / Tree.extract_tree                                                   *)
(* ------------------------------------------------------------------------------------------ *)

Fixpoint lookup (k : Z) (m : list (Z * tree)) : option tree :=
  match m with [] => None | (k', v) :: r => if Z.eqb k' k then Some v else lookup k r end.

Record xs : Type := mkxs {
  x_memo : list (Z * tree);
  x_start : option tree;
  x_match : option Z;        (* start_node_to_match: Some id, or None once it is self's parent *)
  x_brk : bool;
  x_err : option xerr }.

(* the filter: None, or (leaf flag, internal flag, ids on which node_filter_fn is True) *)
Definition xfilter := option (bool * bool * list Z).

Definition x_excluded (flt : xfilter) (nd0 : tree) : bool :=
  match flt with
  | None => false
  | Some (lfl, intl, oks) => (if is_leaf nd0 then lfl else intl) && negb (memz (t_id nd0) oks)
  end.

Definition x_create (self_id : Z) (s : xs) (nd0 : tree) (cta : list tree) : xs :=
  let nd1 := T (t_id nd0) (t_taxon nd0) (t_label nd0) (t_len nd0) cta in
  mkxs ((t_id nd0, nd1) :: x_memo s)
       (match x_match s with
        | Some m => if Z.eqb m (t_id nd0) then Some nd1 else x_start s
        | None => x_start s end)
       (x_match s) (x_brk s) (x_err s).

(* one iteration of `for nd0 in self.postorder_iter():`
   (the statement `nd1.edge.length = children_to_add[0].edge.length` of the merge branch writes to
   the most recently created node, which is either children_to_add[0] itself or a node that is not
   reachable from the result; it has no observable effect and is not transcribed) *)
Definition x_step (flt : xfilter) (sup : bool) (self_id : Z) (self_has_parent : bool) (s : xs) (nd0 : tree) : xs :=
  if x_brk s || (match x_err s with Some _ => true | None => false end) then s else
  if x_excluded flt nd0 then s else
  let cta := omap_list (fun ch => lookup (t_id ch) (x_memo s)) (t_kids nd0) in
  let is_self := Z.eqb (t_id nd0) self_id in
  let parent_none := is_self && negb self_has_parent in
  match cta with
  | [] =>
    if negb (is_leaf nd0) then
      if parent_none then mkxs (x_memo s) (x_start s) (x_match s) (x_brk s) (Some ESeedDel)
      else if is_self then mkxs (x_memo s) (x_start s) None (x_brk s) (x_err s)
      else s
    else x_create self_id s nd0 cta
  | [c] =>
    if sup then
      let c' := set_len c (merge_len (t_len nd0) (t_len c)) in
      if parent_none then mkxs (x_memo s) (Some c') (x_match s) true (x_err s)
      else mkxs ((t_id nd0, c') :: x_memo s) (x_start s)
                (if is_self then None else x_match s) (x_brk s) (x_err s)
    else x_create self_id s nd0 cta
  | _ => x_create self_id s nd0 cta
  end.

(* self = root of `t`; has_parent says whether self hangs in a bigger tree *)
Inductive xres : Type := XOk (t : tree) | XErr (e : xerr).

Definition extract_subtree (flt : xfilter) (sup : bool) (has_parent : bool) (t : tree) : xres :=
  let s := fold_left (x_step flt sup (t_id t) has_parent) (postorder t)
                     (mkxs [] None (Some (t_id t)) false None) in
  match x_err s with
  | Some e => XErr e            (* SeedNodeDeletionException *)
  | None => match x_start s with Some r => XOk r | None => XErr EValue end   (* raise ValueError *)
  end.

Definition extract_tree (flt : xfilter) (sup : bool) (t : tree) : xres :=
  extract_subtree flt sup false t.

(* the four wrappers build a filter on node.taxon and call extract_tree, handing their
   suppress_unifurcations argument on.
   The filter is given as a predicate on the taxon; the ids it accepts are computed from the tree. *)
Definition ids_where (p : npred) (t : tree) : list Z :=
  map t_id (filter (app_np p) (preorder t)).

Definition with_taxa_p (taxa : list Z) : npred :=
  fun _ x => match x with None => true | Some a => memz a taxa end.
Definition without_taxa_p (taxa : list Z) : npred :=
  fun _ x => match x with None => true | Some a => negb (memz a taxa) end.

(* nd.taxon.label in set(labels): exact string comparison *)
Definition tax_label (ns : nspace) (a : Z) : option Z :=
  match List.find (fun m => Z.eqb (fst m) a) ns with Some m => Some (snd m) | None => None end.
Definition with_labels_p (ns : nspace) (labels : list Z) : npred :=
  fun _ x => match x with None => true
                     | Some a => match tax_label ns a with Some lb => memz lb labels | None => false end end.
Definition without_labels_p (ns : nspace) (labels : list Z) : npred :=
  fun _ x => match x with None => true
                     | Some a => match tax_label ns a with Some lb => negb (memz lb labels) | None => true end end.

Definition extract_wrapper (p : npred) (sup : bool) (t : tree) : xres :=
  extract_tree (Some (true, false, ids_where p t)) sup t.

Definition extract_tree_with_taxa (taxa : list Z) := extract_wrapper (with_taxa_p taxa).
Definition extract_tree_without_taxa (taxa : list Z) := extract_wrapper (without_taxa_p taxa).
Definition extract_tree_with_taxa_labels (ns : nspace) (labels : list Z) := extract_wrapper (with_labels_p ns labels).
Definition extract_tree_without_taxa_labels (ns : nspace) (labels : list Z) := extract_wrapper (without_labels_p ns labels).

(* the label wrappers after the repair notes/C08_fix_c.patch:
     taxa = set(self.taxon_namespace.get_taxa(labels=labels))
     node_filter_fn = lambda nd: nd.taxon is None or nd.taxon in taxa          (resp. not in taxa)
   i.e. the labels are resolved by the namespace, under its case rule, exactly as in
   prune_taxa_with_labels / retain_taxa_with_labels.  Which of the two forms the working tree has is
   probed by the harness at run time and passed in the case (c_lab_ns). *)
Definition extract_tree_with_taxa_labels_ns (ns : nspace) (cs : bool) (labels : list Z) :=
  extract_wrapper (with_taxa_p (get_taxa ns cs labels)).
Definition extract_tree_without_taxa_labels_ns (ns : nspace) (cs : bool) (labels : list Z) :=
  extract_wrapper (without_taxa_p (get_taxa ns cs labels)).

(* prune_taxa / prune_leaves_without_taxa reaching the seed: AttributeError (None.remove_child) in the
   code as transcribed above; with notes/C03_fix_1.patch the same two places test for the seed first
   and raise SeedNodeDeletionException.  Same place, same tree left behind, other exception class:
   the class is probed by the harness and passed in the case (c_seed_err). *)
Definition seed_err {A} (e : xerr) (r : ires A) : ires A :=
  match r with IErr EAttr t => IErr e t | x => x end.

(* what the harness sees of a new tree: nodes named base, base+1, ... in pre-order, and the
   extraction_source of each in the same order *)
Fixpoint renum (t : tree) (n : Z) : tree * Z :=
  match t with
  | T _ x l e ks =>
    let '(ks', n') :=
      (fix go (ks : list tree) (n : Z) : list tree * Z :=
         match ks with
         | [] => ([], n)
         | k :: r => let '(k', n1) := renum k n in let '(r', n2) := go r n1 in (k' :: r', n2)
         end) ks (n + 1) in
    (T n x l e ks', n')
  end.

Definition x_view (base : Z) (r : tree) : tree * list Z := (fst (renum r base), map t_id (preorder r)).

(* ------------------------------------------------------------------------------------------ *)
(* correspondence cases                                                                       *)
(* ------------------------------------------------------------------------------------------ *)

Inductive op : Type :=
| PruneTaxa (taxa : list Z) (upd_bip sup lf intn : bool)
| PruneLabels (labels : list Z) (upd_bip sup lf intn : bool)
| RetainTaxa (taxa : list Z) (upd_bip sup : bool)
| RetainLabels (labels : list Z) (upd_bip sup : bool)
| FilterLeaves (ok : list Z) (recursive upd_bip sup : bool)
| PruneSubtree (id : Z) (upd_bip sup : bool)
| PruneNoTaxa (recursive upd_bip sup : bool)
| SuppressUnif
| RemoveChild (par id : Z) (suppress : bool)
| Extract (flt : xfilter) (sup : bool)
| ExtractAt (id : Z) (flt : xfilter) (sup : bool)
| ExtractWithTaxa (taxa : list Z) (sup : bool)
| ExtractWithoutTaxa (taxa : list Z) (sup : bool)
| ExtractWithLabels (labels : list Z) (sup : bool)
| ExtractWithoutLabels (labels : list Z) (sup : bool).

(* expected observation *)
Inductive obs : Type :=
| OInPlace (ret : list Z) (t : tree) (rooted : option bool)        (* normal return of an in-place method *)
| OInPlaceErr (e : xerr) (t : tree)                                (* exception; tree as left behind *)
| ONew (newt : tree) (srcmap : list Z) (rooted : option bool) (src_after : tree)
| ONewErr (e : xerr) (src_after : tree).

Record case : Type := mkcase {
  c_tree : tree;
  c_rooted : option bool;
  c_ns : nspace;
  c_cs : bool;
  c_base : Z;
  c_lab_ns : bool;          (* probed: the label wrappers of extract_tree resolve through the namespace *)
  c_seed_err : xerr;        (* probed: exception class when prune_taxa / prune_leaves_without_taxa reach the seed *)
  c_steps : list (op * obs) }.

Definition ob_eqb (a b : option bool) : bool :=
  match a, b with
  | None, None => true
  | Some x, Some y => Bool.eqb x y
  | _, _ => false
  end.

Definition zl_eqb := list_eqb Z.eqb.

Definition check_inplace (r : ires iout) (o : obs) : bool :=
  match r, o with
  | IOk (ret, t, rooted), OInPlace ret' t' rooted' => zl_eqb ret ret' && tree_eqb t t' && ob_eqb rooted rooted'
  | IErr e t, OInPlaceErr e' t' => xerr_eqb e e' && tree_eqb t t'
  | _, _ => false
  end.

Definition check_new (c : case) (src : tree) (r : xres) (o : obs) : bool :=
  match r, o with
  | XOk nt, ONew nt' sm rooted' src' =>
    let (v, m) := x_view (c_base c) nt in
    tree_eqb v nt' && zl_eqb m sm && ob_eqb (c_rooted c) rooted' && tree_eqb src src'
  | XErr e, ONewErr e' src' => xerr_eqb e e' && tree_eqb src src'
  | _, _ => false
  end.

Definition step_ok (c : case) (so : op * obs) : bool :=
  let s := (c_tree c, c_rooted c) in
  let t := c_tree c in
  let se {A} (r : ires A) := seed_err (c_seed_err c) r in
  match so with
  | (PruneTaxa taxa u sp lf intn, o) => check_inplace (se (prune_taxa taxa u sp lf intn s)) o
  | (PruneLabels lbs u sp lf intn, o) => check_inplace (se (prune_taxa_with_labels (c_ns c) (c_cs c) lbs u sp lf intn s)) o
  | (RetainTaxa taxa u sp, o) => check_inplace (se (retain_taxa (c_ns c) taxa u sp s)) o
  | (RetainLabels lbs u sp, o) => check_inplace (se (retain_taxa_with_labels (c_ns c) (c_cs c) lbs u sp s)) o
  | (FilterLeaves ok rc u sp, o) => check_inplace (filter_leaf_nodes ok rc u sp s) o
  | (PruneSubtree id u sp, o) => check_inplace (prune_subtree id u sp s) o
  | (PruneNoTaxa rc u sp, o) => check_inplace (se (prune_leaves_without_taxa rc u sp s)) o
  | (SuppressUnif, o) => check_inplace (suppress_unifurcations s) o
  | (RemoveChild par id sp, o) => check_inplace (remove_child par id sp s) o
  | (Extract flt sp, o) => check_new c t (extract_tree flt sp t) o
  | (ExtractAt id flt sp, o) =>
    match find id t with
    | Some n => check_new c t (extract_subtree flt sp (negb (Z.eqb id (t_id t))) n) o
    | None => false
    end
  | (ExtractWithTaxa taxa sp, o) => check_new c t (extract_tree_with_taxa taxa sp t) o
  | (ExtractWithoutTaxa taxa sp, o) => check_new c t (extract_tree_without_taxa taxa sp t) o
  | (ExtractWithLabels lbs sp, o) =>
    check_new c t (if c_lab_ns c then extract_tree_with_taxa_labels_ns (c_ns c) (c_cs c) lbs sp t
                   else extract_tree_with_taxa_labels (c_ns c) lbs sp t) o
  | (ExtractWithoutLabels lbs sp, o) =>
    check_new c t (if c_lab_ns c then extract_tree_without_taxa_labels_ns (c_ns c) (c_cs c) lbs sp t
                   else extract_tree_without_taxa_labels (c_ns c) lbs sp t) o
  end.

Definition case_ok (c : case) : bool := forallb (step_ok c) (c_steps c).

(* diagnostics for replays: what the model computes *)
Inductive shown : Type :=
| ShIn (r : ires iout)
| ShNew (r : xerr + (tree * list Z)).

Definition step_show (c : case) (so : op * obs) : shown :=
  let s := (c_tree c, c_rooted c) in
  let t := c_tree c in
  let sh (r : xres) := ShNew (match r with XOk nt => inr (x_view (c_base c) nt) | XErr e => inl e end) in
  match fst so with
  | PruneTaxa taxa u sp lf intn => ShIn (seed_err (c_seed_err c) (prune_taxa taxa u sp lf intn s))
  | PruneLabels lbs u sp lf intn => ShIn (seed_err (c_seed_err c) (prune_taxa_with_labels (c_ns c) (c_cs c) lbs u sp lf intn s))
  | RetainTaxa taxa u sp => ShIn (seed_err (c_seed_err c) (retain_taxa (c_ns c) taxa u sp s))
  | RetainLabels lbs u sp => ShIn (seed_err (c_seed_err c) (retain_taxa_with_labels (c_ns c) (c_cs c) lbs u sp s))
  | FilterLeaves ok rc u sp => ShIn (filter_leaf_nodes ok rc u sp s)
  | PruneSubtree id u sp => ShIn (prune_subtree id u sp s)
  | PruneNoTaxa rc u sp => ShIn (seed_err (c_seed_err c) (prune_leaves_without_taxa rc u sp s))
  | SuppressUnif => ShIn (suppress_unifurcations s)
  | RemoveChild par id sp => ShIn (remove_child par id sp s)
  | Extract flt sp => sh (extract_tree flt sp t)
  | ExtractAt id flt sp => match find id t with Some n => sh (extract_subtree flt sp (negb (Z.eqb id (t_id t))) n) | None => sh (XErr EValue) end
  | ExtractWithTaxa taxa sp => sh (extract_tree_with_taxa taxa sp t)
  | ExtractWithoutTaxa taxa sp => sh (extract_tree_without_taxa taxa sp t)
  | ExtractWithLabels lbs sp =>
    sh (if c_lab_ns c then extract_tree_with_taxa_labels_ns (c_ns c) (c_cs c) lbs sp t
        else extract_tree_with_taxa_labels (c_ns c) lbs sp t)
  | ExtractWithoutLabels lbs sp =>
    sh (if c_lab_ns c then extract_tree_without_taxa_labels_ns (c_ns c) (c_cs c) lbs sp t
        else extract_tree_without_taxa_labels (c_ns c) lbs sp t)
  end.

Definition case_show (c : case) : list shown :=
  map (step_show c) (filter (fun so => negb (step_ok c so)) (c_steps c)).
