(* C02 metadata correspondence cases: concrete instance of Model/C02Meta.v (+ C02MetaAnn.v) and the
   `mcase` record.

   Numerals are carried as text (L := str) as in Model/C02Model.v: the writer side gets
   "{}".format(x) from the harness, float() is a table text -> repr(float) (None = ValueError) for every
   edge-length token and every part of a weight expression in the text, float division is a table on
   the reprs (None = ZeroDivisionError).  Annotations delivered by the reader are compared up to
   permutation (they pass through a Python set hashed by id()). *)
From Coq Require Import ZArith List Bool.
From DV Require Import Model.PyPrims Gen.CharClasses Model.Tokenizer Model.Newick Model.C02Model
     Model.C02Meta Model.C02MetaAnn.
Import ListNotations.
Open Scope Z_scope.

Definition wdiv_with (tbl : list ((str * str) * option str)) (a b : str) : option str :=
  match find (fun e => str_eqb (fst (fst e)) a && str_eqb (snd (fst e)) b) tbl with
  | Some e => snd e
  | None => None
  end.

Definition rval_eqb (a b : rval) : bool :=
  match a, b with
  | RStr x, RStr y => str_eqb x y
  | RBool x, RBool y => Bool.eqb x y
  | RList x, RList y => list_eqb str_eqb x y
  | _, _ => false
  end.

Definition rannot_eqb (a b : rannot) : bool := str_eqb (fst a) (fst b) && rval_eqb (snd a) (snd b).

(* remove the first element equal to x *)
Fixpoint remove_one {A} (eqb : A -> A -> bool) (x : A) (l : list A) : option (list A) :=
  match l with
  | [] => None
  | y :: r => if eqb x y then Some r
              else match remove_one eqb x r with Some r' => Some (y :: r') | None => None end
  end.

Fixpoint perm_eqb {A} (eqb : A -> A -> bool) (a b : list A) : bool :=
  match a with
  | [] => is_nil b
  | x :: r => match remove_one eqb x b with Some b' => perm_eqb eqb r b' | None => false end
  end.

Definition mptree_s := mptree str rannot.

Fixpoint mptree_eqb (a b : mptree_s) : bool :=
  match a, b with
  | MPN x l e an c ks, MPN x' l' e' an' c' ks' =>
    option_eqb Nat.eqb x x' && option_eqb str_eqb l l' && option_eqb str_eqb e e'
    && perm_eqb rannot_eqb an an' && list_eqb str_eqb c c' &&
    (fix go (p q : list mptree_s) : bool :=
       match p, q with
       | [], [] => true
       | a1 :: r1, b1 :: r2 => mptree_eqb a1 b1 && go r1 r2
       | _, _ => false
       end) ks ks'
  end.

Definition mr_eqb (a b : mresult str rannot) : bool :=
  obool_eqb (mr_is_rooted a) (mr_is_rooted b)
  && option_eqb str_eqb (mr_weight a) (mr_weight b)
  && perm_eqb rannot_eqb (mr_anns a) (mr_anns b)
  && list_eqb str_eqb (mr_comments a) (mr_comments b)
  && mptree_eqb (mr_tree a) (mr_tree b).

Definition mread_result := res (list (mresult str rannot) * list str).

Definition mread_result_eqb (a b : mread_result) : bool :=
  res_eqb (fun x y => list_eqb mr_eqb (fst x) (fst y) && list_eqb str_eqb (snd x) (snd y)) a b.

Record mcase : Type := mkMcase {
  mc_lower : list (Z * Z);
  mc_floats : list (str * option str);
  mc_divs : list ((str * str) * option str);
  (* writer side; mc_trees = [] means: reader-only case *)
  mc_wflags : list bool;      (* the 8 flags of C02Model.c_wflags; store_tree_weights; suppress_annotations;
                                 suppress_item_comments *)
  mc_trees : list (mtree str);
  mc_written : str;
  (* reader side *)
  mc_ropts : ropts;
  mc_store : bool;            (* store_tree_weights *)
  mc_extract : bool;          (* extract_comment_metadata *)
  mc_dw : str;                (* repr(default_tree_weight) *)
  mc_text : str;
  mc_read : mread_result
}.

Definition mcase_wopts (c : mcase) : mwopts :=
  let f := mc_wflags c in
  mkMwopts (mkWopts (nthb f 0) (nthb f 1) (nthb f 2) (nthb f 3) (nthb f 4) (nthb f 5) (nthb f 6) (nthb f 7) (fun l => l))
           (nthb f 8) (nthb f 9) (nthb f 10).

Definition mcase_write (c : mcase) : str :=
  cwrite_tree_list str (fun x => x) (mcase_wopts c) (mc_trees c).

Definition mcase_read (c : mcase) : mread_result :=
  read_newick_m str (parse_len_with (mc_floats c)) (lower_with (mc_lower c)) (wdiv_with (mc_divs c))
                rannot (parse_md (lower_with (mc_lower c)))
                (mkMropts str (mc_ropts c) (mc_store c) (mc_extract c) (mc_dw c)) [] (mc_text c).

Definition mcase_ok (c : mcase) : bool :=
  (is_nil (mc_trees c) || (Nat.eqb (length (mc_wflags c)) 11 && str_eqb (mcase_write c) (mc_written c)))
  && mread_result_eqb (mcase_read c) (mc_read c).

Definition mcase_show (c : mcase) := (mcase_write c, mcase_read c).
