(* C05, wave 6: OBJECT-LEVEL model of merging split distributions (SplitDistribution.update, and through
   it TreeArray.update / extend / __iadd__ / __add__, which all end in
   self._split_distribution.update(other._split_distribution)).

   The functional model C05Model.update cannot say "the merge leaves its argument unchanged": here the
   per-split lists of split_edge_lengths / split_node_ages are OBJECTS in a heap (a distribution maps a
   split to the identity of its list), so that sharing a list between two distributions - and the
   key a defaultdict creates in the SOURCE when it is read - are expressible.  Statement by statement:

     count_splits_on_tree:  sel = self.split_edge_lengths.setdefault(split, []); sel.append(elen)
     update:                for split in split_dist.split_counts:
                                self.split_counts[split] += split_dist.split_counts[split]
                                self.split_edge_lengths[split] += split_dist.split_edge_lengths[split]
                                self.split_node_ages[split] += split_dist.split_node_ages[split]
         `a[k] += b[k]` on defaultdict(list): a[k] is looked up (created empty when missing), b[k] is
         looked up (created empty IN b when missing), the list object of a[k] is extended in place by
         the elements of b[k]'s object, and stored back under k.

   Definitions only; Proofs/C05MergeProofs.v proves that under the invariant "every dict entry holds
   the list it created itself" (which every history of new / count / update between different distributions
   preserves) the object-level update computes C05Model.update on the abstractions, changes nothing
   observable of the source and nothing at all of any third distribution. *)
From Coq Require Import ZArith QArith Qabs Qreduction List Bool.
From DV Require Import Model.PyPrims Gen.BitFns Gen.Consts Model.C05Model Model.C05Spec.
Import ListNotations.
Open Scope Z_scope.

(* identity of a list object: the dict entry that created it - (index of the distribution object,
   which attribute: true = split_edge_lengths / false = split_node_ages, split key).  A dict has one
   entry per key and never deletes one, so creation sites are unique names.  An entry may hold ANY
   identity (that is what sharing would be); the proofs show it always holds its own. *)
Definition oid := (nat * bool * Z)%type.
Definition oid_eqb (a b : oid) : bool :=
  Nat.eqb (fst (fst a)) (fst (fst b)) && Bool.eqb (snd (fst a)) (snd (fst b)) && Z.eqb (snd a) (snd b).
Definition heap := oid -> list (option Q).
Definition hupd (hp : heap) (id : oid) (v : list (option Q)) : heap := fun k => if oid_eqb k id then v else hp k.

(* a defaultdict(list): split -> identity of the list object *)
Definition otbl := list (Z * oid).
Definition ids (t : otbl) : list oid := map snd t.

(* d[k] on a defaultdict(list) (also d.setdefault(k, [])): the object stored under k; a fresh empty
   list is created and stored under k when there is none.  me/b: the dict (owner, attribute) *)
Definition tbl_touch (hp : heap) (me : nat) (b : bool) (t : otbl) (k : Z) : heap * otbl * oid :=
  match aget k t with
  | Some id => (hp, t, id)
  | None => (hupd hp (me, b, k) [], t ++ [(k, (me, b, k))], (me, b, k))
  end.

(* d[k] += xs  /  d.setdefault(k, []).append(x): the object under k is extended in place *)
Definition tbl_extend (hp : heap) (me : nat) (b : bool) (t : otbl) (k : Z) (xs : list (option Q)) : heap * otbl :=
  let '(hp1, t1, id) := tbl_touch hp me b t k in
  (hupd hp1 id (hp1 id ++ xs), t1).

Record hsd := mkHsd {
  h_self : nat;                 (* which distribution object this is *)
  h_total : Z; h_sumw : Q; h_rootings : list bool; h_counts : list (Z * Q);
  h_elens : otbl; h_nages : otbl;
  h_freqs : option (list (Z * Q)); h_counted_for : Z
}.
Definition hsd_empty (me : nat) : hsd := mkHsd me 0 0 [] [] [] [] None 0.

(* the distribution the functional model talks about *)
Definition abs_tbl (hp : heap) (t : otbl) : list (Z * list (option Q)) := map (fun kv => (fst kv, hp (snd kv))) t.
Definition abs (hp : heap) (d : hsd) : sd :=
  mkSd (h_total d) (h_sumw d) (h_rootings d) (h_counts d) (abs_tbl hp (h_elens d)) (abs_tbl hp (h_nages d))
       (h_freqs d) (h_counted_for d).

(* ---- count_splits_on_tree *)
Fixpoint hcount_recs (c : config) (me : nat) (w : Q) (rs : list brec) (hp : heap)
         (cnt : list (Z * Q)) (el ag : otbl) : heap * list (Z * Q) * otbl * otbl :=
  match rs with
  | [] => (hp, cnt, el, ag)
  | r :: rest =>
    let cnt' := aupd (r_split r) 0%Q (fun x => qplus x w) cnt in
    let '(hp1, el') := if ignore_len c then (hp, el)
                       else tbl_extend hp me true el (r_split r) [rec_len c r] in
    let '(hp2, ag') := if ignore_ages c then (hp1, ag)
                       else tbl_extend hp1 me false ag (r_split r) [r_age r] in
    hcount_recs c me w rest hp2 cnt' el' ag'
  end.

Definition hcount (c : config) (hp : heap) (d : hsd) (t : tree_in) : heap * hsd :=
  let w := weight_to_use c t in
  let '(hp', cnt, el, ag) := hcount_recs c (h_self d) w (t_recs t) hp (h_counts d) (h_elens d) (h_nages d) in
  (hp', mkHsd (h_self d) (h_total d + 1) (qplus (h_sumw d) w) (add_rooting (is_rooted_truthy (t_rooting t)) (h_rootings d))
              cnt el ag (h_freqs d) (h_counted_for d)).

(* ---- update(split_dist): self = d (object i), split_dist = o (object j), two DIFFERENT objects *)
Fixpoint hupdate_keys (i j : nat) (kvs : list (Z * Q)) (hp : heap)
         (cnt : list (Z * Q)) (de da oe oa : otbl) : heap * list (Z * Q) * otbl * otbl * otbl * otbl :=
  match kvs with
  | [] => (hp, cnt, de, da, oe, oa)
  | kv :: rest =>
    let s := fst kv in
    let cnt' := aupd s 0%Q (fun x => qplus x (snd kv)) cnt in
    (* self.split_edge_lengths[split] += split_dist.split_edge_lengths[split] *)
    let '(hp1, oe1, idr) := tbl_touch hp j true oe s in
    let '(hp2, de1) := tbl_extend hp1 i true de s (hp1 idr) in
    (* self.split_node_ages[split] += split_dist.split_node_ages[split] *)
    let '(hp3, oa1, ida) := tbl_touch hp2 j false oa s in
    let '(hp4, da1) := tbl_extend hp3 i false da s (hp3 ida) in
    hupdate_keys i j rest hp4 cnt' de1 da1 oe1 oa1
  end.

Definition hupdate (hp : heap) (d o : hsd) : heap * hsd * hsd :=
  let '(hp', cnt, de, da, oe, oa) :=
      hupdate_keys (h_self d) (h_self o) (h_counts o) hp (h_counts d) (h_elens d) (h_nages d) (h_elens o) (h_nages o) in
  (hp',
   mkHsd (h_self d) (h_total d + h_total o) (qplus (h_sumw d) (h_sumw o)) (union_rootings (h_rootings d) (h_rootings o))
         cnt de da (h_freqs d) (h_counted_for d),
   mkHsd (h_self o) (h_total o) (h_sumw o) (h_rootings o) (h_counts o) oe oa (h_freqs o) (h_counted_for o)).

(* ---- a world of several distributions sharing one heap *)
Record mworld := mkMw { mw_heap : heap; mw_dists : list hsd }.
Definition mw_empty : mworld := mkMw (fun _ => []) [].

Fixpoint set_nth {A} (l : list A) (i : nat) (x : A) : list A :=
  match l, i with
  | [], _ => []
  | _ :: r, O => x :: r
  | y :: r, S k => y :: set_nth r k x
  end.

Inductive mop :=
| MNew                                  (* SplitDistribution(..) / the distribution of a new TreeArray *)
| MCount (i : nat) (t : tree_in)        (* dists[i].count_splits_on_tree(t) *)
| MUpdate (i j : nat).                  (* dists[i].update(dists[j]), i <> j *)

Definition mstep (c : config) (w : mworld) (op : mop) : mworld :=
  match op with
  | MNew => mkMw (mw_heap w) (mw_dists w ++ [hsd_empty (length (mw_dists w))])
  | MCount i t =>
    match nth_error (mw_dists w) i with
    | Some d => let '(hp, d') := hcount c (mw_heap w) d t in
                mkMw hp (set_nth (mw_dists w) i d')
    | None => w
    end
  | MUpdate i j =>
    if Nat.eqb i j then w      (* self-update: outside the model *)
    else match nth_error (mw_dists w) i, nth_error (mw_dists w) j with
         | Some d, Some o => let '(hp, d', o') := hupdate (mw_heap w) d o in
                             mkMw hp (set_nth (set_nth (mw_dists w) i d') j o')
         | _, _ => w
         end
  end.

Definition mrun (c : config) (w : mworld) (ops : list mop) : mworld := fold_left (mstep c) ops w.

Definition mabs (w : mworld) (i : nat) : sd :=
  match nth_error (mw_dists w) i with Some d => abs (mw_heap w) d | None => sd_empty end.

(* ---- what the harness reads off a distribution: frequencies and both summary tables, by split *)
Definition by_key {V} (l : list (Z * V)) : list (Z * V) := sort_by (fun a b => Z.leb (fst a) (fst b)) l.
Record digest := mkDg { dg_freq : list (Z * Q); dg_len : list (Z * summary); dg_age : list (Z * summary) }.
Definition digest_of (d : sd) : digest :=
  mkDg (by_key (snd (get_freqs d))) (by_key (calc_summaries (elens d))) (by_key (calc_summaries (nages d))).

(* mean / median / variance within 1e-9 relative, range exact (the harness hands over summary['var']) *)
Definition summary_close_var (m ob : summary) : bool :=
  q_close_rel tol9 (s_mean m) (s_mean ob) && q_close_rel tol9 (s_median m) (s_median ob)
  && oq_close tol9 (s_var m) (s_var ob)
  && Qeq_bool (s_min m) (s_min ob) && Qeq_bool (s_max m) (s_max ob).
Definition summ_rows_close (a b : list (Z * summary)) : bool :=
  list_eqb (fun x y => Z.eqb (fst x) (fst y) && summary_close_var (snd x) (snd y)) a b.
Definition digest_close (m ob : digest) : bool :=
  table_close tol12 (dg_freq m) (dg_freq ob) && summ_rows_close (dg_len m) (dg_len ob)
  && summ_rows_close (dg_age m) (dg_age ob).

(* the merge history of py/dv/c05_merge.py: two collections, digests of both, a third collection
   updated from both (the four forms ta1 + ta2, ta3 += .., ta3.update(..), sd3.update(..) are this
   sequence on the distributions), optionally more trees counted into it, digests of the sources
   again, of the result and of a fresh collection of all trees.  Reading split_frequencies moves the
   frequency cache of the distribution read (get_freqs); the digests are taken in the harness's order *)
Record mcase := mkMcase {
  mc_cfg : config;
  mc_trees1 : list tree_in; mc_trees2 : list tree_in; mc_extra : list tree_in;
  mc_before : digest * digest;
  mc_after : digest * digest;
  mc_result : digest;
  mc_fresh : digest
}.

Definition mcase_ops (c : mcase) : list mop :=
  [MNew] ++ map (MCount 0) (mc_trees1 c) ++ [MNew] ++ map (MCount 1) (mc_trees2 c)
  ++ [MNew; MUpdate 2 0; MUpdate 2 1] ++ map (MCount 2) (mc_extra c)
  ++ [MNew] ++ map (MCount 3) (mc_trees1 c ++ mc_trees2 c ++ mc_extra c).

Definition mcase_ok (c : mcase) : bool :=
  let w1 := mrun (mc_cfg c) mw_empty ([MNew] ++ map (MCount 0) (mc_trees1 c) ++ [MNew] ++ map (MCount 1) (mc_trees2 c)) in
  let w := mrun (mc_cfg c) mw_empty (mcase_ops c) in
  digest_close (digest_of (mabs w1 0)) (fst (mc_before c)) && digest_close (digest_of (mabs w1 1)) (snd (mc_before c))
  && digest_close (digest_of (mabs w 0)) (fst (mc_after c)) && digest_close (digest_of (mabs w 1)) (snd (mc_after c))
  && digest_close (digest_of (mabs w 2)) (mc_result c) && digest_close (digest_of (mabs w 3)) (mc_fresh c).
