(* C02, OBJECT level: which look-up container a NexusTaxonSymbolMapper reads and writes.

   The value-level models (Model/Newick.v `mapper`, Model/C02Nexus.v) give every mapper its own three tables
   (TRANSLATE token -> taxon, label -> taxon, taxon number -> taxon).  That is only right if no two mapper objects
   share a container: a lazy tree iterator (Tree.yield_from_files) keeps its mapper alive while other readers
   create and use theirs.  Here the containers are objects in a heap:

     heap        address -> contents of one container (`table`, abstract)
     object      the instance __dict__ of one mapper: field -> address, unbound fields fall through to the
                 CLASS-level attribute of that name (Python attribute look-up), if the class body defines one
     EBind f v   `self.f = <newly created container with contents v>`   (dict literal, CaseInsensitiveDict(..),
                                                                         TaxonNamespace.label_taxon_map())
     EMut f g    `self.f.clear()`, `self.f[k] = x`: the container self.f REFERS TO is changed in place

   A method is a list of such effects (its other statements do not touch the containers); which effects
   NexusTaxonSymbolMapper.__init__ (with _set_taxon_namespace and reset_supplemental_mappings inlined) performs,
   on every path, and which fields the class body binds is read off the source on every run
   (py/dv/gen_c02mapobj.py -> Gen/C02MapObjGen.v).  Definitions only; proofs in Proofs/C02MapObj.v. *)
From Coq Require Import List Bool Arith.
Import ListNotations.

Inductive field : Type := FTok | FLab | FNum.

Definition field_eqb (a b : field) : bool :=
  match a, b with FTok, FTok | FLab, FLab | FNum, FNum => true | _, _ => false end.

(* shape of an effect: what the generator reads off the source *)
Inductive ekind : Type := KBind | KMut.
Definition shape := (ekind * field)%type.

(* init_ok: every field is bound, and no container is changed in place before the instance has bound it *)
Fixpoint mut_after_bind (bound : field -> bool) (l : list shape) : bool :=
  match l with
  | [] => true
  | (KBind, f) :: r => mut_after_bind (fun g => field_eqb f g || bound g) r
  | (KMut, f) :: r => bound f && mut_after_bind bound r
  end.
Definition binds (f : field) (l : list shape) : bool := existsb (fun s => match s with (KBind, g) => field_eqb f g | _ => false end) l.
Definition init_ok (l : list shape) : bool :=
  binds FTok l && binds FLab l && binds FNum l && mut_after_bind (fun _ => false) l.

Section Obj.
Variable table : Type.

Inductive eff : Type :=
| EBind (f : field) (v : table)
| EMut (f : field) (g : table -> table).

Definition shape_of (e : eff) : shape := match e with EBind f _ => (KBind, f) | EMut f _ => (KMut, f) end.

Record obj : Type := mkObj { o_tok : option nat; o_lab : option nat; o_num : option nat }.
Definition empty_obj : obj := mkObj None None None.
Definition oget (o : obj) (f : field) : option nat :=
  match f with FTok => o_tok o | FLab => o_lab o | FNum => o_num o end.
Definition oset (o : obj) (f : field) (a : nat) : obj :=
  match f with
  | FTok => mkObj (Some a) (o_lab o) (o_num o)
  | FLab => mkObj (o_tok o) (Some a) (o_num o)
  | FNum => mkObj (o_tok o) (o_lab o) (Some a)
  end.
Definition complete (o : obj) : bool :=
  match o_tok o, o_lab o, o_num o with Some _, Some _, Some _ => true | _, _, _ => false end.

Record world : Type := mkWorld {
  w_heap : list table;
  w_cls : obj;               (* class-level attributes of the same names (None: the class body does not define it) *)
  w_objs : list obj
}.

Fixpoint upd_nth {A} (n : nat) (x : A) (l : list A) : list A :=
  match l, n with
  | [], _ => []
  | _ :: r, O => x :: r
  | y :: r, S k => y :: upd_nth k x r
  end.

(* Python attribute look-up: instance first, then the class *)
Definition resolve (w : world) (o : obj) (f : field) : option nat :=
  match oget o f with Some a => Some a | None => oget (w_cls w) f end.

(* None = AttributeError / dangling (never in a well-formed world) *)
Definition run_eff (w : world) (i : nat) (e : eff) : option world :=
  match nth_error (w_objs w) i with
  | None => None
  | Some o =>
    match e with
    | EBind f v =>
      Some (mkWorld (w_heap w ++ [v]) (w_cls w) (upd_nth i (oset o f (length (w_heap w))) (w_objs w)))
    | EMut f g =>
      match resolve w o f with
      | None => None
      | Some a =>
        match nth_error (w_heap w) a with
        | None => None
        | Some t => Some (mkWorld (upd_nth a (g t) (w_heap w)) (w_cls w) (w_objs w))
        end
      end
    end
  end.

Fixpoint run_effs (w : world) (i : nat) (l : list eff) : option world :=
  match l with
  | [] => Some w
  | e :: r => match run_eff w i e with Some w' => run_effs w' i r | None => None end
  end.

(* what object i sees in field f *)
Definition view (w : world) (i : nat) (f : field) : option table :=
  match nth_error (w_objs w) i with
  | None => None
  | Some o => match resolve w o f with Some a => nth_error (w_heap w) a | None => None end
  end.

(* operations of a reading history: a reader creates its mapper (the constructor's effects), any live mapper runs
   a method (add_translate_token, new_taxon, a namespace re-assignment, ...) *)
Inductive op : Type :=
| ONew (init : list eff)
| OCall (i : nat) (l : list eff).

Definition run_op (w : world) (o : op) : option world :=
  match o with
  | ONew init => run_effs (mkWorld (w_heap w) (w_cls w) (w_objs w ++ [empty_obj])) (length (w_objs w)) init
  | OCall i l => run_effs w i l
  end.

Fixpoint run_ops (w : world) (l : list op) : option world :=
  match l with
  | [] => Some w
  | o :: r => match run_op w o with Some w' => run_ops w' r | None => None end
  end.

(* ---- the VALUE level: every mapper owns its three tables ---- *)
Definition vobj := field -> option table.
Definition vrun_eff (v : vobj) (e : eff) : vobj :=
  match e with
  | EBind f x => fun g => if field_eqb f g then Some x else v g
  | EMut f h => fun g => if field_eqb f g then option_map h (v g) else v g
  end.
Definition vrun_effs (v : vobj) (l : list eff) : vobj := fold_left vrun_eff l v.

(* ---- separation ---- *)
Definition sep (w : world) : Prop :=
  (forall i j o1 o2 f g a, nth_error (w_objs w) i = Some o1 -> nth_error (w_objs w) j = Some o2 ->
      oget o1 f = Some a -> oget o2 g = Some a -> i = j /\ f = g)
  /\ (forall i o f a, nth_error (w_objs w) i = Some o -> oget o f = Some a -> a < length (w_heap w))
  /\ (forall i o f g a, nth_error (w_objs w) i = Some o -> oget o f = Some a -> oget (w_cls w) g <> Some a)
  /\ (forall g a, oget (w_cls w) g = Some a -> a < length (w_heap w)).

Definition all_complete (w : world) : Prop :=
  forall i o, nth_error (w_objs w) i = Some o -> complete o = true.

(* a world before any mapper exists: the class-level containers (if the class body creates any) are in the heap *)
Definition start_ok (w : world) : Prop :=
  w_objs w = [] /\ (forall g a, oget (w_cls w) g = Some a -> a < length (w_heap w)).

Definition ops_ok (l : list op) : Prop :=
  forall init, In (ONew init) l -> init_ok (map shape_of init) = true.

(* a well-formed history over n live mappers: every constructor run is init_ok, every call addresses a live mapper *)
Fixpoint hist_ok (n : nat) (l : list op) : Prop :=
  match l with
  | [] => True
  | ONew init :: r => init_ok (map shape_of init) = true /\ hist_ok (S n) r
  | OCall i _ :: r => i < n /\ hist_ok n r
  end.

(* the value-level history: every mapper owns its tables *)
Definition vrun_op (vs : list vobj) (o : op) : list vobj :=
  match o with
  | ONew init => vs ++ [vrun_effs (fun _ => None) init]
  | OCall i l => upd_nth i (vrun_effs (nth i vs (fun _ => None)) l) vs
  end.
Definition vrun_ops (vs : list vobj) (l : list op) : list vobj := fold_left vrun_op l vs.

End Obj.

Arguments EBind {table}.
Arguments EMut {table}.
Arguments ONew {table}.
Arguments OCall {table}.
