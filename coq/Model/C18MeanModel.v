(* C18 - mean_kingman_tree: coalesce_nodes with use_expected_tmrca=True.  The waiting time of a round
   with n lineages is its expectation 1 / choose(n, 2) * pop_size (expected_tmrca); the only draws left
   are the pairs rng.sample(nodes, 2).  Reference model for the generated code (Gen/Sim.v:
   gen_expected_tmrca, gen_coalesce_nodes_mean, gen_mean_kingman_tree); not part of the harness. *)
From Coq Require Import QArith List Bool Arith.
From DV Require Import Model.C18Model.
From DV Require Model.PyPrims.
Import ListNotations.
Open Scope nat_scope.

(* expected_tmrca(n_genes, pop_size) with pop_size a number: float(1) / choose(n, 2) * pop_size *)
Definition expected_tmrca (n : nat) (pop : Q) : Q := (1 / choose2 n * pop)%Q.

(* the while loop of coalesce_nodes(..., use_expected_tmrca=True) *)
Fixpoint mean_loop (fuel : nat) (pop : Q) (nodes : list gtree) (remaining : option Q)
  : M (list gtree * option Q) :=
  fun r =>
    if length nodes <=? 1 then Done (nodes, remaining) r else
    match fuel with
    | 0 => NoFuel
    | S f =>
        (let tmrca := expected_tmrca (length nodes) pop in
         if (match remaining with None => true | Some rem => Qle_bool tmrca rem end) then
           let nodes1 := map (stretch tmrca) nodes in
           let! ij := d_sample2 (length nodes) in
           let '(i, j) := ij in
           let a := nth i nodes1 (G None None []) in
           let b := nth j nodes1 (G None None []) in
           let anc := G None (Some 0%Q) [a; b] in
           let nodes2 := remove_nth (if i <? j then j - 1 else j) (remove_nth i nodes1) ++ [anc] in
           mean_loop f pop nodes2 (option_map (fun rem => (rem - tmrca)%Q) remaining)
         else ret (nodes, remaining)) r
    end.

Definition coalesce_nodes_mean (pop : Q) (period : option Q) (nodes : list gtree) : M (list gtree) :=
  match nodes with
  | [] => ret []
  | _ =>
      let! res := mean_loop (length nodes) pop nodes period in
      let '(nodes', remaining) := res in
      match remaining with
      | Some rem => if Qltb 0%Q rem then ret (map (stretch rem) nodes') else ret nodes'
      | None => ret nodes'
      end
  end.

(* mean_kingman_tree(taxon_namespace, pop_size, rng) with len(taxon_namespace) = N *)
Definition mean_kingman_run (N : nat) (pop : Q) : M gtree :=
  let nodes := map (fun i => G (Some i) None []) (seq 0 N) in
  let! res := coalesce_nodes_mean pop None nodes in
  match res with
  | [] => raise PyPrims.IndexErr
  | g :: _ => ret g
  end.

Definition mean_kingman_sim (N : nat) (pop : Q) (script : list draw) := mean_kingman_run N pop (script, []).
