(* C09: the boolean admissibility predicates the round-trip theorems quantify over
   (executable: the harness's Python oracle uses the same rules to decide whether a generated
   case lies inside the property's quantifier). *)
From Coq Require Import ZArith List Bool.
From DV Require Import Model.PyPrims Model.C09AlphaTypes Model.C09Model.
Import ListNotations.
Open Scope Z_scope.

(* state index i of alphabet a is written as one plain character that the alphabet's symbol map
   sends back to i *)
Definition cell_ok (a : alphabet) (i : Z) : bool :=
  match find_state i (a_states a) with
  | Some s => match s_symbol s with
              | [ch] => plain_symbol_char ch && option_eqb Z.eqb (state_of_symbol a ch) (Some i)
              | _ => false
              end
  | None => false
  end.

Definition cells_ok (a : alphabet) (m : matrix) : bool :=
  forallb (fun r => forallb (cell_ok a) (snd r)) m.

(* i is the index of some state of the table *)
Definition valid_cell (a : alphabet) (i : Z) : bool := existsb (fun s => s_index s =? i) (a_states a).

(* the finite obligation behind `alphabet_lookup_roundtrip`: every state of the table *)
Definition alphabet_cells_ok (a : alphabet) : bool := forallb (fun s => cell_ok a (s_index s)) (a_states a).

Definition is_nil {A} (l : list A) : bool := match l with [] => true | _ => false end.

Definition rows_nonempty (m : matrix) : bool := forallb (fun r => negb (is_nil (snd r))) m.

Definition rectangular {C} (nchar : Z) (m : list (text * list C)) : bool :=
  forallb (fun r => len (snd r) =? nchar) m.

(* FASTA: the header line is stripped, lines end at "\n" *)
Definition fasta_label_ok (l : text) : bool :=
  text_eqb (strip l) l && negb (existsb (Z.eqb 10) l).

(* PHYLIP: what the label as written (after the writer's space conversion) must satisfy for the
   reader variant, and that the reader's underscore conversion gives the original back *)
Fixpoint no_double_blank (l : text) : bool :=
  match l with
  | [] => true
  | c :: r => match r with
              | d :: _ => negb (is_blank c && is_blank d) && no_double_blank r
              | [] => true
              end
  end.

Definition phylip_label_ok (wo : phy_wopts) (ro : phy_ropts) (l : text) : bool :=
  let c := conv_label wo l in
  negb (is_nil c)
  && text_eqb (strip c) c
  && negb (existsb (fun x => (x =? 10) || (x =? 13)) c)
  && (if w_strict wo then len c <=? 10
      else if r_multispace ro then no_double_blank c
      else negb (existsb is_blank c))
  && text_eqb (if r_u2s ro then replace_char 95 32 c else c) l.

Definition labels_distinct (lower : text -> text) (labels : list text) : bool :=
  texts_distinct (map lower labels).
