(* C12: executable model of `copy.deepcopy` over the object graphs of the DendroPy data model,
   with the `__deepcopy__` overrides that are actually in the code:

     basemodel.Annotable.__deepcopy__ / deep_copy_annotations_from   (Tree, Node, Edge, TreeList,
                                   CharacterMatrix, CharacterDataSequence, Annotation, ...)
     basemodel.AnnotationSet.__deepcopy__
     taxonmodel.Taxon.__deepcopy__
     taxonmodel.TaxonNamespace.__deepcopy__ / populate_memo_for_taxon_namespace_scoped_copy
     Tree/TreeList/CharacterMatrix._clone_from (copy constructors)
     CPython's copy module for list / dict / tuple / set / plain objects (__reduce_ex__) / atomic values

   The heap is generic: every Python object with identity is an `obj` (class id, kind = which copier
   `copy.deepcopy` dispatches to, body = ordered list of (key, value)); values are immutable
   primitives `P p` (interned by the harness) or references `R o`.  Attribute dictionaries, list
   positions, dict items and set members all are bodies:
       object with __dict__ : (P name, value)        list / tuple : (P (INT_BASE + i), value)
       dict                 : (key, value)           set          : (member, P 0)
   The harness (py/dv/c12.py, c12_graph.py) dumps the ACTUAL reachable graph of the library's objects
   in this form, so the theorems are about exactly the shapes the library creates.

   Hand-written transcription; tied to the source by the correspondence run. *)
From Coq Require Import ZArith List Bool.
From DV Require Import Model.PyPrims.
Import ListNotations.
Open Scope Z_scope.

Inductive val := P (p : Z) | R (o : Z).

Inductive kind :=
| KAtomic      (* __deepcopy__ returns self: StateAlphabet, StateIdentity *)
| KList | KDict | KSet | KTuple
| KPlain       (* object.__reduce_ex__: Bipartition *)
| KAnnotable   (* basemodel.Annotable.__deepcopy__ *)
| KAnnSet      (* basemodel.AnnotationSet.__deepcopy__ *)
| KTaxon       (* taxonmodel.Taxon.__deepcopy__ *)
| KNamespace   (* taxonmodel.TaxonNamespace.__deepcopy__ *)
| KCDict.      (* container.OrderedCaselessDict.__deepcopy__ *)

Record obj := mkObj { ocls : Z; okind : kind; obody : list (val * val) }.

Definition heap := list obj.

(* fixed prim ids shared with the harness (c12_graph.py) *)
Definition PNone : val := P 0.
Definition PTrue : val := P 2.
Definition NM_ANN : val := P 3.      (* "_annotations" *)
Definition NM_ILIST : val := P 4.    (* "_item_list"   *)
Definition NM_ISET : val := P 5.     (* "_item_set"    *)
Definition NM_TARGET : val := P 6.   (* "target"       *)
Definition NM_ISATTR : val := P 7.   (* "is_attribute" *)
Definition NM_VALUE : val := P 8.    (* "_value"       *)
Definition NM_TAXA : val := P 9.     (* "_taxa"        *)
Definition INT_BASE : Z := 1000.
Definition pidx (i : Z) : val := P (INT_BASE + i).
(* fixed class ids *)
Definition CLS_LIST : Z := 0.
Definition CLS_SET : Z := 2.
Definition CLS_TUPLE : Z := 3.
Definition CLS_ANNSET : Z := 4.

Definition val_eqb (a b : val) : bool :=
  match a, b with
  | P x, P y => Z.eqb x y
  | R x, R y => Z.eqb x y
  | _, _ => false
  end.

Definition kind_eqb (a b : kind) : bool :=
  match a, b with
  | KAtomic, KAtomic | KList, KList | KDict, KDict | KSet, KSet | KTuple, KTuple | KPlain, KPlain
  | KAnnotable, KAnnotable | KAnnSet, KAnnSet | KTaxon, KTaxon | KNamespace, KNamespace
  | KCDict, KCDict => true
  | _, _ => false
  end.

(* ---- heap: objects are numbered 0 .. length-1 --------------------------------------------- *)

Definition hlen (h : heap) : Z := Z.of_nat (length h).

Definition hget (h : heap) (o : Z) : option obj :=
  if o <? 0 then None else nth_error h (Z.to_nat o).

Fixpoint list_set {A} (l : list A) (n : nat) (x : A) : list A :=
  match l, n with
  | [], _ => []
  | _ :: r, O => x :: r
  | y :: r, S m => y :: list_set r m x
  end.

Definition hset (h : heap) (o : Z) (x : obj) : heap :=
  if o <? 0 then h else list_set h (Z.to_nat o) x.

(* ---- bodies -------------------------------------------------------------------------------- *)

Fixpoint bget (b : list (val * val)) (k : val) : option val :=
  match b with
  | [] => None
  | (k', v) :: r => if val_eqb k k' then Some v else bget r k
  end.

(* d[k] = v : replace the binding of k, or append *)
Fixpoint bset (b : list (val * val)) (k v : val) : list (val * val) :=
  match b with
  | [] => [(k, v)]
  | (k', v') :: r => if val_eqb k k' then (k, v) :: r else (k', v') :: bset r k v
  end.

(* ---- memo / association lists ------------------------------------------------------------- *)

Fixpoint alookup (k : Z) (l : list (Z * Z)) : option Z :=
  match l with
  | [] => None
  | (k', v) :: r => if Z.eqb k k' then Some v else alookup k r
  end.

(* ---- interpreter state ---------------------------------------------------------------------
   sh    the heap
   sm    `memo` of copy.deepcopy, restricted to objects with identity: id(x) -> y
   snone `id(None) in memo` (Annotable.__deepcopy__ memoises every attribute VALUE, also None;
         AnnotationSet.__deepcopy__ looks up memo[id(self.target)] and target may be None)
   sc    proof instrumentation only: (source object, the object created as its copy), one pair per
         allocation of a copy (the AnnotationSet objects built by `annotations.add` and their two
         containers are not recorded).  Never read by the interpreter. *)
Record st := mkSt { sh : heap; sm : list (Z * Z); snone : bool; sc : list (Z * Z) }.

Definition alloc (s : st) (x : obj) : st * Z :=
  (mkSt (sh s ++ [x]) (sm s) (snone s) (sc s), hlen (sh s)).

Definition memo_set (s : st) (a b : Z) : st := mkSt (sh s) ((a, b) :: sm s) (snone s) (sc s).
Definition note (s : st) (a b : Z) : st := mkSt (sh s) (sm s) (snone s) ((a, b) :: sc s).
Definition set_none (s : st) : st := mkSt (sh s) (sm s) true (sc s).

Definition body_of (s : st) (o : Z) : list (val * val) :=
  match hget (sh s) o with Some x => obody x | None => [] end.

(* y.__dict__[k] = v   /   d[k] = v *)
Definition put (s : st) (y : Z) (k v : val) : st :=
  match hget (sh s) y with
  | Some x => mkSt (hset (sh s) y (mkObj (ocls x) (okind x) (bset (obody x) k v))) (sm s) (snone s) (sc s)
  | None => s
  end.

(* memo[id(v)] = v'  for an attribute value v and its copy v' *)
Definition memo_val (s : st) (v v' : val) : st :=
  match v, v' with
  | R a, R b => memo_set s a b
  | P 0, _ => set_none s
  | _, _ => s
  end.

Definition kind_of (s : st) (o : Z) : option kind :=
  match hget (sh s) o with Some x => Some (okind x) | None => None end.

Definition rec_t := st -> val -> res (st * val).

(* values of a list-like body, in order *)
Definition values (b : list (val * val)) : list val := map snd b.

Definition is_prim (v : val) : bool := match v with P _ => true | R _ => false end.

(* ---- copying the entries of a container / the attributes of an object ---------------------- *)

(* for k, v in entries: y[copy k if copy_keys] = deepcopy(v) *)
Fixpoint copy_entries (rec : rec_t) (copy_keys : bool) (s : st) (y : Z) (es : list (val * val))
  : res st :=
  match es with
  | [] => Ok s
  | (k, v) :: r =>
    (* dict: y[deepcopy(key)] = ...;  OrderedCaselessDict: o[key] = ... calls key.lower(): str keys only *)
    do (s1, k') <- (if copy_keys then rec s k else match k with P _ => Ok (s, k) | R _ => Err AttrErr end) ;;
    do (s2, v') <- rec s1 v ;;
    copy_entries rec copy_keys (put s2 y k' v') y r
  end.

(* y.append(deepcopy(a)) for a in xs, starting at index i *)
Fixpoint copy_append (rec : rec_t) (s : st) (y : Z) (i : Z) (xs : list val) : res st :=
  match xs with
  | [] => Ok s
  | a :: r =>
    do (s1, a') <- rec s a ;;
    copy_append rec (put s1 y (pidx i) a') y (i + 1) r
  end.

(* ---- annotations ---------------------------------------------------------------------------- *)

(* OrderedSet.add(value):
     if value not in self._item_set: self._item_set.add(value); self._item_list.append(value) *)
Definition oset_add (s : st) (sy : Z) (a : val) : res st :=
  match bget (body_of s sy) NM_ISET, bget (body_of s sy) NM_ILIST with
  | Some (R zy), Some (R ly) =>
    match bget (body_of s zy) a with
    | Some _ => Ok s
    | None =>
      let s2 := put s zy a PNone in
      Ok (put s2 ly (pidx (Z.of_nat (length (body_of s2 ly)))) a)
    end
  | _, _ => Err AttrErr
  end.

(* AnnotationSet(target): OrderedSet.__init__ (_item_list = [], _item_set = set()), self.target = target *)
Definition new_annset (s : st) (cls : Z) (target : val) : st * Z :=
  let '(sa, sy) := alloc s (mkObj cls KAnnSet []) in
  let '(sb, ly) := alloc sa (mkObj CLS_LIST KList []) in
  let '(sd, zy) := alloc sb (mkObj CLS_SET KSet []) in
  (put (put (put sd sy NM_ILIST (R ly)) sy NM_ISET (R zy)) sy NM_TARGET target, sy).

(* self.annotations.add(a2):
     _get_annotations: if not hasattr(self, "_annotations"): self._annotations = AnnotationSet(self) *)
Definition annotations_add (s : st) (dst : Z) (a2 : val) : res st :=
  match bget (body_of s dst) NM_ANN with
  | Some (R sy) => oset_add s sy a2
  | Some (P _) => Err AttrErr                     (* `_annotations` is not an AnnotationSet *)
  | None =>
    let '(s1, sy) := new_annset s CLS_ANNSET (R dst) in
    oset_add (put s1 dst NM_ANN (R sy)) sy a2
  end.

(* AnnotationSet.__deepcopy__: for a in self: x = copy.deepcopy(a, memo); memo[id(a)] = x; o.add(x) *)
Fixpoint annset_items (rec : rec_t) (s : st) (o : Z) (items : list val) : res st :=
  match items with
  | [] => Ok s
  | a :: r =>
    do (sa, a') <- rec s a ;;
    do sb <- oset_add (memo_val sa a a') o a' ;;
    annset_items rec sb o r
  end.

(* if a2.is_attribute and a1._value[0] is other: a2._value = (self, a1._value[1]) *)
Definition retarget (s2 : st) (dst src : Z) (a1 a2 : val) : res st :=
  match a2 with
  | P _ => Err AttrErr
  | R a2o =>
    match bget (body_of s2 a2o) NM_ISATTR with
    | None => Err AttrErr
    | Some isattr =>
      if val_eqb isattr PTrue then
        match a1 with
        | P _ => Err AttrErr
        | R a1o =>
          match bget (body_of s2 a1o) NM_VALUE with
          | None => Err AttrErr
          | Some (P _) => Err TypeErr
          | Some (R t) =>
            match (match kind_of s2 t with Some KTuple | Some KList => values (body_of s2 t) | _ => [] end) with
            | [] => Err IndexErr
            | owner :: rest =>
              if val_eqb owner (R src) then
                match rest with
                | [] => Err IndexErr
                | name :: _ =>
                  let '(sa, tn) := alloc s2 (mkObj CLS_TUPLE KTuple [(pidx 0, R dst); (pidx 1, name)]) in
                  Ok (put (note sa t tn) a2o NM_VALUE (R tn))
                end
              else Ok s2
            end
          end
        end
      else Ok s2
    end
  end.

(* the `for a1 in other._annotations` loop of deep_copy_annotations_from *)
Fixpoint copy_annotation_items (rec : rec_t) (s : st) (dst src : Z) (items : list val) : res st :=
  match items with
  | [] => Ok s
  | a1 :: r =>
    (* a2 = copy.deepcopy(a1, memo=memo); memo[id(a1)] = a2 *)
    do (s1, a2) <- rec s a1 ;;
    do s3 <- retarget (memo_val s1 a1 a2) dst src a1 a2 ;;
    (* self.annotations.add(a2) *)
    do s4 <- annotations_add s3 dst a2 ;;
    copy_annotation_items rec s4 dst src r
  end.

(* Annotable.deep_copy_annotations_from(self = dst, other = src, memo) *)
Definition deep_copy_annotations_from (rec : rec_t) (s : st) (dst src : Z) : res st :=
  match bget (body_of s src) NM_ANN with
  | None => Ok s                                  (* not hasattr(other, "_annotations") *)
  | Some (P _) => Err TypeErr
  | Some (R sx) =>
    (* type(self) is type(other): the copy was created from the source's class *)
    match hget (sh s) dst, hget (sh s) src with
    | Some d, Some o =>
      if negb (Z.eqb (ocls d) (ocls o)) then Err TypeErr else
      match bget (body_of s sx) NM_ILIST with
      | Some (R lx) =>
        do s1 <- copy_annotation_items rec s dst src (values (body_of s lx)) ;;
        (* if hasattr(self, "_annotations"): memo[id(other._annotations)] = self._annotations *)
        match bget (body_of s1 dst) NM_ANN with
        | Some (R sy) => Ok (memo_set s1 sx sy)
        | Some (P _) => Ok (memo_val s1 (R sx) PNone)
        | None => Ok s1
        end
      | _ => Err AttrErr
      end
    | _, _ => Err OtherErr
    end
  end.

(* the attribute loop of Annotable.__deepcopy__ *)
Fixpoint annotable_fields (rec : rec_t) (s : st) (y : Z) (es : list (val * val)) : res st :=
  match es with
  | [] => Ok s
  | (k, v) :: r =>
    if val_eqb k NM_ANN then annotable_fields rec s y r            (* if k == "_annotations": continue *)
    else match bget (body_of s y) k with
         | Some _ => annotable_fields rec s y r                      (* if k in other.__dict__: continue *)
         | None =>
           do (s1, v') <- rec s v ;;                                (* other.__dict__[k] = copy.deepcopy(.., memo) *)
           annotable_fields rec (memo_val (put s1 y k v') v v') y r  (* memo[id(self.__dict__[k])] = other.__dict__[k] *)
         end
  end.

(* the attribute loops of Taxon.__deepcopy__ / TaxonNamespace.__deepcopy__ (skip: names not copied) *)
Fixpoint plain_fields (rec : rec_t) (skip : list val) (s : st) (y : Z) (es : list (val * val)) : res st :=
  match es with
  | [] => Ok s
  | (k, v) :: r =>
    if existsb (val_eqb k) skip then plain_fields rec skip s y r
    else do (s1, v') <- rec s v ;; plain_fields rec skip (put s1 y k v') y r
  end.

(* new empty object of the class and kind of x, memoised *)
Definition new_copy (s : st) (x : Z) (ob : obj) : st * Z :=
  let '(s1, y) := alloc s (mkObj (ocls ob) (okind ob) []) in
  (note (memo_set s1 x y) x y, y).

(* ---- copy.deepcopy(v, memo): one level, recursive calls go through `rec` ------------------- *)

Definition dc_step (rec : rec_t) (s : st) (v : val) : res (st * val) :=
  match v with
  | P _ => Ok (s, v)                                  (* _deepcopy_atomic *)
  | R x =>
    match alookup x (sm s) with
    | Some y => Ok (s, R y)                           (* y = memo.get(id(x)) *)
    | None =>
      match hget (sh s) x with
      | None => Err OtherErr
      | Some ob =>
        match okind ob with
        | KAtomic => Ok (s, R x)
        | KList | KTuple =>
          let '(s1, y) := new_copy s x ob in
          do s2 <- copy_append rec s1 y 0 (values (obody ob)) ;; Ok (s2, R y)
        | KDict =>
          let '(s1, y) := new_copy s x ob in
          do s2 <- copy_entries rec true s1 y (obody ob) ;; Ok (s2, R y)
        | KCDict =>
          let '(s1, y) := new_copy s x ob in
          do s2 <- copy_entries rec false s1 y (obody ob) ;; Ok (s2, R y)
        | KSet =>
          (* sets of immutable members only (set.__reduce_ex__ copies the members before the set is
             memoised; with object members that is a different algorithm: refused) *)
          if forallb (fun e => is_prim (fst e) && is_prim (snd e)) (obody ob) then
            let '(s1, y) := alloc s ob in Ok (note (memo_set s1 x y) x y, R y)
          else Err OtherErr
        | KPlain =>
          let '(s1, y) := new_copy s x ob in
          do s2 <- plain_fields rec [] s1 y (obody ob) ;; Ok (s2, R y)
        | KAnnotable =>
          let '(s1, y) := new_copy s x ob in
          do s2 <- annotable_fields rec s1 y (obody ob) ;;
          do s3 <- deep_copy_annotations_from rec s2 y x ;; Ok (s3, R y)
        | KTaxon =>
          let '(s1, y) := new_copy s x ob in
          do s2 <- plain_fields rec [NM_ANN] s1 y (obody ob) ;;
          do s3 <- deep_copy_annotations_from rec s2 y x ;; Ok (s3, R y)
        | KNamespace =>
          let '(s1, y) := new_copy s x ob in
          (* o._taxa = []; memo[id(self._taxa)] = o._taxa; for t in self._taxa: o._taxa.append(deepcopy(t)) *)
          match bget (obody ob) NM_TAXA with
          | Some (R lt) =>
            let '(s2, l) := alloc s1 (mkObj CLS_LIST KList []) in
            let s3 := note (memo_set (put s2 y NM_TAXA (R l)) lt l) lt l in
            do s4 <- copy_append rec s3 l 0 (values (body_of s3 lt)) ;;
            do s5 <- plain_fields rec [NM_ANN; NM_TAXA] s4 y (obody ob) ;;
            do s6 <- deep_copy_annotations_from rec s5 y x ;; Ok (s6, R y)
          | Some (P _) => Err TypeErr
          | None => Err AttrErr
          end
        | KAnnSet =>
          (* o = self.__class__(target=memo[id(self.target)]) *)
          match bget (obody ob) NM_TARGET with
          | None => Err AttrErr
          | Some tg =>
            do tg' <- (match tg with
                       | R t => match alookup t (sm s) with Some t' => Ok (R t') | None => Err KeyErr end
                       | P 0 => if snone s then Ok PNone else Err KeyErr
                       | P _ => Err KeyErr
                       end) ;;
            let '(s1, o) := new_annset s (ocls ob) tg' in
            let s2 := note (memo_set s1 x o) x o in                   (* memo[id(self)] = o *)
            match bget (obody ob) NM_ILIST with
            | Some (R lx) =>
              do s5 <- annset_items rec s2 o (values (body_of s2 lx)) ;; Ok (s5, R o)
            | _ => Err AttrErr
            end
          end
        end
      end
    end
  end.

Fixpoint dc (fuel : nat) (s : st) (v : val) : res (st * val) :=
  match fuel with
  | O => OutOfFuel
  | S f => dc_step (dc f) s v
  end.

(* ---- copy routes ----------------------------------------------------------------------------- *)

(* TaxonNamespace.populate_memo_for_taxon_namespace_scoped_copy (and the equivalent loop of
   Tree/TreeList/CharacterMatrix._clone_from): memo[id(ns)] = ns; memo[id(t)] = t for t in ns._taxa *)
Definition refs_of (vs : list val) : list Z :=
  flat_map (fun v => match v with R o => [o] | P _ => [] end) vs.

Definition ns_seeds (h : heap) (ns : Z) : list Z :=
  ns :: match hget h ns with
        | Some ob => match bget (obody ob) NM_TAXA with
                     | Some (R lt) => match hget h lt with Some l => refs_of (values (obody l)) | None => [] end
                     | _ => []
                     end
        | None => []
        end.

Definition seed_memo (seeds : list Z) : list (Z * Z) := map (fun o => (o, o)) seeds.

(* nf: the variant of AnnotationSet.__deepcopy__ the working tree has (decided by the harness by probing the
   library): false = `memo[id(self.target)]` raises KeyError for a target None unless None happens to be
   memoised (the code as found); true = a target None is accepted (the code with that defect repaired).
   The repaired form is exactly the interpreter started with `id(None) in memo`. *)
Definition init_st (nf : bool) (h : heap) (seeds : list Z) : st := mkSt h (seed_memo seeds) nf [].

(* copy.deepcopy(root, memo) with memo pre-seeded by seeds (each seed maps to itself) *)
Definition run_seeded (nf : bool) (fuel : nat) (h : heap) (seeds : list Z) (root : Z) : res (st * val) :=
  dc fuel (init_st nf h seeds) (R root).

Inductive route :=
| RDeep                (* copy.deepcopy(x) / x.clone(2) *)
| RScoped (ns : Z)     (* x.taxon_namespace_scoped_copy() / x.clone(1) / Tree.__copy__ *)
| RCtor (ns : Z)       (* Tree(x) / TreeList(x) / <Type>CharacterMatrix(x): _clone_from *)
| ROther.              (* shallow and thin routes: not modelled (oracle only) *)

Definition run (nf : bool) (fuel : nat) (h : heap) (root : Z) (r : route) : res (st * val) :=
  match r with
  | RDeep => run_seeded nf fuel h [] root
  | RScoped ns => run_seeded nf fuel h (ns_seeds h ns) root
  | RCtor ns =>
    (* t = copy.deepcopy(tree, memo); self.__dict__ = t.__dict__ : the constructed object is a second
       object with t's attributes (the model does not represent that the two share ONE dict) *)
    do (s, v) <- run_seeded nf fuel h (ns_seeds h ns) root ;;
    match v with
    | R t => match hget (sh s) t with
             | Some ob => let '(s1, y) := alloc s ob in Ok (s1, R y)
             | None => Err OtherErr
             end
    | P _ => Err OtherErr
    end
  | ROther => Err OtherErr
  end.

(* ---- reachability (executable) --------------------------------------------------------------- *)

Definition body_refs (b : list (val * val)) : list Z :=
  flat_map (fun e => refs_of [fst e; snd e]) b.

Definition memz (x : Z) (l : list Z) : bool := existsb (Z.eqb x) l.

Fixpoint reach_go (h : heap) (fuel : nat) (todo seen : list Z) : list Z :=
  match fuel with
  | O => seen
  | S f =>
    match todo with
    | [] => seen
    | o :: r =>
      if memz o seen then reach_go h f r seen
      else match hget h o with
           | Some ob => reach_go h f (body_refs (obody ob) ++ r) (o :: seen)
           | None => reach_go h f r seen
           end
    end
  end.

Definition heap_size (h : heap) : nat :=
  fold_right (fun ob n => (S (2 * length (obody ob)) + n)%nat) O h.

Definition reach_list (h : heap) (starts : list Z) : list Z :=
  reach_go h (heap_size h + length starts + 1)%nat starts [].

(* ---- comparison of the model's copy with the implementation's copy ------------------------------
   hm: heap computed by the model, hi: heap dumped from the implementation; both extend the source
   heap (objects below n0 are the source's and must be referred to identically); the new objects
   must correspond one to one (same class, kind, and bodies entry by entry). *)
Fixpoint zip_entries (b1 b2 : list (val * val)) : list (val * val) :=
  match b1, b2 with
  | (k1, v1) :: r1, (k2, v2) :: r2 => (k1, k2) :: (v1, v2) :: zip_entries r1 r2
  | _, _ => []
  end.

Fixpoint iso_go (n0 : Z) (hm hi : heap) (fuel : nat) (todo : list (val * val)) (pairs : list (Z * Z)) : bool :=
  match fuel with
  | O => false
  | S f =>
    match todo with
    | [] => true
    | (P x, P y) :: r => Z.eqb x y && iso_go n0 hm hi f r pairs
    | (R x, R y) :: r =>
      if (x <? n0) || (y <? n0) then Z.eqb x y && iso_go n0 hm hi f r pairs
      else match alookup x pairs with
           | Some y' => Z.eqb y y' && iso_go n0 hm hi f r pairs
           | None =>
             if existsb (fun p => Z.eqb (snd p) y) pairs then false
             else match hget hm x, hget hi y with
                  | Some ox, Some oy =>
                    Z.eqb (ocls ox) (ocls oy) && kind_eqb (okind ox) (okind oy)
                    && Nat.eqb (length (obody ox)) (length (obody oy))
                    && iso_go n0 hm hi f (zip_entries (obody ox) (obody oy) ++ r) ((x, y) :: pairs)
                  | _, _ => false
                  end
           end
    | _ :: _ => false
    end
  end.

Definition iso_check (n0 : Z) (hm hi : heap) (vm vi : val) : bool :=
  iso_go n0 hm hi (2 * (heap_size hm + heap_size hi) + 8)%nat [(vm, vi)] [].

(* ---- well-formedness of a dumped heap (hypotheses of the theorems, checked on every case) ------ *)

Definition closedb (h : heap) : bool :=
  forallb (fun ob => forallb (fun o => (0 <=? o) && (o <? hlen h)) (body_refs (obody ob))) h.

Definition kind_at (h : heap) (o : Z) : option kind :=
  match hget h o with Some ob => Some (okind ob) | None => None end.

Definition is_atomic (h : heap) (o : Z) : bool :=
  match kind_at h o with Some KAtomic => true | _ => false end.

(* the members of the annotation set OWNED by an object (x._annotations._item_list) *)
Definition ann_items (h : heap) (ob : obj) : list val :=
  match bget (obody ob) NM_ANN with
  | Some (R sx) =>
    match hget h sx with
    | Some s => match bget (obody s) NM_ILIST with
                | Some (R lx) => match hget h lx with Some l => values (obody l) | None => [] end
                | _ => []
                end
    | None => []
    end
  | _ => []
  end.

(* no member of an owned annotation set is a memo seed or an atomic object (deep_copy_annotations_from
   assigns to `a2._value` of the COPY of a member: with a seeded member that would be the member) *)
Definition ann_items_ok (h : heap) (seeds : list Z) : bool :=
  forallb (fun ob => forallb (fun o => negb (memz o seeds) && negb (is_atomic h o)) (refs_of (ann_items h ob))) h.

(* `if a2.is_attribute and a1._value[0] is other: a2._value = (self, a1._value[1])` puts the second
   component of the source's tuple into the copy as it is.  It is the attribute NAME (a string) in
   every annotation the library creates; stated for every member whose value starts with its owner. *)
Fixpoint forallbi {A} (f : Z -> A -> bool) (i : Z) (l : list A) : bool :=
  match l with
  | [] => true
  | a :: r => f i a && forallbi f (i + 1) r
  end.

Definition bound_name_ok (h : heap) (x : Z) (a : Z) : bool :=
  match hget h a with
  | Some ao => match bget (obody ao) NM_VALUE with
               | Some (R t) => match hget h t with
                               | Some tob =>
                                 match okind tob with
                                 | KTuple | KList =>
                                   match values (obody tob) with
                                   | owner :: name :: _ => negb (val_eqb owner (R x)) || is_prim name
                                   | _ => true
                                   end
                                 | _ => true
                                 end
                               | None => true
                               end
               | _ => true
               end
  | None => true
  end.

Definition bound_names_ok (h : heap) : bool :=
  forallbi (fun x ob => forallb (bound_name_ok h x) (refs_of (ann_items h ob))) 0 h.

(* attribute names (keys of a __dict__) are strings *)
Definition attr_keys_ok (h : heap) : bool :=
  forallb (fun ob => match okind ob with
                     | KPlain | KAnnotable | KTaxon | KNamespace | KAnnSet => forallb (fun e => is_prim (fst e)) (obody ob)
                     | _ => true
                     end) h.

Definition wf_heap (h : heap) (seeds : list Z) : bool :=
  closedb h && forallb (fun o => (0 <=? o) && (o <? hlen h)) seeds && ann_items_ok h seeds
  && bound_names_ok h && attr_keys_ok h.

(* ---- cases of the correspondence run -------------------------------------------------------- *)

Inductive expect :=
| EOk (root' : val) (newobjs : list obj)   (* the implementation's copy: objects numbered hlen h .. *)
| EErr (e : err)
| ESkip (newobjs : list obj).              (* route not modelled: only the frame hypothesis is checked *)

Record case := mkCase {
  c_heap : heap;            (* the source's reachable graph *)
  c_root : Z;
  c_route : route;
  c_expect : expect;
  c_shared : list Z;        (* objects the documentation lets both sides share (namespace, taxa, members) *)
  c_other : val;            (* root of the side that is NOT mutated afterwards *)
  c_written : list Z;       (* objects whose body the later mutation changed *)
  c_nf : bool               (* variant of AnnotationSet.__deepcopy__ found in the working tree (see init_st) *)
}.

Definition route_seeds (h : heap) (r : route) : list Z :=
  match r with RScoped ns | RCtor ns => ns_seeds h ns | _ => [] end.

Definition fuel_for (h : heap) : nat := S (length h).

(* hypothesis of the frame theorem on the actual mutation: nothing the mutation wrote lies in the
   other side's reachable set, except inside the documented shares *)
Definition frame_hyp (hi : heap) (c : case) : bool :=
  let other := reach_list hi (refs_of [c_other c]) in
  let shared := reach_list hi (c_shared c) in
  forallb (fun w => negb (memz w other) || memz w shared) (c_written c).

Definition case_ok (c : case) : bool :=
  let h := c_heap c in
  match c_expect c with
  | ESkip news => frame_hyp (h ++ news) c
  | EErr e =>
    wf_heap h (route_seeds h (c_route c)) &&
    match run (c_nf c) (fuel_for h) h (c_root c) (c_route c) with
    | Err e' => err_eqb e e'
    | _ => false
    end
  | EOk r' news =>
    wf_heap h (route_seeds h (c_route c)) &&
    match run (c_nf c) (fuel_for h) h (c_root c) (c_route c) with
    | Ok (s, v) => iso_check (hlen h) (sh s) (h ++ news) v r' && frame_hyp (h ++ news) c
    | _ => false
    end
  end.

(* diagnostics for replays: what the model computed *)
Definition case_run (c : case) : res (list obj * val) :=
  match run (c_nf c) (fuel_for (c_heap c)) (c_heap c) (c_root c) (c_route c) with
  | Ok (s, v) => Ok (skipn (length (c_heap c)) (sh s), v)
  | Err e => Err e
  | OutOfFuel => OutOfFuel
  end.

(* ---- reachability (specification) --------------------------------------------------------------- *)

(* b is referred to by a key or a value of the body of a *)
Definition edge (h : heap) (a b : Z) : Prop :=
  exists ob k v, hget h a = Some ob /\ In (k, v) (obody ob) /\ (k = R b \/ v = R b).

Inductive reach (h : heap) (a : Z) : Z -> Prop :=
| reach_refl : reach h a a
| reach_step : forall b c, reach h a b -> edge h b c -> reach h a c.

(* later field writes: the body of object (fst w) is replaced by (snd w) *)
Definition write_all (h : heap) (ws : list (Z * obj)) : heap :=
  fold_left (fun h w => hset h (fst w) (snd w)) ws h.

(* ---- content relation between a source heap and its copy ------------------------------------------ *)

Definition is_annk (k : kind) : bool :=
  match k with KAnnotable | KTaxon | KNamespace => true | _ => false end.

(* v' in the copy corresponds to v in the source: equal immutable values; a reference to the recorded
   copy of the referenced object; or the very same source object (seeds, atomic objects) *)
Definition vrel (n0 : Z) (c : list (Z * Z)) (v v' : val) : Prop :=
  match v, v' with
  | P p, P q => p = q
  | R a, R b => In (a, b) c \/ (a = b /\ 0 <= a < n0)
  | _, _ => False
  end.

(* entries of a copy that are rebuilt rather than derived from the same entry of the source: the
   annotation set of an annotable object, and the two containers of a copied AnnotationSet *)
Definition rebuilt (kd : kind) (k : val) : Prop :=
  (is_annk kd = true /\ k = NM_ANN) \/ (kd = KAnnSet /\ (k = NM_ILIST \/ k = NM_ISET)).

(* entries of a source object that the copy algorithm does not carry over entry by entry *)
Definition not_carried (kd : kind) (k : val) : Prop :=
  (is_annk kd = true /\ k = NM_ANN) \/ (kd = KAnnSet /\ k <> NM_TARGET).

(* ---- additional shape conditions used by the content theorem (checked on every dumped case) ------ *)

Fixpoint nodup_keys (b : list (val * val)) : bool :=
  match b with
  | [] => true
  | (k, _) :: r => negb (existsb (fun e => val_eqb k (fst e)) r) && nodup_keys r
  end.

(* the i-th entry of a list / tuple has key i *)
Definition list_keys_ok (b : list (val * val)) : bool :=
  forallbi (fun i e => val_eqb (fst e) (pidx i)) 0 b.

(* annotation sets owned by annotable objects (x._annotations) *)
Definition owned_list (h : heap) : list Z :=
  flat_map (fun ob => if is_annk (okind ob)
                      then match bget (obody ob) NM_ANN with Some (R sx) => [sx] | _ => [] end
                      else []) h.

Definition is_owned_ref (ow : list Z) (v : val) : bool :=
  match v with R a => memz a ow | P _ => false end.

(* an owned annotation set is referred to only by its owner's `_annotations` *)
Definition noalias_ok (h : heap) : bool :=
  let ow := owned_list h in
  forallb (fun ob => forallb (fun e => (is_annk (okind ob) && val_eqb (fst e) NM_ANN)
                                       || (negb (is_owned_ref ow (fst e)) && negb (is_owned_ref ow (snd e))))
                             (obody ob)) h.

(* TaxonNamespace._taxa is a list *)
Definition taxa_ok (h : heap) : bool :=
  forallb (fun ob => match okind ob with
                     | KNamespace =>
                       match bget (obody ob) NM_TAXA with
                       | Some (R lt) => match hget h lt with
                                        | Some lo => kind_eqb (okind lo) KList && Z.eqb (ocls lo) CLS_LIST
                                        | None => false
                                        end
                       | _ => true
                       end
                     | _ => true
                     end) h.

(* the value of an annotation bound to its owner is exactly the pair (owner, name), a tuple *)
Definition bound_pair_ok (h : heap) (x : Z) (a : Z) : bool :=
  match hget h a with
  | Some ao => match bget (obody ao) NM_VALUE with
               | Some (R t) => match hget h t with
                               | Some tob =>
                                 match okind tob with
                                 | KTuple | KList =>
                                   match values (obody tob) with
                                   | owner :: _ => negb (val_eqb owner (R x))
                                                   || (kind_eqb (okind tob) KTuple && Z.eqb (ocls tob) CLS_TUPLE
                                                       && Nat.eqb (length (obody tob)) 2)
                                   | [] => true
                                   end
                                 | _ => true
                                 end
                               | None => true
                               end
               | _ => true
               end
  | None => true
  end.

Definition bound_pairs_ok (h : heap) : bool :=
  forallbi (fun x ob => forallb (bound_pair_ok h x) (refs_of (ann_items h ob))) 0 h.

(* the `_item_list` of an annotation set (owned or not) is a list *)
Definition ilist_kind_ok (h : heap) (sxo : obj) : bool :=
  match bget (obody sxo) NM_ILIST with
  | Some (R lx) => match hget h lx with Some l => kind_eqb (okind l) KList | None => true end
  | _ => true
  end.

Definition ilists_ok (h : heap) : bool :=
  forallb (fun ob =>
     (if is_annk (okind ob)
      then match bget (obody ob) NM_ANN with
           | Some (R sx) => match hget h sx with Some sxo => ilist_kind_ok h sxo | None => true end
           | _ => true
           end
      else true)
     && (match okind ob with KAnnSet => ilist_kind_ok h ob | _ => true end)) h.

Definition wf_heap2 (h : heap) : bool :=
  forallb (fun ob => nodup_keys (obody ob)) h
  && forallb (fun ob => match okind ob with KList | KTuple => list_keys_ok (obody ob) | _ => true end) h
  && noalias_ok h && taxa_ok h && bound_pairs_ok h && ilists_ok h.

(* the check of the correspondence run: the model agrees with the implementation (case_ok) and the
   dumped heap satisfies the hypotheses of the content theorem *)
Definition case_ok2 (c : case) : bool :=
  case_ok c &&
  match c_expect c with
  | ESkip _ => true
  | _ => wf_heap2 (c_heap c) && negb (memz (c_root c) (owned_list (c_heap c)))
  end.
