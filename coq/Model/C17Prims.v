(* C17: run-time library of the generated code coq/Gen/Ages.v.

   Hand-written and fixed: the (trusted) meaning the translator py/dv/gen_ages.py gives to the
   Python primitives used by Tree.calc_node_ages, calc_node_root_distances, num_lineages_at,
   set_edge_lengths_from_node_ages and treemeasure.B1 / colless_tree_imbalance / sackin_index /
   N_bar / treeness / pybus_harvey_gamma.

     a Node object             `node`: the subtree below it (Model/Tree.v) + the identities of its
                               ancestors, nearest first; identity = t_id (harness: unique)
     x._child_nodes, x.child_nodes()   py_child_nodes x            (left to right)
     x._parent_node            py_parent x : option Z              (None = Python None)
     x.is_leaf()               py_is_leaf x
     x.ancestor_iter(inclusive=False)  py_ancestors x               (C15 ancestor_iter_spec)
     tree.postorder_node_iter()        py_postorder_nodes t         (C15 postorder_iter_spec)
     tree.preorder_node_iter()         py_preorder_nodes t          (C15 preorder_iter_spec)
     tree.leaf_node_iter()             py_leaf_nodes t              (C15 leaf_iter_spec: post-order, leaves)
     tree.seed_node                    py_seed t
     x.age / x.edge.length / x.root_distance   attribute store `store`, keyed by identity:
                               age: None until assigned (Node.__init__); length: the tree's value;
                               root_distance: absent until assigned (AttributeError)
     numbers                   Z (ints, and floats that are lengths in units of 2^-10: exact), option Z for
                               "None or number"; `/` is exact division in Q, ZeroDivisionError on 0
     None + number etc.        TypeError
     d[k] / d[k] = v           functions Z -> option X keyed by node identity, KeyError when absent
     l[i], l[1:], len, append, max, sum, range, sort   Coq lists
     str(x), "..".format(..), "\n".join(..), x._as_newick_string()   unit (never raise)
     ultrametricity_precision  `precv` (None | False | number), normalize `norm`
     math.log, pow, EULERS_CONSTANT    the record `tr` of Model/C17Model.v (values supplied from outside)
     exceptions                `cerr` (UltrametricityError | class of any other exception) *)
From Coq Require Import ZArith QArith List Bool.
From DV Require Import Model.PyPrims Model.Tree Model.C17Model.
Import ListNotations.
Open Scope Z_scope.

(* ---- results ---- *)
Inductive xres (A : Type) : Type :=
| XOk (a : A)
| XErr (e : cerr).
Arguments XOk {A} _.
Arguments XErr {A} _.

Definition xbind {A B} (r : xres A) (f : A -> xres B) : xres B :=
  match r with XOk a => f a | XErr e => XErr e end.

(* try: r   except TypeError: h *)
Definition xcatch_type {A} (r : xres A) (h : xres A) : xres A :=
  match r with
  | XErr (Py TypeErr) => h
  | _ => r
  end.

(* for x in l: s = body x s *)
Fixpoint py_for {A S} (l : list A) (body : A -> S -> xres S) (s : S) : xres S :=
  match l with
  | [] => XOk s
  | x :: r => xbind (body x s) (py_for r body)
  end.

(* [f x for x in l] where f may raise *)
Fixpoint xmapM {A B} (f : A -> xres B) (l : list A) : xres (list B) :=
  match l with
  | [] => XOk []
  | x :: r => xbind (f x) (fun y => xbind (xmapM f r) (fun ys => XOk (y :: ys)))
  end.

(* ---- nodes ---- *)
Record node : Type := mkNode { n_sub : tree; n_anc : list Z }.
Definition n_id (n : node) : Z := t_id (n_sub n).
Definition py_child_nodes (n : node) : list node :=
  map (fun k => mkNode k (n_id n :: n_anc n)) (t_kids (n_sub n)).
Definition py_parent (n : node) : option Z := hd_error (n_anc n).
Definition py_is_leaf (n : node) : bool := is_leaf (n_sub n).
Definition py_ancestors (n : node) : list Z := n_anc n.

Fixpoint post_under (anc : list Z) (t : tree) : list node :=
  match t with T i _ _ _ ks => flat_map (post_under (i :: anc)) ks ++ [mkNode t anc] end.
Fixpoint pre_under (anc : list Z) (t : tree) : list node :=
  match t with T i _ _ _ ks => mkNode t anc :: flat_map (pre_under (i :: anc)) ks end.
Definition py_postorder_nodes (t : tree) : list node := post_under [] t.
Definition py_preorder_nodes (t : tree) : list node := pre_under [] t.
Definition py_leaf_nodes (t : tree) : list node := filter py_is_leaf (py_postorder_nodes t).
Definition py_seed (t : tree) : node := mkNode t [].

Definition py_is_none {A} (o : option A) : bool := match o with None => true | Some _ => false end.
(* attribute access through an optional reference: None.attr is an AttributeError *)
Definition py_deref (o : option Z) : xres Z := match o with Some i => XOk i | None => XErr (Py AttrErr) end.

(* ---- attribute store ---- *)
Definition upd {X} (m : Z -> X) (k : Z) (v : X) : Z -> X := fun i => if i =? k then v else m i.

Record store : Type := mkSt { s_age : Z -> option Z; s_len : Z -> option Z; s_rd : Z -> option Z }.

Definition py_age (st : store) (i : Z) : option Z := s_age st i.
Definition py_set_age (st : store) (i : Z) (v : option Z) : store := mkSt (upd (s_age st) i v) (s_len st) (s_rd st).
Definition py_length (st : store) (i : Z) : option Z := s_len st i.
Definition py_set_length (st : store) (i : Z) (v : option Z) : store := mkSt (s_age st) (upd (s_len st) i v) (s_rd st).
Definition py_root_distance (st : store) (i : Z) : xres Z :=
  match s_rd st i with Some v => XOk v | None => XErr (Py AttrErr) end.
Definition py_set_root_distance (st : store) (i : Z) (v : Z) : store := mkSt (s_age st) (s_len st) (upd (s_rd st) i (Some v)).

(* the attributes of a freshly built tree *)
Fixpoint len_of_list (l : list tree) (i : Z) : option Z :=
  match l with [] => None | v :: r => if i =? t_id v then t_len v else len_of_list r i end.
Definition init_store (t : tree) : store := mkSt (fun _ => None) (len_of_list (preorder t)) (fun _ => None).

(* ---- numbers ---- *)
Definition py_add_oo (a b : option Z) : xres Z :=
  match a, b with Some x, Some y => XOk (x + y) | _, _ => XErr (Py TypeErr) end.
Definition py_sub_oo (a b : option Z) : xres Z :=
  match a, b with Some x, Some y => XOk (x - y) | _, _ => XErr (Py TypeErr) end.
Definition py_lt_oo (a b : option Z) : xres bool :=
  match a, b with Some x, Some y => XOk (x <? y) | _, _ => XErr (Py TypeErr) end.
Definition py_le_oo (a b : option Z) : xres bool :=
  match a, b with Some x, Some y => XOk (x <=? y) | _, _ => XErr (Py TypeErr) end.
Definition py_gt_oo (a b : option Z) : xres bool :=
  match a, b with Some x, Some y => XOk (x >? y) | _, _ => XErr (Py TypeErr) end.
Definition py_ge_oo (a b : option Z) : xres bool :=
  match a, b with Some x, Some y => XOk (x >=? y) | _, _ => XErr (Py TypeErr) end.
(* == never raises: None == number is False *)
Definition py_eq_oo (a b : option Z) : bool :=
  match a, b with Some x, Some y => x =? y | None, None => true | _, _ => false end.
(* `x or d` for x = None or a number: the number unless it is None or zero *)
Definition py_or_num (a : option Z) (d : Z) : Z :=
  match a with Some x => if x =? 0 then d else x | None => d end.

Definition py_div (a b : Q) : xres Q :=
  if Qeq_bool b 0 then XErr (Py OtherErr) (* ZeroDivisionError *) else XOk (a / b)%Q.

Definition py_len {A} (l : list A) : Z := Z.of_nat (length l).
Definition py_index {A} (l : list A) (i : Z) : xres A :=
  match (if i <? 0 then (if py_len l + i <? 0 then None else nth_error l (Z.to_nat (py_len l + i)))
         else nth_error l (Z.to_nat i)) with
  | Some x => XOk x
  | None => XErr (Py IndexErr)
  end.
Definition py_slice_from {A} (l : list A) (i : nat) : list A := skipn i l.
Definition py_append {A} (l : list A) (x : A) : list A := l ++ [x].
Definition py_max_list (l : list Z) : xres Z :=
  match l with [] => XErr (Py ValueErr) | x :: r => XOk (maxl x r) end.
Definition py_min_list (l : list Z) : xres Z :=
  match l with [] => XErr (Py ValueErr) | x :: r => XOk (minl x r) end.
Definition py_sum_Q (l : list Q) : Q := fold_left Qplus l 0%Q.
Fixpoint zrange_from (a : Z) (n : nat) : list Z := match n with O => [] | S m => a :: zrange_from (a + 1) m end.
Definition py_range (a b : Z) : list Z := zrange_from a (Z.to_nat (b - a)).
(* list.sort(reverse=True) / list.sort() on numbers *)
Definition py_sort_desc (l : list Z) : list Z := sort_desc l.
Definition py_sort_asc (l : list Z) : list Z := sort_asc l.
(* all elements must be numbers for the comparison: None in the list is a TypeError (when len > 1) *)
Fixpoint py_all_nums (l : list (option Z)) : xres (list Z) :=
  match l with
  | [] => XOk []
  | Some x :: r => xbind (py_all_nums r) (fun ys => XOk (x :: ys))
  | None :: _ => XErr (Py TypeErr)
  end.

(* ---- dictionaries keyed by node ---- *)
Definition dict (X : Type) : Type := Z -> option X.
Definition py_dict_empty {X} : dict X := fun _ => None.
Definition py_dict_set {X} (d : dict X) (k : Z) (v : X) : dict X := upd d k (Some v).
Definition py_dict_get {X} (d : dict X) (k : Z) : xres X :=
  match d k with Some v => XOk v | None => XErr (Py KeyErr) end.

(* ---- ultrametricity_precision ---- *)
Definition py_prec_is_none (p : precv) : bool := match p with PNone => true | _ => false end.
Definition py_prec_is_false (p : precv) : bool := match p with PFalse => true | _ => false end.
(* p < z : None < 0 is a TypeError, False is 0 *)
Definition py_prec_lt (p : precv) (z : Z) : xres bool :=
  match p with PNone => XErr (Py TypeErr) | PFalse => XOk (0 <? z) | PNum x => XOk (x <? z) end.
(* d > p *)
Definition py_gt_prec (d : Z) (p : precv) : xres bool :=
  match p with PNone => XErr (Py TypeErr) | PFalse => XOk (d >? 0) | PNum x => XOk (d >? x) end.

(* ---- normalize ---- *)
Definition norm_eqb (a b : norm) : bool :=
  match a, b with
  | NNone, NNone | NFalse, NFalse | NTrue, NTrue | NMax, NMax | NYule, NYule | NPda, NPda | NBad, NBad => true
  | _, _ => false
  end.

(* ---- transcendental functions: values come with the case (record tr) ---- *)
(* math.log(2) and math.log(<the one variable argument that occurs: the number of leaves>) *)
Definition py_log2 (w : tr) : Q := ln_2 w.
Definition py_log (w : tr) (x : Z) : Q := ln_n w.
Definition py_pow (w : tr) (b e : Q) : Q := if Qeq_bool e (3 # 2) then pow15 w else sqrt_f w.
