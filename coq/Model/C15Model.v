(* C15: traversals.  The machines themselves are GENERATED (Gen/Traversals.v) over an abstract
   object graph (Model/C15Prims.v objgraph).  This file instantiates the object graph with
   *located nodes* of a rose tree (Model/Tree.v), gives the structural specifications the
   theorems compare the machines with, and the case record of the correspondence check.

   A located node is a subtree together with the chain of its ancestors up to the real seed
   (each frame: the ancestor's subtree and the index of the child we came through).  So
   `x._parent_node` is readable ("seed" = empty chain = no parent, as the source's lambdas test),
   `a is b` is equality of the index paths (all nodes of one run live in one tree), and a
   traversal can be started at every node of a tree. *)
From Coq Require Import ZArith List Bool Arith.
From DV Require Import Model.PyPrims Model.Tree Model.C15Prims Gen.Traversals.
Import ListNotations.
Open Scope Z_scope.

Definition ctx : Type := list (tree * nat).
Definition lnode : Type := (tree * ctx)%type.

Definition here (n : lnode) : tree := fst n.
Definition l_id (n : lnode) : Z := t_id (fst n).
Definition l_depth (n : lnode) : nat := length (snd n).
Definition l_path (n : lnode) : list nat := map snd (snd n).

Fixpoint l_kids_from (j : nat) (t : tree) (up : ctx) (ks : list tree) : list lnode :=
  match ks with
  | [] => []
  | k :: r => (k, (t, j) :: up) :: l_kids_from (S j) t up r
  end.

Definition l_kids (n : lnode) : list lnode := l_kids_from 0 (fst n) (snd n) (t_kids (fst n)).

Definition l_parent (n : lnode) : option lnode :=
  match snd n with
  | [] => None
  | (p, _) :: up => Some (p, up)
  end.

Definition l_is (a b : lnode) : bool := list_eqb Nat.eqb (l_path a) (l_path b).

Definition l_is_leaf (n : lnode) : bool := py_is_empty (l_kids n).
Definition l_is_internal (n : lnode) : bool := negb (py_is_empty (l_kids n)).
Definition l_has_parent (n : lnode) : bool := py_is_some (l_parent n).

(* the object graph of located nodes; edges are any type E in bijection-on-the-image with nodes
   (Node._edge / Edge._head_node); ages are whatever the `age` attributes hold *)
Definition LGE (E : Type) (edge_of : lnode -> E) (head_of : E -> lnode) (age : lnode -> Z) : objgraph :=
  {| gnode := lnode; gedge := E;
     attr_child_nodes := l_kids; attr_parent_node := l_parent;
     attr_edge := edge_of; attr_head_node := head_of;
     attr_age := age; obj_is := l_is |}.

Definition LG (age : lnode -> Z) : objgraph := LGE lnode (fun n => n) (fun e => e) age.

(* the start node reached from n by child indices *)
Fixpoint l_at (path : list nat) (n : lnode) : option lnode :=
  match path with
  | [] => Some n
  | j :: r => match nth_error (l_kids n) j with Some k => l_at r k | None => None end
  end.

(* ---- structural specifications ---- *)

(* fold over the located subtree: f gets the located node and the results of its children *)
Fixpoint lfold {A : Type} (f : lnode -> list A -> A) (t : tree) (up : ctx) : A :=
  match t with
  | T _ _ _ _ ks =>
    f (t, up)
      ((fix go (ks : list tree) (j : nat) : list A :=
          match ks with
          | [] => []
          | k :: r => lfold f k ((t, j) :: up) :: go r (S j)
          end) ks O)
  end.

Definition lfoldn {A : Type} (f : lnode -> list A -> A) (n : lnode) : A := lfold f (fst n) (snd n).

(* parents first, siblings left to right *)
Definition lpre : lnode -> list lnode := lfoldn (fun n rs => n :: concat rs).
(* children (left to right) before parents *)
Definition lpost : lnode -> list lnode := lfoldn (fun n rs => concat rs ++ [n]).
(* leaves left to right *)
Definition lleaves : lnode -> list lnode :=
  lfoldn (fun n rs => match rs with [] => [n] | _ => concat rs end).

(* level order: level 0 is the start node, level i+1 the children of level i, left to right *)
Fixpoint levels (h : nat) (q : list lnode) : list lnode :=
  match h with
  | O => []
  | S h' => q ++ levels h' (flat_map l_kids q)
  end.
Definition llevel (n : lnode) : list lnode := levels (height (here n)) [n].

(* in-order: what a recursive "left, node, right" walk does, including the TypeError raised at
   the first node (in walk order) that has neither 0 nor 2 children *)
Definition linorder (f : lnode -> bool) : lnode -> gres lnode :=
  lfoldn (fun n rs =>
            match rs with
            | [] => GDone (if f n then [n] else [])
            | [a; b] => gseq a (gprepend (if f n then [n] else []) b)
            | _ => GRaise [] TypeErr
            end).

Fixpoint is_binary (t : tree) : bool :=
  match t with
  | T _ _ _ _ ks =>
    match ks with
    | [] => true
    | [a; b] => is_binary a && is_binary b
    | _ => false
    end
  end.

(* the in-order sequence of a binary tree *)
Definition linorder_list : lnode -> list lnode :=
  lfoldn (fun n rs => match rs with [a; b] => a ++ n :: b | _ => [n] end).

(* ancestors, nearest first *)
Fixpoint lanc (up : ctx) : list lnode :=
  match up with
  | [] => []
  | (p, _) :: r => (p, r) :: lanc r
  end.
Definition lancestors (n : lnode) : list lnode := lanc (snd n).

(* callback walk *)
Inductive event : Type := Before (n : lnode) | Leaf (n : lnode) | After (n : lnode).

Definition lbrackets : lnode -> list event :=
  lfoldn (fun n rs => match rs with [] => [Leaf n] | _ => Before n :: concat rs ++ [After n] end).

(* bracket-matching order: a leaf, or Before n ... After n around a well nested sequence *)
Inductive well_nested : list event -> Prop :=
| wn_nil : well_nested []
| wn_leaf : forall n r, well_nested r -> well_nested (Leaf n :: r)
| wn_pair : forall n a r, well_nested a -> well_nested r -> well_nested (Before n :: a ++ After n :: r).

(* what a run with optional callbacks records of an event sequence *)
Definition cb_emit {ev : Type} (before_fn after_fn leaf_fn : option (lnode -> ev)) (e : event) : list ev :=
  match e with
  | Before n => match before_fn with Some g => [g n] | None => [] end
  | Leaf n => match leaf_fn with Some g => [g n] | None => [] end
  | After n => match after_fn with Some g => [g n] | None => [] end
  end.

(* Python `filter_fn is None or filter_fn(x)` *)
Definition pyf {A : Type} (ff : option (A -> bool)) : A -> bool :=
  fun x => match ff with None => true | Some g => g x end.

(* ---- vocabulary of the theorems ---- *)
(* a occurs before b in l *)
Definition before {A : Type} (l : list A) (a b : A) : Prop := exists l1 l2 l3, l = l1 ++ a :: l2 ++ b :: l3.

Definition depth_le (a b : lnode) : Prop := (l_depth a <= l_depth b)%nat.

(* order produced by list.sort(key=key, reverse=rv) *)
Definition key_ord {A : Type} (key : A -> Z) (rv : bool) (a b : A) : Prop :=
  if rv then (key b <= key a)%Z else (key a <= key b)%Z.

Definition ev_before (e : event) : list lnode := match e with Before n => [n] | _ => [] end.
Definition ev_after (e : event) : list lnode := match e with After n => [n] | _ => [] end.
Definition ev_leaf (e : event) : list lnode := match e with Leaf n => [n] | _ => [] end.

(* edge iterators: the node filter that corresponds to an edge filter, and the edges of a node run *)
Definition efilter (G : objgraph) (fe : option (gedge G -> bool)) : option (gnode G -> bool) :=
  match fe with None => None | Some g => Some (fun n => g (attr_edge G n)) end.
Definition edges_of (G : objgraph) (g : gres (gnode G)) : gres (gedge G) :=
  gflat_map (fun nd => [attr_edge G nd]) g.

(* ---- correspondence cases ---- *)
Inductive kind : Type :=
| KN_preorder_iter | KN_preorder_internal (excl : bool)
| KN_postorder_iter | KN_postorder_internal (excl : bool)
| KN_levelorder_iter | KN_level_order_iter
| KN_inorder_iter | KN_leaf_iter | KN_child_node_iter | KN_child_edge_iter
| KN_ancestor_iter (inclusive : bool)
| KN_ageorder_iter (include_leaves descending : bool)
| KN_age_order_iter (include_leaves descending : bool)
| KN_apply (b a l : bool)
| KN_iter | KN_leaf_nodes
| KT_preorder_node_iter | KT_preorder_internal_node_iter (excl : bool)
| KT_postorder_node_iter | KT_postorder_internal_node_iter (excl : bool)
| KT_levelorder_node_iter | KT_level_order_node_iter | KT_inorder_node_iter
| KT_leaf_node_iter | KT_leaf_iter
| KT_ageorder_node_iter (include_leaves descending : bool)
| KT_age_order_node_iter (include_leaves descending : bool)
| KT_apply (b a l : bool)
| KT_preorder_edge_iter | KT_preorder_internal_edge_iter (excl : bool)
| KT_postorder_edge_iter | KT_postorder_internal_edge_iter (excl : bool)
| KT_levelorder_edge_iter | KT_level_order_edge_iter | KT_inorder_edge_iter | KT_leaf_edge_iter
| KT_nodes | KT_leaf_nodes | KT_internal_nodes (excl : bool)
| KT_edges | KT_leaf_edges | KT_internal_edges (excl : bool)
| KT_iter | KT_len.

Record case : Type := mkCase {
  c_tree : tree;
  c_start : list nat;              (* child indices from the seed to the start node *)
  c_kind : kind;
  c_filter : option (list Z);      (* None: no filter_fn; Some ids: passes iff the node id is listed *)
  c_ages : list (Z * Z);           (* node id -> age attribute (default 0) *)
  c_out : list Z;                  (* observed: node ids / edge head ids / 3*id+tag events / [len] *)
  c_err : option err               (* observed exception after c_out *)
}.

Definition memZ (x : Z) (l : list Z) : bool := existsb (Z.eqb x) l.

Fixpoint lookupZ (k : Z) (l : list (Z * Z)) : Z :=
  match l with
  | [] => 0
  | (k', v) :: r => if Z.eqb k k' then v else lookupZ k r
  end.

Definition case_fuel (c : case) : nat := (2 * size (c_tree c) + 4)%nat.

Definition gres_ids {O} (key : O -> Z) (g : gres O) : option (list Z * option err) :=
  match g with
  | GDone o => Some (map key o, None)
  | GRaise o e => Some (map key o, Some e)
  | GFuel => None
  end.

Definition ev_code (tag : Z) (n : lnode) : Z := 3 * l_id n + tag.

Definition case_run (c : case) : option (list Z * option err) :=
  let G := LG (fun n => lookupZ (l_id n) (c_ages c)) in
  let fuel := case_fuel c in
  let ff : option (lnode -> bool) :=
      match c_filter c with None => None | Some ids => Some (fun n => memZ (l_id n) ids) end in
  let cb (present : bool) (tag : Z) : option (lnode -> Z) := if present then Some (ev_code tag) else None in
  match l_at (c_start c) (c_tree c, []) with
  | None => None
  | Some s =>
    let N (g : gres lnode) := gres_ids l_id g in
    let Z_ (g : gres Z) := gres_ids (fun z => z) g in
    match c_kind c with
    | KN_preorder_iter => N (Node_preorder_iter G fuel ff s)
    | KN_preorder_internal x => N (Node_preorder_internal_node_iter G fuel ff x s)
    | KN_postorder_iter => N (Node_postorder_iter G fuel ff s)
    | KN_postorder_internal x => N (Node_postorder_internal_node_iter G fuel ff x s)
    | KN_levelorder_iter => N (Node_levelorder_iter G fuel ff s)
    | KN_level_order_iter => N (Node_level_order_iter G fuel ff s)
    | KN_inorder_iter => N (Node_inorder_iter G fuel ff s)
    | KN_leaf_iter => N (Node_leaf_iter G fuel ff s)
    | KN_child_node_iter => N (Node_child_node_iter G fuel ff s)
    | KN_child_edge_iter => N (Node_child_edge_iter G fuel ff s)
    | KN_ancestor_iter i => N (Node_ancestor_iter G fuel ff i s)
    | KN_ageorder_iter il d => N (Node_ageorder_iter G fuel ff il d s)
    | KN_age_order_iter il d => N (Node_age_order_iter G fuel il ff d s)
    | KN_apply b a l => Z_ (Node_apply G fuel (cb b 0) (cb a 2) (cb l 1) s)
    | KN_iter => N (Node_dunder_iter G fuel ff s)
    | KN_leaf_nodes => N (Node_leaf_nodes G fuel s)
    | KT_preorder_node_iter => N (Tree_preorder_node_iter G fuel ff s)
    | KT_preorder_internal_node_iter x => N (Tree_preorder_internal_node_iter G fuel ff x s)
    | KT_postorder_node_iter => N (Tree_postorder_node_iter G fuel ff s)
    | KT_postorder_internal_node_iter x => N (Tree_postorder_internal_node_iter G fuel ff x s)
    | KT_levelorder_node_iter => N (Tree_levelorder_node_iter G fuel ff s)
    | KT_level_order_node_iter => N (Tree_level_order_node_iter G fuel ff s)
    | KT_inorder_node_iter => N (Tree_inorder_node_iter G fuel ff s)
    | KT_leaf_node_iter => N (Tree_leaf_node_iter G fuel ff s)
    | KT_leaf_iter => N (Tree_leaf_iter G fuel ff s)
    | KT_ageorder_node_iter il d => N (Tree_ageorder_node_iter G fuel il ff d s)
    | KT_age_order_node_iter il d => N (Tree_age_order_node_iter G fuel il ff d s)
    | KT_apply b a l => Z_ (Tree_apply G fuel (cb b 0) (cb a 2) (cb l 1) s)
    | KT_preorder_edge_iter => N (Tree_preorder_edge_iter G fuel ff s)
    | KT_preorder_internal_edge_iter x => N (Tree_preorder_internal_edge_iter G fuel ff x s)
    | KT_postorder_edge_iter => N (Tree_postorder_edge_iter G fuel ff s)
    | KT_postorder_internal_edge_iter x => N (Tree_postorder_internal_edge_iter G fuel ff x s)
    | KT_levelorder_edge_iter => N (Tree_levelorder_edge_iter G fuel ff s)
    | KT_level_order_edge_iter => N (Tree_level_order_edge_iter G fuel ff s)
    | KT_inorder_edge_iter => N (Tree_inorder_edge_iter G fuel ff s)
    | KT_leaf_edge_iter => N (Tree_leaf_edge_iter G fuel ff s)
    | KT_nodes => N (Tree_nodes G fuel ff s)
    | KT_leaf_nodes => N (Tree_leaf_nodes G fuel s)
    | KT_internal_nodes x => N (Tree_internal_nodes G fuel x s)
    | KT_edges => N (Tree_edges G fuel ff s)
    | KT_leaf_edges => N (Tree_leaf_edges G fuel s)
    | KT_internal_edges x => N (Tree_internal_edges G fuel x s)
    | KT_iter => N (Tree_dunder_iter G fuel s)
    | KT_len =>
      match Tree_dunder_len G fuel s with
      | Ok z => Some ([z], None)
      | Err e => Some ([], Some e)
      | OutOfFuel => None
      end
    end
  end.

Definition case_ok (c : case) : bool :=
  match case_run c with
  | Some (ids, e) => list_eqb Z.eqb ids (c_out c) && option_eqb err_eqb e (c_err c)
  | None => false
  end.
