(* C20: control skeleton of dataio/nexusreader.py (NexusReader as used by DataSet.get:
   exclude_chars = exclude_trees = False, no attached namespace, store_ignored_blocks = False),
   second version: the tokenizer is driven at CHARACTER level (C02's Model/Tokenizer.v
   `next_token cfg`), with the reader's mode switches - set_capture_eol (interleaved matrices) and
   set_hyphens_as_captured_delimiters (_parse_positions) - as changes of the tokenizer
   configuration, exactly as in the code (including the capture-EOL mode that an interleaved MATRIX
   leaves switched on when its ';' is met).  TREE statements are parsed by C02's Model/Newick.v on the
   token sequence of the remaining characters in the current mode.  Executable definitions only.

   Transcribed: _parse_nexus_stream, _parse_taxa_block, _parse_taxlabels_statement,
   _parse_title_statement, _parse_link_statement, _parse_characters_data_block,
   _parse_format_statement (DATATYPE, SYMBOLS, GAP, MISSING, MATCHCHAR, INTERLEAVE),
   _parse_dimensions_statement, _parse_matrix_statement, _process_discrete_matrix_data and
   _process_continuous_matrix_data (sequential and interleaved), _read_character_states (with
   multistate groups and MATCHCHAR), _read_continuous_character_values, _build_state_alphabet +
   StateAlphabet construction for the STANDARD data type, _get_taxon, _get_taxon_namespace,
   _get_char_matrix, _parse_trees_block, _parse_translate_statement, _parse_tree_statement,
   the SETS/ASSUMPTIONS/CODONS branch, _parse_charset_statement, _parse_positions,
   _consume_to_end_of_block, NexusTokenizer.skip_to_semicolon.

   Every `while` takes its guard flags and the fetch primitive of its body from the GENERATED record
   of that loop (Gen/ReaderLoops.v), looked up by function name and ordinal; a record that cannot be
   found, or whose primitive fetches are not of one kind where one kind is expected, yields FNone =
   "fetches nothing" (fail closed: the loop spins until the budget is gone).

   Python runtime functions are parameters: `upper`, `lower`, `dval` (decimal digit value),
   `sym_ok dt c` (symbol tables of the fixed alphabets DNA / RNA / NUCLEOTIDE / PROTEIN),
   `is_float` (float() accepts the token). *)
From Coq Require Import String Ascii ZArith NArith List Bool.
From DV Require Import Model.PyPrims Gen.CharClasses Gen.ReaderLoops Model.Tokenizer Model.Newick Model.C20Model.
Import ListNotations.
Close Scope string_scope.
Open Scope list_scope.
Open Scope Z_scope.

Notation str := Tokenizer.str.

Definition s_of (s : string) : str := map (fun a => Z.of_N (N_of_ascii a)) (list_ascii_of_string s).
Definition seqb (a b : str) : bool := Tokenizer.str_eqb a b.

(* ------------------------------------------------------------------------------------------ *)
Inductive nr (A : Type) : Type :=
| ROk (a : A)
| RErr (e : err)
| RFuel.                (* loop budget exhausted: the reader hangs *)
Arguments ROk {A} _.
Arguments RErr {A} _.
Arguments RFuel {A}.

Definition nbind {A B} (r : nr A) (f : A -> nr B) : nr B :=
  match r with ROk a => f a | RErr e => RErr e | RFuel => RFuel end.
Notation "'dn' x <- r ;; k" := (nbind r (fun x => k)) (at level 200, x pattern, r at level 100, k at level 200).

Definition of_res {A} (r : res A) : nr A :=
  match r with Ok a => ROk a | Err e => RErr e | OutOfFuel => RFuel end.

(* ------------------------------------------------------------------------------------------ *)
(* the generated loop records                                                                  *)
Definition dummy_loop : loop :=
  mkLoop ""%string ""%string 0 0 ""%string false false false false false false [FNone] false false false false.

Definition find_loop (func : string) (ix : Z) : loop :=
  match filter (fun l => String.eqb (l_func l) func && (l_index l =? ix)) reader_loops with
  | l :: _ => l
  | [] => dummy_loop
  end.

Definition is_prim (f : fetch_kind) : bool :=
  match f with
  | FNextToken | FRequireNextToken | FNextTokenUcase | FRequireNextTokenUcase | FSkipToSemicolon | FGetNextChar => true
  | _ => false
  end.

Definition fetch_eqb (a b : fetch_kind) : bool :=
  match a, b with
  | FNextToken, FNextToken | FRequireNextToken, FRequireNextToken | FNextTokenUcase, FNextTokenUcase
  | FRequireNextTokenUcase, FRequireNextTokenUcase | FSkipToSemicolon, FSkipToSemicolon
  | FGetNextChar, FGetNextChar => true
  | _, _ => false
  end.

Definition uniform_prim (l : loop) : fetch_kind :=
  match filter is_prim (fetches l) with
  | [] => FNone
  | k :: r => if forallb (fetch_eqb k) r then k else FNone
  end.

Definition nth_prim (l : loop) (k : nat) : fetch_kind := nth k (filter is_prim (fetches l)) FNone.

Definition L_outer := find_loop "NexusReader._parse_nexus_stream" 1.
Definition L_scan_begin := find_loop "NexusReader._parse_nexus_stream" 2.
Definition L_sets := find_loop "NexusReader._parse_nexus_stream" 3.
Definition L_taxa := find_loop "NexusReader._parse_taxa_block" 1.
Definition L_taxlabels := find_loop "NexusReader._parse_taxlabels_statement" 1.
Definition L_link := find_loop "NexusReader._parse_link_statement" 1.
Definition L_chars := find_loop "NexusReader._parse_characters_data_block" 1.
Definition L_format := find_loop "NexusReader._parse_format_statement" 1.
Definition L_symbols := find_loop "NexusReader._parse_format_statement" 2.
Definition L_dims := find_loop "NexusReader._parse_dimensions_statement" 1.
Definition L_cmatrix_il := find_loop "NexusReader._process_continuous_matrix_data" 1.
Definition L_cmatrix := find_loop "NexusReader._process_continuous_matrix_data" 2.
Definition L_matrix_il := find_loop "NexusReader._process_discrete_matrix_data" 1.
Definition L_matrix := find_loop "NexusReader._process_discrete_matrix_data" 2.
Definition L_translate := find_loop "NexusReader._parse_translate_statement" 1.
Definition L_trees := find_loop "NexusReader._parse_trees_block" 1.
Definition L_tree_stmts := find_loop "NexusReader._parse_trees_block" 2.
Definition L_positions := find_loop "NexusReader._parse_positions" 1.
Definition L_consume := find_loop "NexusReader._consume_to_end_of_block" 1.
Definition L_states := find_loop "NexusReader._read_character_states" 1.
Definition L_multi := find_loop "NexusReader._read_character_states" 2.
Definition L_cvalues := find_loop "NexusReader._read_continuous_character_values" 1.
Definition L_skip := find_loop "NexusTokenizer.skip_to_semicolon" 1.

(* ------------------------------------------------------------------------------------------ *)
(* reader state                                                                                *)
Inductive dtype : Type := DDna | DRna | DNuc | DProt | DStd | DCont.

Definition dtype_code (d : dtype) : Z :=
  match d with DDna => 0 | DRna => 1 | DNuc => 2 | DProt => 3 | DStd => 4 | DCont => 5 end.

Record matrix : Type := mkMat {
  m_label : option str;              (* char_matrix.label (block TITLE) *)
  m_tns : nat;                       (* index of its namespace in _taxon_namespaces *)
  m_rows : list (nat * Z);           (* taxon index -> number of states read, in creation order *)
  m_sets : list str                  (* character subset names *)
}.

Record nstate : Type := mkN {
  n_rest : str;                      (* characters not yet consumed; head = _cur_char *)
  n_cur : option str;                (* current_token *)
  n_eof : bool;                      (* is_eof() *)
  n_quoted : bool;                   (* is_token_quoted *)
  n_capture_eol : bool;              (* tokenizer mode: "\n" / "\r" are captured delimiters *)
  n_hyphen : bool;                   (* tokenizer mode: "-" is a captured delimiter *)
  n_ntax : option Z;                 (* _file_specified_ntax *)
  n_nchar : option Z;                (* _file_specified_nchar *)
  n_tns : list (option str * list str);   (* _taxon_namespaces: (label, member labels) *)
  n_mats : list matrix;              (* _char_matrices *)
  n_trees : Z;                       (* number of trees read *)
  n_dtype : dtype;                   (* _data_type *)
  n_symbols : str;                   (* _symbols *)
  n_gap : str;                       (* _gap_char *)
  n_missing : str;                   (* _missing_char *)
  n_match : list str;                (* _match_char *)
  n_interleave : bool                (* _interleave *)
}.

(* tokenizer part *)
Definition upd_tok (st : nstate) (rest : str) (cur : option str) (eof q : bool) : nstate :=
  mkN rest cur eof q (n_capture_eol st) (n_hyphen st) (n_ntax st) (n_nchar st) (n_tns st) (n_mats st)
      (n_trees st) (n_dtype st) (n_symbols st) (n_gap st) (n_missing st) (n_match st) (n_interleave st).
Definition upd_modes (st : nstate) (cap hy : bool) : nstate :=
  mkN (n_rest st) (n_cur st) (n_eof st) (n_quoted st) cap hy (n_ntax st) (n_nchar st) (n_tns st) (n_mats st)
      (n_trees st) (n_dtype st) (n_symbols st) (n_gap st) (n_missing st) (n_match st) (n_interleave st).
(* payload part *)
Record payload : Type := mkP {
  p_ntax : option Z; p_nchar : option Z; p_tns : list (option str * list str); p_mats : list matrix;
  p_trees : Z; p_dtype : dtype; p_symbols : str; p_gap : str; p_missing : str; p_match : list str;
  p_interleave : bool
}.
Definition pay (st : nstate) : payload :=
  mkP (n_ntax st) (n_nchar st) (n_tns st) (n_mats st) (n_trees st) (n_dtype st) (n_symbols st)
      (n_gap st) (n_missing st) (n_match st) (n_interleave st).
Definition upd_pay (st : nstate) (p : payload) : nstate :=
  mkN (n_rest st) (n_cur st) (n_eof st) (n_quoted st) (n_capture_eol st) (n_hyphen st)
      (p_ntax p) (p_nchar p) (p_tns p) (p_mats p) (p_trees p) (p_dtype p) (p_symbols p) (p_gap p)
      (p_missing p) (p_match p) (p_interleave p).

Definition upd_ntax (st : nstate) (v : option Z) : nstate :=
  let p := pay st in upd_pay st (mkP v (p_nchar p) (p_tns p) (p_mats p) (p_trees p) (p_dtype p) (p_symbols p) (p_gap p) (p_missing p) (p_match p) (p_interleave p)).
Definition upd_nchar (st : nstate) (v : option Z) : nstate :=
  let p := pay st in upd_pay st (mkP (p_ntax p) v (p_tns p) (p_mats p) (p_trees p) (p_dtype p) (p_symbols p) (p_gap p) (p_missing p) (p_match p) (p_interleave p)).
Definition upd_tns (st : nstate) (v : list (option str * list str)) : nstate :=
  let p := pay st in upd_pay st (mkP (p_ntax p) (p_nchar p) v (p_mats p) (p_trees p) (p_dtype p) (p_symbols p) (p_gap p) (p_missing p) (p_match p) (p_interleave p)).
Definition upd_mats (st : nstate) (v : list matrix) : nstate :=
  let p := pay st in upd_pay st (mkP (p_ntax p) (p_nchar p) (p_tns p) v (p_trees p) (p_dtype p) (p_symbols p) (p_gap p) (p_missing p) (p_match p) (p_interleave p)).
Definition upd_trees (st : nstate) (v : Z) : nstate :=
  let p := pay st in upd_pay st (mkP (p_ntax p) (p_nchar p) (p_tns p) (p_mats p) v (p_dtype p) (p_symbols p) (p_gap p) (p_missing p) (p_match p) (p_interleave p)).
Definition upd_dtype (st : nstate) (d : dtype) (sy : str) : nstate :=
  let p := pay st in upd_pay st (mkP (p_ntax p) (p_nchar p) (p_tns p) (p_mats p) (p_trees p) d sy (p_gap p) (p_missing p) (p_match p) (p_interleave p)).
Definition upd_gap (st : nstate) (v : str) : nstate :=
  let p := pay st in upd_pay st (mkP (p_ntax p) (p_nchar p) (p_tns p) (p_mats p) (p_trees p) (p_dtype p) (p_symbols p) v (p_missing p) (p_match p) (p_interleave p)).
Definition upd_missing (st : nstate) (v : str) : nstate :=
  let p := pay st in upd_pay st (mkP (p_ntax p) (p_nchar p) (p_tns p) (p_mats p) (p_trees p) (p_dtype p) (p_symbols p) (p_gap p) v (p_match p) (p_interleave p)).
Definition upd_match (st : nstate) (v : list str) : nstate :=
  let p := pay st in upd_pay st (mkP (p_ntax p) (p_nchar p) (p_tns p) (p_mats p) (p_trees p) (p_dtype p) (p_symbols p) (p_gap p) (p_missing p) v (p_interleave p)).
Definition upd_interleave (st : nstate) (v : bool) : nstate :=
  let p := pay st in upd_pay st (mkP (p_ntax p) (p_nchar p) (p_tns p) (p_mats p) (p_trees p) (p_dtype p) (p_symbols p) (p_gap p) (p_missing p) (p_match p) v).

(* NexusTokenizer configuration in the current mode (set_capture_eol,
   set_hyphens_as_captured_delimiters); underscores are not preserved (the reader's default) *)
Definition zremove (c : Z) (l : list Z) : list Z := filter (fun x => negb (x =? c)) l.

Definition cfg_of (cap hy : bool) : tok_cfg :=
  let unc := if cap then zremove 10 (zremove 13 tok_uncaptured_delimiters) else tok_uncaptured_delimiters in
  let cp0 := if cap then 10 :: 13 :: tok_captured_delimiters else tok_captured_delimiters in
  let cp := if hy then 45 :: cp0 else cp0 in
  mkTokCfg unc cp tok_quote_chars tok_escape_quote_by_doubling tok_comment_begin tok_comment_end
           tok_capture_comments false.

Definition st_cfg (st : nstate) : tok_cfg := cfg_of (n_capture_eol st) (n_hyphen st).

(* Recorded defect sites of the current reader, each modelled in both forms (DESIGN 5.2): false = as in
   the current source, true = repaired.  The harness decides by replaying the site's witness. *)
Record nfix : Type := mkFix {
  fx_cblock : bool;     (* _read_continuous_character_values: ';' inside a sequential row is a parse error,
                           not a leaked BlockTerminatedException *)
  fx_alpha : bool;      (* _build_state_alphabet: an empty symbol list / a symbol defined twice is a parse error,
                           not TypeError at the first lookup / ValueError from StateAlphabet *)
  fx_ildims : bool      (* interleaved MATRIX: rows shorter than NCHAR at the end are a parse error *)
}.
Definition nfix_none : nfix := mkFix false false false.
Definition nfix_all : nfix := mkFix true true true.

Section Nexus.
Variable fx : nfix.
Variable upper : str -> str.
Variable lower : str -> str.
Variable dval : Z -> option Z.
Variable sym_ok : Z -> Z -> bool.        (* data type code -> symbol -> in the alphabet's symbol map *)
Variable is_float : str -> bool.
(* loop budget of every loop (each `while` starts with it) *)
Variable F : nat.

(* ------------------------------------------------------------------------------------------ *)
(* fetch primitives                                                                            *)
Inductive fetched : Type :=
| GotTok (st : nstate)        (* a token was delivered; it is n_cur *)
| GotEnd (st : nstate)        (* StopIteration *)
| GotErr (e : err)            (* UnterminatedQuoteError *)
| GotFuel.                    (* tokenizer-model artefact (excluded by proof) *)

(* Tokenizer.__next__ *)
Definition nadvance (st : nstate) : fetched :=
  match Tokenizer.next_token (st_cfg st) (n_rest st) with
  | TTok t q _ rest => GotTok (upd_tok st rest (Some t) (is_nil rest) q)
  | TEof _ => GotEnd (upd_tok st [] (n_cur st) true false)
  | TErr e => GotErr e
  | TFuel => GotFuel
  end.

Definition set_cur_n (st : nstate) (c : option str) : nstate :=
  upd_tok st (n_rest st) c (n_eof st) (n_quoted st).

(* next_token: None at end of stream *)
Definition next_token (st : nstate) : nr (option str * nstate) :=
  match nadvance st with
  | GotTok st' => ROk (n_cur st', st')
  | GotEnd st' => ROk (None, set_cur_n st' None)
  | GotErr e => RErr e
  | GotFuel => RFuel
  end.

(* require_next_token: UnexpectedEndOfStreamError (a DataParseError) at end of stream *)
Definition require_next_token (st : nstate) : nr (option str * nstate) :=
  match nadvance st with
  | GotTok st' => ROk (n_cur st', st')
  | GotEnd _ => RErr ParseErr
  | GotErr e => RErr e
  | GotFuel => RFuel
  end.

Definition ucase (r : nr (option str * nstate)) : nr (option str * nstate) :=
  dn p <- r ;;
  let '(t, st) := p in
  match t with
  | Some s => ROk (Some (upper s), set_cur_n st (Some (upper s)))
  | None => ROk (None, st)
  end.

Definition tok_is (t : option str) (s : string) : bool :=
  match t with Some x => seqb x (s_of s) | None => false end.
Definition is_none {A} (t : option A) : bool := match t with None => true | Some _ => false end.
Definition truthy (t : option str) : bool := match t with Some (_ :: _) => true | _ => false end.
Definition tok_text (t : option str) : str := match t with Some s => s | None => [] end.

(* skip_to_semicolon *)
Fixpoint skip_loop (fuel : nat) (tok : option str) (st : nstate) : nr nstate :=
  match fuel with
  | O => RFuel
  | S f =>
    if negb (tok_is tok ";")
       && (if guard_tests_cur_char L_skip then negb (n_eof st) else true)
       && (if guard_tests_none L_skip then negb (is_none tok) else true)
    then dn p <- (match uniform_prim L_skip with
                  | FNextToken => next_token st
                  | FRequireNextToken => require_next_token st
                  | _ => ROk (tok, st)
                  end) ;;
         skip_loop f (fst p) (snd p)
    else ROk st
  end.

Definition skip_to_semicolon (st : nstate) : nr nstate :=
  dn p <- next_token st ;; skip_loop F (fst p) (snd p).

(* a fetch as the generated record of a loop names it; FNone / anything else fetches nothing *)
Definition fetch (k : fetch_kind) (tok : option str) (st : nstate) : nr (option str * nstate) :=
  match k with
  | FNextToken => next_token st
  | FRequireNextToken => require_next_token st
  | FNextTokenUcase => ucase (next_token st)
  | FRequireNextTokenUcase => ucase (require_next_token st)
  | _ => ROk (tok, st)
  end.

Definition guard_extra (l : loop) (tok : option str) (st : nstate) : bool :=
  (if guard_tests_eof l then negb (n_eof st) else true)
  && (if guard_tests_none l then negb (is_none tok) else true).

Definition is_end (tok : option str) : bool := tok_is tok "END" || tok_is tok "ENDBLOCK".

(* _consume_to_end_of_block(token) *)
Fixpoint consume_loop (fuel : nat) (tok : option str) (st : nstate) : nr (option str * nstate) :=
  match fuel with
  | O => RFuel
  | S f =>
    if negb (is_end tok) && guard_extra L_consume tok st then
      dn st1 <- (match nth_prim L_consume 0 with FSkipToSemicolon => skip_to_semicolon st | _ => ROk st end) ;;
      dn p <- fetch (nth_prim L_consume 1) tok st1 ;;
      consume_loop f (fst p) (snd p)
    else ROk (tok, st)
  end.

Definition consume_to_end_of_block (tok : option str) (st : nstate) : nr (option str * nstate) :=
  let tok0 := if truthy tok then match tok with Some s => Some (upper s) | None => None end
              else Some (s_of "DUMMY") in
  consume_loop F tok0 st.

(* _parse_title_statement *)
Definition parse_title (st : nstate) : nr (option str * nstate) :=
  dn p <- require_next_token st ;;
  let '(title, st1) := p in
  dn q <- require_next_token st1 ;;
  let '(sc, st2) := q in
  if tok_is sc ";" then ROk (title, st2) else RErr ParseErr.

(* _parse_link_statement -> (links.get('taxa'), links.get('characters')).  The three fetches of a
   clause and the fetch of the `else` branch are the primitives 0,1,2 / 6 of the generated record *)
Definition link_item (st : nstate) : nr (option str * option str * nstate) :=
  dn p <- fetch (nth_prim L_link 0) None st ;;
  if negb (tok_is (fst p) "=") then RErr ParseErr
  else dn q <- fetch (nth_prim L_link 1) None (snd p) ;;
       dn r <- fetch (nth_prim L_link 2) None (snd q) ;;
       ROk (fst q, fst r, snd r).

Fixpoint link_loop (fuel : nat) (tok : option str) (st : nstate) (lt lc : option (option str))
  : nr (option (option str) * option (option str) * option str * nstate) :=
  match fuel with
  | O => RFuel
  | S f =>
    if negb (tok_is tok ";") && guard_extra L_link tok st then
      if tok_is tok "TAXA" then
        dn r <- link_item st ;; let '(v, t, st1) := r in link_loop f t st1 (Some v) lc
      else if tok_is tok "CHARACTERS" then
        dn r <- link_item st ;; let '(v, t, st1) := r in link_loop f t st1 lt (Some v)
      else
        dn p <- fetch (nth_prim L_link 6) tok st ;; link_loop f (fst p) (snd p) lt lc
    else ROk (lt, lc, tok, st)
  end.

Definition parse_link (st : nstate) : nr (option str * option str * nstate) :=
  dn p <- ucase (next_token st) ;;
  dn r <- link_loop F (fst p) (snd p) None None ;;
  let '(lt, lc, tok, st1) := r in
  let flat := fun (o : option (option str)) => match o with Some v => v | None => None end in
  ROk (flat lt, flat lc, st1).

(* _parse_dimensions_statement *)
Definition all_digits (s : str) : bool :=
  match s with [] => false | _ => forallb (fun c => match dval c with Some _ => true | None => false end) s end.
Definition int_val (s : str) : Z := int_of dval s.

Fixpoint dims_loop (fuel : nat) (tok : option str) (st : nstate) : nr nstate :=
  match fuel with
  | O => RFuel
  | S f =>
    let k := uniform_prim L_dims in
    if negb (tok_is tok ";") && guard_extra L_dims tok st then
      dn st1 <-
        (if tok_is tok "NTAX" || tok_is tok "NCHAR" then
           let is_ntax := tok_is tok "NTAX" in
           dn p <- fetch k tok st ;;
           if tok_is (fst p) "=" then
             dn q <- fetch k tok (snd p) ;;
             match fst q with
             | None => RErr AttrErr                              (* token.isdigit() on None *)
             | Some v =>
               if all_digits v
               then ROk (if is_ntax then upd_ntax (snd q) (Some (int_val v)) else upd_nchar (snd q) (Some (int_val v)))
               else RErr ParseErr
             end
           else RErr ParseErr
         else if tok_is tok "BEGIN" then RErr ParseErr
         else ROk st) ;;
      dn p <- fetch k tok st1 ;;
      dims_loop f (fst p) (snd p)
    else ROk st
  end.

Definition parse_dimensions (st : nstate) : nr nstate :=
  dn p <- ucase (require_next_token st) ;; dims_loop F (fst p) (snd p).

(* ------------------------------------------------------------------------------------------ *)
(* _parse_format_statement                                                                     *)

(* `token not in self._symbols` is a substring test *)
Fixpoint is_prefix (a b : str) : bool :=
  match a, b with
  | [], _ => true
  | x :: a', y :: b' => (x =? y) && is_prefix a' b'
  | _, [] => false
  end.
Fixpoint is_substr (a b : str) : bool :=
  is_prefix a b || match b with [] => false | _ :: b' => is_substr a b' end.

Definition digits10 : str := [48; 49; 50; 51; 52; 53; 54; 55; 56; 57].

(* the SYMBOLS="..." list *)
Fixpoint symbols_loop (fuel : nat) (tok : option str) (st : nstate) (acc : str) : nr (str * nstate) :=
  match fuel with
  | O => RFuel
  | S f =>
    if negb (tok_is tok """") && guard_extra L_symbols tok st then
      match tok with
      | None => RErr TypeErr                                   (* None not in str *)
      | Some t =>
        let acc' := if is_substr t acc then acc else acc ++ t in
        dn p <- fetch (uniform_prim L_symbols) tok st ;;
        symbols_loop f (fst p) (snd p) acc'
      end
    else ROk (acc, st)
  end.

Definition starts_with_N (t : option str) : bool := match t with Some (78 :: _) => true | _ => false end.

Fixpoint format_loop (fuel : nat) (tok : option str) (st : nstate) : nr nstate :=
  match fuel with
  | O => RFuel
  | S f =>
    let k := uniform_prim L_format in
    if negb (tok_is tok ";") && guard_extra L_format tok st then
      if tok_is tok "DATATYPE" then
        dn p <- fetch k tok st ;;
        if tok_is (fst p) "=" then
          dn q <- fetch k tok (snd p) ;;
          let v := fst q in
          let st2 := snd q in
          let st3 := if tok_is v "DNA" || tok_is v "NUCLEOTIDES" then upd_dtype st2 DDna (n_symbols st2)
                     else if tok_is v "RNA" then upd_dtype st2 DRna (n_symbols st2)
                     else if tok_is v "NUCLEOTIDE" then upd_dtype st2 DNuc (n_symbols st2)
                     else if tok_is v "PROTEIN" then upd_dtype st2 DProt (n_symbols st2)
                     else if tok_is v "CONTINUOUS" then upd_dtype st2 DCont (n_symbols st2)
                     else upd_dtype st2 DStd digits10 in
          dn r <- fetch k tok st3 ;;
          format_loop f (fst r) (snd r)
        else RErr ParseErr
      else if tok_is tok "SYMBOLS" then
        dn p <- fetch k tok st ;;
        if tok_is (fst p) "=" then
          dn q <- fetch k tok (snd p) ;;
          if tok_is (fst q) """" then
            dn r <- fetch k tok (snd q) ;;
            dn s <- symbols_loop F (fst r) (snd r) [] ;;
            let '(sy, st4) := s in
            dn u <- fetch k tok (upd_dtype st4 (n_dtype st4) sy) ;;
            format_loop f (fst u) (snd u)
          else RErr ParseErr
        else RErr ParseErr
      else if tok_is tok "GAP" || tok_is tok "MISSING" || tok_is tok "MATCHCHAR" then
        dn p <- fetch k tok st ;;
        if tok_is (fst p) "=" then
          dn q <- fetch k tok (snd p) ;;
          match fst q with
          | None => RErr AttrErr                                 (* token.lower() on None (MATCHCHAR) *)
          | Some v =>
            let st3 := if tok_is tok "GAP" then upd_gap (snd q) v
                       else if tok_is tok "MISSING" then upd_missing (snd q) v
                       else upd_match (snd q) [v; lower v] in
            dn r <- fetch k tok st3 ;;
            format_loop f (fst r) (snd r)
          end
        else RErr ParseErr
      else if tok_is tok "INTERLEAVE" then
        dn p <- fetch k tok st ;;
        if tok_is (fst p) "=" then
          dn q <- fetch k tok (snd p) ;;
          match fst q with
          | None => RErr AttrErr                                 (* token.startswith on None *)
          | Some _ =>
            dn r <- fetch k tok (upd_interleave (snd q) (negb (starts_with_N (fst q)))) ;;
            format_loop f (fst r) (snd r)
          end
        else format_loop f (fst p) (upd_interleave (snd p) true)
      else if tok_is tok "BEGIN" then RErr ParseErr
      else dn p <- fetch k tok st ;; format_loop f (fst p) (snd p)
    else ROk st
  end.

Definition parse_format (st : nstate) : nr nstate :=
  dn p <- ucase (require_next_token st) ;; format_loop F (fst p) (snd p).

(* ------------------------------------------------------------------------------------------ *)
(* taxon namespaces                                                                            *)
Definition label_eq (a b : str) : bool := seqb (lower a) (lower b).

Fixpoint find_label (l : str) (ns : list str) (i : nat) : option nat :=
  match ns with
  | [] => None
  | x :: r => if label_eq x l then Some i else find_label l r (S i)
  end.

Fixpoint set_nth {A} (l : list A) (i : nat) (v : A) : list A :=
  match l, i with
  | [], _ => []
  | _ :: r, O => v :: r
  | x :: r, S j => x :: set_nth r j v
  end.

Definition tns_labels (st : nstate) (i : nat) : list str :=
  match nth_error (n_tns st) i with Some (_, ls) => ls | None => [] end.

Definition tns_set_labels (st : nstate) (i : nat) (ls : list str) : nstate :=
  match nth_error (n_tns st) i with
  | Some (t, _) => upd_tns st (set_nth (n_tns st) i (t, ls))
  | None => st
  end.

Definition new_tns (st : nstate) (title : option str) : nat * nstate :=
  (length (n_tns st), upd_tns st (n_tns st ++ [(title, [])])).

Definition get_tns (st : nstate) (title : option str) : nr (nat * nstate) :=
  match title with
  | None =>
    match n_tns st with
    | [] => ROk (new_tns st None)
    | [_] => ROk (O, st)
    | _ => RErr ParseErr                                  (* LinkRequiredError *)
    end
  | Some t =>
    let hits := filter (fun p => match fst (snd p) with
                                 | Some l => seqb (upper l) (upper t)
                                 | None => false
                                 end) (enum_from O (n_tns st)) in
    match hits with
    | [(i, _)] => ROk (i, st)
    | _ => RErr ParseErr
    end
  end.

(* _parse_taxlabels_statement(taxon_namespace) *)
Fixpoint taxlabels_loop (fuel : nat) (tok : option str) (st : nstate) (ti : nat) : nr nstate :=
  match fuel with
  | O => RFuel
  | S f =>
    if negb (tok_is tok ";") && guard_extra L_taxlabels tok st then
      match tok with
      | None => RErr AttrErr                              (* label.lower() on None *)
      | Some label =>
        let ls := tns_labels st ti in
        dn st1 <-
          (match find_label label ls O with
           | Some _ => ROk st
           | None =>
             match n_ntax st with
             | None => ROk (tns_set_labels st ti (ls ++ [label]))
             | Some n => if zlen ls >=? n then RErr ParseErr      (* TooManyTaxaError *)
                         else ROk (tns_set_labels st ti (ls ++ [label]))
             end
           end) ;;
        dn p <- fetch (uniform_prim L_taxlabels) tok st1 ;;
        taxlabels_loop f (fst p) (snd p) ti
      end
    else ROk st
  end.

Definition parse_taxlabels (st : nstate) (ti : nat) : nr nstate :=
  dn p <- require_next_token st ;; taxlabels_loop F (fst p) (snd p) ti.

(* _parse_taxa_block *)
Fixpoint taxa_loop (fuel : nat) (tok : option str) (st : nstate) (tns : option nat) : nr nstate :=
  match fuel with
  | O => RFuel
  | S f =>
    if negb (is_end tok) && guard_extra L_taxa tok st then
      dn p <- fetch (uniform_prim L_taxa) tok st ;;
      let '(tok1, st1) := p in
      dn a <- (if tok_is tok1 "TITLE"
               then dn r <- parse_title st1 ;;
                    let '(title, st2) := r in
                    let '(i, st3) := new_tns st2 title in ROk (title, st3, Some i)
               else ROk (tok1, st1, tns)) ;;
      let '(tok2, st2, tns2) := a in
      dn st3 <- (if tok_is tok2 "DIMENSIONS" then parse_dimensions st2 else ROk st2) ;;
      if tok_is tok2 "TAXLABELS" then
        let '(i, st4) := match tns2 with Some i => (i, st3) | None => new_tns st3 None end in
        dn st5 <- parse_taxlabels st4 i ;;
        taxa_loop f tok2 st5 (Some i)
      else taxa_loop f tok2 st3 tns2
    else ROk st
  end.

Definition parse_taxa_block (st : nstate) : nr nstate :=
  dn st1 <- skip_to_semicolon st ;;
  dn st2 <- taxa_loop F (Some []) st1 None ;;
  skip_to_semicolon st2.

(* ------------------------------------------------------------------------------------------ *)
(* state alphabets                                                                             *)

(* StateAlphabet(fundamental_states, no_data_symbol, gap_symbol, case_sensitive=False), as far as
   symbols go: the list of all symbols and synonyms; ValueError when a symbol is defined twice *)
Definition add_symbol (keys : list str) (s : str) : nr (list str) :=
  if existsb (seqb s) keys then RErr ValueErr
  else
    let k1 := keys ++ [s] in
    let add_syn := fun (ks : nr (list str)) (v : str) =>
        dn k <- ks ;;
        if seqb v s then ROk k
        else if existsb (seqb v) k then RErr ValueErr else ROk (k ++ [v]) in
    add_syn (add_syn (ROk k1) (upper s)) (lower s).

Fixpoint add_symbols (keys : list str) (l : list str) : nr (list str) :=
  match l with
  | [] => ROk keys
  | s :: r => dn k <- add_symbol keys s ;; add_symbols k r
  end.

(* _build_state_alphabet(char_block, self._symbols): None = nothing was built (the lookup tables stay
   None: TypeError at the first lookup) *)
Definition build_std_alphabet (st : nstate) : nr (option (list str)) :=
  let gap := n_gap st in
  let syms0 := map (fun c => [c]) (n_symbols st) in
  let syms := if negb (is_nil gap) && is_substr gap (n_symbols st)
              then filter (fun s => negb (seqb s gap)) syms0 else syms0 in
  match syms with
  | [] => if fx_alpha fx then RErr ParseErr else ROk None
  | _ =>
    let r := dn k1 <- add_symbols [] syms ;;
             dn k2 <- (if is_nil gap then ROk k1 else add_symbol k1 gap) ;;
             dn k3 <- (if is_nil (n_missing st) then ROk k2 else add_symbol k2 (n_missing st)) ;;
             ROk (Some k3) in
    match r with
    | RErr ValueErr => RErr (if fx_alpha fx then ParseErr else ValueErr)
    | x => x
    end
  end.

(* the alphabet a matrix is read with *)
Inductive alphabet : Type :=
| AFixed (code : Z)                 (* DNA / RNA / NUCLEOTIDE / PROTEIN: library tables *)
| AStd (keys : option (list str)).  (* STANDARD: built from SYMBOLS / GAP / MISSING *)

(* state_alphabet.full_symbol_state_map[c] : Ok true = found, Ok false = KeyError *)
Definition alpha_lookup (a : alphabet) (c : Z) : nr bool :=
  match a with
  | AFixed code => ROk (sym_ok code c)
  | AStd None => RErr TypeErr                      (* 'NoneType' object is not subscriptable *)
  | AStd (Some keys) => ROk (existsb (seqb [c]) keys)
  end.

(* ------------------------------------------------------------------------------------------ *)
(* MATRIX                                                                                      *)
Definition last_mat (st : nstate) : option matrix :=
  match rev (n_mats st) with m :: _ => Some m | [] => None end.

Definition set_last_mat (st : nstate) (m : matrix) : nstate :=
  match rev (n_mats st) with
  | _ :: r => upd_mats st (rev r ++ [m])
  | [] => st
  end.

Fixpoint row_len_of (rows : list (nat * Z)) (t : nat) : option Z :=
  match rows with
  | [] => None
  | (i, n) :: r => if Nat.eqb i t then Some n else row_len_of r t
  end.

Fixpoint set_row (rows : list (nat * Z)) (t : nat) (n : Z) : list (nat * Z) :=
  match rows with
  | [] => [(t, n)]
  | (i, m) :: r => if Nat.eqb i t then (i, n) :: r else (i, m) :: set_row r t n
  end.

(* the characters of one token added to a row that holds n states; `first` = length of
   first_sequence_defined (None while the first row is being read) *)
Fixpoint add_chars (al : alphabet) (mc : list str) (nchar : Z) (first : option Z) (cs : str) (n : Z) : nr Z :=
  match cs with
  | [] => ROk n
  | c :: r =>
    dn _ <- (if existsb (seqb [c]) mc then                       (* c in self._match_char *)
               match first with
               | None => RErr ParseErr                            (* TypeError caught -> NexusReaderError *)
               | Some fl => if n <? fl then ROk tt else RErr ParseErr     (* IndexError caught *)
               end
             else dn ok <- alpha_lookup al c ;; if ok then ROk tt else RErr ParseErr) ;;
    if n =? nchar then RErr ParseErr                              (* TooManyCharactersError *)
    else add_chars al mc nchar first r (n + 1)
  end.

(* every symbol of a multistate group must be known (match_state, else new_*_state) *)
Fixpoint group_ok (al : alphabet) (cs : str) : nr bool :=
  match cs with
  | [] => ROk true
  | c :: r => dn ok <- alpha_lookup al c ;; if ok then group_ok al r else ROk false
  end.

(* `while True: token = require_next_token(); if token == closing_token: break;
   if token == ",": continue; tokens.append(token)` *)
Fixpoint multi_loop (fuel : nat) (closing : string) (st : nstate) (acc : str) : nr (str * nstate) :=
  match fuel with
  | O => RFuel
  | S f =>
    dn p <- fetch (uniform_prim L_multi) None st ;;
    if tok_is (fst p) closing then ROk (acc, snd p)
    else if tok_is (fst p) "," then multi_loop f closing (snd p) acc     (* `continue`: NexusWriter's separators *)
    else match fst p with
         | None => RErr TypeErr                                   (* "".join([.., None]) *)
         | Some t => multi_loop f closing (snd p) (acc ++ t)
         end
  end.

Definition is_eol (tok : option str) : bool := tok_is tok (String (ascii_of_nat 10) "") || tok_is tok (String (ascii_of_nat 13) "").

(* _read_character_states(vector with n states) -> new length; BlockTerminatedException is
   signalled by the flag *)
Fixpoint states_loop (fuel : nat) (al : alphabet) (il : bool) (nchar : Z) (first : option Z) (n : Z) (st : nstate)
  : nr (Z * bool * nstate) :=
  match fuel with
  | O => RFuel
  | S f =>
    if n <? nchar then
      dn p <- fetch (nth_prim L_states 0) None st ;;
      let '(tok, st1) := p in
      if tok_is tok "{" || tok_is tok "(" then
        dn g <- multi_loop F (if tok_is tok "{" then "}" else ")")%string st1 [] ;;
        let '(cs, st2) := g in
        dn ok <- group_ok al cs ;;
        if ok then states_loop f al il nchar first (n + 1) st2 else RErr ParseErr
      else if is_eol tok then
        if il then ROk (n, false, st1) else states_loop f al il nchar first n st1
      else if tok_is tok ";" then
        if il then ROk (n, true, st1)                              (* BlockTerminatedException *)
        else RErr ParseErr
      else match tok with
           | None => RErr TypeErr                                 (* `for c in None` *)
           | Some cs =>
             dn n1 <- add_chars al (n_match st1) nchar first cs n ;;
             states_loop f al il nchar first n1 st1
           end
    else ROk (n, false, st)
  end.

Definition read_character_states (al : alphabet) (nchar : Z) (first : option Z) (n : Z) (st : nstate)
  : nr (Z * bool * nstate) :=
  let il := n_interleave st in
  let st0 := if il then upd_modes st true (n_hyphen st) else st in           (* set_capture_eol(True) *)
  dn r <- states_loop F al il nchar first n st0 ;;
  let '(n1, term, st1) := r in
  (* the exception skips set_capture_eol(False) *)
  ROk (n1, term, if il && negb term then upd_modes st1 false (n_hyphen st1) else st1).

(* _read_continuous_character_values *)
Fixpoint cvalues_loop (fuel : nat) (il : bool) (nchar : Z) (n : Z) (st : nstate) : nr (Z * bool * nstate) :=
  match fuel with
  | O => RFuel
  | S f =>
    if n <? nchar then
      dn p <- fetch (nth_prim L_cvalues 0) None st ;;
      let '(tok, st1) := p in
      if is_eol tok then
        if il then ROk (n, false, st1) else cvalues_loop f il nchar n st1
      else if tok_is tok ";" then
        if il then ROk (n, true, st1)
        else RErr (if fx_cblock fx then ParseErr else OtherErr)    (* BlockTerminatedException escapes *)
      else match tok with
           | None => RErr TypeErr                                 (* float(None) *)
           | Some t => if is_float t then cvalues_loop f il nchar (n + 1) st1 else RErr ParseErr
           end
    else ROk (n, false, st)
  end.

Definition read_continuous_values (nchar : Z) (n : Z) (st : nstate) : nr (Z * bool * nstate) :=
  let il := n_interleave st in
  let st0 := if il then upd_modes st true (n_hyphen st) else st in
  dn r <- cvalues_loop F il nchar n st0 ;;
  let '(n1, term, st1) := r in
  ROk (n1, term, if il && negb term then upd_modes st1 false (n_hyphen st1) else st1).

(* _get_taxon(taxon_namespace, label) *)
Definition get_taxon (st : nstate) (ti : nat) (label : str) : nr (nat * nstate) :=
  let ls := tns_labels st ti in
  match find_label label ls O with
  | Some i => ROk (i, st)
  | None =>
    let full := match n_ntax st with
                | None => false
                | Some n => negb (n =? 0) && negb (zlen ls <? n)
                end in
    if full then RErr ParseErr                                    (* TooManyTaxaError *)
    else ROk (length ls, tns_set_labels st ti (ls ++ [label]))
  end.

(* the row loops of _process_discrete_matrix_data / _process_continuous_matrix_data.
   `al` = None: continuous.  Result: (token, state, block-terminated) *)
Fixpoint matrix_loop (fuel : nat) (L : loop) (al : option alphabet) (il : bool) (nchar : Z) (tok : option str)
         (st : nstate) (m : matrix) (first : option nat) : nr (option str * nstate * bool) :=
  match fuel with
  | O => RFuel
  | S f =>
    if negb (tok_is tok ";") && guard_extra L tok st then
        (* `m` is char_block (the last matrix of the state, kept in step by set_last_mat).
           label None: require_taxon(label=None) / get_taxon: a taxon without label; only reachable
           when the guard does not test is_eof() *)
        let label := tok_text tok in
        dn r <- get_taxon st (m_tns m) label ;;
        let '(t, st1) := r in
        let n0 := match row_len_of (m_rows m) t with Some n => n | None => 0 end in
        let m1 := mkMat (m_label m) (m_tns m) (set_row (m_rows m) t n0) (m_sets m) in
        let firstlen := match first with
                        | Some ft => row_len_of (m_rows m1) ft
                        | None => None
                        end in
        dn q <- (match al with
                 | Some a => read_character_states a nchar firstlen n0 (set_last_mat st1 m1)
                 | None => read_continuous_values nchar n0 (set_last_mat st1 m1)
                 end) ;;
        let '(n1, term, st2) := q in
        let m2 := mkMat (m_label m) (m_tns m) (set_row (m_rows m1) t n1) (m_sets m) in
        let st3 := set_last_mat st2 m2 in
        if term then ROk (tok, st3, true)
        else
          let first' := match first with Some ft => Some ft | None => Some t end in
          if negb il && (n1 <? nchar) then RErr ParseErr
          else dn p <- fetch (nth_prim L 0) tok st3 ;;
               matrix_loop f L al il nchar (fst p) (snd p) m2 first'
    else ROk (tok, st, false)
  end.

(* some row of the matrix just read holds fewer than nchar states *)
Definition rows_short (st : nstate) (nchar : Z) : bool :=
  match last_mat st with
  | Some m => existsb (fun r => snd r <? nchar) (m_rows m)
  | None => false
  end.

(* _parse_matrix_statement(block_title, link_title) *)
Definition parse_matrix (st : nstate) (block_title link_title : option str) : nr nstate :=
  match n_ntax st, n_nchar st with
  | Some nt, Some nc =>
    if (nt =? 0) || (nc =? 0) then RErr ParseErr
    else
      dn r <- get_tns st link_title ;;
      let '(ti, st1) := r in
      let m0 := mkMat block_title ti [] [] in
      let st2 := upd_mats st1 (n_mats st1 ++ [m0]) in
      let il := n_interleave st2 in
      match n_dtype st2 with
      | DCont =>
        dn p <- next_token st2 ;;
        dn r <- matrix_loop F (if il then L_cmatrix_il else L_cmatrix) None il nc (fst p) (snd p) m0 None ;;
        let '(tok, st3, term) := r in
        dn st4 <- (if term then dn q <- next_token st3 ;; ROk (snd q) else ROk st3) ;;
        if il && fx_ildims fx && rows_short st4 nc then RErr ParseErr else ROk st4
      | dt =>
        dn al <- (match dt with
                  | DStd => dn k <- build_std_alphabet st2 ;; ROk (AStd k)
                  | _ => ROk (AFixed (dtype_code dt))
                  end) ;;
        dn p <- next_token st2 ;;
        dn r <- matrix_loop F (if il then L_matrix_il else L_matrix) (Some al) il nc (fst p) (snd p) m0 None ;;
        let '(tok, st3, term) := r in
        dn st4 <- (if term then dn q <- next_token st3 ;; ROk (snd q)
                   else if negb il && negb (tok_is tok ";") then RErr ParseErr   (* MATRIX not terminated by ';' *)
                   else ROk st3) ;;
        if il && fx_ildims fx && rows_short st4 nc then RErr ParseErr else ROk st4
      end
  | _, _ => RErr ParseErr
  end.

(* _parse_characters_data_block *)
Fixpoint chars_loop (fuel : nat) (tok : option str) (st : nstate) (bt lt : option str) : nr nstate :=
  match fuel with
  | O => RFuel
  | S f =>
    if negb (is_end tok) && guard_extra L_chars tok st then
      dn p <- fetch (uniform_prim L_chars) tok st ;;
      let '(tok1, st1) := p in
      if tok_is tok1 "TITLE" then
        dn r <- parse_title st1 ;; chars_loop f tok1 (snd r) (fst r) lt
      else if tok_is tok1 "LINK" then
        dn r <- parse_link st1 ;; let '(l_taxa, _, st2) := r in chars_loop f tok1 st2 bt l_taxa
      else if tok_is tok1 "DIMENSIONS" then
        dn st2 <- parse_dimensions st1 ;; chars_loop f tok1 st2 bt lt
      else if tok_is tok1 "FORMAT" then
        dn st2 <- parse_format st1 ;; chars_loop f tok1 st2 bt lt
      else if tok_is tok1 "MATRIX" then
        dn st2 <- parse_matrix st1 bt lt ;; chars_loop f tok1 st2 bt lt
      else if tok_is tok1 "BEGIN" then RErr ParseErr
      else chars_loop f tok1 st1 bt lt
    else ROk st
  end.

Definition parse_characters_block (tok : option str) (st : nstate) : nr nstate :=
  dn st1 <- skip_to_semicolon st ;;
  (* self._data_type = "standard"; if not self._symbols: self._symbols = "0123456789" *)
  let st1' := upd_dtype st1 DStd (if is_nil (n_symbols st1) then digits10 else n_symbols st1) in
  dn st2 <- chars_loop F tok st1' None None ;;
  skip_to_semicolon st2.

(* ------------------------------------------------------------------------------------------ *)
(* TREES                                                                                       *)
Definition parse_len_unit (s : str) : option unit := if is_float s then Some tt else None.

Fixpoint translate_loop (fuel : nat) (st : nstate) (ti : nat) (m : mapper) : nr (mapper * nstate) :=
  match fuel with
  | O => RFuel
  | S f =>
    let k := uniform_prim L_translate in
    dn p <- fetch k None st ;;
    let '(ttok, st1) := p in
    if tok_is ttok ";" && negb (n_quoted st1) then RErr ParseErr
    else
      dn q <- fetch k None st1 ;;
      let '(tlabel, st2) := q in
      let ls := tns_labels st2 ti in
      dn r <- (match tlabel with
               | None =>
                 match n_ntax st2 with Some _ => RErr ParseErr | None => ROk (None, st2) end
               | Some l =>
                 match find_label l ls O with
                 | Some i => ROk (Some i, st2)
                 | None =>
                   match n_ntax st2 with
                   | Some _ => RErr ParseErr                      (* UndefinedTaxonError *)
                   | None => ROk (Some (length ls), tns_set_labels st2 ti (ls ++ [l]))
                   end
                 end
               end) ;;
      let '(taxon, st3) := r in
      let m1 := match taxon, tlabel with
                | Some i, Some l =>
                  let m0 := if Nat.ltb i (length (m_ns m)) then m else snd (mapper_new_taxon lower m l) in
                  add_translate_token lower m0 (match ttok with Some t => t | None => s_of "None" end) i
                | _, _ => m
                end in
      dn t <- fetch k None st3 ;;
      let '(tok, st4) := t in
      if negb (truthy tok) || tok_is tok ";" then ROk (m1, st4)
      else if negb (tok_is tok ",") then RErr ParseErr
      else translate_loop f st4 ti m1
  end.

Definition parse_translate (st : nstate) (ti : nat) : nr (mapper * nstate) :=
  translate_loop F st ti (new_mapper lower (tns_labels st ti) true false).

(* the characters left after fetching k tokens *)
Fixpoint drop_tokens (cfg : tok_cfg) (k : nat) (s : str) : str :=
  match k with
  | O => s
  | S j => match Tokenizer.next_token cfg s with
           | TTok _ _ _ rest => drop_tokens cfg j rest
           | _ => []
           end
  end.

(* NexusReader._parse_tree_statement: one TREE statement.  The tree is parsed by the Newick reader
   model on the token sequence of the remaining characters (tokenized in the current mode). *)
Definition parse_tree_statement_nexus (st : nstate) (ti : nat) (m : mapper) : nr (mapper * nstate) :=
  dn p <- next_token st ;;
  dn p1 <- (if tok_is (fst p) "*" then next_token (snd p) else ROk p) ;;
  dn q <- next_token (snd p1) ;;
  if negb (tok_is (fst q) "=") then RErr ParseErr
  else
    dn r <- next_token (snd q) ;;
    let st1 := snd r in
    let cfg := st_cfg st1 in
    let toks := tokenize cfg (n_rest st1) in
    let ps1 := mkPS (n_cur st1) (n_eof st1) [] (fst toks) (snd toks) 0 false [] m in
    dn res <- of_res (parse_tree_statement unit parse_len_unit lower default_ropts F ps1) ;;
    match res with
    | (None, _) => RErr ParseErr                                  (* "Expecting tree description ..." *)
    | (Some _, ps2) =>
      let m' := ps_map ps2 in
      let used := (length (fst toks) - length (ps_toks ps2))%nat in
      let rest' := if ps_eof ps2 then [] else drop_tokens cfg used (n_rest st1) in
      let st2 := upd_tok st1 rest' (ps_cur ps2) (ps_eof ps2) false in
      ROk (m', upd_trees (tns_set_labels st2 ti (m_ns m')) (n_trees st1 + 1))
    end.

Fixpoint tree_stmts_loop (fuel : nat) (st : nstate) (ti : nat) (m : mapper) : nr (option str * mapper * nstate) :=
  match fuel with
  | O => RFuel
  | S f =>
    dn r <- parse_tree_statement_nexus st ti m ;;
    let '(m1, st1) := r in
    if n_eof st1 || negb (truthy (n_cur st1)) then ROk (Some (s_of "TREE"), m1, st1)
    else
      let up := match n_cur st1 with Some s => Some (upper s) | None => None end in
      let st2 := set_cur_n st1 up in
      if negb (tok_is up "TREE") then ROk (up, m1, st2)
      else tree_stmts_loop f st2 ti m1
  end.

Fixpoint trees_loop (fuel : nat) (tok : option str) (st : nstate) (lt : option str) (tns : option nat)
         (m : option mapper) : nr nstate :=
  match fuel with
  | O => RFuel
  | S f =>
    if negb (is_end tok) && guard_extra L_trees tok st then
      dn p <- fetch (uniform_prim L_trees) tok st ;;
      let '(tok1, st1) := p in
      if tok_is tok1 "LINK" then
        dn r <- parse_link st1 ;; let '(l_taxa, _, st2) := r in trees_loop f tok1 st2 l_taxa tns m
      else if tok_is tok1 "TITLE" then
        dn r <- parse_title st1 ;; trees_loop f (Some []) (snd r) lt tns m
      else if tok_is tok1 "TRANSLATE" then
        dn a <- (match tns with Some i => ROk (i, st1) | None => get_tns st1 lt end) ;;
        let '(ti, st2) := a in
        dn r <- parse_translate st2 ti ;;
        trees_loop f (Some []) (snd r) lt (Some ti) (Some (fst r))
      else if tok_is tok1 "TREE" then
        dn a <- (match tns with Some i => ROk (i, st1) | None => get_tns st1 lt end) ;;
        let '(ti, st2) := a in
        let m0 := match m with Some x => x | None => new_mapper lower (tns_labels st2 ti) true false end in
        dn r <- tree_stmts_loop F st2 ti m0 ;;
        let '(tok2, m1, st3) := r in
        trees_loop f tok2 st3 lt (Some ti) (Some m1)
      else if tok_is tok1 "BEGIN" then RErr ParseErr
      else trees_loop f tok1 st1 lt tns m
    else ROk st
  end.

Definition parse_trees_block (tok : option str) (st : nstate) : nr nstate :=
  dn st1 <- skip_to_semicolon st ;;
  dn st2 <- trees_loop F tok st1 None None None ;;
  skip_to_semicolon st2.

(* ------------------------------------------------------------------------------------------ *)
(* SETS / ASSUMPTIONS / CODONS                                                                 *)
Fixpoint find_mats (mats : list matrix) (t : str) (i : nat) : list nat :=
  match mats with
  | [] => []
  | m :: r =>
    match m_label m with
    | None => find_mats r t (S i)
    | Some l => if seqb (upper l) (upper t) then i :: find_mats r t (S i) else find_mats r t (S i)
    end
  end.

Definition get_char_matrix (st : nstate) (title : option str) : nr (nat * matrix) :=
  match title with
  | None => match n_mats st with [m] => ROk (O, m) | _ => RErr ParseErr end
  | Some t => match find_mats (n_mats st) t O with
              | [i] => match nth_error (n_mats st) i with Some m => ROk (i, m) | None => RErr ParseErr end
              | _ => RErr ParseErr
              end
  end.

Definition pos_fetch (tok : option str) (st : nstate) : nr (option str * nstate) :=
  fetch (uniform_prim L_positions) tok st.

Fixpoint positions_loop (fuel : nat) (maxp : Z) (tok : option str) (st : nstate) (bad : bool) : nr (bool * nstate) :=
  match fuel with
  | O => RFuel
  | S f =>
    if negb (tok_is tok ";") && negb (tok_is tok ",") && guard_extra L_positions tok st then
      if negb (truthy tok) then ROk (bad, st)
      else
        let t := tok_text tok in
        if seqb (upper t) (s_of "ALL") then ROk (bad, st)
        else if all_digits t then
          let start := int_val t in
          dn p <- pos_fetch tok st ;;
          let '(tok1, st1) := p in
          if negb (truthy tok1) then ROk (bad || (start >? maxp), st1)
          else if tok_is tok1 "," || all_digits (tok_text tok1) || tok_is tok1 ";" then
            positions_loop f maxp tok1 st1 (bad || (start >? maxp))
          else if tok_is tok1 "-" then
            dn q <- pos_fetch tok1 st1 ;;
            let '(tok2, st2) := q in
            if negb (truthy tok2) then RErr ParseErr
            else if all_digits (tok_text tok2) || tok_is tok2 "." then
              dn r <- pos_fetch tok2 st2 ;;
              let '(tok3, st3) := r in
              if truthy tok3 && (tok_is tok3 "\" || tok_is tok3 "/") then
                dn u <- pos_fetch tok3 st3 ;;
                let '(tok4, st4) := u in
                if negb (truthy tok4) then RErr ParseErr
                else if negb (all_digits (tok_text tok4) && (0 <? int_val (tok_text tok4))) then RErr ParseErr
                else dn v <- pos_fetch tok4 st4 ;; positions_loop f maxp (fst v) (snd v) bad
              else positions_loop f maxp tok3 st3 bad
            else RErr ParseErr
          else RErr ParseErr
        else RErr ParseErr
    else ROk (bad, st)
  end.

Definition parse_positions (st : nstate) : nr nstate :=
  match n_nchar st with
  | None => RErr TypeErr                                          (* range(1, None + 1) / q <= None *)
  | Some maxp =>
    let st0 := upd_modes st (n_capture_eol st) true in            (* set_hyphens_as_captured_delimiters(True) *)
    dn p <- next_token st0 ;;
    let '(tok, st1) := p in
    if n_eof st1 || negb (truthy tok) then RErr ParseErr
    else
      dn r <- positions_loop F maxp tok st1 false ;;
      let '(bad, st2) := r in
      if bad then RErr ParseErr else ROk (upd_modes st2 (n_capture_eol st2) false)
  end.

Definition parse_charset (st : nstate) (lt : option str) : nr nstate :=
  dn mm <- get_char_matrix st lt ;;
  let '(mi, m) := mm in
  dn p <- next_token st ;;
  let '(tok, st1) := p in
  if n_eof st1 || negb (truthy tok) then RErr ParseErr
  else
    dn q <- next_token st1 ;;
    let '(tok2, st2) := q in
    if negb (truthy tok2) then RErr ParseErr
    else if negb (tok_is tok2 "=") then RErr ParseErr
    else
      dn st3 <- parse_positions st2 ;;
      let name := tok_text tok in
      if existsb (seqb name) (m_sets m) then RErr ParseErr        (* "Character set .. already defined" *)
      else ROk (upd_mats st3 (set_nth (n_mats st3) mi (mkMat (m_label m) (m_tns m) (m_rows m) (name :: m_sets m)))).

Fixpoint sets_loop (fuel : nat) (tok : option str) (st : nstate) (lt : option str) : nr nstate :=
  match fuel with
  | O => RFuel
  | S f =>
    if negb (is_end tok) && guard_extra L_sets tok st then
      dn p <- fetch (nth_prim L_sets 0) tok st ;;
      let '(tok1, st1) := p in
      if tok_is tok1 "TITLE" then
        dn r <- parse_title st1 ;; sets_loop f tok1 (snd r) lt
      else if tok_is tok1 "LINK" then
        dn r <- parse_link st1 ;; let '(_, l_chars, st2) := r in sets_loop f tok1 st2 l_chars
      else if tok_is tok1 "CHARSET" then
        dn st2 <- parse_charset st1 lt ;; sets_loop f tok1 st2 lt
      else if tok_is tok1 "BEGIN" then RErr ParseErr
      else sets_loop f tok1 st1 lt
    else ROk st
  end.

Definition parse_sets_block (tok : option str) (st : nstate) : nr nstate :=
  dn st1 <- skip_to_semicolon st ;;
  dn st2 <- sets_loop F tok st1 None ;;
  skip_to_semicolon st2.

(* ------------------------------------------------------------------------------------------ *)
(* _parse_nexus_stream                                                                         *)
Fixpoint scan_begin_loop (fuel : nat) (tok : option str) (st : nstate) : nr (option str * nstate) :=
  match fuel with
  | O => RFuel
  | S f =>
    if negb (tok_is tok "BEGIN") && guard_extra L_scan_begin tok st then
      dn p <- fetch (uniform_prim L_scan_begin) tok st ;; scan_begin_loop f (fst p) (snd p)
    else ROk (tok, st)
  end.

Fixpoint outer_loop (fuel : nat) (st : nstate) : nr nstate :=
  match fuel with
  | O => RFuel
  | S f =>
    if guard_extra L_outer (Some []) st then
      dn p <- ucase (next_token st) ;;
      dn q <- scan_begin_loop F (fst p) (snd p) ;;
      dn r <- ucase (next_token (snd q)) ;;
      let '(tok, st1) := r in
      dn st2 <-
        (if tok_is tok "TAXA" then parse_taxa_block st1
         else if tok_is tok "CHARACTERS" || tok_is tok "DATA" then parse_characters_block tok st1
         else if tok_is tok "TREES" then parse_trees_block tok st1
         else if tok_is tok "SETS" || tok_is tok "ASSUMPTIONS" || tok_is tok "CODONS" then parse_sets_block tok st1
         else if tok_is tok "BEGIN" then RErr ParseErr
         else dn c <- consume_to_end_of_block tok st1 ;; ROk (snd c)) ;;
      outer_loop f st2
    else ROk st
  end.

Definition init_nstate (text : str) : nstate :=
  mkN text None false false false false None None [] [] 0 DStd [] [45] [63] [[46]] false.

Definition parse_nexus_stream (text : str) : nr nstate :=
  dn p <- require_next_token (init_nstate text) ;;
  if negb (seqb (upper (tok_text (fst p))) (s_of "#NEXUS")) then RErr ParseErr   (* NotNexusFileError *)
  else outer_loop F (snd p).

End Nexus.

Definition nexus_fuel (text : str) : nat := 2 * length text + 16.

Definition nexus_read (fx : nfix) (upper lower : str -> str) (dval : Z -> option Z) (sym_ok : Z -> Z -> bool)
           (is_float : str -> bool) (text : str) : nr nstate :=
  parse_nexus_stream fx upper lower dval sym_ok is_float (nexus_fuel text) text.

Definition ascii_upper (s : str) : str :=
  map (fun c => if (97 <=? c) && (c <=? 122) then c - 32 else c) s.

