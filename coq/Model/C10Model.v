(* C10: executable model of dendropy.datamodel.taxonmodel.TaxonNamespace
   (hand-written transcription of taxonmodel.py; tied to the source by the
   correspondence check py/dv/c10.py; bit functions come from Gen/BitFns.v).

   Taxa are object identities (tid : Z, allocated in creation order); labels are
   ids (lbl : Z) into the harness's label pool, numbered in Python string order so
   that Z order on ids = str order (used by sort); `lower` is Python str.lower on
   the pool and is a parameter: no property of it is assumed. *)
From Coq Require Import ZArith List Bool.
From DV Require Import Model.PyPrims.
Import ListNotations.
Open Scope Z_scope.

Definition tid := Z.
Definition lbl := Z.

(* association lists: lookup finds the first binding, remove deletes all *)
Fixpoint alookup {V} (k : Z) (l : list (Z * V)) : option V :=
  match l with
  | [] => None
  | (k', v) :: r => if Z.eqb k k' then Some v else alookup k r
  end.

Fixpoint aremove {V} (k : Z) (l : list (Z * V)) : list (Z * V) :=
  match l with
  | [] => []
  | (k', v) :: r => if Z.eqb k k' then aremove k r else (k', v) :: aremove k r
  end.

Definition aset {V} (k : Z) (v : V) (l : list (Z * V)) : list (Z * V) := (k, v) :: aremove k l.

Definition memb (t : Z) (l : list Z) : bool := existsb (Z.eqb t) l.

Fixpoint remove_all (t : Z) (l : list Z) : list Z :=
  match l with
  | [] => []
  | x :: r => if Z.eqb t x then remove_all t r else x :: remove_all t r
  end.

Record ns := mkNs {
  taxa : list tid;              (* _taxa *)
  acc : list (tid * Z);         (* _taxon_accession_index_map *)
  rev : list (Z * tid);         (* _accession_index_taxon_map *)
  count : Z;                    (* _current_accession_count *)
  bm : list (tid * Z);          (* _taxon_bitmask_map (memo) *)
  is_mut : bool;
  is_cs : bool
}.

Record world := mkW {
  w_ns : ns;
  w_lab : list (tid * lbl);     (* Taxon.label of every Taxon object that exists *)
  w_next : tid                  (* next object identity *)
}.

Definition ns_empty : ns := mkNs [] [] [] 0 [] true false.

Inductive op :=
| AddTaxon (t : tid)
| AddTaxa (ts : list tid)       (* add_taxa(iterable of Taxon objects): the SAME object may occur repeatedly *)
| NewTaxon (l : lbl)
| NewTaxa (ls : list lbl)
| RequireTaxon (l : lbl) (cs : option bool)
| RemoveTaxon (t : tid)
| RemoveLabel (l : lbl) (cs : option bool) (first : bool)
| DiscardLabel (l : lbl) (cs : option bool) (first : bool)
| Clear
| Sort (reverse : bool)
| Reverse
| Relabel (t : tid) (l : lbl)
| GetTaxon (l : lbl) (cs : option bool)
| FindAll (l : lbl) (cs : option bool)
| HasLabel (l : lbl) (cs : option bool)
| HasLabels (ls : list lbl) (cs : option bool)
| GetTaxa (ls : list lbl) (cs : option bool) (first : bool)
| TaxonBitmask (t : tid)
| TaxaBitmask (ts : list tid)
| AllBitmask
| BitmaskTaxa (m : Z)
| AccIndex (t : tid)
| NewickGroups (m : Z)
| SetMutable (b : bool)
| SetCS (b : bool)
| CopyConstruct
| DeepCopy.

Inductive out :=
| OUnit
| OTax (t : option tid)
| OTaxa (l : list tid)
| OBool (b : bool)
| OInt (z : Z)
| OErr (e : err)
| OGroups (l r : list lbl)
| OGroup1 (l : list lbl).

Section WithLower.
Variable lower : lbl -> lbl.

Definition label_of (w : world) (t : tid) : lbl :=
  match alookup t (w_lab w) with Some l => l | None => -1 end.

(* _lookup_label: list of matching members in membership order *)
Definition use_cs (n : ns) (cs : option bool) : bool :=
  match cs with Some b => b | None => is_cs n end.

Definition matches (w : world) (cs : bool) (l : lbl) (t : tid) : bool :=
  if cs then Z.eqb l (label_of w t) else Z.eqb (lower l) (lower (label_of w t)).

Definition lookup_all (w : world) (l : lbl) (cs : option bool) : list tid :=
  filter (matches w (use_cs (w_ns w) cs) l) (taxa (w_ns w)).

Definition lookup_first (w : world) (l : lbl) (cs : option bool) : option tid :=
  match lookup_all w l cs with [] => None | t :: _ => Some t end.

Definition set_ns (w : world) (n : ns) : world := mkW n (w_lab w) (w_next w).

(* add_taxon *)
Definition add_taxon (n : ns) (t : tid) : res ns :=
  match alookup t (acc n) with
  | Some _ => Ok n
  | None =>
    if negb (is_mut n) then Err TypeErr
    else Ok (mkNs (taxa n ++ [t]) (aset t (count n) (acc n)) (aset (count n) t (rev n))
                  (count n + 1) (bm n) (is_mut n) (is_cs n))
  end.

(* add_taxa:  for t in taxa: self.add_taxon(t)
   membership is re-examined for every element, so an object that occurs twice in one batch is
   accessioned by its first occurrence and skipped by the later ones.  An exception can only be
   raised by the first element that is not a member, and only in an immutable namespace, i.e.
   before anything was changed (Proofs/C10Inv.v add_taxa_err_unchanged): `Err` = untouched state *)
Fixpoint add_taxa (n : ns) (ts : list tid) : res ns :=
  match ts with
  | [] => Ok n
  | t :: r => match add_taxon n t with Ok n' => add_taxa n' r | e => e end
  end.

(* new_taxon: returns the new world and the new taxon *)
Definition new_taxon (w : world) (l : lbl) : res (world * tid) :=
  if negb (is_mut (w_ns w)) then Err TypeErr
  else
    let t := w_next w in
    match add_taxon (w_ns w) t with
    | Ok n => Ok (mkW n ((t, l) :: w_lab w) (t + 1), t)
    | Err e => Err e
    | OutOfFuel => OutOfFuel
    end.

Fixpoint new_taxa (w : world) (ls : list lbl) (acc_ts : list tid) : res (world * list tid) :=
  match ls with
  | [] => Ok (w, acc_ts)
  | l :: r =>
    match new_taxon w l with
    | Ok (w', t) => new_taxa w' r (acc_ts ++ [t])
    | Err e => Err e
    | OutOfFuel => OutOfFuel
    end
  end.

(* remove_taxon *)
Definition remove_taxon (n : ns) (t : tid) : res ns :=
  if negb (memb t (taxa n)) then Err ValueErr
  else
    let rev' := match alookup t (acc n) with Some i => aremove i (rev n) | None => rev n end in
    Ok (mkNs (remove_all t (taxa n)) (aremove t (acc n)) rev' (count n) (aremove t (bm n))
             (is_mut n) (is_cs n)).

Fixpoint remove_each (n : ns) (ts : list tid) : res ns :=
  match ts with
  | [] => Ok n
  | t :: r => match remove_taxon n t with Ok n' => remove_each n' r | e => e end
  end.

(* stable insertion sort by label id (= Python str order on the pool) *)
Fixpoint ins_sorted (w : world) (t : tid) (l : list tid) : list tid :=
  match l with
  | [] => [t]
  | x :: r => if Z.leb (label_of w t) (label_of w x) then t :: x :: r else x :: ins_sorted w t r
  end.

(* insert each element of l, from the last to the first, at the front-most admissible
   place: equal keys keep their order (stable) *)
Definition sort_by_label (w : world) (l : list tid) : list tid :=
  fold_right (ins_sorted w) [] l.

Definition py_sort (w : world) (reverse : bool) (l : list tid) : list tid :=
  if reverse then List.rev (sort_by_label w (List.rev l)) else sort_by_label w l.

(* taxon_bitmask with memo *)
Definition taxon_bitmask (n : ns) (t : tid) : res (ns * Z) :=
  match alookup t (bm n) with
  | Some m => Ok (n, m)
  | None =>
    match alookup t (acc n) with
    | None => Err KeyErr
    | Some i =>
      let m := Z.shiftl 1 i in
      Ok (mkNs (taxa n) (acc n) (rev n) (count n) (aset t m (bm n)) (is_mut n) (is_cs n), m)
    end
  end.

Fixpoint taxa_bitmask (n : ns) (ts : list tid) (b : Z) : res (ns * Z) :=
  match ts with
  | [] => Ok (n, b)
  | t :: r =>
    match taxon_bitmask n t with
    | Ok (n', m) => taxa_bitmask n' r (Z.lor b m)
    | Err e => Err e
    | OutOfFuel => OutOfFuel
    end
  end.

Definition all_taxa_bitmask (n : ns) : Z := Z.shiftl 1 (count n) - 1.

(* bitmask_taxa_list (index=0), for bitmask >= 0:  while bitmask: ... >>= 1 *)
Fixpoint bitmask_taxa_list (n : ns) (fuel : nat) (m : Z) (index : Z) (got : list tid) : res (list tid) :=
  match fuel with
  | O => OutOfFuel
  | S f =>
    if Z.eqb m 0 then Ok got
    else if Z.testbit m 0 then
      match alookup index (rev n) with
      | None => Err KeyErr
      | Some t => bitmask_taxa_list n f (Z.shiftr m 1) (index + 1) (got ++ [t])
      end
    else bitmask_taxa_list n f (Z.shiftr m 1) (index + 1) got
  end.

Definition bits_fuel (m : Z) : nat := S (S (Z.to_nat (Z.log2 m))).

(* nexusprocessing.bitmask_as_newick_string: which labels go left / right *)
Fixpoint newick_groups (w : world) (n : ns) (m : Z) (ts : list tid) (l r : list lbl)
  : res (ns * (list lbl * list lbl)) :=
  match ts with
  | [] => Ok (n, (l, r))
  | t :: rest =>
    match taxon_bitmask n t with
    | Ok (n', b) =>
      if negb (Z.eqb (Z.land m b) 0) then newick_groups w n' m rest (l ++ [label_of w t]) r
      else newick_groups w n' m rest l (r ++ [label_of w t])
    | Err e => Err e
    | OutOfFuel => OutOfFuel
    end
  end.

Fixpoint get_taxa (w : world) (ls : list lbl) (cs : option bool) (first : bool) (got : list tid) : list tid :=
  match ls with
  | [] => got
  | l :: r =>
    if first then
      match lookup_first w l cs with
      | None => get_taxa w r cs first got
      | Some t => get_taxa w r cs first (got ++ [t])
      end
    else
      get_taxa w r cs first
        (fold_left (fun g t => if memb t g then g else g ++ [t]) (lookup_all w l cs) got)
  end.

(* deep copy: every member gets a fresh identity, in membership order *)
Fixpoint fresh_map (ts : list tid) (next : tid) : list (tid * tid) :=
  match ts with
  | [] => []
  | t :: r => (t, next) :: fresh_map r (next + 1)
  end.

Definition ren (m : list (tid * tid)) (t : tid) : tid :=
  match alookup t m with Some t' => t' | None => t end.

Definition deep_copy (w : world) : world :=
  let n := w_ns w in
  let m := fresh_map (taxa n) (w_next w) in
  let n' := mkNs (map (ren m) (taxa n))
                 (map (fun p => (ren m (fst p), snd p)) (acc n))
                 (map (fun p => (fst p, ren m (snd p))) (rev n))
                 (count n)
                 (map (fun p => (ren m (fst p), snd p)) (bm n))
                 (is_mut n) (is_cs n) in
  mkW n' (map (fun p => (snd p, label_of w (fst p))) m ++ w_lab w)
      (w_next w + Z.of_nat (length (taxa n))).

Definition lift_ns (w : world) (r : res ns) (o : out) : world * out :=
  match r with
  | Ok n => (set_ns w n, o)
  | Err e => (w, OErr e)
  | OutOfFuel => (w, OErr Hang)
  end.

Definition step (w : world) (o : op) : world * out :=
  let n := w_ns w in
  match o with
  | AddTaxon t => lift_ns w (add_taxon n t) OUnit
  | AddTaxa ts => lift_ns w (add_taxa n ts) OUnit
  | NewTaxon l =>
    match new_taxon w l with
    | Ok (w', t) => (w', OTax (Some t))
    | Err e => (w, OErr e)
    | OutOfFuel => (w, OErr Hang)
    end
  | NewTaxa ls =>
    if negb (is_mut n) then (w, OErr TypeErr)
    else match new_taxa w ls [] with
         | Ok (w', ts) => (w', OTaxa ts)
         | Err e => (w, OErr e)
         | OutOfFuel => (w, OErr Hang)
         end
  | RequireTaxon l cs =>
    match lookup_first w l cs with
    | Some t => (w, OTax (Some t))
    | None =>
      if negb (is_mut n) then (w, OErr TypeErr)
      else match new_taxon w l with
           | Ok (w', t) => (w', OTax (Some t))
           | Err e => (w, OErr e)
           | OutOfFuel => (w, OErr Hang)
           end
    end
  | RemoveTaxon t => lift_ns w (remove_taxon n t) OUnit
  | RemoveLabel l cs first =>
    match lookup_all w l cs with
    | [] => (w, OErr LookupErr)
    | t :: r => lift_ns w (remove_each n (if first then [t] else t :: r)) OUnit
    end
  | DiscardLabel l cs first =>
    match lookup_all w l cs with
    | [] => (w, OUnit)
    | t :: r => lift_ns w (remove_each n (if first then [t] else t :: r)) OUnit
    end
  | Clear => (set_ns w (mkNs [] [] [] (count n) [] (is_mut n) (is_cs n)), OUnit)
  | Sort reverse =>
    (set_ns w (mkNs (py_sort w reverse (taxa n)) (acc n) (rev n) (count n) (bm n) (is_mut n) (is_cs n)), OUnit)
  | Reverse =>
    (set_ns w (mkNs (List.rev (taxa n)) (acc n) (rev n) (count n) (bm n) (is_mut n) (is_cs n)), OUnit)
  | Relabel t l => (mkW n (aset t l (w_lab w)) (w_next w), OUnit)
  | GetTaxon l cs => (w, OTax (lookup_first w l cs))
  | FindAll l cs => (w, OTaxa (lookup_all w l cs))
  | HasLabel l cs => (w, OBool (match lookup_first w l cs with Some _ => true | None => false end))
  | HasLabels ls cs =>
    (w, OBool (forallb (fun l => match lookup_all w l cs with [] => false | _ => true end) ls))
  | GetTaxa ls cs first => (w, OTaxa (get_taxa w ls cs first []))
  | TaxonBitmask t =>
    match taxon_bitmask n t with
    | Ok (n', m) => (set_ns w n', OInt m)
    | Err e => (w, OErr e)
    | OutOfFuel => (w, OErr Hang)
    end
  | TaxaBitmask ts =>
    match taxa_bitmask n ts 0 with
    | Ok (n', m) => (set_ns w n', OInt m)
    | Err e => (w, OErr e)   (* note: memo entries made before the KeyError are dropped here; they are unobservable *)
    | OutOfFuel => (w, OErr Hang)
    end
  | AllBitmask => (w, OInt (all_taxa_bitmask n))
  | BitmaskTaxa m =>
    match bitmask_taxa_list n (bits_fuel m) m 0 [] with
    | Ok ts => (w, OTaxa ts)
    | Err e => (w, OErr e)
    | OutOfFuel => (w, OErr Hang)
    end
  | AccIndex t =>
    match alookup t (acc n) with
    | Some i => (w, OInt i)
    | None => (w, OErr KeyErr)
    end
  | NewickGroups m =>
    if orb (Z.eqb m 0) (Z.eqb m (all_taxa_bitmask n)) then (w, OGroup1 (map (label_of w) (taxa n)))
    else match newick_groups w n m (taxa n) [] [] with
         | Ok (n', (l, r)) => (set_ns w n', OGroups l r)
         | Err e => (w, OErr e)
         | OutOfFuel => (w, OErr Hang)
         end
  | SetMutable b => (set_ns w (mkNs (taxa n) (acc n) (rev n) (count n) (bm n) b (is_cs n)), OUnit)
  | SetCS b => (set_ns w (mkNs (taxa n) (acc n) (rev n) (count n) (bm n) (is_mut n) b), OUnit)
  | CopyConstruct => (w, OUnit)   (* TaxonNamespace(other): same taxa objects, maps deep-copied under an identity memo *)
  | DeepCopy => (deep_copy w, OUnit)
  end.

(* what the harness observes after every step: members in order with their accession index *)
Definition observe (w : world) : list (tid * Z) :=
  map (fun t => (t, match alookup t (acc (w_ns w)) with Some i => i | None => -1 end)) (taxa (w_ns w)).

Fixpoint run (w : world) (ops : list op) : list (out * list (tid * Z)) :=
  match ops with
  | [] => []
  | o :: r => let '(w', x) := step w o in (x, observe w') :: run w' r
  end.

Definition run_world (w : world) (ops : list op) : world :=
  fold_left (fun w o => fst (step w o)) ops w.

End WithLower.

(* ---- comparison against the implementation's observation (used by cases.v) ---- *)
Definition zz_eqb (a b : Z * Z) : bool := Z.eqb (fst a) (fst b) && Z.eqb (snd a) (snd b).

Definition out_eqb (a b : out) : bool :=
  match a, b with
  | OUnit, OUnit => true
  | OTax x, OTax y => option_eqb Z.eqb x y
  | OTaxa x, OTaxa y => list_eqb Z.eqb x y
  | OBool x, OBool y => Bool.eqb x y
  | OInt x, OInt y => Z.eqb x y
  | OErr x, OErr y => err_eqb x y
  | OGroups a1 a2, OGroups b1 b2 => list_eqb Z.eqb a1 b1 && list_eqb Z.eqb a2 b2
  | OGroup1 x, OGroup1 y => list_eqb Z.eqb x y
  | _, _ => false
  end.

Definition step_eqb (a b : out * list (Z * Z)) : bool :=
  out_eqb (fst a) (fst b) && list_eqb zz_eqb (snd a) (snd b).

Record case := mkCase {
  c_lower : list (lbl * lbl);
  c_free : list (tid * lbl);        (* Taxon objects created outside the namespace *)
  c_cs : bool;
  c_ops : list op;
  c_expected : list (out * list (tid * Z))
}.

Definition tbl_lower (t : list (lbl * lbl)) (l : lbl) : lbl :=
  match alookup l t with Some x => x | None => l end.

Definition case_world (c : case) : world :=
  mkW (mkNs [] [] [] 0 [] true (c_cs c)) (c_free c) (Z.of_nat (length (c_free c))).

Definition case_run (c : case) := run (tbl_lower (c_lower c)) (case_world c) (c_ops c).

Definition case_ok (c : case) : bool := list_eqb step_eqb (case_run c) (c_expected c).
