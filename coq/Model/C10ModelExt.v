(* C10, second wave: further read-only / rendering operations of TaxonNamespace on top of
   Model/C10Model.v (same `world`, same `step` for the operations modelled there).

   Hand-written: bitprocessing.int_as_bitstring works on Python strings (bin, rjust), which
   is outside py2coq's integer subset; a bit string is modelled as `list bool`, most
   significant digit first ('1' = true).  The split normalisation of taxa_bipartition uses the
   TRANSLATED Gen/BitFns.v (py_normalize_bitmask, py_least_significant_set_bit). *)
From Coq Require Import ZArith List Bool.
From DV Require Import Model.PyPrims Model.C10Model Gen.BitFns.
Import ListNotations.
Open Scope Z_scope.

(* bin(n)[2:] for n >= 0 *)
Fixpoint pos_bits (p : positive) : list bool :=
  match p with
  | xH => [true]
  | xO q => pos_bits q ++ [false]
  | xI q => pos_bits q ++ [true]
  end.

Definition bin_digits (n : Z) : list bool :=
  match n with
  | Z0 => [false]
  | Zpos p => pos_bits p
  | Zneg _ => []          (* bin(-5)[2:] = 'b101': not a bit string; negative masks are not modelled *)
  end.

(* str.rjust(length, "0"): pads on the left, never truncates *)
Definition rjust0 (len : Z) (l : list bool) : list bool :=
  repeat false (Z.to_nat (len - Z.of_nat (length l))) ++ l.

(* bitprocessing.int_as_bitstring(n, length) with the default symbols, reverse=False *)
Definition int_as_bitstring (n : Z) (len : Z) : list bool := rjust0 len (bin_digits n).

(* TaxonNamespace.bitmask_as_bitstring / split_as_string *)
Definition bitmask_as_bitstring (n : ns) (b : Z) : list bool := int_as_bitstring b (count n).

(* dict / CaseInsensitiveDict insertion `d[k] = v`, keys compared through kf:
   an existing entry keeps its position and gets the new (cased) key and value;
   a new key goes last *)
Fixpoint dict_set (kf : lbl -> lbl) (k : lbl) (v : tid) (d : list (lbl * tid)) : list (lbl * tid) :=
  match d with
  | [] => [(k, v)]
  | (k', v') :: r => if Z.eqb (kf k) (kf k') then (k, v) :: r else (k', v') :: dict_set kf k v r
  end.

Definition dict_get (kf : lbl -> lbl) (k : lbl) (d : list (lbl * tid)) : option tid :=
  match find (fun e => Z.eqb (kf k) (kf (fst e))) d with Some e => Some (snd e) | None => None end.

Inductive xop :=
| XBase (o : op)
| XBitString (m : Z)                                   (* bitmask_as_bitstring / split_as_string *)
| XLabelMap (cs : option bool)                         (* list(label_taxon_map(cs).items()) *)
| XBipartition (ts : list tid) (rooted : option bool)  (* taxa_bipartition(taxa=..., [is_rooted=]) *)
| XBipartitionLabels (ls : list lbl) (rooted : option bool)
| XTaxaBitmaskLabels (ls : list lbl) (cs : option bool) (first : bool)  (* taxa_bitmask(labels=...) *)
| XGetItem (i : Z)                                     (* ns[i] *)
| XGetSlice (a b : option Z)                           (* ns[a:b] *)
| XGetItemLabel (l : lbl)                              (* ns["label"] *)
| XContains (t : tid)                                  (* t in ns *)
| XLabels.                                             (* ns.labels() *)

Inductive xout :=
| YBase (o : out)
| YBits (l : list bool)
| YMap (l : list (lbl * tid))
| YBip (split leafset tree_leafset : Z).

Section WithLower.
Variable lower : lbl -> lbl.

Definition key_fn (cs : bool) (l : lbl) : lbl := if cs then l else lower l.

Definition label_taxon_map (w : world) (cs : option bool) : list (lbl * tid) :=
  fold_left (fun d t => dict_set (key_fn (use_cs (w_ns w) cs)) (label_of w t) t d) (taxa (w_ns w)) [].

(* Bipartition(bitmask=b, tree_leafset_bitmask=all_taxa_bitmask, compile_bipartition=True, is_rooted=...) *)
Definition bipartition_of (n : ns) (b : Z) (rooted : option bool) : res (Z * Z * Z) :=
  let T := all_taxa_bitmask n in
  let is_rooted := match rooted with Some true => true | _ => false end in
  if Z.eqb T 0 then
    (* falsy tree_leafset_bitmask: nothing compiled, lowest_relevant_bit stays None *)
    if is_rooted then Ok (b, b, T) else Err TypeErr
  else
    let lrb := py_least_significant_set_bit T in
    let leaf := if Z.eqb b 0 then b else Z.land b T in
    let split := if is_rooted then leaf else py_normalize_bitmask leaf T lrb in
    Ok (split, leaf, T).

(* Python list indexing / slicing (step 1) *)
Definition py_index (l : list tid) (i : Z) : option tid :=
  let len := Z.of_nat (length l) in
  if (Z.leb (- len) i) && (Z.ltb i len) then nth_error l (Z.to_nat (if Z.ltb i 0 then i + len else i))
  else None.

Definition slice_bound (len : Z) (dflt : Z) (x : option Z) : Z :=
  match x with
  | None => dflt
  | Some v => if Z.ltb v 0 then Z.max 0 (v + len) else Z.min v len
  end.

Definition py_slice (l : list tid) (a b : option Z) : list tid :=
  let len := Z.of_nat (length l) in
  let start := slice_bound len 0 a in
  let stop := slice_bound len len b in
  firstn (Z.to_nat (stop - start)) (skipn (Z.to_nat start) l).

Definition xstep (w : world) (o : xop) : world * xout :=
  let n := w_ns w in
  match o with
  | XBase o => let '(w', x) := step lower w o in (w', YBase x)
  | XBitString m =>
    if Z.ltb m 0 then (w, YBase (OErr OtherErr))     (* not modelled *)
    else (w, YBits (bitmask_as_bitstring n m))
  | XLabelMap cs => (w, YMap (label_taxon_map w cs))
  | XBipartition ts rooted =>
    match taxa_bitmask n ts 0 with
    | Ok (n', b) =>
      match bipartition_of n' b rooted with
      | Ok (s, l, t) => (set_ns w n', YBip s l t)
      | Err e => (set_ns w n', YBase (OErr e))
      | OutOfFuel => (w, YBase (OErr Hang))
      end
    | Err e => (w, YBase (OErr e))
    | OutOfFuel => (w, YBase (OErr Hang))
    end
  | XBipartitionLabels ls rooted =>
    match rooted with
    | Some _ => (w, YBase (OErr TypeErr))   (* the is_rooted keyword leaks into the get_taxa call *)
    | None =>
      match taxa_bitmask n (get_taxa lower w ls None false []) 0 with
      | Ok (n', b) =>
        match bipartition_of n' b None with
        | Ok (s, l, t) => (set_ns w n', YBip s l t)
        | Err e => (set_ns w n', YBase (OErr e))
        | OutOfFuel => (w, YBase (OErr Hang))
        end
      | Err e => (w, YBase (OErr e))
      | OutOfFuel => (w, YBase (OErr Hang))
      end
    end
  | XTaxaBitmaskLabels ls cs first =>
    match taxa_bitmask n (get_taxa lower w ls cs first []) 0 with
    | Ok (n', b) => (set_ns w n', YBase (OInt b))
    | Err e => (w, YBase (OErr e))
    | OutOfFuel => (w, YBase (OErr Hang))
    end
  | XGetItem i =>
    match py_index (taxa n) i with
    | Some t => (w, YBase (OTax (Some t)))
    | None => (w, YBase (OErr IndexErr))
    end
  | XGetSlice a b => (w, YBase (OTaxa (py_slice (taxa n) a b)))
  | XGetItemLabel _ => (w, YBase (OErr ValueErr))
  | XContains t => (w, YBase (OBool (match alookup t (acc n) with Some _ => true | None => false end)))
  | XLabels => (w, YBase (OGroup1 (map (label_of w) (taxa n))))
  end.

Fixpoint xrun (w : world) (ops : list xop) : list (xout * list (tid * Z)) :=
  match ops with
  | [] => []
  | o :: r => let '(w', x) := xstep w o in (x, observe w') :: xrun w' r
  end.

Definition xrun_world (w : world) (ops : list xop) : world :=
  fold_left (fun w o => fst (xstep w o)) ops w.

End WithLower.

Definition xout_eqb (a b : xout) : bool :=
  match a, b with
  | YBase x, YBase y => out_eqb x y
  | YBits x, YBits y => list_eqb Bool.eqb x y
  | YMap x, YMap y => list_eqb zz_eqb x y
  | YBip a1 a2 a3, YBip b1 b2 b3 => Z.eqb a1 b1 && Z.eqb a2 b2 && Z.eqb a3 b3
  | _, _ => false
  end.

Definition xstep_eqb (a b : xout * list (Z * Z)) : bool :=
  xout_eqb (fst a) (fst b) && list_eqb zz_eqb (snd a) (snd b).

Record xcase := mkXCase {
  xc_lower : list (lbl * lbl);
  xc_free : list (tid * lbl);
  xc_cs : bool;
  xc_ops : list xop;
  xc_expected : list (xout * list (tid * Z))
}.

Definition xcase_world (c : xcase) : world :=
  mkW (mkNs [] [] [] 0 [] true (xc_cs c)) (xc_free c) (Z.of_nat (length (xc_free c))).

Definition xcase_run (c : xcase) := xrun (tbl_lower (xc_lower c)) (xcase_world c) (xc_ops c).

Definition xcase_ok (c : xcase) : bool := list_eqb xstep_eqb (xcase_run c) (xc_expected c).

(* ---- direct tie of the two string-based helpers of utility/bitprocessing.py ---- *)

(* bit_length(n) = len(bin(n).lstrip('-0b')) *)
Definition bit_length (n : Z) : Z :=
  match n with
  | Z0 => 0
  | Zpos p | Zneg p => Z.of_nat (length (pos_bits p))
  end.

Record bcase := mkBCase {
  b_n : Z;                 (* >= 0 for the bit string *)
  b_len : option Z;        (* the length argument (None: bit_length(n)) *)
  b_bits : list bool;      (* int_as_bitstring(n, length) observed *)
  b_neg_blen : Z;          (* bit_length(-n) observed *)
  b_blen : Z               (* bit_length(n) observed *)
}.

Definition bcase_ok (c : bcase) : bool :=
  list_eqb Bool.eqb
    (int_as_bitstring (b_n c) (match b_len c with Some l => l | None => bit_length (b_n c) end))
    (b_bits c)
  && Z.eqb (bit_length (b_n c)) (b_blen c)
  && Z.eqb (bit_length (- b_n c)) (b_neg_blen c).

Definition bcase_run (c : bcase) :=
  (int_as_bitstring (b_n c) (match b_len c with Some l => l | None => bit_length (b_n c) end),
   bit_length (b_n c), bit_length (- b_n c)).
