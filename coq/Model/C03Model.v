(* C03: case record and comparison function of the correspondence check.
   The executable model itself is shared: Model/Heap.v (heap + Node/Edge methods) and
   Model/HeapOps.v (Tree methods, `op`, `run_op`).  Definitions only. *)
From Coq Require Import ZArith List Bool.
From DV Require Import Model.PyPrims Model.Tree Model.Heap Model.HeapOps.
Import ListNotations.
Open Scope Z_scope.

(* option Z -> Z, injective: None -> 0, Some v -> 2v+1 *)
Definition oenc (o : option Z) : Z := match o with None => 0 | Some v => 2 * v + 1 end.

(* flat preorder encoding of a tree: id, number of children, length, taxon, label *)
Fixpoint enc_tree (t : tree) : list Z :=
  match t with
  | T i x l e ks => i :: len ks :: oenc e :: oenc x :: oenc l :: flat_map enc_tree ks
  end.

Definition obool_eqb (a b : option bool) : bool :=
  match a, b with
  | None, None => true
  | Some x, Some y => Bool.eqb x y
  | _, _ => false
  end.

(* what the harness saw after one operation on the real library *)
Record step := mkStep {
  s_op : op;
  s_err : option err;          (* exception class, None when the call returned *)
  s_tree : list Z;             (* enc_tree of the pointer dump from the seed node *)
  s_rooted : option bool       (* Tree._is_rooted *)
}.

Record case := mkCase {
  c_init : tree;
  c_rooted : option bool;
  c_steps : list step
}.

Definition observe_model (r : hres) : option (option err * heap) :=
  match r with
  | HOk h => Some (None, h)
  | HErr e h => Some (Some e, h)
  | HFuel => None
  end.

Definition step_ok (s : step) (e : option err) (h : heap) : bool :=
  option_eqb err_eqb e (s_err s)
  && match abs h with
     | Some t => list_eqb Z.eqb (enc_tree t) (s_tree s)
     | None => false
     end
  && obool_eqb (rooted h) (s_rooted s).

Fixpoint check_steps (l : list step) (h : heap) : bool :=
  match l with
  | [] => true
  | s :: r =>
    match observe_model (run_op (s_op s) h) with
    | Some (e, h') => step_ok s e h' && check_steps r h'
    | None => false
    end
  end.

Definition case_ok (c : case) : bool :=
  check_steps (c_steps c) (of_tree (c_init c) (c_rooted c)).

(* diagnostics: what the model computes after each step *)
Fixpoint run_steps (l : list step) (h : heap) : list (option (option err) * list Z * option bool) :=
  match l with
  | [] => []
  | s :: r =>
    match observe_model (run_op (s_op s) h) with
    | Some (e, h') =>
      (Some e, match abs h' with Some t => enc_tree t | None => [] end, rooted h') :: run_steps r h'
    | None => [(None, [], None)]
    end
  end.

Definition case_run (c : case) := run_steps (c_steps c) (of_tree (c_init c) (c_rooted c)).
