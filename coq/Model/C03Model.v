(* C03: case record and comparison function of the correspondence check.
   The executable model itself is shared: Model/Heap.v (heap + Node/Edge methods) and
   Model/HeapOps.v (Tree methods, `op`, `run_op`).  Definitions only. *)
From Coq Require Import ZArith List Bool.
From DV Require Import Model.PyPrims Model.Tree Model.Heap Model.HeapOps Model.C03Spec Model.C03Bip Model.C03BipObj.
Import ListNotations.
Open Scope Z_scope.

(* option Z -> Z, injective: None -> 0, Some v -> 2v+1 *)
Definition oenc (o : option Z) : Z := match o with None => 0 | Some v => 2 * v + 1 end.

(* flat preorder encoding of a tree: id, number of children, length, taxon, label *)
Fixpoint enc_tree (t : tree) : list Z :=
  match t with
  | T i x l e ks => i :: len ks :: oenc e :: oenc x :: oenc l :: flat_map enc_tree ks
  end.

Definition obool_eqb (a b : option bool) : bool :=
  match a, b with
  | None, None => true
  | Some x, Some y => Bool.eqb x y
  | _, _ => false
  end.

(* what the harness saw after one operation on the real library *)
Record step := mkStep {
  s_op : op;
  s_err : option err;          (* exception class, None when the call returned *)
  s_tree : list Z;             (* enc_tree of the pointer dump from the seed node *)
  s_rooted : option bool;      (* Tree._is_rooted *)
  s_incr : bool;               (* suppress_unifurcations(update_bipartitions=True): incremental maintenance *)
  s_enc : option (list (Z * Z))
    (* when the call was asked to update bipartitions and returned: Tree.bipartition_encoding as
       (owner node of the Bipartition object, _leafset_bitmask), in list order *);
  s_obj : option (list (list Z) * list Z)
    (* wave 7, object level (Model/C03BipObj.v obj_dump): per edge in post-order [node; number of the
       Bipartition object its edge carries; _split_bitmask; _leafset_bitmask; _is_rooted (0 None, 1 False,
       2 True)], and Tree.bipartition_encoding as object numbers (identities numbered by first occurrence,
       edges first); given after an operation asked to update bipartitions and after encode_bipartitions *);
  s_ptrs : option (list (Z * (Z * list Z)))
    (* wave 8, after an operation that RAISED: the whole pointer structure - for every node object the harness
       ever registered (also those not / no longer reachable from the seed: detached subtrees, garbage) its id,
       its parent pointer (oenc) and its child list - to be compared with the cells of the heap that the
       model's error outcome carries (HErr e h: the state left behind) *)
}.

Record case := mkCase {
  c_var : variants;            (* which form the repaired sites have in the library under test (probed) *)
  c_init : tree;
  c_rooted : option bool;
  c_steps : list step
}.

Definition observe_model (r : hres) : option (option err * heap) :=
  match r with
  | HOk h => Some (None, h)
  | HErr e h => Some (Some e, h)
  | HFuel => None
  end.

Fixpoint pins (p : Z * Z) (l : list (Z * Z)) : list (Z * Z) :=
  match l with
  | [] => [p]
  | q :: r => if fst p <=? fst q then p :: l else q :: pins p r
  end.
Definition psort (l : list (Z * Z)) : list (Z * Z) := fold_right pins [] l.
Definition pair_eqb (a b : Z * Z) : bool := Z.eqb (fst a) (fst b) && Z.eqb (snd a) (snd b).

(* the encoding the model predicts: a fresh encoding of the tree the operation leaves (the operation
   ends in encode_bipartitions), or - for the incremental maintainer - the stored list of the
   state before (current by construction of the harness) with the removed nodes' entries deleted.
   Compared as a multiset of (owner, mask): to_outgroup_position re-positions the outgroup AFTER
   the encoding was made, so the list order need not be the post-order of the final tree. *)
Definition enc_ok (s : step) (h0 h : heap) : bool :=
  match s_enc s with
  | None => true
  | Some l =>
    let expected :=
      if s_incr s then match abs h0 with Some t0 => su_enc_incremental t0 (enc_list t0) | None => [] end
      else match abs h with Some t => enc_list t | None => [] end in
    list_eqb pair_eqb (psort expected) (psort l)
  end.

(* object level: where the Bipartition objects are after the step.  An operation asked to update bipartitions
   ends in encode_bipartitions, run under the rooting flag the operation leaves; the incremental maintainer
   filters the list of the encoding the harness made current just before the call (under the flag before). *)
Definition obj_step (s : step) (e : option err) (h0 h : heap) (b : bstate) : bstate :=
  match e, s_obj s, abs h0, abs h with
  | None, Some _, Some t0, Some t =>
    if s_incr s then obj_su_incremental t0 (obj_encode (rooted h0) t0 b)
    else obj_after_ub (rooted h) t b
  | _, _, _, _ => b
  end.

Definition obj_ok (s : step) (h : heap) (b : bstate) : bool :=
  match s_obj s, abs h with
  | Some d, Some t => dump_eqb (obj_dump b t) d
  | Some _, None => false
  | None, _ => true
  end.

Definition ptrs_ok (s : step) (h : heap) : bool :=
  match s_ptrs s with
  | None => true
  | Some l => forallb (fun r => Z.eqb (oenc (parent h (fst r))) (fst (snd r))
                                && list_eqb Z.eqb (kids h (fst r)) (snd (snd r))) l
  end.

Definition step_ok (s : step) (e : option err) (h0 h : heap) : bool :=
  option_eqb err_eqb e (s_err s)
  && match abs h with
     | Some t => list_eqb Z.eqb (enc_tree t) (s_tree s)
     | None => false
     end
  && obool_eqb (rooted h) (s_rooted s)
  && enc_ok s h0 h
  && ptrs_ok s h.

Fixpoint check_steps (v : variants) (l : list step) (h : heap) (b : bstate) : bool :=
  match l with
  | [] => true
  | s :: r =>
    match observe_model (run_op_v v (s_op s) h) with
    | Some (e, h') =>
      let b' := obj_step s e h h' b in
      step_ok s e h h' && obj_ok s h' b' && check_steps v r h' b'
    | None => false
    end
  end.

Definition case_ok (c : case) : bool :=
  check_steps (c_var c) (c_steps c) (of_tree (c_init c) (c_rooted c)) bs_empty.

(* diagnostics: what the model computes after each step *)
Fixpoint run_steps (v : variants) (l : list step) (h : heap) : list (option (option err) * list Z * option bool) :=
  match l with
  | [] => []
  | s :: r =>
    match observe_model (run_op_v v (s_op s) h) with
    | Some (e, h') =>
      (Some e, match abs h' with Some t => enc_tree t | None => [] end, rooted h') :: run_steps v r h'
    | None => [(None, [], None)]
    end
  end.

Definition case_run (c : case) := run_steps (c_var c) (c_steps c) (of_tree (c_init c) (c_rooted c)).
