(* C02: specification-side definitions for tree LISTS over a shared namespace (definitions only).
   A namespace is the list of its labels; taxa are looked up up to str.lower, first match. *)
From Coq Require Import ZArith List Bool.
From DV Require Import Model.PyPrims Gen.CharClasses Model.Tokenizer Model.Newick Model.C02Spec.
Import ListNotations.

Section ListSpec.
Variable L : Type.
Variable lower : str -> str.

Notation ntree := (ntree L).
Notation ptree := (ptree L).

Definition same_key (a b : str) : bool := str_eqb (lower a) (lower b).

(* position of the first member whose label equals l up to case *)
Fixpoint find_idx (ns : list str) (l : str) : option nat :=
  match ns with
  | [] => None
  | x :: r => if same_key x l then Some O else option_map S (find_idx r l)
  end.

(* the namespace after looking l up with create-if-missing: labels in order of first occurrence *)
Definition add_new (ns : list str) (l : str) : list str :=
  match find_idx ns l with Some _ => ns | None => ns ++ [l] end.

Definition idx_of (ns : list str) (l : str) : nat :=
  match find_idx ns l with Some i => i | None => length ns end.

Definition first_occurrences (ls : list str) : list str := fold_left add_new ls [].

(* the label of the node that becomes a taxon (leaf always; internal in taxon mode) *)
Definition own_tax (o : rt_opts) (t : ntree) : option str :=
  match t with Nd tx _ _ ks => if tag_is_taxon L o t then tx else None end.

Definition exp_lbl (o : rt_opts) (t : ntree) : option str :=
  match t with Nd _ lb _ ks => if is_nil ks then None else if rt_it o then None else lb end.

(* the tree the reader builds when the namespace already holds ns: existing members are
   referred to by their position, new ones are appended (children before the node) *)
Fixpoint expectL (o : rt_opts) (t : ntree) (ns : list str) : ptree * list str :=
  match t with
  | Nd tx lb ln ks =>
    let '(pks, ns1) :=
        (fix go (ks : list ntree) (ns : list str) : list ptree * list str :=
           match ks with
           | [] => ([], ns)
           | k :: r => let '(p, n1) := expectL o k ns in
                       let '(ps, n2) := go r n1 in (p :: ps, n2)
           end) ks ns in
    match own_tax o t with
    | Some l => (PN (Some (idx_of ns1 l)) (exp_lbl o t) ln [] pks, add_new ns1 l)
    | None => (PN None (exp_lbl o t) ln [] pks, ns1)
    end
  end.

Fixpoint expectL_list (o : rt_opts) (ks : list ntree) (ns : list str) : list ptree * list str :=
  match ks with
  | [] => ([], ns)
  | k :: r => let '(p, n1) := expectL o k ns in
              let '(ps, n2) := expectL_list o r n1 in (p :: ps, n2)
  end.

(* a document: the trees in order, over one growing namespace *)
Fixpoint expect_trees (o : rt_opts) (ts : list (option bool * ntree)) (ns : list str)
  : list (ptree_result L) * list str :=
  match ts with
  | [] => ([], ns)
  | (r, t) :: rest =>
    let '(p, n1) := expectL o t ns in
    let '(ps, n2) := expect_trees o rest n1 in
    (mkPR r [] p :: ps, n2)
  end.

(* all taxon labels of a document, in token order *)
Definition doc_taxa (o : rt_opts) (ts : list (option bool * ntree)) : list str :=
  flat_map (fun rt => taxa_order L o (snd rt)) ts.

(* labels that are equal up to case are equal: "distinct from the other labels up to letter case" *)
Definition case_consistent (ls : list str) : Prop :=
  forall a b, In a ls -> In b ls -> lower a = lower b -> a = b.

End ListSpec.
