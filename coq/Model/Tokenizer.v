(* Character-level executable model of src/dendropy/dataio/tokenizer.py `Tokenizer.__next__`
   (with `_skip_to_significant_char`, `_handle_comment`), as configured by
   nexusprocessing.NexusTokenizer.  Definitions only; proofs live in Proofs/C02Tok.v.

   Characters are Unicode code points (Z); a Python str is `list Z`.
   The stream is modelled by the list of characters not yet consumed whose head is the
   tokenizer's `_cur_char` ([] is `_cur_char == ""`, end of stream).  `_cur_char is None`
   (nothing read yet) only matters for `is_eof()` and is kept by the users of this file
   (Model/Newick.v `ps_eof`).

   Line/column bookkeeping (only used in error messages) is not modelled.
   `escape_chars` is not used by `__next__` at all (and is empty for NexusTokenizer). *)
From Coq Require Import ZArith List Bool.
From DV Require Import Model.PyPrims Gen.CharClasses.
Import ListNotations.
Open Scope Z_scope.

Definition str := list Z.

Definition zmem (c : Z) (l : list Z) : bool := existsb (Z.eqb c) l.

Definition is_nil {A} (l : list A) : bool := match l with [] => true | _ => false end.

Definition str_eqb (a b : str) : bool := list_eqb Z.eqb a b.

(* Tokenizer.__init__ arguments *)
Record tok_cfg : Type := mkTokCfg {
  tc_uncaptured : list Z;          (* uncaptured_delimiters *)
  tc_captured : list Z;            (* captured_delimiters *)
  tc_quotes : list Z;              (* quote_chars *)
  tc_double : bool;                (* escape_quote_by_doubling *)
  tc_cbegin : list Z;              (* comment_begin *)
  tc_cend : list Z;                (* comment_end *)
  tc_capture_comments : bool;      (* capture_comments *)
  tc_preserve_underscores : bool   (* preserve_unquoted_underscores *)
}.

(* NexusTokenizer(src, preserve_unquoted_underscores): the sets are the GENERATED ones *)
Definition nexus_cfg (preserve_unquoted_underscores : bool) : tok_cfg :=
  mkTokCfg tok_uncaptured_delimiters tok_captured_delimiters tok_quote_chars
           tok_escape_quote_by_doubling tok_comment_begin tok_comment_end tok_capture_comments
           preserve_unquoted_underscores.

Definition UNDERSCORE : Z := 95.
Definition SPACE : Z := 32.

(* result of one call of __next__ *)
Inductive tok_result : Type :=
| TEof (comments : list str)                 (* StopIteration; comments captured during the call *)
| TErr (e : err)                             (* UnterminatedQuoteError (a DataParseError) *)
| TFuel                                      (* model artefact: never returned by next_token (proved) *)
| TTok (text : str) (quoted : bool) (comments : list str) (rest : str).
      (* current_token, is_token_quoted, comments appended to captured_comments during the call,
         remaining stream (head = _cur_char) *)

Section Tok.
Variable cfg : tok_cfg.

(* _skip_to_significant_char *)
Fixpoint skip_ws (s : str) : str :=
  match s with
  | [] => []
  | c :: r => if zmem c (tc_uncaptured cfg) then skip_ws r else s
  end.

(* _handle_comment, entered with the stream at the comment-begin character and nesting = 0.
   Returns (text captured, remaining stream).  End of stream inside the comment is not an error. *)
Fixpoint handle_comment (s : str) (nesting : Z) : str * str :=
  match s with
  | [] => ([], [])
  | c :: r =>
    if zmem c (tc_cend cfg) then
      if (nesting - 1 <=? 0) then ([], r) else handle_comment r (nesting - 1)
    else if zmem c (tc_cbegin cfg) then handle_comment r (nesting + 1)
    else let '(t, r') := handle_comment r nesting in
         ((if tc_capture_comments cfg then c :: t else t), r')
  end.

(* the quoted-token loop, entered after the opening quote; None = UnterminatedQuoteError *)
Fixpoint quoted_loop (q : Z) (s : str) : option (str * str) :=
  match s with
  | [] => None
  | c :: r =>
    if c =? q then
      if tc_double cfg then
        match r with
        | c2 :: r2 =>
          if c2 =? q then
            match quoted_loop q r2 with Some (d, rest) => Some (q :: d, rest) | None => None end
          else Some ([], r)
        | [] => Some ([], [])
        end
      else Some ([], tl r)      (* the code calls _get_next_char() a second time here *)
    else
      match quoted_loop q r with Some (d, rest) => Some (c :: d, rest) | None => None end
  end.

(* the unquoted-token loop: (token text, comments captured, remaining stream); None = out of fuel *)
Fixpoint unquoted_loop (fuel : nat) (s : str) : option (str * list str * str) :=
  match fuel with
  | O => None
  | S f =>
    match s with
    | [] => Some ([], [], [])
    | c :: r =>
      if zmem c (tc_uncaptured cfg) then Some ([], [], r)
      else if zmem c (tc_captured cfg) then Some ([], [], s)
      else if zmem c (tc_cbegin cfg) then
        let '(txt, r') := handle_comment s 0 in
        match unquoted_loop f r' with
        | Some (d, cs, rest) => Some (d, (if tc_capture_comments cfg then txt :: cs else cs), rest)
        | None => None
        end
      else
        let c' := if (c =? UNDERSCORE) && negb (tc_preserve_underscores cfg) then SPACE else c in
        match unquoted_loop f r with
        | Some (d, cs, rest) => Some (c' :: d, cs, rest)
        | None => None
        end
    end
  end.

(* __next__ : fuel counts the re-entries `self.__next__()` after an empty token *)
Fixpoint next_tok (fuel : nat) (s : str) : tok_result :=
  match fuel with
  | O => TFuel
  | S f =>
    match skip_ws s with
    | [] => TEof []
    | c :: r =>
      if zmem c (tc_captured cfg) then TTok [c] false [] r
      else if zmem c (tc_quotes cfg) then
        match quoted_loop c r with
        | None => TErr ParseErr
        | Some (d, rest) => TTok d true [] rest
        end
      else
        match unquoted_loop (S (length (c :: r))) (c :: r) with
        | None => TFuel
        | Some (d, cs, rest) =>
          match d with
          | [] =>
            match rest with
            | [] => TEof cs
            | _ =>
              match next_tok f rest with
              | TEof cs' => TEof (cs ++ cs')
              | TTok t q cs' rest' => TTok t q (cs ++ cs') rest'
              | TErr e => TErr e
              | TFuel => TFuel
              end
            end
          | _ => TTok d false cs rest
          end
        end
    end
  end.

Definition next_token (s : str) : tok_result := next_tok (S (length s)) s.

(* ---- the whole token sequence of a text ---- *)

(* a token as the readers see it *)
Record token : Type := mkTok {
  t_text : str;            (* current_token *)
  t_quoted : bool;         (* is_token_quoted *)
  t_comments : list str;   (* comments appended to captured_comments while fetching it *)
  t_eof : bool             (* is_eof() right after fetching it *)
}.

(* how the stream ends *)
Inductive tend : Type :=
| EndEof (comments : list str)     (* StopIteration; trailing comments captured on the way *)
| EndErr (e : err)
| EndFuel.                         (* model artefact, excluded by proof *)

Fixpoint tokenize_fuel (fuel : nat) (s : str) : list token * tend :=
  match fuel with
  | O => ([], EndFuel)
  | S f =>
    match next_token s with
    | TEof cs => ([], EndEof cs)
    | TErr e => ([], EndErr e)
    | TFuel => ([], EndFuel)
    | TTok t q cs rest =>
      let '(l, e) := tokenize_fuel f rest in (mkTok t q cs (is_nil rest) :: l, e)
    end
  end.

Definition tokenize (s : str) : list token * tend := tokenize_fuel (S (length s)) s.

End Tok.
