(* C10, copy protocol: SEVERAL TaxonNamespace objects sharing one universe of Taxon objects.

   The state is a collection of namespaces (Model/C10Model.v `ns` records, addressed by a handle =
   position in creation order) plus the label table and identity counter of the Taxon objects.
   Every operation of C10Model.step is applied to ONE of them (`MOn h o`); the operations that
   create or compare namespaces are modelled here, statement by statement after taxonmodel.py:

     TaxonNamespace(), TaxonNamespace(iterable of Taxon objects / labels), TaxonNamespace(other),
       each with the keywords is_mutable= / is_case_sensitive=            -> MConstruct
     copy.copy(ns) = TaxonNamespace.__copy__ = TaxonNamespace(self)       -> MCopy
     copy.deepcopy(ns) = TaxonNamespace.__deepcopy__                      -> MDeepCopy
     ns.taxon_namespace_scoped_copy(memo) (returns self, fills the memo)  -> MScopedCopy
     ns1 == ns2 (identity), ns1 < ns2 (list comparison of the members)    -> MEq / MLt

   TaxonNamespace.__init__(other):
       self.is_mutable = kwargs.pop('is_mutable', True) ...; maps empty; count 0
       for i in other: self.add_taxon(i) if isinstance(i, Taxon) else self.new_taxon(label=i)
       if isinstance(other, TaxonNamespace):
           memo = {id(other): self, id(other._taxa): self._taxa}
           for t1, t2 in zip(self._taxa, other._taxa): memo[id(t2)] = t1
           for k in other.__dict__:                       (every attribute but _annotations/_taxa)
               self.__dict__[k] = copy.deepcopy(other.__dict__[k], memo)
   i.e. the accession indices handed out by the add loop are then OVERWRITTEN by a deep copy of
   the source's maps in which every member Taxon stands for itself: counter, index maps, bitmask
   memo, is_mutable and is_case_sensitive all come from the source (also when the keywords said
   otherwise); only the member list itself is the one built by the loop.
   A dict key that is not in the memo would be deep-copied into a fresh Taxon; that needs a key of
   the index maps which is not a member (excluded by the invariant) - `ren` leaves such a key as it
   is, the theorems are stated under the invariant. *)
From Coq Require Import ZArith List Bool.
From DV Require Import Model.PyPrims Model.C10Model.
Import ListNotations.
Open Scope Z_scope.

Record mworld := mkMW {
  mw_nss : list ns;             (* the namespace objects, in creation order *)
  mw_lab : list (tid * lbl);    (* Taxon.label of every Taxon object *)
  mw_next : tid
}.

Inductive item := ITaxon (t : tid) | ILabel (l : lbl).

Inductive csrc :=
| SNone                         (* TaxonNamespace() *)
| SNs (h : nat)                 (* TaxonNamespace(other) *)
| SItems (l : list item).       (* TaxonNamespace([t1, "a", ...]) *)

Inductive mop :=
| MOn (h : nat) (o : op)
| MConstruct (src : csrc) (mut cs : option bool)
| MCopy (h : nat)
| MDeepCopy (h : nat)
| MScopedCopy (h : nat)
| MEq (h1 h2 : nat)
| MLt (h1 h2 : nat).

Inductive mout :=
| MBase (o : out)
| MHandle (h : nat)                       (* a NEW namespace object *)
| MScoped (h : nat) (memo : list tid).    (* the SAME object h; memo maps these taxa to themselves *)

Definition view (mw : mworld) (n : ns) : world := mkW n (mw_lab mw) (mw_next mw).

Fixpoint upd {A} (l : list A) (k : nat) (x : A) : list A :=
  match l, k with
  | [], _ => []
  | _ :: r, O => x :: r
  | y :: r, S k' => y :: upd r k' x
  end.

(* the loop `for i in other:` of __init__ *)
Fixpoint construct_items (w : world) (items : list item) : res world :=
  match items with
  | [] => Ok w
  | ITaxon t :: r =>
    match add_taxon (w_ns w) t with
    | Ok n => construct_items (set_ns w n) r
    | Err e => Err e
    | OutOfFuel => OutOfFuel
    end
  | ILabel l :: r =>
    match new_taxon w l with
    | Ok (w', _) => construct_items w' r
    | Err e => Err e
    | OutOfFuel => OutOfFuel
    end
  end.

(* the attribute-by-attribute deep copy under the memo other-member -> own member *)
Definition copy_fields (memo : list (tid * tid)) (other self : ns) : ns :=
  mkNs (taxa self)
       (map (fun p => (ren memo (fst p), snd p)) (acc other))
       (map (fun p => (fst p, ren memo (snd p))) (rev other))
       (count other)
       (map (fun p => (ren memo (fst p), snd p)) (bm other))
       (is_mut other) (is_cs other).

(* memo = {...}; for t1, t2 in zip(self._taxa, other._taxa): memo[id(t2)] = t1
   (a dict: a later assignment to the same key replaces the earlier one) *)
Definition memo_zip (self_taxa other_taxa : list tid) : list (tid * tid) :=
  fold_left (fun m p => aset (snd p) (fst p) m) (combine self_taxa other_taxa) [].

Definition dflt (d : bool) (o : option bool) : bool := match o with Some b => b | None => d end.

Definition construct (mw : mworld) (src : csrc) (mut cs : option bool) : res world :=
  let w0 := view mw (mkNs [] [] [] 0 [] (dflt true mut) (dflt false cs)) in
  match src with
  | SNone => Ok w0
  | SItems l => construct_items w0 l
  | SNs h =>
    match nth_error (mw_nss mw) h with
    | None => Err OtherErr
    | Some other =>
      match construct_items w0 (map ITaxon (taxa other)) with
      | Ok w1 => Ok (set_ns w1 (copy_fields (memo_zip (taxa (w_ns w1)) (taxa other)) other (w_ns w1)))
      | Err e => Err e
      | OutOfFuel => OutOfFuel
      end
    end
  end.

Definition push (mw : mworld) (w : world) : mworld * mout :=
  (mkMW (mw_nss mw ++ [w_ns w]) (w_lab w) (w_next w), MHandle (length (mw_nss mw))).

(* list.__lt__ on the member lists: first position where the elements are not the same object
   decides by Taxon.__lt__ (label < label), else the shorter list is smaller *)
Fixpoint list_lt (w : world) (a b : list tid) : bool :=
  match a, b with
  | [], [] => false
  | [], _ :: _ => true
  | _ :: _, [] => false
  | x :: r, y :: s => if Z.eqb x y then list_lt w r s else Z.ltb (label_of w x) (label_of w y)
  end.

Section WithLower.
Variable lower : lbl -> lbl.

Definition mstep (mw : mworld) (o : mop) : mworld * mout :=
  let bad := (mw, MBase (OErr OtherErr)) in
  match o with
  | MOn h o =>
    match nth_error (mw_nss mw) h with
    | None => bad
    | Some n =>
      let '(w', x) := step lower (view mw n) o in
      (mkMW (upd (mw_nss mw) h (w_ns w')) (w_lab w') (w_next w'), MBase x)
    end
  | MConstruct src mut cs =>
    match construct mw src mut cs with
    | Ok w => push mw w
    | Err e => (mw, MBase (OErr e))
    | OutOfFuel => (mw, MBase (OErr Hang))
    end
  | MCopy h =>
    match construct mw (SNs h) None None with
    | Ok w => push mw w
    | Err e => (mw, MBase (OErr e))
    | OutOfFuel => (mw, MBase (OErr Hang))
    end
  | MDeepCopy h =>
    match nth_error (mw_nss mw) h with
    | None => bad
    | Some n => push mw (deep_copy (view mw n))
    end
  | MScopedCopy h =>
    match nth_error (mw_nss mw) h with
    | None => bad
    | Some n => (mw, MScoped h (taxa n))
    end
  | MEq h1 h2 =>
    match nth_error (mw_nss mw) h1, nth_error (mw_nss mw) h2 with
    | Some _, Some _ => (mw, MBase (OBool (Nat.eqb h1 h2)))
    | _, _ => bad
    end
  | MLt h1 h2 =>
    match nth_error (mw_nss mw) h1, nth_error (mw_nss mw) h2 with
    | Some a, Some b => (mw, MBase (OBool (list_lt (view mw a) (taxa a) (taxa b))))
    | _, _ => bad
    end
  end.

(* observed after every step, for EVERY namespace: members in order with their accession
   index, the accession counter, the two flags *)
Definition observe_ns (n : ns) : list (tid * Z) * (Z * (bool * bool)) :=
  (map (fun t => (t, match alookup t (acc n) with Some i => i | None => -1 end)) (taxa n),
   (count n, (is_mut n, is_cs n))).

Definition mobserve (mw : mworld) := map observe_ns (mw_nss mw).

Fixpoint mrun (mw : mworld) (ops : list mop) : list (mout * list (list (tid * Z) * (Z * (bool * bool)))) :=
  match ops with
  | [] => []
  | o :: r => let '(mw', x) := mstep mw o in (x, mobserve mw') :: mrun mw' r
  end.

Definition mrun_world (mw : mworld) (ops : list mop) : mworld :=
  fold_left (fun w o => fst (mstep w o)) ops mw.

End WithLower.

(* ---- comparison against the implementation ---- *)
Definition mout_eqb (a b : mout) : bool :=
  match a, b with
  | MBase x, MBase y => out_eqb x y
  | MHandle x, MHandle y => Nat.eqb x y
  | MScoped x l, MScoped y m => Nat.eqb x y && list_eqb Z.eqb l m
  | _, _ => false
  end.

Definition obs_ns_eqb (a b : list (tid * Z) * (Z * (bool * bool))) : bool :=
  list_eqb zz_eqb (fst a) (fst b) && Z.eqb (fst (snd a)) (fst (snd b))
  && Bool.eqb (fst (snd (snd a))) (fst (snd (snd b))) && Bool.eqb (snd (snd (snd a))) (snd (snd (snd b))).

Definition mstep_eqb (a b : mout * list (list (tid * Z) * (Z * (bool * bool)))) : bool :=
  mout_eqb (fst a) (fst b) && list_eqb obs_ns_eqb (snd a) (snd b).

Record mcase := mkMCase {
  mc_lower : list (lbl * lbl);
  mc_free : list (tid * lbl);
  mc_ops : list mop;
  mc_expected : list (mout * list (list (tid * Z) * (Z * (bool * bool))))
}.

Definition mcase_world (c : mcase) : mworld := mkMW [] (mc_free c) (Z.of_nat (length (mc_free c))).

Definition mcase_run (c : mcase) := mrun (tbl_lower (mc_lower c)) (mcase_world c) (mc_ops c).

Definition mcase_ok (c : mcase) : bool := list_eqb mstep_eqb (mcase_run c) (mc_expected c).
