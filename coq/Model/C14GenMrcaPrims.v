(* C14: run-time library of the translator for Tree.mrca's argument handling and
   treemeasure.patristic_distance (py/dv/c14_mrcagen.py -> coq/Gen/Pdm.v).  TRUSTED mapping:

   kwargs    the keyword arguments Tree.mrca looks at, each present (Some) or absent (None);
             `"k" in kwargs` = kw_has, kwargs["k"] = kw_item (KeyError when absent),
             kwargs.get("k", d) = kw_default.
   None      a local variable that may be None used as a value raises TypeError (py_unwrap).
   self      the tree object of the hand model (structure, rooting flag, stored leafset bitmasks);
             self.taxon_namespace.get_taxa / taxa_bitmask and self.encode_bipartitions(...) are the
             model's get_taxa / taxa_bitmask / encode (interface calls; properties C10 / C01).
   nodes     a node object is named by its identity.  Reading its children after a possible refresh:
             the node as it is in the tree now, or - when the refresh detached it (collapsed basal
             bifurcation) - as it was before, with its old children (py_node_object).
             tree.find_node(lambda x: x.taxon == a) = first node in pre-order with that taxon, or None;
             n.parent_node is looked up in the tree; `n != m` compares identities (None = None);
             an attribute of None is AttributeError (py_deref). *)
From Coq Require Import ZArith List Bool.
From DV Require Import Model.PyPrims Model.Tree Model.C14Model Model.C14GenPrims Model.C14GenObj.
Import ListNotations.
Open Scope Z_scope.

Record mrca_kwargs := mkKw {
  kw_start_node : option Z;
  kw_leafset_bitmask : option Z;
  kw_taxa : option (list Z);
  kw_taxon_labels : option (list Z);
  kw_is_bipartitions_updated : option bool
}.

Definition kw_has {A} (o : option A) : bool := match o with Some _ => true | None => false end.
Definition kw_item {A} (o : option A) : res A := match o with Some v => Ok v | None => Err KeyErr end.
Definition kw_default {A} (o : option A) (d : A) : A := match o with Some v => v | None => d end.
Definition py_unwrap {A} (o : option A) : res A := match o with Some v => Ok v | None => Err TypeErr end.

Definition py_node_object (old new : mtree) (i : Z) : res tree :=
  match find_node i (mt_tree new) with
  | Some s => Ok s
  | None => match find_node i (mt_tree old) with Some s => Ok s | None => Err LookupErr end
  end.

Definition py_find_node_taxon (t : tree) (a : Z) : option tree :=
  find (fun n => oz_eqb (t_taxon n) (Some a)) (preorder t).
Definition py_deref (n : option tree) : res tree := match n with Some x => Ok x | None => Err AttrErr end.
Definition py_node_eq (n : option tree) (m : option Z) : bool :=
  match n, m with
  | None, None => true
  | Some x, Some i => Z.eqb (t_id x) i
  | _, _ => false
  end.
