(* C11: executable model of the taxon-namespace bookkeeping of DendroPy's containers
   (TreeList / TreeArray in treecollectionmodel.py, CharacterMatrix in charmatrixmodel.py,
   DataSet in datasetmodel.py, TaxonNamespaceAssociated in taxonmodel.py,
   Tree.{migrate,reconstruct,update}_taxon_namespace and Tree._clone_from in _tree.py,
   the label look-up of the Newick/NEXUS/FASTA readers).

   Hand transcription, statement by statement; tied to the source by the correspondence
   check py/dv/c11.py (every observable part of the state is compared after every step).

   Objects are identities (nat, allocated in creation order, one counter per kind):
     taxa        s_lab    : position = taxon oid, value = label (an oid into the harness' label pool)
     namespaces  s_mem / s_cs : total maps nsid -> ordered member list / is_case_sensitive; s_nns = how many exist
     trees       s_trees  : {t_ns; t_refs}   t_refs = the taxa on the nodes, preorder, None skipped
     tree lists  s_lists  : {l_ns; l_trees}  l_trees = tree ids (objects may be shared between lists)
     matrices    s_mats   : {m_ns; m_rows}   m_rows = keys of _taxon_sequence_map in dict order
     data sets   s_dss    : {d_att; d_nss; d_lists; d_mats}
   `lower` (Python str.lower on the pool) is a parameter; nothing is assumed about it.
   All namespaces are mutable (is_mutable = True); labels are never re-assigned. *)
From Coq Require Import List Bool Arith ZArith.
From DV Require Import Model.PyPrims.
Import ListNotations.
Open Scope nat_scope.

Definition oid := nat.
Definition lbl := nat.

Fixpoint alookup {V} (k : nat) (l : list (nat * V)) : option V :=
  match l with
  | [] => None
  | (k', v) :: r => if Nat.eqb k k' then Some v else alookup k r
  end.

Definition memb (x : nat) (l : list nat) : bool := existsb (Nat.eqb x) l.

Fixpoint upd {A} (l : list A) (i : nat) (x : A) : list A :=
  match l, i with
  | [], _ => []
  | _ :: r, O => x :: r
  | y :: r, S j => y :: upd r j x
  end.

Fixpoint remove_id (x : nat) (l : list nat) : list nat :=
  match l with
  | [] => []
  | y :: r => if Nat.eqb x y then remove_id x r else y :: remove_id x r
  end.

(* list.remove: first occurrence *)
Fixpoint remove_first (x : nat) (l : list nat) : option (list nat) :=
  match l with
  | [] => None
  | y :: r => if Nat.eqb x y then Some r
              else match remove_first x r with Some r' => Some (y :: r') | None => None end
  end.

Definition add_uniq (x : nat) (l : list nat) : list nat := if memb x l then l else l ++ [x].

Record tree := mkTree { t_ns : oid; t_refs : list oid }.
Record tlist := mkTL { l_ns : oid; l_trees : list oid }.
Record matrix := mkMat { m_ns : oid; m_rows : list oid }.
Record dataset := mkDS { d_att : option oid; d_nss : list oid; d_lists : list oid; d_mats : list oid }.

Record state := mkSt {
  s_lab : list lbl;
  s_mem : list (oid * list oid);
  s_cs : list (oid * bool);
  s_nns : nat;
  s_trees : list tree;
  s_lists : list tlist;
  s_mats : list matrix;
  s_dss : list dataset
}.

Definition st_init : state := mkSt [] [] [] 0 [] [] [] [].

Definition members (st : state) (n : oid) : list oid :=
  match alookup n (s_mem st) with Some m => m | None => [] end.
Definition ns_cs (st : state) (n : oid) : bool :=
  match alookup n (s_cs st) with Some b => b | None => false end.
Definition label (st : state) (x : oid) : lbl := nth x (s_lab st) 0.

Definition dtree := mkTree 0 [].
Definition dlist := mkTL 0 [].
Definition dmat := mkMat 0 [].
Definition dds := mkDS None [] [] [].
Definition gettree (st : state) (i : oid) := nth i (s_trees st) dtree.
Definition getlist (st : state) (i : oid) := nth i (s_lists st) dlist.
Definition getmat (st : state) (i : oid) := nth i (s_mats st) dmat.
Definition getds (st : state) (i : oid) := nth i (s_dss st) dds.

Definition set_members (st : state) (n : oid) (ms : list oid) : state :=
  mkSt (s_lab st) ((n, ms) :: s_mem st) (s_cs st) (s_nns st) (s_trees st) (s_lists st) (s_mats st) (s_dss st).
Definition set_tree (st : state) (i : oid) (t : tree) : state :=
  mkSt (s_lab st) (s_mem st) (s_cs st) (s_nns st) (upd (s_trees st) i t) (s_lists st) (s_mats st) (s_dss st).
Definition set_list (st : state) (i : oid) (l : tlist) : state :=
  mkSt (s_lab st) (s_mem st) (s_cs st) (s_nns st) (s_trees st) (upd (s_lists st) i l) (s_mats st) (s_dss st).
Definition set_mat (st : state) (i : oid) (m : matrix) : state :=
  mkSt (s_lab st) (s_mem st) (s_cs st) (s_nns st) (s_trees st) (s_lists st) (upd (s_mats st) i m) (s_dss st).
Definition set_ds (st : state) (i : oid) (d : dataset) : state :=
  mkSt (s_lab st) (s_mem st) (s_cs st) (s_nns st) (s_trees st) (s_lists st) (s_mats st) (upd (s_dss st) i d).
Definition alloc_tree (st : state) (t : tree) : state * oid :=
  (mkSt (s_lab st) (s_mem st) (s_cs st) (s_nns st) (s_trees st ++ [t]) (s_lists st) (s_mats st) (s_dss st),
   length (s_trees st)).
Definition alloc_list (st : state) (l : tlist) : state * oid :=
  (mkSt (s_lab st) (s_mem st) (s_cs st) (s_nns st) (s_trees st) (s_lists st ++ [l]) (s_mats st) (s_dss st),
   length (s_lists st)).
Definition alloc_mat (st : state) (m : matrix) : state * oid :=
  (mkSt (s_lab st) (s_mem st) (s_cs st) (s_nns st) (s_trees st) (s_lists st) (s_mats st ++ [m]) (s_dss st),
   length (s_mats st)).
Definition alloc_ds (st : state) (d : dataset) : state * oid :=
  (mkSt (s_lab st) (s_mem st) (s_cs st) (s_nns st) (s_trees st) (s_lists st) (s_mats st) (s_dss st ++ [d]),
   length (s_dss st)).
(* TaxonNamespace(is_case_sensitive=cs): a new, empty namespace object *)
Definition alloc_ns (st : state) (cs : bool) : state * oid :=
  (mkSt (s_lab st) (s_mem st) ((s_nns st, cs) :: s_cs st) (S (s_nns st)) (s_trees st) (s_lists st) (s_mats st) (s_dss st),
   s_nns st).
(* a new Taxon object that is in no namespace *)
Definition alloc_taxon (st : state) (l : lbl) : state * oid :=
  (mkSt (s_lab st ++ [l]) (s_mem st) (s_cs st) (s_nns st) (s_trees st) (s_lists st) (s_mats st) (s_dss st),
   length (s_lab st)).

(* ---- Python list index arithmetic ---- *)
Definition norm_index (len : nat) (i : Z) : option nat :=
  if (i <? 0)%Z then (if (Z.of_nat len + i <? 0)%Z then None else Some (Z.to_nat (Z.of_nat len + i)))
  else if (i <? Z.of_nat len)%Z then Some (Z.to_nat i) else None.
Definition clamp_index (len : nat) (i : Z) : nat :=
  if (i <? 0)%Z then Z.to_nat (Z.max 0 (Z.of_nat len + i)) else Nat.min (Z.to_nat i) len.
(* slice(a, b) with step 1 on a list of length len: (lo, hi) with lo <= hi <= len *)
Definition slice_bounds (len : nat) (a b : option Z) : nat * nat :=
  let lo := match a with Some i => clamp_index len i | None => 0 end in
  let hi := match b with Some i => clamp_index len i | None => len end in
  (lo, Nat.max lo hi).
Definition slice_get {A} (l : list A) (lo hi : nat) : list A := firstn (hi - lo) (skipn lo l).
Definition slice_set {A} (l : list A) (lo hi : nat) (v : list A) : list A := firstn lo l ++ v ++ skipn hi l.
Definition insert_at {A} (l : list A) (i : nat) (x : A) : list A := firstn i l ++ x :: skipn i l.
Fixpoint remove_nth {A} (l : list A) (i : nat) : list A :=
  match l, i with
  | [], _ => []
  | _ :: r, O => r
  | y :: r, S j => y :: remove_nth r j
  end.

Inductive strat := SMigrate (unify : bool) | SAdd | SBogus.
Inductive src := SrcList (l : oid) | SrcTrees (ts : list oid).
Inductive schema := Newick | Nexus.
Inductive rowkey := KeyTaxon (x : oid) | KeyLabel (l : lbl) | KeyIndex (i : Z).
Inductive dsobj := ObjNs (n : oid) | ObjList (l : oid) | ObjMat (m : oid).

Inductive op :=
(* free objects *)
| NewNs (cs : bool)                                   (* TaxonNamespace(is_case_sensitive=cs) *)
| NewTaxon (n : oid) (l : lbl)                         (* n.new_taxon(label) *)
| MkTree (n : oid) (refs : list oid)                    (* Tree(seed_node=<nodes carrying refs>, taxon_namespace=n) *)
| NewList (n : oid)                                    (* TreeList(taxon_namespace=n) *)
| NewMat (n : oid)                                     (* DnaCharacterMatrix(taxon_namespace=n) *)
| NewDs                                               (* DataSet() *)
(* TreeList *)
| Append (l t : oid) (s : strat)
| Insert (l : oid) (i : Z) (t : oid) (s : strat)
| Extend (l : oid) (s : src)
| IAdd (l : oid) (s : src)                             (* l += s *)
| AddOp (l : oid) (s : src)                            (* l + s -> new list *)
| SetItem (l : oid) (i : Z) (t : oid)
| SetSlice (l : oid) (a b : option Z) (s : src)
| GetSlice (l : oid) (a b : option Z)                  (* l[a:b] -> new list *)
| NewTreeIn (l : oid) (nsarg : option oid) (refs : list oid)   (* l.new_tree([taxon_namespace=], seed_node=...) *)
| ReadList (l : oid) (sc : schema) (cskw : bool) (nsarg : option oid) (trees : list (list lbl))
| Pop (l : oid) (i : Z)
| Remove (l t : oid)
| MigrateList (l n : oid) (unify : bool)
| ReconstructList (l : oid) (unify : bool)
| UpdateList (l : oid)
| PurgeList (l : oid)
(* Tree *)
| MigrateTree (t n : oid) (unify : bool)
| ReconstructTree (t : oid) (unify : bool)
| UpdateTree (t : oid)
| PurgeTree (t : oid)
(* TreeArray(taxon_namespace=n).add_tree(t) *)
| ArrayAdd (n t : oid)
(* CharacterMatrix *)
| NewSeq (m x : oid)
| SetRow (m : oid) (k : rowkey)
| MigrateMat (m n : oid) (unify : bool)
| ReconstructMat (m : oid) (unify : bool)
| UpdateMat (m : oid)
| PurgeMat (m : oid)
(* DataSet *)
| Attach (d n : oid)
| Detach (d : oid)
| DsAdd (d : oid) (o : dsobj)
| DsNewList (d : oid) (nsarg : option oid)
| DsNewMat (d : oid) (nsarg : option oid)
| DsReadTrees (d : oid) (sc : schema) (cskw : bool) (nsarg : option oid) (trees : list (list lbl))
| DsReadFasta (d : oid) (nsarg : option oid) (rows : list lbl)
| Unify (d : oid) (nsarg : option oid) (attach : bool).

Inductive out :=
| OUnit
| OId (i : oid)          (* identity of the object returned (popped tree, new list, ...) *)
| OErr (e : err)        (* class of the Python exception *)
| ORecon                (* error.TaxonNamespaceReconstructionError (a ValueError) *)
| OBadArg.              (* the op names an object that does not exist: never generated *)

Section WithLower.
Variable lower : lbl -> lbl.

(* ---- TaxonNamespace ---- *)
Definition key (cs : bool) (l : lbl) : lbl := if cs then l else lower l.
Definition matches (st : state) (cs : bool) (l : lbl) (x : oid) : bool :=
  Nat.eqb (key cs l) (key cs (label st x)).
(* get_taxon: first member whose label matches *)
Definition first_match (st : state) (n : oid) (cs : bool) (l : lbl) : option oid :=
  find (matches st cs l) (members st n).
(* NexusTaxonSymbolMapper.label_taxon_map: later members overwrite earlier ones *)
Definition last_match (st : state) (n : oid) (cs : bool) (l : lbl) : option oid :=
  find (matches st cs l) (rev (members st n)).
Definition add_member (st : state) (n x : oid) : state :=
  if memb x (members st n) then st else set_members st n (members st n ++ [x]).
Definition add_members (st : state) (n : oid) (xs : list oid) : state :=
  fold_left (fun s x => add_member s n x) xs st.
Definition new_taxon (st : state) (n : oid) (l : lbl) : state * oid :=
  let '(st1, x) := alloc_taxon st l in (set_members st1 n (members st1 n ++ [x]), x).
Definition require_taxon (st : state) (n : oid) (l : lbl) (cs : bool) : state * oid :=
  match first_match st n cs l with
  | Some x => (st, x)
  | None => new_taxon st n l
  end.

(* ---- Tree.reconstruct_taxon_namespace: the loop over the nodes ---- *)
Fixpoint recon_refs (st : state) (n : oid) (unify : bool) (refs : list oid) (memo : list (oid * oid))
  : state * list oid * list (oid * oid) :=
  match refs with
  | [] => (st, [], memo)
  | x :: r =>
    if unify || negb (memb x (members st n)) then
      match alookup x memo with
      | None =>
        let '(st1, t) := if unify then require_taxon st n (label st x) (ns_cs st n)
                         else new_taxon st n (label st x) in
        let '(st2, r', memo') := recon_refs st1 n unify r ((x, t) :: memo) in
        (st2, t :: r', memo')
      | Some t =>
        let '(st2, r', memo') := recon_refs (add_member st n t) n unify r memo in
        (st2, t :: r', memo')
      end
    else
      let '(st2, r', memo') := recon_refs st n unify r memo in (st2, x :: r', memo')
  end.

(* tree._taxon_namespace = n; tree.reconstruct_taxon_namespace(unify, memo) *)
Definition migrate_tree (st : state) (tr n : oid) (unify : bool) (memo : list (oid * oid))
  : state * list (oid * oid) :=
  let '(st1, refs', memo') := recon_refs st n unify (t_refs (gettree st tr)) memo in
  (set_tree st1 tr (mkTree n refs'), memo').

(* tree._taxon_namespace = n; tree.update_taxon_namespace() *)
Definition update_tree (st : state) (tr n : oid) : state :=
  set_tree (add_members st n (t_refs (gettree st tr))) tr (mkTree n (t_refs (gettree st tr))).

(* ---- Tree(t0, taxon_namespace=n)  (Tree._clone_from + deepcopy under the memo) ---- *)
Fixpoint clone_memo (st : state) (n : oid) (ms : list oid) (memo : list (oid * oid)) : state * list (oid * oid) :=
  match ms with
  | [] => (st, memo)
  | x :: r => let '(st1, t) := require_taxon st n (label st x) (ns_cs st n) in
              clone_memo st1 n r ((x, t) :: memo)
  end.
(* taxa on the nodes that the memo does not cover are deep-copied: new Taxon objects in no namespace *)
Fixpoint clone_refs (st : state) (refs : list oid) (memo : list (oid * oid)) : state * list oid * list (oid * oid) :=
  match refs with
  | [] => (st, [], memo)
  | x :: r =>
    match alookup x memo with
    | Some t => let '(st2, r', memo') := clone_refs st r memo in (st2, t :: r', memo')
    | None => let '(st1, t) := alloc_taxon st (label st x) in
              let '(st2, r', memo') := clone_refs st1 r ((x, t) :: memo) in (st2, t :: r', memo')
    end
  end.
Definition clone_tree (st : state) (tr n : oid) : state * oid :=
  let t0 := gettree st tr in
  let sn := t_ns t0 in
  let '(st1, memo) := if Nat.eqb sn n then (st, map (fun x => (x, x)) (members st sn))
                      else clone_memo st n (members st sn) [] in
  let '(st2, refs', _) := clone_refs st1 (t_refs t0) memo in
  alloc_tree st2 (mkTree n refs').

(* ---- TreeList ---- *)
(* _import_tree_to_taxon_namespace; false = ValueError (unknown strategy) *)
Definition import_tree (st : state) (ln tr : oid) (s : strat) : state * bool :=
  if Nat.eqb (t_ns (gettree st tr)) ln then (st, true)
  else match s with
       | SMigrate u => (fst (migrate_tree st tr ln u []), true)
       | SAdd => (update_tree st tr ln, true)
       | SBogus => (st, false)
       end.

Definition list_push (st : state) (l tr : oid) : state :=
  set_list st l (mkTL (l_ns (getlist st l)) (l_trees (getlist st l) ++ [tr])).

(* self.append(tree, strategy) *)
Definition append_tree (st : state) (l tr : oid) (s : strat) : state * bool :=
  let '(st1, ok) := import_tree st (l_ns (getlist st l)) tr s in
  if ok then (list_push st1 l tr, true) else (st1, false).

Fixpoint append_all (st : state) (l : oid) (trs : list oid) : state :=
  match trs with
  | [] => st
  | tr :: r => append_all (fst (append_tree st l tr (SMigrate true))) l r
  end.

(* for t0 in other: t1 = Tree(t0, taxon_namespace=self.taxon_namespace); self._trees.append(t1) *)
Fixpoint clone_push_all (st : state) (l : oid) (trs : list oid) : state :=
  match trs with
  | [] => st
  | tr :: r => let '(st1, c) := clone_tree st tr (l_ns (getlist st l)) in
               clone_push_all (list_push st1 l c) l r
  end.

Fixpoint clone_all (st : state) (n : oid) (trs : list oid) (acc : list oid) : state * list oid :=
  match trs with
  | [] => (st, acc)
  | tr :: r => let '(st1, c) := clone_tree st tr n in clone_all st1 n r (acc ++ [c])
  end.

Fixpoint import_all (st : state) (n : oid) (trs : list oid) : state :=
  match trs with
  | [] => st
  | tr :: r => import_all (fst (import_tree st n tr (SMigrate true))) n r
  end.

Definition valid_tree (st : state) (i : oid) := Nat.ltb i (length (s_trees st)).
Definition valid_list (st : state) (i : oid) := Nat.ltb i (length (s_lists st)).
Definition valid_mat (st : state) (i : oid) := Nat.ltb i (length (s_mats st)).
Definition valid_ds (st : state) (i : oid) := Nat.ltb i (length (s_dss st)).
Definition valid_ns (st : state) (i : oid) := Nat.ltb i (s_nns st).
Definition valid_taxon (st : state) (i : oid) := Nat.ltb i (length (s_lab st)).
Definition valid_src (st : state) (s : src) : bool :=
  match s with SrcList l => valid_list st l | SrcTrees ts => forallb (valid_tree st) ts end.
Definition valid_nsopt (st : state) (o : option oid) : bool :=
  match o with Some n => valid_ns st n | None => true end.

(* TreeList.extend; None = does not terminate (other is self: the loop appends to the list it iterates) *)
Definition extend (st : state) (l : oid) (s : src) : option state :=
  match s with
  | SrcList l2 => if Nat.eqb l2 l then None else Some (clone_push_all st l (l_trees (getlist st l2)))
  | SrcTrees ts => Some (append_all st l ts)
  end.

(* ---- readers: NexusTaxonSymbolMapper.require_taxon_for_symbol per label, NewickReader._seen_taxa ---- *)
Fixpoint read_refs (st : state) (n : oid) (cs : bool) (labels : list lbl) (seen : list oid)
  : state * list oid * bool :=
  match labels with
  | [] => (st, seen, true)
  | l :: r =>
    let '(st1, t) := match last_match st n cs l with
                     | Some t => (st, t)
                     | None => new_taxon st n l
                     end in
    if memb t seen then (st1, seen, false) else read_refs st1 n cs r (seen ++ [t])
  end.

(* per tree statement: tree = tree_list.new_tree(); then the labels; false = NewickReaderDuplicateTaxonError *)
Fixpoint read_trees (st : state) (l : oid) (cs : bool) (trees : list (list lbl)) : state * bool :=
  match trees with
  | [] => (st, true)
  | labels :: r =>
    let n := l_ns (getlist st l) in
    let '(st1, tr) := alloc_tree st (mkTree n []) in
    let st2 := list_push st1 l tr in
    let '(st3, refs, ok) := read_refs st2 n cs labels [] in
    let st4 := set_tree st3 tr (mkTree n refs) in
    if ok then read_trees st4 l cs r else (st4, false)
  end.

(* ---- whole-list taxon management ---- *)
Fixpoint migrate_trees (st : state) (n : oid) (unify : bool) (trs : list oid) (memo : list (oid * oid))
  : state * list (oid * oid) :=
  match trs with
  | [] => (st, memo)
  | tr :: r => let '(st1, memo1) := migrate_tree st tr n unify memo in migrate_trees st1 n unify r memo1
  end.
(* TreeList.reconstruct_taxon_namespace *)
Definition reconstruct_list (st : state) (l : oid) (unify : bool) (memo : list (oid * oid)) :=
  migrate_trees st (l_ns (getlist st l)) unify (l_trees (getlist st l)) memo.
(* TaxonNamespaceAssociated.migrate_taxon_namespace on a TreeList *)
Definition migrate_list (st : state) (l n : oid) (unify : bool) (memo : list (oid * oid)) :=
  reconstruct_list (set_list st l (mkTL n (l_trees (getlist st l)))) l unify memo.
Fixpoint update_trees (st : state) (n : oid) (trs : list oid) : state :=
  match trs with
  | [] => st
  | tr :: r => update_trees (update_tree st tr n) n r
  end.
(* purge_taxon_namespace: keep only the members that are in poll_taxa() *)
Definition purge_ns (st : state) (n : oid) (polled : list oid) : state :=
  set_members st n (filter (fun x => memb x polled) (members st n)).
Definition poll_list (st : state) (l : oid) : list oid :=
  flat_map (fun tr => t_refs (gettree st tr)) (l_trees (getlist st l)).

(* ---- CharacterMatrix.reconstruct_taxon_namespace; false = TaxonNamespaceReconstructionError ---- *)
Fixpoint recon_rows (st : state) (n : oid) (unify : bool) (orig rows : list oid) (memo : list (oid * oid))
  : state * list oid * list (oid * oid) * bool :=
  match orig with
  | [] => (st, rows, memo, true)
  | x :: r =>
    if unify || negb (memb x (members st n)) then
      let '(st1, t, memo1) :=
        match alookup x memo with
        | None =>
          let '(s1, t) := if unify then require_taxon st n (label st x) (ns_cs st n)
                          else new_taxon st n (label st x) in
          (s1, t, (x, t) :: memo)
        | Some t => (add_member st n t, t, memo)
        end in
      if memb t rows then (st1, rows, memo1, false)
      else recon_rows st1 n unify r (remove_id x rows ++ [t]) memo1
    else recon_rows st n unify r rows memo
  end.
(* m._taxon_namespace = n; m.reconstruct_taxon_namespace(unify, memo) *)
Definition migrate_mat (st : state) (m n : oid) (unify : bool) (memo : list (oid * oid))
  : state * list (oid * oid) * bool :=
  let rows := m_rows (getmat st m) in
  let '(st1, rows', memo', ok) := recon_rows st n unify rows rows memo in
  (set_mat st1 m (mkMat n rows'), memo', ok).

(* FASTA rows: require_taxon(label); "if curr_taxon in char_matrix" -> DataParseError; char_matrix[taxon] *)
Fixpoint read_rows (st : state) (m : oid) (labels : list lbl) : state * bool :=
  match labels with
  | [] => (st, true)
  | l :: r =>
    let n := m_ns (getmat st m) in
    let '(st1, t) := require_taxon st n l (ns_cs st n) in
    if memb t (m_rows (getmat st1 m)) then (st1, false)
    else read_rows (set_mat st1 m (mkMat n (m_rows (getmat st1 m) ++ [t]))) m r
  end.

(* ---- DataSet ---- *)
Definition ds_add_ns (st : state) (d n : oid) : state :=
  let ds := getds st d in set_ds st d (mkDS (d_att ds) (add_uniq n (d_nss ds)) (d_lists ds) (d_mats ds)).
Definition ds_add_list (st : state) (d l : oid) : state :=
  let st1 := ds_add_ns st d (l_ns (getlist st l)) in
  let ds := getds st1 d in set_ds st1 d (mkDS (d_att ds) (d_nss ds) (add_uniq l (d_lists ds)) (d_mats ds)).
Definition ds_add_mat (st : state) (d m : oid) : state :=
  let st1 := ds_add_ns st d (m_ns (getmat st m)) in
  let ds := getds st1 d in set_ds st1 d (mkDS (d_att ds) (d_nss ds) (d_lists ds) (add_uniq m (d_mats ds))).
Definition ds_attach (st : state) (d n : oid) : state :=
  let st1 := ds_add_ns st d n in
  let ds := getds st1 d in set_ds st1 d (mkDS (Some n) (d_nss ds) (d_lists ds) (d_mats ds)).

(* the namespace a new_tree_list / new_char_matrix call ends up with; None = TypeError *)
Definition ds_pick_ns (st : state) (d : oid) (nsarg : option oid) : option (state * oid) :=
  match d_att (getds st d), nsarg with
  | Some a, Some n => if Nat.eqb a n then Some (st, a) else None
  | Some a, None => Some (st, a)
  | None, Some n => Some (st, n)
  | None, None => Some (alloc_ns st false)     (* the constructor makes its own TaxonNamespace() *)
  end.

(* DataSet._parse_and_add_from_stream + DataReader.read_dataset: which namespace factory;
   inl err | inr (state, namespace) ; the factory of an un-attached data set without argument is
   dataset.new_taxon_namespace *)
Definition ds_read_ns (st : state) (d : oid) (nsarg : option oid) : option (state * oid) :=
  match d_att (getds st d), nsarg with
  | Some a, Some n => if Nat.eqb a n then Some (st, n) else None
  | Some a, None => Some (st, a)
  | None, Some n => Some (st, n)
  | None, None => let '(st1, n) := alloc_ns st false in Some (ds_add_ns st1 d n, n)
  end.

Fixpoint unify_lists (st : state) (n : oid) (ls : list oid) (memo : list (oid * oid)) : state * list (oid * oid) :=
  match ls with
  | [] => (st, memo)
  | l :: r => let '(st1, memo1) := migrate_list st l n true memo in unify_lists st1 n r memo1
  end.
Fixpoint unify_mats (st : state) (n : oid) (ms : list oid) (memo : list (oid * oid)) : state * bool :=
  match ms with
  | [] => (st, true)
  | m :: r => let '(st1, memo1, ok) := migrate_mat st m n true memo in
              if ok then unify_mats st1 n r memo1 else (st1, false)
  end.

Definition row_key (st : state) (n : oid) (k : rowkey) : res oid :=
  match k with
  | KeyTaxon x => Ok x
  | KeyLabel l => match first_match st n (ns_cs st n) l with Some x => Ok x | None => Err KeyErr end
  | KeyIndex i =>
    let len := length (members st n) in
    if (Z.abs i <? Z.of_nat len)%Z
    then match norm_index len i with Some j => Ok (nth j (members st n) 0) | None => Err IndexErr end
    else Err IndexErr
  end.

Definition src_trees (st : state) (s : src) : list oid :=
  match s with SrcList l => l_trees (getlist st l) | SrcTrees ts => ts end.

Definition step (st : state) (o : op) : state * out :=
  match o with
  | NewNs cs => let '(st1, n) := alloc_ns st cs in (st1, OId n)
  | NewTaxon n l =>
    if valid_ns st n then let '(st1, x) := new_taxon st n l in (st1, OId x) else (st, OBadArg)
  | MkTree n refs =>
    if valid_ns st n && forallb (valid_taxon st) refs then
      (* Tree.__init__: self.seed_node = seed_node; self.update_taxon_namespace() *)
      let '(st1, tr) := alloc_tree (add_members st n refs) (mkTree n refs) in (st1, OId tr)
    else (st, OBadArg)
  | NewList n =>
    if valid_ns st n then let '(st1, l) := alloc_list st (mkTL n []) in (st1, OId l) else (st, OBadArg)
  | NewMat n =>
    if valid_ns st n then let '(st1, m) := alloc_mat st (mkMat n []) in (st1, OId m) else (st, OBadArg)
  | NewDs => let '(st1, d) := alloc_ds st (mkDS None [] [] []) in (st1, OId d)

  | Append l tr s =>
    if valid_list st l && valid_tree st tr then
      let '(st1, ok) := append_tree st l tr s in (st1, if ok then OUnit else OErr ValueErr)
    else (st, OBadArg)
  | Insert l i tr s =>
    if valid_list st l && valid_tree st tr then
      let '(st1, ok) := import_tree st (l_ns (getlist st l)) tr s in
      if ok then
        let L := getlist st1 l in
        (set_list st1 l (mkTL (l_ns L) (insert_at (l_trees L) (clamp_index (length (l_trees L)) i) tr)), OUnit)
      else (st1, OErr ValueErr)
    else (st, OBadArg)
  | Extend l s | IAdd l s =>
    if valid_list st l && valid_src st s then
      match extend st l s with Some st1 => (st1, OUnit) | None => (st, OErr Hang) end
    else (st, OBadArg)
  | AddOp l s =>
    if valid_list st l && valid_src st s then
      (* tlist = TreeList(taxon_namespace=self.taxon_namespace); tlist += self; tlist += other *)
      let '(st1, nl) := alloc_list st (mkTL (l_ns (getlist st l)) []) in
      match extend st1 nl (SrcList l) with
      | Some st2 => match extend st2 nl s with
                    | Some st3 => (st3, OId nl)
                    | None => (st2, OErr Hang)
                    end
      | None => (st1, OErr Hang)
      end
    else (st, OBadArg)
  | SetItem l i tr =>
    if valid_list st l && valid_tree st tr then
      (* self._trees[index] = self._import_tree_to_taxon_namespace(value) *)
      let st1 := fst (import_tree st (l_ns (getlist st l)) tr (SMigrate true)) in
      let L := getlist st1 l in
      match norm_index (length (l_trees L)) i with
      | Some j => (set_list st1 l (mkTL (l_ns L) (upd (l_trees L) j tr)), OUnit)
      | None => (st1, OErr IndexErr)
      end
    else (st, OBadArg)
  | SetSlice l a b s =>
    if valid_list st l && valid_src st s then
      let n := l_ns (getlist st l) in
      let '(st1, v) := match s with
                       | SrcList l2 => clone_all st n (l_trees (getlist st l2)) []
                       | SrcTrees ts => (import_all st n ts, ts)
                       end in
      let L := getlist st1 l in
      let '(lo, hi) := slice_bounds (length (l_trees L)) a b in
      (set_list st1 l (mkTL (l_ns L) (slice_set (l_trees L) lo hi v)), OUnit)
    else (st, OBadArg)
  | GetSlice l a b =>
    if valid_list st l then
      (* TreeList(self._trees[index], taxon_namespace=self.taxon_namespace): appends each *)
      let L := getlist st l in
      let '(lo, hi) := slice_bounds (length (l_trees L)) a b in
      let '(st1, nl) := alloc_list st (mkTL (l_ns L) []) in
      (append_all st1 nl (slice_get (l_trees L) lo hi), OId nl)
    else (st, OBadArg)
  | NewTreeIn l nsarg refs =>
    if valid_list st l && valid_nsopt st nsarg && forallb (valid_taxon st) refs then
      let n := l_ns (getlist st l) in
      if match nsarg with Some a => Nat.eqb a n | None => true end then
        let '(st1, tr) := alloc_tree (add_members st n refs) (mkTree n refs) in
        (list_push st1 l tr, OId tr)
      else (st, OErr TypeErr)
    else (st, OBadArg)
  | ReadList l sc cskw nsarg trees =>
    if valid_list st l && valid_nsopt st nsarg then
      let n := l_ns (getlist st l) in
      if match nsarg with Some a => Nat.eqb a n | None => true end then
        if Bool.eqb cskw (ns_cs st n) then
          let '(st1, ok) := read_trees st l cskw trees in (st1, if ok then OUnit else OErr ParseErr)
        else (st, OErr ValueErr)
      else (st, OErr TypeErr)
    else (st, OBadArg)
  | Pop l i =>
    if valid_list st l then
      let L := getlist st l in
      match norm_index (length (l_trees L)) i with
      | Some j => (set_list st l (mkTL (l_ns L) (remove_nth (l_trees L) j)), OId (nth j (l_trees L) 0))
      | None => (st, OErr IndexErr)
      end
    else (st, OBadArg)
  | Remove l tr =>
    if valid_list st l && valid_tree st tr then
      let L := getlist st l in
      match remove_first tr (l_trees L) with
      | Some r => (set_list st l (mkTL (l_ns L) r), OUnit)
      | None => (st, OErr ValueErr)
      end
    else (st, OBadArg)
  | MigrateList l n u =>
    if valid_list st l && valid_ns st n then (fst (migrate_list st l n u []), OUnit) else (st, OBadArg)
  | ReconstructList l u =>
    if valid_list st l then (fst (reconstruct_list st l u []), OUnit) else (st, OBadArg)
  | UpdateList l =>
    if valid_list st l then (update_trees st (l_ns (getlist st l)) (l_trees (getlist st l)), OUnit)
    else (st, OBadArg)
  | PurgeList l =>
    if valid_list st l then (purge_ns st (l_ns (getlist st l)) (poll_list st l), OUnit) else (st, OBadArg)

  | MigrateTree tr n u =>
    if valid_tree st tr && valid_ns st n then (fst (migrate_tree st tr n u []), OUnit) else (st, OBadArg)
  | ReconstructTree tr u =>
    if valid_tree st tr then (fst (migrate_tree st tr (t_ns (gettree st tr)) u []), OUnit) else (st, OBadArg)
  | UpdateTree tr =>
    if valid_tree st tr then (update_tree st tr (t_ns (gettree st tr)), OUnit) else (st, OBadArg)
  | PurgeTree tr =>
    if valid_tree st tr then (purge_ns st (t_ns (gettree st tr)) (t_refs (gettree st tr)), OUnit)
    else (st, OBadArg)

  | ArrayAdd n tr =>
    if valid_ns st n && valid_tree st tr then
      (* if self.taxon_namespace is not tree.taxon_namespace: raise TaxonNamespaceIdentityError *)
      if Nat.eqb (t_ns (gettree st tr)) n then
        if forallb (fun x => memb x (members st n)) (t_refs (gettree st tr)) then (st, OUnit)
        else (st, OErr KeyErr)       (* taxon_bitmask of a taxon that is not a member *)
      else (st, OErr ValueErr)
    else (st, OBadArg)

  | NewSeq m x =>
    if valid_mat st m && valid_taxon st x then
      let M := getmat st m in
      if memb x (m_rows M) then (st, OErr ValueErr)
      else if negb (memb x (members st (m_ns M))) then (st, OErr ValueErr)
      else (set_mat st m (mkMat (m_ns M) (m_rows M ++ [x])), OUnit)
    else (st, OBadArg)
  | SetRow m k =>
    if valid_mat st m && match k with KeyTaxon x => valid_taxon st x | _ => true end then
      let M := getmat st m in
      match row_key st (m_ns M) k with
      | Ok x =>
        if negb (memb x (members st (m_ns M))) then (st, OErr ValueErr)
        else (set_mat st m (mkMat (m_ns M) (add_uniq x (m_rows M))), OUnit)
      | Err e => (st, OErr e)
      | OutOfFuel => (st, OErr Hang)
      end
    else (st, OBadArg)
  | MigrateMat m n u =>
    if valid_mat st m && valid_ns st n then
      let '(st1, _, ok) := migrate_mat st m n u [] in (st1, if ok then OUnit else ORecon)
    else (st, OBadArg)
  | ReconstructMat m u =>
    if valid_mat st m then
      let '(st1, _, ok) := migrate_mat st m (m_ns (getmat st m)) u [] in (st1, if ok then OUnit else ORecon)
    else (st, OBadArg)
  | UpdateMat m =>
    if valid_mat st m then (add_members st (m_ns (getmat st m)) (m_rows (getmat st m)), OUnit)
    else (st, OBadArg)
  | PurgeMat m =>
    if valid_mat st m then (purge_ns st (m_ns (getmat st m)) (m_rows (getmat st m)), OUnit)
    else (st, OBadArg)

  | Attach d n =>
    if valid_ds st d && valid_ns st n then (ds_attach st d n, OUnit) else (st, OBadArg)
  | Detach d =>
    if valid_ds st d then
      let ds := getds st d in (set_ds st d (mkDS None (d_nss ds) (d_lists ds) (d_mats ds)), OUnit)
    else (st, OBadArg)
  | DsAdd d o =>
    if valid_ds st d then
      match o with
      | ObjNs n => if valid_ns st n then (ds_add_ns st d n, OUnit) else (st, OBadArg)
      | ObjList l => if valid_list st l then (ds_add_list st d l, OUnit) else (st, OBadArg)
      | ObjMat m => if valid_mat st m then (ds_add_mat st d m, OUnit) else (st, OBadArg)
      end
    else (st, OBadArg)
  | DsNewList d nsarg =>
    if valid_ds st d && valid_nsopt st nsarg then
      match ds_pick_ns st d nsarg with
      | Some (st1, n) => let '(st2, l) := alloc_list st1 (mkTL n []) in (ds_add_list st2 d l, OId l)
      | None => (st, OErr TypeErr)
      end
    else (st, OBadArg)
  | DsNewMat d nsarg =>
    if valid_ds st d && valid_nsopt st nsarg then
      match ds_pick_ns st d nsarg with
      | Some (st1, n) => let '(st2, m) := alloc_mat st1 (mkMat n []) in (ds_add_mat st2 d m, OId m)
      | None => (st, OErr TypeErr)
      end
    else (st, OBadArg)
  | DsReadTrees d sc cskw nsarg trees =>
    if valid_ds st d && valid_nsopt st nsarg then
      match ds_read_ns st d nsarg with
      | None => (st, OErr ValueErr)
      | Some (st1, n) =>
        match sc with
        | Newick =>
          (* tree_list = dataset.new_tree_list(taxon_namespace=n); then the symbol mapper's check *)
          let '(st2, l) := alloc_list st1 (mkTL n []) in
          let st3 := ds_add_list st2 d l in
          if Bool.eqb cskw (ns_cs st3 n) then
            let '(st4, ok) := read_trees st3 l cskw trees in (st4, if ok then OUnit else OErr ParseErr)
          else (st3, OErr ValueErr)
        | Nexus =>
          (* the symbol mapper is made before the first tree list *)
          if Bool.eqb cskw (ns_cs st1 n) then
            match trees with
            | [] => (st1, OUnit)
            | _ =>
              let '(st2, l) := alloc_list st1 (mkTL n []) in
              let st3 := ds_add_list st2 d l in
              let '(st4, ok) := read_trees st3 l cskw trees in (st4, if ok then OUnit else OErr ParseErr)
            end
          else (st1, OErr ValueErr)
        end
      end
    else (st, OBadArg)
  | DsReadFasta d nsarg rows =>
    if valid_ds st d && valid_nsopt st nsarg then
      match ds_read_ns st d nsarg with
      | None => (st, OErr ValueErr)
      | Some (st1, n) =>
        let '(st2, m) := alloc_mat st1 (mkMat n []) in
        let st3 := ds_add_mat st2 d m in
        let '(st4, ok) := read_rows st3 m rows in (st4, if ok then OUnit else OErr ParseErr)
      end
    else (st, OBadArg)
  | Unify d nsarg attach =>
    if valid_ds st d && valid_nsopt st nsarg then
      let ds := getds st d in
      let '(st3, target, ok) :=
        match d_nss ds, d_lists ds, d_mats ds with
        | [], [], [] => (st, nsarg, true)
        | _, _, _ =>
          (* self.taxon_namespaces.clear() *)
          let st0 := set_ds st d (mkDS (d_att ds) [] (d_lists ds) (d_mats ds)) in
          let '(st1, n) := match nsarg with
                           | Some n => (st0, n)
                           | None => let '(s, n) := alloc_ns st0 false in (ds_add_ns s d n, n)
                           end in
          let '(st2, memo) := unify_lists st1 n (d_lists ds) [] in
          let '(st3, ok) := unify_mats st2 n (d_mats ds) memo in
          (st3, Some n, ok)
        end in
      if ok then
        if attach then
          match target with
          | Some n => (ds_attach st3 d n, OUnit)
          | None => (st3, OErr TypeErr)
          end
        else (st3, OUnit)
      else (st3, ORecon)
    else (st, OBadArg)
  end.

(* ---- what the harness observes after every step ---- *)
Definition dump_t : Type :=
  list lbl * list (bool * list oid) * list (oid * list oid) * list (oid * list oid) * list (oid * list oid)
  * list (option oid * list oid * list oid * list oid).

Definition dump (st : state) : dump_t :=
  (s_lab st,
   map (fun n => (ns_cs st n, members st n)) (seq 0 (s_nns st)),
   map (fun t => (t_ns t, t_refs t)) (s_trees st),
   map (fun l => (l_ns l, l_trees l)) (s_lists st),
   map (fun m => (m_ns m, m_rows m)) (s_mats st),
   map (fun d => (d_att d, d_nss d, d_lists d, d_mats d)) (s_dss st)).

Fixpoint run (st : state) (ops : list op) : list (out * dump_t) :=
  match ops with
  | [] => []
  | o :: r => let '(st', x) := step st o in (x, dump st') :: run st' r
  end.

Definition run_state (st : state) (ops : list op) : state :=
  fold_left (fun s o => fst (step s o)) ops st.

End WithLower.

(* ---- the property ---- *)
(* every taxon on the nodes of tree object t is a member of the namespace t refers to *)
Definition tree_ok (st : state) (t : tree) : Prop :=
  forall x, In x (t_refs t) -> In x (members st (t_ns t)).
Definition mat_ok (st : state) (m : matrix) : Prop :=
  forall x, In x (m_rows m) -> In x (members st (m_ns m)).
(* every member of the list is an existing tree object that refers to the list's own namespace object *)
Definition list_ok (st : state) (l : tlist) : Prop :=
  forall tr, In tr (l_trees l) -> exists t, nth_error (s_trees st) tr = Some t /\ t_ns t = l_ns l.
(* the components exist and, when a namespace is attached, refer to it *)
Definition ds_ok (st : state) (d : dataset) : Prop :=
  (forall l, In l (d_lists d) ->
     exists L, nth_error (s_lists st) l = Some L /\ forall a, d_att d = Some a -> l_ns L = a) /\
  (forall m, In m (d_mats d) ->
     exists M, nth_error (s_mats st) m = Some M /\ forall a, d_att d = Some a -> m_ns M = a).

(* well-formedness alone: the members / components exist *)
Definition list_wf (st : state) (l : tlist) : Prop :=
  forall tr, In tr (l_trees l) -> tr < length (s_trees st).
Definition ds_wf (st : state) (d : dataset) : Prop :=
  (forall l, In l (d_lists d) -> l < length (s_lists st)) /\
  (forall m, In m (d_mats d) -> m < length (s_mats st)).

(* Closed, with exemptions (XL: tree lists, XD: data sets whose own namespace clause is suspended, only
   well-formedness is kept; used for the intermediate states of migrations and of
   DataSet.unify_taxon_namespaces) *)
Definition ClosedX (XL XD : oid -> Prop) (st : state) : Prop :=
  (forall i t, nth_error (s_trees st) i = Some t -> tree_ok st t) /\
  (forall i m, nth_error (s_mats st) i = Some m -> mat_ok st m) /\
  (forall i l, nth_error (s_lists st) i = Some l -> list_wf st l /\ (~ XL i -> list_ok st l)) /\
  (forall i d, nth_error (s_dss st) i = Some d -> ds_wf st d /\ (~ XD i -> ds_ok st d)).

Definition Closed (st : state) : Prop := ClosedX (fun _ => False) (fun _ => False) st.

(* ---- the usage discipline under which the library keeps the property (bool: executable) ----
   Everything outside it is a way to break a container behind its back; see Props/C11.v for the
   refutations. *)
Definition indexed {A} (l : list A) : list (nat * A) := combine (seq 0 (length l)) l.

(* every tree list that holds tree object tr already refers to namespace n *)
Definition holders_ok (st : state) (n tr : oid) : bool :=
  forallb (fun L => negb (memb tr (l_trees L)) || Nat.eqb (l_ns L) n) (s_lists st).

Definition att_ok (d : dataset) (n : oid) : bool :=
  match d_att d with Some a => Nat.eqb a n | None => true end.
(* every data set (except index `but`) that holds list l / matrix m is un-attached or attached to n *)
Definition is_but (but : option oid) (i : oid) : bool :=
  match but with Some b => Nat.eqb i b | None => false end.
Definition ds_list_free (st : state) (but : option oid) (l n : oid) : bool :=
  forallb (fun p => is_but but (fst p) || negb (memb l (d_lists (snd p))) || att_ok (snd p) n) (indexed (s_dss st)).
Definition ds_mat_free (st : state) (but : option oid) (m n : oid) : bool :=
  forallb (fun p => is_but but (fst p) || negb (memb m (d_mats (snd p))) || att_ok (snd p) n) (indexed (s_dss st)).
(* nobody else who refers to namespace n uses a taxon outside `polled` *)
Definition purge_ok (st : state) (n : oid) (polled : list oid) : bool :=
  forallb (fun t => negb (Nat.eqb (t_ns t) n) || forallb (fun x => memb x polled) (t_refs t)) (s_trees st)
  && forallb (fun m => negb (Nat.eqb (m_ns m) n) || forallb (fun x => memb x polled) (m_rows m)) (s_mats st).

Definition src_ok (st : state) (n : oid) (s : src) : bool :=
  match s with SrcList _ => true | SrcTrees ts => forallb (holders_ok st n) ts end.

Definition disciplined (st : state) (o : op) : bool :=
  match o with
  | Append l tr _ | Insert l _ tr _ | SetItem l _ tr => holders_ok st (l_ns (getlist st l)) tr
  | Extend l s | IAdd l s | AddOp l s | SetSlice l _ _ s => src_ok st (l_ns (getlist st l)) s
  | MigrateList l n _ =>
    forallb (holders_ok (set_list st l (mkTL n (l_trees (getlist st l)))) n) (l_trees (getlist st l))
    && ds_list_free st None l n
  | MigrateTree tr n _ => holders_ok st n tr
  | PurgeList l => purge_ok st (l_ns (getlist st l)) (poll_list st l)
  | PurgeTree tr => purge_ok st (t_ns (gettree st tr)) (t_refs (gettree st tr))
  | PurgeMat m => purge_ok st (m_ns (getmat st m)) (m_rows (getmat st m))
  | MigrateMat m n _ => ds_mat_free st None m n
  | Attach d n =>
    forallb (fun l => Nat.eqb (l_ns (getlist st l)) n) (d_lists (getds st d))
    && forallb (fun m => Nat.eqb (m_ns (getmat st m)) n) (d_mats (getds st d))
  | DsAdd d (ObjList l) => att_ok (getds st d) (l_ns (getlist st l))
  | DsAdd d (ObjMat m) => att_ok (getds st d) (m_ns (getmat st m))
  | Unify d nsarg attach =>
    let ds := getds st d in
    let n := match nsarg with Some n => n | None => s_nns st end in
    (* every list that shares a tree object with a list of the data set belongs to the data set too *)
    forallb (fun l => forallb (fun tr =>
               forallb (fun p => negb (memb tr (l_trees (snd p))) || memb (fst p) (d_lists ds)) (indexed (s_lists st)))
             (l_trees (getlist st l))) (d_lists ds)
    && forallb (fun l => ds_list_free st (Some d) l n) (d_lists ds)
    && forallb (fun m => ds_mat_free st (Some d) m n) (d_mats ds)
    && (attach || att_ok ds n)
  | _ => true
  end.

(* Closed as a boolean (proved equivalent in Proofs/C11Final.v) *)
Definition att_okb (o : option oid) (n : oid) : bool :=
  match o with Some a => Nat.eqb n a | None => true end.
Definition closedb (st : state) : bool :=
  forallb (fun t => forallb (fun x => memb x (members st (t_ns t))) (t_refs t)) (s_trees st)
  && forallb (fun m => forallb (fun x => memb x (members st (m_ns m))) (m_rows m)) (s_mats st)
  && forallb (fun l => forallb (fun tr => match nth_error (s_trees st) tr with
                                          | Some t => Nat.eqb (t_ns t) (l_ns l)
                                          | None => false
                                          end) (l_trees l)) (s_lists st)
  && forallb (fun d =>
       forallb (fun l => match nth_error (s_lists st) l with
                         | Some L => att_okb (d_att d) (l_ns L)
                         | None => false
                         end) (d_lists d)
       && forallb (fun m => match nth_error (s_mats st) m with
                            | Some M => att_okb (d_att d) (m_ns M)
                            | None => false
                            end) (d_mats d)) (s_dss st).

Definition is_recon (o : out) : bool := match o with ORecon => true | _ => false end.

Section History.
Variable lower : lbl -> lbl.
(* a history that keeps to the discipline at every step and never runs into a
   TaxonNamespaceReconstructionError *)
Fixpoint hist_ok (st : state) (ops : list op) : bool :=
  match ops with
  | [] => true
  | o :: r => disciplined st o && negb (is_recon (snd (step lower st o))) && hist_ok (fst (step lower st o)) r
  end.
(* the states a history passes through *)
Fixpoint states (st : state) (ops : list op) : list state :=
  match ops with
  | [] => []
  | o :: r => fst (step lower st o) :: states (fst (step lower st o)) r
  end.
End History.

(* ---- comparison against the implementation's observation (used by cases.v) ---- *)
Definition out_eqb (a b : out) : bool :=
  match a, b with
  | OUnit, OUnit => true
  | OId x, OId y => Nat.eqb x y
  | OErr x, OErr y => err_eqb x y
  | ORecon, ORecon => true
  | OBadArg, OBadArg => true
  | _, _ => false
  end.

Definition ids_eqb := list_eqb Nat.eqb.
Definition obj_eqb (a b : oid * list oid) : bool := Nat.eqb (fst a) (fst b) && ids_eqb (snd a) (snd b).
Definition nsd_eqb (a b : bool * list oid) : bool := Bool.eqb (fst a) (fst b) && ids_eqb (snd a) (snd b).
Definition dsd_eqb (a b : option oid * list oid * list oid * list oid) : bool :=
  let '(a1, a2, a3, a4) := a in let '(b1, b2, b3, b4) := b in
  option_eqb Nat.eqb a1 b1 && ids_eqb a2 b2 && ids_eqb a3 b3 && ids_eqb a4 b4.

Definition dump_eqb (a b : dump_t) : bool :=
  let '(a1, a2, a3, a4, a5, a6) := a in let '(b1, b2, b3, b4, b5, b6) := b in
  ids_eqb a1 b1 && list_eqb nsd_eqb a2 b2 && list_eqb obj_eqb a3 b3 && list_eqb obj_eqb a4 b4
  && list_eqb obj_eqb a5 b5 && list_eqb dsd_eqb a6 b6.

Definition step_eqb (a b : out * dump_t) : bool := out_eqb (fst a) (fst b) && dump_eqb (snd a) (snd b).

Record case := mkCase {
  c_lower : list (lbl * lbl);
  c_ops : list op;
  c_expected : list (out * dump_t)
}.

Definition tbl_lower (t : list (lbl * lbl)) (l : lbl) : lbl :=
  match alookup l t with Some x => x | None => l end.

Definition case_run (c : case) := run (tbl_lower (c_lower c)) st_init (c_ops c).

Definition case_ok (c : case) : bool := list_eqb step_eqb (case_run c) (c_expected c).

(* diagnostics for replays: index of the first step on which model and observation differ, with
   what the model computed there *)
Fixpoint first_diff (i : nat) (a b : list (out * dump_t)) : option (nat * option (out * dump_t)) :=
  match a, b with
  | [], [] => None
  | x :: r, y :: s => if step_eqb x y then first_diff (S i) r s else Some (i, Some x)
  | x :: _, [] => Some (i, Some x)
  | [], _ :: _ => Some (i, None)
  end.
Definition case_diff (c : case) := first_diff 0 (case_run c) (c_expected c).
