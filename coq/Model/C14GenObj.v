(* C14: run-time library of the translator for the main loops of nj_tree / upgma_tree
   (py/dv/c14_objgen.py -> coq/Gen/Pdm.v).  TRUSTED mapping of Python constructs:

   objects   a Node made by tree.node_factory() is an identity (the next unused integer of the heap) and
             a record of the attributes these two functions use: taxon, edge.length, the child list,
             and the private attributes  _upgma_cluster (o_cluster: a set of nodes, insertion order
             kept), _upgma_distance_from_tip / _nj_xsub (o_num), _upgma_distances / _nj_distances
             (o_dists: a dict keyed by node identity).  Private attributes start absent; reading an
             absent one is AttributeError; `del x.attr` makes it absent.  new.add_child(c) appends c to
             new's child list (the parent pointer is not read by these functions).
   floats    machine numbers are rationals in canonical form: every arithmetic result is Qred of the
             exact result (the idealisation of the hand model: no rounding); x / 0 is
             ZeroDivisionError (OtherErr); a float used where it is None is TypeError.
   lists     node_pool.append / remove (first occurrence; ValueError when absent) / l[:-1] / l[i:] /
             l[0]; `for x in p` over a pair; iterating None is TypeError.
   loops     `while` runs on explicit fuel (the test is evaluated before fuel is consumed).
   output    `return tree` returns the seed node's identity and the heap; rebuild reads the tree off. *)
From Coq Require Import ZArith QArith List Bool.
From DV Require Import Model.PyPrims Model.Tree Model.C14Model Model.C14GenPrims.
Import ListNotations.
Open Scope Z_scope.

Record nobj := mkN {
  o_taxon : option Z;
  o_len : option Q;
  o_kids : list Z;
  o_cluster : option (list Z);
  o_num : option Q;
  o_dists : option (dict Q)
}.

Record oheap := mkH { h_objs : dict nobj; h_next : Z }.

Definition oheap_empty : oheap := mkH [] 0.

(* tree.node_factory() *)
Definition py_node_factory (h : oheap) : Z * oheap :=
  (h_next h, mkH (h_objs h ++ [(h_next h, mkN None None [] None None None)]) (h_next h + 1)).

Definition o_get (i : Z) (h : oheap) : res nobj :=
  match dget i (h_objs h) with Some o => Ok o | None => Err AttrErr end.
Definition o_put (i : Z) (o : nobj) (h : oheap) : oheap := mkH (dset i o (h_objs h)) (h_next h).
Definition o_upd (i : Z) (f : nobj -> nobj) (h : oheap) : res oheap :=
  do o <- o_get i h ;; Ok (o_put i (f o) h).

Definition attr {A} (o : option A) : res A := match o with Some v => Ok v | None => Err AttrErr end.

Definition o_get_taxon (i : Z) (h : oheap) : res (option Z) := do o <- o_get i h ;; Ok (o_taxon o).
Definition o_set_taxon (i : Z) (v : option Z) (h : oheap) : res oheap :=
  o_upd i (fun o => mkN v (o_len o) (o_kids o) (o_cluster o) (o_num o) (o_dists o)) h.
(* x.edge.length used as a number *)
Definition o_get_len (i : Z) (h : oheap) : res Q :=
  do o <- o_get i h ;; match o_len o with Some v => Ok v | None => Err TypeErr end.
Definition o_set_len (i : Z) (v : Q) (h : oheap) : res oheap :=
  o_upd i (fun o => mkN (o_taxon o) (Some v) (o_kids o) (o_cluster o) (o_num o) (o_dists o)) h.
Definition o_add_child (p c : Z) (h : oheap) : res oheap :=
  o_upd p (fun o => mkN (o_taxon o) (o_len o) (o_kids o ++ [c]) (o_cluster o) (o_num o) (o_dists o)) h.
Definition o_get_cluster (i : Z) (h : oheap) : res (list Z) := do o <- o_get i h ;; attr (o_cluster o).
Definition o_set_cluster (i : Z) (v : list Z) (h : oheap) : res oheap :=
  o_upd i (fun o => mkN (o_taxon o) (o_len o) (o_kids o) (Some v) (o_num o) (o_dists o)) h.
Definition o_del_cluster (i : Z) (h : oheap) : res oheap :=
  do o <- o_get i h ;; do _ <- attr (o_cluster o) ;;
  Ok (o_put i (mkN (o_taxon o) (o_len o) (o_kids o) None (o_num o) (o_dists o)) h).
Definition o_get_num (i : Z) (h : oheap) : res Q := do o <- o_get i h ;; attr (o_num o).
Definition o_set_num (i : Z) (v : Q) (h : oheap) : res oheap :=
  o_upd i (fun o => mkN (o_taxon o) (o_len o) (o_kids o) (o_cluster o) (Some v) (o_dists o)) h.
Definition o_del_num (i : Z) (h : oheap) : res oheap :=
  do o <- o_get i h ;; do _ <- attr (o_num o) ;;
  Ok (o_put i (mkN (o_taxon o) (o_len o) (o_kids o) (o_cluster o) None (o_dists o)) h).
Definition o_get_dists (i : Z) (h : oheap) : res (dict Q) := do o <- o_get i h ;; attr (o_dists o).
Definition o_set_dists (i : Z) (v : dict Q) (h : oheap) : res oheap :=
  o_upd i (fun o => mkN (o_taxon o) (o_len o) (o_kids o) (o_cluster o) (o_num o) (Some v)) h.
Definition o_del_dists (i : Z) (h : oheap) : res oheap :=
  do o <- o_get i h ;; do _ <- attr (o_dists o) ;;
  Ok (o_put i (mkN (o_taxon o) (o_len o) (o_kids o) (o_cluster o) (o_num o) None) h).

(* set.update *)
Definition py_set_union (a b : list Z) : list Z := fold_left (fun acc x => add_once x acc) b a.

(* floats *)
Definition qadd (x y : Q) : Q := Qred (x + y).
Definition qsub (x y : Q) : Q := Qred (x - y).
Definition qmul (x y : Q) : Q := Qred (x * y).
Definition qdiv (x y : Q) : res Q := if Qeq_bool y 0 then Err OtherErr else Ok (Qred (x / y)).
Definition qlt (x y : Q) : bool := if Qlt_le_dec x y then true else false.
Definition py_num (o : option Q) : res Q := match o with Some v => Ok v | None => Err TypeErr end.

(* lists and pairs *)
Fixpoint py_list_remove (x : Z) (l : list Z) : res (list Z) :=
  match l with
  | [] => Err ValueErr
  | y :: r => if Z.eqb y x then Ok r else do r' <- py_list_remove x r ;; Ok (y :: r')
  end.
Definition py_drop_last {A} (l : list A) : list A := removelast l.
Definition py_iter_pair (p : option (Z * Z)) : res (list Z) :=
  match p with Some (a, b) => Ok [a; b] | None => Err TypeErr end.
Definition py_pair_item (p : option (Z * Z)) (i : Z) : res Z :=
  match p with
  | Some (a, b) => if Z.eqb i 0 then Ok a else if Z.eqb i 1 then Ok b else Err IndexErr
  | None => Err TypeErr
  end.

(* while cond: body *)
Fixpoint py_while {S} (fuel : nat) (cond : S -> bool) (body : S -> res S) (s : S) : res S :=
  match fuel with
  | O => if cond s then OutOfFuel else Ok s
  | Datatypes.S f => if cond s then bind (body s) (py_while f cond body) else Ok s
  end.

(* the tree hanging from node i (fuel bounds the depth) *)
Fixpoint qdepth (t : qtree) : nat :=
  match t with QT _ _ _ ks => S ((fix go (ks : list qtree) : nat := match ks with [] => O | k :: r => Nat.max (qdepth k) (go r) end) ks) end.

Fixpoint rebuild (fuel : nat) (h : oheap) (i : Z) : res qtree :=
  match fuel with
  | O => OutOfFuel
  | Datatypes.S f =>
    do o <- o_get i h ;;
    do ks <- res_map (rebuild f h) (o_kids o) ;;
    Ok (QT i (o_taxon o) (o_len o) ks)
  end.
