(* C14: executable model of
     dendropy.calculate.phylogeneticdistance.PhylogeneticDistanceMatrix
       (compile_from_tree, _mirror_lookups, accessors, mean_pairwise_distance,
        mean_nearest_taxon_distance, upgma_tree, nj_tree),
     dendropy.calculate.treemeasure.patristic_distance,
     Tree.mrca / Tree.encode_bipartitions(suppress_unifurcations=False) / collapse_basal_bifurcation
   (hand transcription; tied to the source by the correspondence check py/dv/c14.py).

   Trees are Model/Tree.v rose trees: lengths in Z units of 2^-10, None = Python None.
   Taxa are harness taxon indices (Z); nodes are harness node ids (Z).
   Python dicts are insertion-ordered association lists.  Quantities the code divides are Q.
   Iteration order of the set `_mapped_taxa` (Taxon objects hashed by id()) is an INPUT of the
   NJ / UPGMA models. *)
From Coq Require Import ZArith QArith Qabs List Bool.
From DV Require Import Model.PyPrims Model.Tree.
Import ListNotations.
Open Scope Z_scope.

(* ------------------------------------------------------------------ *)
(* Python dict with integer keys                                       *)
(* ------------------------------------------------------------------ *)
Definition dict (V : Type) := list (Z * V).

Fixpoint dget {V} (k : Z) (d : dict V) : option V :=
  match d with
  | [] => None
  | (k', v) :: r => if Z.eqb k k' then Some v else dget k r
  end.

(* d[k] = v : overwrite in place, or append *)
Fixpoint dset {V} (k : Z) (v : V) (d : dict V) : dict V :=
  match d with
  | [] => [(k, v)]
  | (k', v') :: r => if Z.eqb k k' then (k, v) :: r else (k', v') :: dset k v r
  end.

Definition dmem {V} (k : Z) (d : dict V) : bool :=
  match dget k d with Some _ => true | None => false end.

Definition dkeys {V} (d : dict V) : list Z := map fst d.

(* dict of dicts *)
Definition tbl (V : Type) := dict (dict V).

Definition tget2 {V} (a b : Z) (T : tbl V) : option V :=
  match dget a T with Some r => dget b r | None => None end.

(* T[a][b] = v ; KeyError when T has no row a *)
Definition tset2 {V} (a b : Z) (v : V) (T : tbl V) : res (tbl V) :=
  match dget a T with
  | Some r => Ok (dset a (dset b v r) T)
  | None => Err KeyErr
  end.

Definition memb (x : Z) (l : list Z) : bool := existsb (Z.eqb x) l.
Definition add_once (x : Z) (l : list Z) : list Z := if memb x l then l else l ++ [x].

(* ------------------------------------------------------------------ *)
(* PhylogeneticDistanceMatrix                                          *)
(* ------------------------------------------------------------------ *)
Record pdm := mkPdm {
  p_tree_length : Z;          (* _tree_length (units) *)
  p_num_edges : Z;            (* _num_edges *)
  p_dist : tbl Z;             (* _taxon_phylogenetic_distances (units) *)
  p_steps : tbl Z;            (* _taxon_phylogenetic_path_steps *)
  p_mrca : tbl Z;             (* _mrca (node ids) *)
  p_mapped : list Z;          (* _mapped_taxa (a set; here in insertion order) *)
  p_pairs : list (Z * Z);     (* _all_distinct_mapped_taxa_pairs (a set of frozensets) *)
  p_log : list (Z * Z)        (* ghost: every assignment
                                 _taxon_phylogenetic_distances[t1][t2] = pat_dist made by the
                                 pairing loop, in execution order *)
}.

Definition pdm_empty : pdm := mkPdm 0 0 [] [] [] [] [] [].

(* an entry of node.desc_paths: leaf node, its taxon, path length and steps down to it *)
Record pent := mkPent { pe_id : Z; pe_tax : option Z; pe_len : Z; pe_steps : Z }.

Definition len0 (t : tree) : Z := match t_len t with Some l => l | None => 0 end.

(* node.desc_paths[desc1] = (desc1_plen + c1_edge_length, desc1_psteps + 1, ..) *)
Definition bump (l : Z) (e : pent) : pent :=
  mkPent (pe_id e) (pe_tax e) (pe_len e + l) (pe_steps e + 1).

Definition pair_mem (a b : Z) (l : list (Z * Z)) : bool :=
  existsb (fun p => (Z.eqb (fst p) a && Z.eqb (snd p) b) || (Z.eqb (fst p) b && Z.eqb (snd p) a)) l.

(* the statements executed inside the loops of compile_from_tree that touch the matrix *)
Inductive op :=
| OFail                                   (* assert desc1.taxon is not None  fails *)
| OInit (a : Z) (leaf : Z)                (* if desc1.taxon not in ...: the 8 initialisations *)
| OPair (n : Z) (a : Z) (e1 : pent) (e2 : pent) (c2len : Z).
                                          (* body of the two innermost loops *)

Definition apply_op (o : op) (s : pdm) : res pdm :=
  match o with
  | OFail => Err AssertErr
  | OInit a leaf =>
    if dmem a (p_dist s) then Ok s
    else Ok (mkPdm (p_tree_length s) (p_num_edges s)
                   (dset a [(a, 0)] (p_dist s))
                   (dset a [(a, 0)] (p_steps s))
                   (dset a [(a, leaf)] (p_mrca s))
                   (add_once a (p_mapped s)) (p_pairs s) (p_log s))
  | OPair n a e1 e2 c2len =>
    match pe_tax e2 with
    | None => Ok s   (* desc2.taxon is None: the entries keyed by None are never observable,
                        because the assert fails when this leaf becomes desc1 (same node) *)
    | Some b =>
      let mapped := add_once b (p_mapped s) in
      do m <- tset2 a b n (p_mrca s) ;;
      let pairs := if pair_mem a b (p_pairs s) then p_pairs s else p_pairs s ++ [(a, b)] in
      do d <- tset2 a b (pe_len e1 + pe_len e2 + c2len) (p_dist s) ;;
      do st <- tset2 a b (pe_steps e1 + pe_steps e2 + 1) (p_steps s) ;;
      Ok (mkPdm (p_tree_length s) (p_num_edges s) d st m mapped pairs (p_log s ++ [(a, b)]))
    end
  end.

Definition run_ops (ops : list op) (s : pdm) : res pdm :=
  fold_left (fun r o => bind r (apply_op o)) ops (Ok s).

(* loops over  enumerate(children) / c1.desc_paths.items() / children[cidx1+1:] / c2.desc_paths.items()
   for the node with id n; cps = the children with their desc_paths tables *)
Fixpoint node_ops (n : Z) (cps : list (tree * list pent)) : list op :=
  match cps with
  | [] => []
  | (c1, p1) :: rest =>
    flat_map (fun e1 =>
                match pe_tax e1 with
                | None => [OFail]
                | Some a =>
                  OInit a (pe_id e1)
                  :: flat_map (fun cp2 => map (fun e2 => OPair n a (bump (len0 c1) e1) e2 (len0 (fst cp2)))
                                              (snd cp2)) rest
                end) p1
    ++ node_ops n rest
  end.

(* node.desc_paths of an internal node after the loops *)
Definition node_paths (cps : list (tree * list pent)) : list pent :=
  flat_map (fun cp => map (bump (len0 (fst cp))) (snd cp)) cps.

(* try: self._tree_length += node.edge.length except TypeError: pass ; self._num_edges += 1 *)
Definition count_edge (e : option Z) (s : pdm) : pdm :=
  mkPdm (match e with Some l => p_tree_length s + l | None => p_tree_length s end)
        (p_num_edges s + 1) (p_dist s) (p_steps s) (p_mrca s) (p_mapped s) (p_pairs s) (p_log s).

(* for node in tree.postorder_node_iter(): ...   returns node.desc_paths *)
Fixpoint comp (t : tree) (s : pdm) : res (list pent * pdm) :=
  match t with
  | T i x _ e ks =>
    do pss_s1 <- (fix go (ks : list tree) (s : pdm) : res (list (list pent) * pdm) :=
                    match ks with
                    | [] => Ok ([], s)
                    | k :: r =>
                      do p_s' <- comp k s ;;
                      do ps_s'' <- go r (snd p_s') ;;
                      Ok (fst p_s' :: fst ps_s'', snd ps_s'')
                    end) ks s ;;
    let s2 := count_edge e (snd pss_s1) in
    match ks with
    | [] => Ok ([mkPent i x 0 0], s2)
    | _ =>
      let cps := combine ks (fst pss_s1) in
      do s3 <- run_ops (node_ops i cps) s2 ;;
      Ok (node_paths cps, s3)
    end
  end.

(* _mirror_lookups for one of the three dictionaries *)
Definition mirror_row {V} (t1 : Z) (row : dict V) (T : tbl V) : res (tbl V) :=
  fold_left (fun r t2v =>
               do T' <- r ;;
               if dmem (fst t2v) T' then tset2 (fst t2v) t1 (snd t2v) T'
               else Err OtherErr (* ddata[taxon2] = {} while iterating ddata: RuntimeError *))
            row (Ok T).

Definition mirror_tbl {V} (T : tbl V) : res (tbl V) :=
  fold_left (fun r t1 =>
               do T' <- r ;;
               match dget t1 T' with
               | Some row => mirror_row t1 row T'
               | None => Err KeyErr
               end)
            (dkeys T) (Ok T).

Definition mirror (s : pdm) : res pdm :=
  do d <- mirror_tbl (p_dist s) ;;
  do st <- mirror_tbl (p_steps s) ;;
  do m <- mirror_tbl (p_mrca s) ;;
  Ok (mkPdm (p_tree_length s) (p_num_edges s) d st m (p_mapped s) (p_pairs s) (p_log s)).

(* PhylogeneticDistanceMatrix.from_tree(tree) / tree.phylogenetic_distance_matrix() *)
Definition compile_from_tree (t : tree) : res pdm :=
  do ps <- comp t pdm_empty ;;
  mirror (snd ps).

(* accessors *)
Definition key_get {V} (a b : Z) (T : tbl V) : res V :=
  match tget2 a b T with Some v => Ok v | None => Err KeyErr end.

Definition patristic_distance (p : pdm) (a b : Z) : res Z :=
  if Z.eqb a b then Ok 0 else key_get a b (p_dist p).

Definition path_edge_count (p : pdm) (a b : Z) : res Z :=
  if Z.eqb a b then Ok 0 else key_get a b (p_steps p).

Definition pdm_mrca (p : pdm) (a b : Z) : res Z := key_get a b (p_mrca p).

(* values the code divides: Q.  A length of z units is z / 1024. *)
(* Qred keeps the representation small; it does not change the rational (Qred_correct) *)
Definition uq (z : Z) : Q := Qred (Qmake z 1024).

(* _get_distance_matrix_and_normalization_factor: the matrix as Q and the factor *)
Definition dmatrix (p : pdm) (weighted : bool) (a b : Z) : res Q :=
  if weighted then do v <- key_get a b (p_dist p) ;; Ok (uq v)
  else do v <- key_get a b (p_steps p) ;; Ok (inject_Z v).

Definition norm_factor (p : pdm) (weighted normalize : bool) : Q :=
  if normalize then (if weighted then uq (p_tree_length p) else inject_Z (p_num_edges p)) else 1%Q.

(* patristic_distance / path_edge_count / distance with is_normalize_by_tree_size *)
Definition distance (p : pdm) (a b : Z) (weighted normalize : bool) : res Q :=
  if Z.eqb a b then Ok 0%Q
  else
    do d <- dmatrix p weighted a b ;;
    if normalize then
      (if Qeq_bool (norm_factor p weighted true) 0 then Err OtherErr (* ZeroDivisionError *)
       else Ok (d / norm_factor p weighted true)%Q)
    else Ok d.

Fixpoint res_map {A B} (f : A -> res B) (l : list A) : res (list B) :=
  match l with
  | [] => Ok []
  | x :: r => do y <- f x ;; do ys <- res_map f r ;; Ok (y :: ys)
  end.

Definition qsum (l : list Q) : Q := fold_right Qplus 0%Q l.

Definition passes (filt : option (list Z)) (a : Z) : bool :=
  match filt with None => true | Some l => memb a l end.

(* (sum(distances) / normalization_factor) / (len(distances) * 1.0), or NullAssemblageException *)
Definition mean_of (p : pdm) (weighted normalize : bool) (ds : list Q) : res Q :=
  match ds with
  | [] => Err ValueErr
  | _ =>
    let nf := norm_factor p weighted normalize in
    if Qeq_bool nf 0 then Err OtherErr
    else Ok ((qsum ds / nf) / inject_Z (Z.of_nat (length ds)))%Q
  end.

(* mean_pairwise_distance(filter_fn, is_weighted_edge_distances, is_normalize_by_tree_size) *)
Definition mean_pairwise_distance (p : pdm) (filt : option (list Z)) (weighted normalize : bool) : res Q :=
  if existsb (fun ab => Z.eqb (fst ab) (snd ab)) (p_pairs p) then Err ValueErr
     (* a frozenset of one element cannot be unpacked into t1, t2 *)
  else
    let regime := filter (fun ab => passes filt (fst ab) && passes filt (snd ab)) (p_pairs p) in
    do ds <- res_map (fun ab => dmatrix p weighted (fst ab) (snd ab)) regime ;;
    mean_of p weighted normalize ds.

(* _calculate_mean_nearest_taxon_distance: first strict minimum over the row's comparisons *)
Fixpoint min_from (m : Q) (l : list Q) : Q :=
  match l with
  | [] => m
  | d :: r => if Qlt_le_dec d m then min_from d r else min_from m r
  end.

Definition mean_nearest_taxon_distance (p : pdm) (filt : option (list Z)) (weighted normalize : bool) : res Q :=
  let mapped := p_mapped p in
  let rows := filter (fun a => passes filt a) mapped in
  let others a := filter (fun b => negb (Z.eqb a b) && passes filt b) mapped in
  (* a defaultdict entry exists only for taxa with at least one comparison *)
  let rows := filter (fun a => match others a with [] => false | _ => true end) rows in
  do mins <- res_map (fun a =>
                        do ds <- res_map (fun b => dmatrix p weighted a b) (others a) ;;
                        match ds with
                        | [] => Err IndexErr
                        | d0 :: r => Ok (min_from d0 r)
                        end) rows ;;
  mean_of p weighted normalize mins.

(* ------------------------------------------------------------------ *)
(* Tree.mrca                                                           *)
(* ------------------------------------------------------------------ *)

(* taxon namespace as far as mrca needs it: members in order: (taxon, accession index, label) *)
Record ns_ent := mkNsEnt { ne_taxon : Z; ne_bit : Z; ne_label : Z }.
Definition nspace := list ns_ent.

Fixpoint ns_bit (ns : nspace) (x : Z) : option Z :=
  match ns with
  | [] => None
  | e :: r => if Z.eqb (ne_taxon e) x then Some (ne_bit e) else ns_bit r x
  end.

(* taxon_bitmask: 1 << accession index; KeyError for a non-member *)
Definition taxon_bitmask (ns : nspace) (x : Z) : res Z :=
  match ns_bit ns x with Some i => Ok (Z.shiftl 1 i) | None => Err KeyErr end.

(* taxa_bitmask(taxa=...) *)
Fixpoint taxa_bitmask (ns : nspace) (l : list Z) (acc : Z) : res Z :=
  match l with
  | [] => Ok acc
  | x :: r => do m <- taxon_bitmask ns x ;; taxa_bitmask ns r (Z.lor acc m)
  end.

(* get_taxa(labels=...): every member matching each label, without repeats.
   (label ids are chosen by the harness so that equal id <-> labels equal under the
   namespace's case setting) *)
Definition get_taxa (ns : nspace) (labels : list Z) : list Z :=
  fold_left (fun acc l =>
               fold_left (fun acc e => if Z.eqb (ne_label e) l then add_once (ne_taxon e) acc else acc) ns acc)
            labels [].

Inductive mrca_arg :=
| ByMask (m : Z)
| ByTaxa (l : list Z)
| ByLabels (l : list Z)
| NoArg.

(* the tree object: structure, rooting flag, and the leafset bitmask stored on each node's edge
   (edge.bipartition.leafset_bitmask; 0 for an edge that has no bipartition yet) *)
Record mtree := mkMt { mt_tree : tree; mt_rooted : option bool; mt_enc : dict Z }.

Definition enc_get (enc : dict Z) (i : Z) : Z := match dget i enc with Some m => m | None => 0 end.

Definition nkids (t : tree) : Z := Z.of_nat (length (t_kids t)).

(* if to_del_edge.length is not None:
     if to_keep.edge.length is None: to_keep.edge.length = to_del_edge.length
     else: to_keep.edge.length += to_del_edge.length *)
Definition add_len (keep del : option Z) : option Z :=
  match del with
  | None => keep
  | Some b => match keep with None => Some b | Some a => Some (a + b) end
  end.

Definition set_len (t : tree) (l : option Z) : tree :=
  match t with T i x lb _ ks => T i x lb l ks end.

(* Tree.collapse_basal_bifurcation(set_as_unrooted_tree=True): returns the tree and whether it changed *)
Definition collapse_basal (t : tree) : tree * bool :=
  match t with
  | T i x lb e [c0; c1] =>
    if 2 <=? nkids c1 then
      (T i x lb e (set_len c0 (add_len (t_len c0) (t_len c1)) :: t_kids c1), true)
    else if 2 <=? nkids c0 then
      (T i x lb e (t_kids c0 ++ [set_len c1 (add_len (t_len c1) (t_len c0))]), true)
    else (t, false)
  | _ => (t, false)
  end.

(* leafset bitmasks assigned by encode_bipartitions: post-order, leaf = bit of its taxon (0 if
   the leaf has no taxon), internal = OR of the children.  Returns (node id, mask) in post-order,
   and the mask of t. *)
Fixpoint enc_fresh (ns : nspace) (t : tree) : res (dict Z * Z) :=
  match t with
  | T i x _ _ ks =>
    match ks with
    | [] =>
      do m <- match x with Some a => taxon_bitmask ns a | None => Ok 0 end ;;
      Ok ([(i, m)], m)
    | _ =>
      do r <- (fix go (ks : list tree) : res (dict Z * Z) :=
                 match ks with
                 | [] => Ok ([], 0)
                 | k :: rest =>
                   do a <- enc_fresh ns k ;;
                   do b <- go rest ;;
                   Ok (fst a ++ fst b, Z.lor (snd a) (snd b))
                 end) ks ;;
      Ok (fst r ++ [(i, snd r)], snd r)
    end
  end.

Definition is_true (o : option bool) : bool := match o with Some true => true | _ => false end.

(* encode_bipartitions(suppress_unifurcations=False) *)
Definition encode (ns : nspace) (mt : mtree) : res mtree :=
  let '(t', rooted') :=
     if negb (is_true (mt_rooted mt)) && (nkids (mt_tree mt) =? 2) then
       let (t', ch) := collapse_basal (mt_tree mt) in
       (t', if ch then Some false else mt_rooted mt)
     else (mt_tree mt, mt_rooted mt) in
  do f <- enc_fresh ns t' ;;
  (* new Bipartition objects on every edge of the tree; a node no longer in the tree keeps its old one *)
  Ok (mkMt t' rooted' (fst f ++ mt_enc mt)).

Fixpoint find_node (i : Z) (t : tree) : option tree :=
  if Z.eqb (t_id t) i then Some t
  else match t with
       | T _ _ _ _ ks =>
         (fix go (ks : list tree) : option tree :=
            match ks with
            | [] => None
            | k :: r => match find_node i k with Some s => Some s | None => go r end
            end) ks
       end.

(* while curr_node.num_child_nodes() == 1: curr_node, = curr_node.child_nodes() *)
Fixpoint stepdown (t : tree) : tree :=
  match t with
  | T _ _ _ _ [c] => stepdown c
  | _ => t
  end.

(* the root-to-tip loop.  visit t last = what happens when curr_node = t:
     None     -> cm & leafset_bitmask = 0: curr_node = next(nd_source)
     Some r   -> the loop returns node r *)
(* ee: the working tree has the early exit `if cm == leafset_bitmask: <step down unifurcations>;
   return curr_node` (observed by the harness; a repaired library may drop it, see
   tree_mrca_taxonless_leaf_refuted) *)
Fixpoint visit (ee : bool) (enc : dict Z) (sm : Z) (t : tree) (last : tree) : option tree :=
  let cm := enc_get enc (t_id t) in
  let cms := Z.land cm sm in
  if Z.eqb cms 0 then None
  else if Z.eqb cms sm then
    if Z.eqb cm sm && ee then Some (stepdown t)
    else
      match t with
      | T _ _ _ _ ks =>
        Some ((fix scan (ks : list tree) : tree :=
                 match ks with
                 | [] => t            (* StopIteration: return last_match (= t) *)
                 | k :: r => match visit ee enc sm k t with Some res => res | None => scan r end
                 end) ks)
      end
  else Some last.

Definition mrca_mask (ns : nspace) (arg : mrca_arg) : res Z :=
  match arg with
  | ByMask m => Ok m
  | ByTaxa l => taxa_bitmask ns l 0
  | ByLabels ls =>
    let taxa := get_taxa ns ls in
    if Nat.eqb (length taxa) (length ls) then taxa_bitmask ns taxa 0 else Err KeyErr
  | NoArg => Err TypeErr
  end.

(* Tree.mrca(<arg>, start_node=start, is_bipartitions_updated=updated)
   returns the node found (None = Python None) and the tree afterwards *)
Definition tree_mrca (ee : bool) (ns : nspace) (mt : mtree) (arg : mrca_arg) (start : option Z) (updated : bool)
  : res (option Z) * mtree :=
  let start_id := match start with Some i => i | None => t_id (mt_tree mt) end in
  match mrca_mask ns arg with
  | Err e => (Err e, mt)
  | OutOfFuel => (OutOfFuel, mt)
  | Ok sm =>
    if Z.eqb sm 0 then (Err ValueErr, mt)
    else
      let r := if Z.eqb (enc_get (mt_enc mt) start_id) 0 || negb updated then encode ns mt else Ok mt in
      match r with
      | Err e => (Err e, mt)
      | OutOfFuel => (OutOfFuel, mt)
      | Ok mt' =>
        (* the start node object: in the tree, or (when the refresh just collapsed it away) the
           detached node with its old children *)
        let st := match find_node start_id (mt_tree mt') with
                  | Some s => Some s
                  | None => find_node start_id (mt_tree mt)
                  end in
        match st with
        | None => (Err LookupErr, mt')   (* start_node is not a node of this tree: not modelled *)
        | Some s =>
          if negb (Z.eqb (Z.land (enc_get (mt_enc mt') start_id) sm) sm) then (Ok None, mt')
          else
            match visit ee (mt_enc mt') sm s s with
            | Some r => (Ok (Some (t_id r)), mt')
            | None => (Ok (Some (t_id s)), mt')   (* first next(nd_source): children of start; see below *)
            end
        end
      end
  end.
(* NOTE on the last branch: with curr_node = start_node the test (cm & S) == S has just succeeded
   and S <> 0, so cms <> 0 and `visit` never returns None there. *)

(* treemeasure.patristic_distance(tree, taxon1, taxon2, is_bipartitions_updated) *)
Fixpoint path_to (a : Z) (t : tree) : option (list tree) :=   (* first node in pre-order with taxon a: root..node *)
  if oz_eqb (t_taxon t) (Some a) then Some [t]
  else match t with
       | T _ _ _ _ ks =>
         (fix go (ks : list tree) : option (list tree) :=
            match ks with
            | [] => None
            | k :: r => match path_to a k with Some p => Some (t :: p) | None => go r end
            end) ks
       end.

(* n = found node; while n != mrca: dist += n.edge.length (unless None); n = n.parent_node
   `up` = the nodes from n upwards *)
Fixpoint climb (up : list tree) (target : option Z) (acc : Z) : res Z :=
  match up with
  | [] => match target with None => Ok acc | Some _ => Err AttrErr end   (* n is None *)
  | n :: r =>
    if oz_eqb (Some (t_id n)) target then Ok acc
    else climb r target (acc + len0 n)
  end.

Definition tm_patristic (ee : bool) (ns : nspace) (mt : mtree) (a b : Z) (updated : bool) : res Z * mtree :=
  match tree_mrca ee ns mt (ByTaxa [a; b]) None updated with
  | (Ok m, mt') =>
    let up x := match path_to x (mt_tree mt') with Some p => rev p | None => [] end in
    (do d1 <- climb (up a) m 0 ;; climb (up b) m d1, mt')
  | (Err e, mt') => (Err e, mt')
  | (OutOfFuel, mt') => (OutOfFuel, mt')
  end.

(* ------------------------------------------------------------------ *)
(* UPGMA and NJ                                                        *)
(* ------------------------------------------------------------------ *)
Inductive qtree : Type :=
| QT (id : Z) (taxon : option Z) (len : option Q) (kids : list qtree).

Definition q_id (t : qtree) := match t with QT i _ _ _ => i end.
Definition q_setlen (t : qtree) (l : Q) : qtree := match t with QT i x _ ks => QT i x (Some l) ks end.

(* original_dmatrix[nd1.taxon][nd2.taxon] *)
Definition mget (M : tbl Q) (a b : Z) : res Q := key_get a b M.

Definition qget (d : dict Q) (k : Z) : res Q :=
  match dget k d with Some v => Ok v | None => Err KeyErr end.

(* ---- UPGMA ---- *)
Record unode := mkU {
  u_tree : qtree;        (* the Node (id = q_id) with what hangs below it *)
  u_size : Z;            (* len(_upgma_cluster) *)
  u_tip : Q;             (* _upgma_distance_from_tip *)
  u_d : dict Q           (* _upgma_distances, keyed by node id *)
}.
Definition u_id (u : unode) := q_id (u_tree u).

(* all (nd1, nd2) with nd1 before nd2, in the order of the two nested loops *)
Fixpoint pairs_of {A} (l : list A) : list (A * A) :=
  match l with
  | [] => []
  | x :: r => map (fun y => (x, y)) r ++ pairs_of r
  end.

(* if min is None or v < min: keep the first strict minimum *)
Fixpoint argmin_first {A} (best : option (Q * A)) (l : list (Q * A)) : option (Q * A) :=
  match l with
  | [] => best
  | (v, x) :: r =>
    match best with
    | None => argmin_first (Some (v, x)) r
    | Some (m, _) => if Qlt_le_dec v m then argmin_first (Some (v, x)) r else argmin_first best r
    end
  end.

Definition remove_id {A} (idf : A -> Z) (i : Z) (l : list A) : list A :=
  (fix go (l : list A) : list A :=
     match l with
     | [] => []
     | x :: r => if Z.eqb (idf x) i then r else x :: go r
     end) l.

Definition upgma_init (M : tbl Q) (order : list Z) : res (list unode) :=
  let ids := combine (map Z.of_nat (seq 0 (length order))) order in
  res_map (fun ia : Z * Z =>
             do ds <- res_map (fun jb : Z * Z =>
                                 if Z.eqb (fst ia) (fst jb) then Ok None
                                 else
                                   (* nd1 before nd2: original_dmatrix[nd1.taxon][nd2.taxon] *)
                                   do d <- (if fst ia <? fst jb then mget M (snd ia) (snd jb)
                                            else mget M (snd jb) (snd ia)) ;;
                                   Ok (Some (fst jb, d))) ids ;;
             Ok (mkU (QT (fst ia) (Some (snd ia)) None [])
                     1 0%Q
                     (flat_map (fun o => match o with Some kv => [kv] | None => [] end) ds)))
          ids.

Definition upgma_step (pool : list unode) (next : Z) : res (list unode) :=
  do cands <- res_map (fun ab : unode * unode => do d <- qget (u_d (fst ab)) (u_id (snd ab)) ;; Ok (d, ab))
                      (pairs_of pool) ;;
  match argmin_first None cands with
  | None => Err TypeErr       (* min_distance / 2.0 with None: unreachable for len(pool) > 1 *)
  | Some (dmin, (j0, j1)) =>
    let elen := Qred (dmin / 2)%Q in
    let c0 := q_setlen (u_tree j0) (Qred (elen - u_tip j0)%Q) in
    let c1 := q_setlen (u_tree j1) (Qred (elen - u_tip j1)%Q) in
    let pool' := remove_id u_id (u_id j1) (remove_id u_id (u_id j0) pool) in
    let tip := Qred ((elen - u_tip j0) + u_tip j0)%Q in
    do ds <- res_map (fun nd1 =>
                        do d20 <- qget (u_d j0) (u_id nd1) ;;
                        do d21 <- qget (u_d j1) (u_id nd1) ;;
                        let d1 := (0 + d20 * inject_Z (u_size j0) + d21 * inject_Z (u_size j1))%Q in
                        let count := (u_size j0 + u_size j1)%Z in
                        Ok (u_id nd1, Qred (d1 / inject_Z count)%Q)) pool' ;;
    let pool'' := map (fun nd1 =>
                         mkU (u_tree nd1) (u_size nd1) (u_tip nd1)
                             (match dget (u_id nd1) ds with
                              | Some d => dset next d (u_d nd1)
                              | None => u_d nd1
                              end)) pool' in
    Ok (pool'' ++ [mkU (QT next None None [c0; c1]) (u_size j0 + u_size j1) tip ds])
  end.

Fixpoint upgma_loop (fuel : nat) (pool : list unode) (next : Z) : res qtree :=
  match pool with
  | [] => Err IndexErr                    (* node_pool[0] *)
  | [x] => Ok (u_tree x)
  | _ =>
    match fuel with
    | O => OutOfFuel
    | S f => do pool' <- upgma_step pool next ;; upgma_loop f pool' (next + 1)
    end
  end.

(* pdm.upgma_tree(); order = list(self._mapped_taxa) as iterated by this process *)
Definition upgma_tree (M : tbl Q) (order : list Z) : res qtree :=
  do pool <- upgma_init M order ;;
  upgma_loop (length order) pool (Z.of_nat (length order)).

(* ---- NJ ---- *)
Record jnode := mkJ {
  j_tree : qtree;
  j_d : dict Q;          (* _nj_distances, keyed by node id *)
  j_xsub : Q             (* _nj_xsub *)
}.
Definition j_id (j : jnode) := q_id (j_tree j).

Definition nj_init (M : tbl Q) (order : list Z) : res (list jnode) :=
  let ids := combine (map Z.of_nat (seq 0 (length order))) order in
  res_map (fun ia : Z * Z =>
             do ds <- res_map (fun jb : Z * Z =>
                                 if Z.eqb (fst ia) (fst jb) then Ok None
                                 else do d <- mget M (snd ia) (snd jb) ;; Ok (Some (fst jb, d))) ids ;;
             let row := flat_map (fun o => match o with Some kv => [kv] | None => [] end) ds in
             Ok (mkJ (QT (fst ia) (Some (snd ia)) None []) row
                     (Qred (fold_left (fun acc kv => (acc + snd kv)%Q) row 0%Q))))
          ids.

Definition nj_step (pool : list jnode) (n : Z) (next : Z) : res (list jnode) :=
  do cands <- res_map (fun ab : jnode * jnode =>
                         do d <- qget (j_d (fst ab)) (j_id (snd ab)) ;;
                         Ok ((inject_Z (n - 2) * d - j_xsub (fst ab) - j_xsub (snd ab))%Q, ab))
                      (pairs_of pool) ;;
  match argmin_first None cands with
  | None => Err TypeErr       (* for node_to_join in None: unreachable for n > 1 *)
  | Some (_, (j0, j1)) =>
    let pool' := remove_id j_id (j_id j1) (remove_id j_id (j_id j0) pool) in
    do v3 <- qget (j_d j0) (j_id j1) ;;
    (* distances of the new node, and the adjusted row sums of the others *)
    do upd <- res_map (fun node =>
                         do a0 <- qget (j_d node) (j_id j0) ;;
                         do a1 <- qget (j_d node) (j_id j1) ;;
                         let dist := Qred ((1 # 2) * ((0 + a0 + a1) - v3))%Q in
                         do b0 <- qget (j_d j0) (j_id node) ;;
                         do b1 <- qget (j_d j1) (j_id node) ;;
                         Ok (mkJ (j_tree node) (dset next dist (j_d node))
                                 (Qred (j_xsub node + dist - b0 - b1)%Q), dist)) pool' ;;
    let new_d := map (fun nd => (j_id (fst nd), snd nd)) upd in
    let new_x := Qred (fold_left (fun acc nd => (acc + snd nd)%Q) upd 0%Q) in
    (* branch lengths *)
    let '(l0, l1) :=
       if 2 <? n then
         let v1 := ((1 # 2) * v3)%Q in
         let v4 := ((1 / inject_Z (2 * (n - 2))) * (j_xsub j0 - j_xsub j1))%Q in
         let delta_f := Qred (v1 + v4)%Q in
         (delta_f, Qred (v3 - delta_f)%Q)
       else (Qred (v3 / 2)%Q, Qred (v3 / 2)%Q) in
    Ok (map fst upd ++ [mkJ (QT next None None [q_setlen (j_tree j0) l0; q_setlen (j_tree j1) l1]) new_d new_x])
  end.

Fixpoint nj_loop (fuel : nat) (pool : list jnode) (n : Z) (next : Z) : res qtree :=
  if 1 <? n then
    match fuel with
    | O => OutOfFuel
    | S f => do pool' <- nj_step pool n next ;; nj_loop f pool' (n - 1) (next + 1)
    end
  else
    match pool with
    | [] => Err IndexErr
    | x :: _ => Ok (j_tree x)
    end.

(* pdm.nj_tree(); order = list(self._mapped_taxa) as iterated by this process *)
Definition nj_tree (M : tbl Q) (order : list Z) : res qtree :=
  do pool <- nj_init M order ;;
  nj_loop (length order) pool (Z.of_nat (length order)) (Z.of_nat (length order)).

(* the matrix a pdm hands to nj_tree / upgma_tree *)
Definition qtable (p : pdm) (weighted : bool) : tbl Q :=
  if weighted then map (fun r => (fst r, map (fun kv => (fst kv, uq (snd kv))) (snd r))) (p_dist p)
  else map (fun r => (fst r, map (fun kv => (fst kv, inject_Z (snd kv))) (snd r))) (p_steps p).

(* ------------------------------------------------------------------ *)
(* Correspondence cases                                                *)
(* ------------------------------------------------------------------ *)
Definition qclose (eps m o : Q) : bool := Qle_bool (Qabs (m - o)) (eps * (1 + Qabs m)).

Definition resq_close (eps : Q) (m o : res Q) : bool :=
  match m, o with
  | Ok a, Ok b => qclose eps a b
  | Err e, Err f => err_eqb e f
  | _, _ => false
  end.

Definition eps12 : Q := 1 # 1000000000000.
Definition eps9 : Q := 1 # 1000000000.

Inductive mean_kind := MPD | MNTD.

Record pdm_obs := mkPdmObs {
  po_taxa : list Z;                 (* sorted(_mapped_taxa) *)
  po_tree_length : Z;
  po_num_edges : Z;
  po_dist : list (list Z);          (* raw dictionaries, rows/columns in po_taxa order; -1 = no entry *)
  po_steps : list (list Z);
  po_mrca : list (list Z);
  po_npairs : Z;                    (* len(_all_distinct_mapped_taxa_pairs) *)
  po_acc : list (Z * Z * bool * bool * res Q);              (* distance(a, b, weighted, normalize) *)
  po_means : list (mean_kind * option (list Z) * bool * bool * res Q)
}.

Definition raw {V} (dflt : V) (T : tbl V) (taxa : list Z) : list (list V) :=
  map (fun a => map (fun b => match tget2 a b T with Some v => v | None => dflt end) taxa) taxa.

Definition zll_eqb (a b : list (list Z)) : bool := list_eqb (list_eqb Z.eqb) a b.

Fixpoint insert_sorted (x : Z) (l : list Z) : list Z :=
  match l with
  | [] => [x]
  | y :: r => if x <=? y then x :: l else y :: insert_sorted x r
  end.
Definition zsort (l : list Z) : list Z := fold_right insert_sorted [] l.

Definition pdm_obs_ok (p : pdm) (o : pdm_obs) : bool :=
  list_eqb Z.eqb (zsort (p_mapped p)) (po_taxa o)
  && Z.eqb (p_tree_length p) (po_tree_length o)
  && Z.eqb (p_num_edges p) (po_num_edges o)
  && zll_eqb (raw (-1) (p_dist p) (po_taxa o)) (po_dist o)
  && zll_eqb (raw (-1) (p_steps p) (po_taxa o)) (po_steps o)
  && zll_eqb (raw (-1) (p_mrca p) (po_taxa o)) (po_mrca o)
  && Z.eqb (Z.of_nat (length (p_pairs p))) (po_npairs o)
  && forallb (fun q => match q with (a, b, w, n, r) => resq_close eps12 (distance p a b w n) r end) (po_acc o)
  && forallb (fun q => match q with
                       | (MPD, f, w, n, r) => resq_close eps12 (mean_pairwise_distance p f w n) r
                       | (MNTD, f, w, n, r) => resq_close eps12 (mean_nearest_taxon_distance p f w n) r
                       end) (po_means o).

Inductive mquery :=
| QMrca (arg : mrca_arg) (start : option Z) (updated : bool)
| QTm (a b : Z) (updated : bool).

Inductive mres :=
| MRnode (r : res (option Z))
| MRdist (r : res Z).

Record mobs := mkMobs {
  mo_res : mres;
  mo_tree : option (tree * option bool);   (* the tree and is_rooted after the call, when changed *)
  mo_enc : option (list (Z * Z))           (* stored leafset bitmask of every node of the tree (pre-order), when changed *)
}.

Definition ob_eqb (a b : option bool) : bool := option_eqb Bool.eqb a b.

Definition mres_eqb (a b : mres) : bool :=
  match a, b with
  | MRnode x, MRnode y => res_eqb (option_eqb Z.eqb) x y
  | MRdist x, MRdist y => res_eqb Z.eqb x y
  | _, _ => false
  end.

Definition enc_of (mt : mtree) : list (Z * Z) :=
  map (fun n => (t_id n, enc_get (mt_enc mt) (t_id n))) (preorder (mt_tree mt)).

Definition zz_eqb (a b : Z * Z) : bool := Z.eqb (fst a) (fst b) && Z.eqb (snd a) (snd b).

Definition mstep (ee : bool) (ns : nspace) (mt : mtree) (q : mquery) : mres * mtree :=
  match q with
  | QMrca arg start updated => let (r, mt') := tree_mrca ee ns mt arg start updated in (MRnode r, mt')
  | QTm a b updated => let (r, mt') := tm_patristic ee ns mt a b updated in (MRdist r, mt')
  end.

Fixpoint mrun_ok (ee : bool) (ns : nspace) (mt : mtree) (qs : list (mquery * mobs)) : bool :=
  match qs with
  | [] => true
  | (q, o) :: rest =>
    let (r, mt') := mstep ee ns mt q in
    mres_eqb r (mo_res o)
    && match mo_tree o with
       | Some (t', rt') => tree_eqb (mt_tree mt') t' && ob_eqb (mt_rooted mt') rt'
       | None => tree_eqb (mt_tree mt') (mt_tree mt) && ob_eqb (mt_rooted mt') (mt_rooted mt)
       end
    && match mo_enc o with
       | Some e => list_eqb zz_eqb (enc_of mt') e
       | None => list_eqb zz_eqb (enc_of mt') (enc_of mt)
       end
    && mrun_ok ee ns mt' rest
  end.

Inductive msrc :=
| SrcTree (t : tree) (weighted : bool)               (* tree.phylogenetic_distance_matrix() *)
| SrcMat (taxa : list Z) (rows : list (list (option Q))).   (* dictionaries as read (e.g. from CSV) *)

Definition src_table (s : msrc) : res (tbl Q) :=
  match s with
  | SrcTree t w => do p <- compile_from_tree t ;; Ok (qtable p w)
  | SrcMat taxa rows =>
    Ok (map (fun ar => (fst ar,
                        flat_map (fun bv => match snd bv with Some v => [(fst bv, v)] | None => [] end)
                                 (combine taxa (snd ar))))
            (combine taxa rows))
  end.

Fixpoint qtree_close (eps : Q) (m o : qtree) : bool :=
  match m, o with
  | QT _ x l ks, QT _ x' l' ks' =>
    oz_eqb x x'
    && match l, l' with
       | None, None => true
       | Some a, Some b => qclose eps a b
       | _, _ => false
       end
    && (fix go (p q : list qtree) : bool :=
          match p, q with
          | [], [] => true
          | a :: r1, b :: r2 => qtree_close eps a b && go r1 r2
          | _, _ => false
          end) ks ks'
  end.

Inductive case :=
| CPdm (t : tree) (exp : res pdm_obs)
| CMrca (ee : bool) (ns : nspace) (t : tree) (rooted : option bool) (enc : dict Z) (qs : list (mquery * mobs))
| CClu (src : msrc) (order : list Z) (nj : bool) (exp : res qtree).

Definition case_ok (c : case) : bool :=
  match c with
  | CPdm t exp =>
    match compile_from_tree t, exp with
    | Ok p, Ok o => pdm_obs_ok p o
    | Err e, Err f => err_eqb e f
    | _, _ => false
    end
  | CMrca ee ns t rooted enc qs => mrun_ok ee ns (mkMt t rooted enc) qs
  | CClu src order nj exp =>
    let r := do M <- src_table src ;; if nj then nj_tree M order else upgma_tree M order in
    match r, exp with
    | Ok m, Ok o => qtree_close eps9 m o
    | Err e, Err f => err_eqb e f
    | _, _ => false
    end
  end.

(* diagnostics for replays *)
Definition case_show (c : case) :=
  match c with
  | CPdm t _ =>
    (match compile_from_tree t with
     | Ok p => Ok (p_tree_length p, p_num_edges p, p_dist p, p_steps p, p_mrca p, p_mapped p, p_pairs p)
     | Err e => Err e | OutOfFuel => OutOfFuel end,
     @nil (mres * option bool), @Err qtree OtherErr)
  | CMrca ee ns t rooted enc qs =>
    (@Err (Z * Z * tbl Z * tbl Z * tbl Z * list Z * list (Z * Z)) OtherErr,
     snd (fold_left (fun acc qo => let (r, mt') := mstep ee ns (fst acc) (fst qo) in (mt', snd acc ++ [(r, mt_rooted mt')]))
                    qs (mkMt t rooted enc, [])),
     @Err qtree OtherErr)
  | CClu src order nj _ =>
    (@Err (Z * Z * tbl Z * tbl Z * tbl Z * list Z * list (Z * Z)) OtherErr, @nil (mres * option bool),
     do M <- src_table src ;; if nj then nj_tree M order else upgma_tree M order)
  end.
