(* C02: specification-side definitions for the round trip of trees that carry rooting state, weight,
   annotations and comments (statements in Props/C02.v, section "metadata").  Definitions only. *)
From Coq Require Import ZArith List Bool.
From DV Require Import Model.PyPrims Gen.CharClasses Model.Tokenizer Model.Newick Model.C02Spec Model.C02Meta.
Import ListNotations.
Open Scope Z_scope.

(* ---- admissibility of comment texts ---- *)

(* a comment text survives "[" text "]" + Tokenizer._handle_comment exactly when it contains no
   bracket: the tokenizer counts nested brackets and drops them from the captured text *)
Definition bracket_free (c : str) : bool :=
  forallb (fun ch => negb (ch =? LBRACK) && negb (ch =? RBRACK)) c.

(* a comment in front of the tree statement must not read as a rooting or (under store_tree_weights)
   weight comment: _process_tree_comments tests the STRIPPED text *)
Definition tree_comment_ok (sw : bool) (c : str) : bool :=
  bracket_free c
  && negb (mem_str (py_strip c) reader_rooting_comments)
  && negb (sw && existsb (fun p => starts_with p (py_strip c)) reader_weight_prefixes).

(* a comment that process_comments_for_item leaves a comment whatever the metadata parser does *)
Definition plain_comment (ex : bool) (c : str) : bool := negb (ex && starts_with [AMP] c).

(* characters of the numerals used in a weight expression: no bracket, no "/", no whitespace
   (true of "{}".format of a float or an int) *)
Definition weight_char (c : Z) : bool :=
  negb (c =? LBRACK) && negb (c =? RBRACK) && negb (c =? SLASH) && negb (py_isspace c).

Section MSpec.
Variable L : Type.
Variable wdiv : L -> L -> option L.

Notation ntree := (ntree L).
Notation ptree := (ptree L).
Notation ctree := (ctree L).

(* option setting of one round trip with metadata *)
Record mt_opts : Type := mkMtOpts {
  mo_rt : rt_opts;       (* the options of newick_roundtrip *)
  mo_sw : bool;          (* store_tree_weights, writer and reader *)
  mo_sa : bool;          (* writer suppress_annotations *)
  mo_sic : bool;         (* writer suppress_item_comments *)
  mo_ex : bool           (* reader extract_comment_metadata *)
}.

Definition mo_wopts (mo : mt_opts) : mwopts :=
  mkMwopts (rt_wopts (mo_rt mo)) (mo_sw mo) (mo_sa mo) (mo_sic mo).

Definition mo_ropts (mo : mt_opts) (dw : L) : mropts L :=
  mkMropts L (rt_ropts (mo_rt mo)) (mo_sw mo) (mo_ex mo) dw.

Variable mo : mt_opts.
Let o := mo_rt mo.

(* the comment texts written after the node's tag and edge length *)
Definition cm (t : ctree) : list str := node_comment_texts L (mo_wopts mo) t.

(* every comment text written inside the statement is bracket free *)
Fixpoint comments_ok (t : ctree) : bool :=
  match t with
  | CNd _ _ _ _ ks => forallb bracket_free (node_comment_texts L (mo_wopts mo) t) && forallb comments_ok ks
  end.

Definition is_cleaf (t : ctree) : bool := is_nil (c_kids L t).

(* the domain of the node part: newick_roundtrip's domain for the undecorated tree, bracket-free
   comment texts *)
Definition cwf (t : ctree) : bool := wf_tree L o (strip L t) && comments_ok t.

(* the tree the reader builds (before metadata extraction): as C02Spec.expect, every node carrying
   the comment texts written for it, node comments before edge comments *)
Fixpoint cexpect (t : ctree) (i : nat) : ptree * nat :=
  match t with
  | CNd tx lb ln m ks =>
    let '(pks, j) :=
        (fix go (ks : list ctree) (i : nat) : list ptree * nat :=
           match ks with
           | [] => ([], i)
           | k :: r => let '(p, j) := cexpect k i in
                       let '(ps, j') := go r j in (p :: ps, j')
           end) ks i in
    let lbl := if is_nil ks then None else if rt_it o then None else lb in
    let cs := node_comment_texts L (mo_wopts mo) t in
    if is_nil ks || rt_it o
    then match tx with
         | Some _ => (PN (Some j) lbl ln cs pks, S j)
         | None => (PN None lbl ln cs pks, j)
         end
    else (PN None lbl ln cs pks, j)
  end.

Fixpoint cexpect_list (ks : list ctree) (i : nat) : list ptree * nat :=
  match ks with
  | [] => ([], i)
  | k :: r => let '(p, j) := cexpect k i in
              let '(ps, j') := cexpect_list r j in (p :: ps, j')
  end.

(* ---- tree level ---- *)
Notation mtree := (mtree L).

Definition weight_value (w : weight L) : option L :=
  match w with WNum x => Some x | WFrac n d => wdiv n d end.

(* the division of a fraction weight is defined (a Fraction never has denominator 0) *)
Definition weight_ok (t : mtree) : bool :=
  match mt_weight L t with
  | Some w => if mo_sw mo then match weight_value w with Some _ => true | None => false end else true
  | None => true
  end.

(* tree.weight after the round trip: untouched without store_tree_weights, the value of the
   expression, default_tree_weight for a tree without weight *)
Definition expected_weight (dw : L) (t : mtree) : option L :=
  if mo_sw mo then
    Some (match mt_weight L t with
          | Some w => match weight_value w with Some q => q | None => dw end
          | None => dw
          end)
  else None.

(* the comment texts written directly in front of the statement *)
Definition tcm (t : mtree) : list str := tree_comment_texts L (mo_wopts mo) t.

(* a single-node tree (the statement starts with the node's label, not with "(") must carry no
   comment texts on the tree and on the node: see single_node_comments_refuted *)
Definition root_ok (t : mtree) : bool :=
  negb (is_cleaf (mt_root L t)) || (is_nil (tcm t) && is_nil (cm (mt_root L t))).

Definition mwf (t : mtree) : bool :=
  cwf (mt_root L t) && forallb (tree_comment_ok (mo_sw mo)) (tcm t) && root_ok t && weight_ok t
  && rooting_consistent o (mt_rooted L t).

(* all comment texts of the document stay comments under process_comments_for_item *)
Fixpoint plain_tree (t : ctree) : bool :=
  match t with
  | CNd _ _ _ _ ks => forallb (plain_comment (mo_ex mo)) (node_comment_texts L (mo_wopts mo) t) && forallb plain_tree ks
  end.

Definition plain_mtree (t : mtree) : bool :=
  forallb (plain_comment (mo_ex mo)) (tcm t) && plain_tree (mt_root L t).

End MSpec.

(* a delivered tree whose comments were all left as comments *)
Fixpoint as_plain {L RA : Type} (p : Newick.ptree L) : mptree L RA :=
  match p with PN tx lb ln cs ks => MPN tx lb ln [] cs (map as_plain ks) end.
