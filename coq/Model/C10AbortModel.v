(* C10, eighth wave: batch additions that FAIL PART-WAY.

   TaxonNamespace.add_taxa(iterable) / new_taxa(iterable) consume an arbitrary Python iterable.  The
   iterable itself may fail after it has handed over k elements (a generator that raises on a bad
   row, an iterator whose __next__ raises), or its (k+1)-th element may be one the namespace cannot
   even test for membership (unhashable: TypeError from `t in self._taxon_accession_index_map`).
   Both loops are `for x in it: self.add_taxon(x)` / `taxa.append(self.new_taxon(label=x))`, every
   call of add_taxon writes all four fields (_taxa, both index maps, _current_accession_count) before
   the next element is requested, so the exception leaves the namespace in the state reached after
   the first k elements - the SAME state a successful batch of exactly those k elements produces -
   and propagates to the caller.

   `AddTaxaAbort ts e` / `NewTaxaAbort ls e`: the iterable yields ts (ls) and then fails with e.
   The namespace's own refusal (immutable namespace) comes first: for add_taxa at the first element
   that is not a member, for new_taxa before the iterable is touched; in both cases nothing was
   changed (Proofs/C10Inv.v add_taxa_err_unchanged). *)
From Coq Require Import ZArith List Bool.
From DV Require Import Model.PyPrims Model.C10Model.
Import ListNotations.
Open Scope Z_scope.

Inductive aop :=
| ABase (o : op)
| AddTaxaAbort (ts : list tid) (e : err)
| NewTaxaAbort (ls : list lbl) (e : err).

(* the successful batch over exactly the elements that were handed over *)
Definition base_of (a : aop) : op :=
  match a with
  | ABase o => o
  | AddTaxaAbort ts _ => AddTaxa ts
  | NewTaxaAbort ls _ => NewTaxa ls
  end.

Section WithLower.
Variable lower : lbl -> lbl.

Definition astep (w : world) (a : aop) : world * out :=
  match a with
  | ABase o => step lower w o
  | AddTaxaAbort ts e =>
    match add_taxa (w_ns w) ts with
    | Ok n' => (set_ns w n', OErr e)          (* k elements accessioned, then the iterable's error *)
    | Err e' => (w, OErr e')                  (* immutable namespace, first non-member: untouched *)
    | OutOfFuel => (w, OErr Hang)
    end
  | NewTaxaAbort ls e =>
    if negb (is_mut (w_ns w)) then (w, OErr TypeErr)
    else match new_taxa w ls [] with
         | Ok (w', _) => (w', OErr e)         (* the list of new Taxon objects is lost with the exception *)
         | Err e' => (w, OErr e')
         | OutOfFuel => (w, OErr Hang)
         end
  end.

Fixpoint arun (w : world) (ops : list aop) : list (out * list (tid * Z)) :=
  match ops with
  | [] => []
  | o :: r => let '(w', x) := astep w o in (x, observe w') :: arun w' r
  end.

Definition arun_world (w : world) (ops : list aop) : world :=
  fold_left (fun w o => fst (astep w o)) ops w.

End WithLower.

Record acase := mkACase {
  ac_lower : list (lbl * lbl);
  ac_free : list (tid * lbl);
  ac_cs : bool;
  ac_ops : list aop;
  ac_expected : list (out * list (tid * Z))
}.

Definition acase_world (c : acase) : world :=
  mkW (mkNs [] [] [] 0 [] true (ac_cs c)) (ac_free c) (Z.of_nat (length (ac_free c))).

Definition acase_run (c : acase) := arun (tbl_lower (ac_lower c)) (acase_world c) (ac_ops c).

Definition acase_ok (c : acase) : bool := list_eqb step_eqb (acase_run c) (ac_expected c).
