(* C18 - translator tie: coq/Gen/Sim.v is regenerated on every run from the CURRENT Python source
   (py/dv/gen_sim.py, fail closed) over the primitives of Model/C18Prims.v; each generated function
   is proved equal to the corresponding function of the hand-written model Model/C18Model.v, so the
   theorems of Props/C18.v hold of the generated code by rewriting.  An edit of the Python source
   changes Gen/Sim.v and breaks these proofs. *)
From Coq Require Import QArith ZArith List Bool Arith Permutation.
From DV Require Import Model.C18Model Model.C18Prims Model.C18MeanModel Model.C18DiscPrims Model.C18DiscModel Gen.Sim.
From DV Require Import Proofs.C18Lists Proofs.C18Tree Proofs.C18Monad Proofs.C18BD Proofs.C18PB Proofs.C18Coal Proofs.C18GenCoal Proofs.C18GenBD Proofs.C18GenPB Proofs.C18GenTaxa Proofs.C18GenPrune Proofs.C18GenPruneEq Proofs.C18CC Proofs.C18GenCC Proofs.C18FBD Proofs.C18GenFBD Proofs.C18GenMean Proofs.C18Disc Proofs.C18GenDisc.
From DV Require Model.PyPrims.
Import ListNotations.
Open Scope nat_scope.

(* calculate/probability.py *)
Theorem gen_weighted_index_choice_is_model : forall ws r,
  gen_weighted_index_choice ws r = weighted_index_choice ws r.
Proof. exact gen_weighted_index_choice_eq. Qed.
Print Assumptions gen_weighted_index_choice_is_model.

(* weighted_choice(seq, weights) called, as birth_death_tree does, with one weight per element *)
Theorem gen_weighted_choice_is_model : forall (A : Type) (seq : list A) ws r,
  length ws = length seq ->
  gen_weighted_choice seq ws r =
  (let! oi := weighted_index_choice ws in
   match oi with
   | None => raise PyPrims.TypeErr
   | Some i => match nth_error seq i with Some a => ret a | None => raise PyPrims.IndexErr end
   end) r.
Proof. exact gen_weighted_choice_eq. Qed.
Print Assumptions gen_weighted_choice_is_model.

(* model/coalescent.py *)
Theorem gen_time_to_coalescence_is_model : forall n pop r, 1 < n ->
  gen_time_to_coalescence n pop r = (let! e := d_exp (choose2 n) in ret (e * time_units pop)%Q) r.
Proof. exact gen_time_to_coalescence_eq. Qed.
Print Assumptions gen_time_to_coalescence_is_model.

Theorem gen_coalesce_nodes_is_model : forall pop period nodes r,
  gen_coalesce_nodes pop period nodes r = coalesce_nodes pop period nodes r.
Proof. exact gen_coalesce_nodes_eq. Qed.
Print Assumptions gen_coalesce_nodes_is_model.

(* taxon_namespace = the taxa 0 .. N-1 *)
Theorem gen_pure_kingman_tree_is_model : forall N pop r,
  gen_pure_kingman_tree (seq 0 N) pop r = kingman_run N pop r.
Proof. exact gen_pure_kingman_tree_eq. Qed.
Print Assumptions gen_pure_kingman_tree_is_model.

(* model/coalescent.py: contained_coalescent_tree, the whole function: the two passes over the
   post-order of the containing tree with the dictionary pop_node_genes (keyed by node; every edge
   hands the lineages that coalesce_nodes leaves after period = edge.length to pop_node_genes of its
   tail node; the edge of the seed node coalesces the rest) = the recursive walk cc_run of the model,
   for containing trees whose node identities are distinct.  Input abstraction (Model/C18Prims.v,
   checked as AST shapes by the translator): genes of a node = `nd.taxon and nd.taxon in reverse` /
   `sorted(reverse[nd.taxon], key=accession_index)`; pop = the edge's population-size attribute or
   the default *)
Theorem gen_contained_coalescent_tree_is_model : forall S r, NoDup (sids S) ->
  gen_contained_coalescent_tree S r = cc_run S r.
Proof. exact gen_contained_coalescent_tree_eq. Qed.
Print Assumptions gen_contained_coalescent_tree_is_model.

(* ... so contained_spec holds of the translated code *)
Theorem gen_contained_spec : forall (S : stree) (script : list draw) (g : gtree) (r : rs),
  gen_contained_coalescent_tree S (script, []) = Done g r ->
  NoDup (sids S) ->
  NoDup (sgenes S) ->
  (forall c, In c (ssubtrees S) -> (0 <= lenq (s_len c))%Q /\ (0 <= s_pop c)%Q) ->
  (forall q, In (DExp q) script -> (0 <= q)%Q) ->
  (forall c x y h,
     In c (flat_map ssubtrees (s_kids S)) -> In x (sgenes c) -> ~ In y (sgenes c) ->
     joins g x y h -> (up_len c x <= h)%Q) /\
  (forall s, In s (gsubtrees g) -> length (g_kids s) = 0 \/ length (g_kids s) = 2).
Proof. exact gen_contained_spec_proved. Qed.
Print Assumptions gen_contained_spec.

(* model/coalescent.py: mean_kingman_tree (outside the property's list; shares coalesce_nodes):
   expected_tmrca, coalesce_nodes specialised to use_expected_tmrca=True and mean_kingman_tree are
   translated and equal the reference model Model/C18MeanModel.v (waiting time of a round with n
   lineages = 1 / choose(n, 2) * pop_size, the only draws are the sampled pairs) *)
Theorem gen_coalesce_nodes_mean_is_model : forall pop period nodes r,
  gen_coalesce_nodes_mean pop period nodes r = coalesce_nodes_mean pop period nodes r.
Proof. exact gen_coalesce_nodes_mean_eq. Qed.
Print Assumptions gen_coalesce_nodes_mean_is_model.

Theorem gen_mean_kingman_tree_is_model : forall N pop r,
  gen_mean_kingman_tree (seq 0 N) pop r = mean_kingman_run N pop r.
Proof. exact gen_mean_kingman_tree_eq. Qed.
Print Assumptions gen_mean_kingman_tree_is_model.

(* the translated mean_kingman_tree returns one leaf per taxon, a binary and ultrametric tree, for
   every script, and terminates *)
Theorem gen_mean_kingman_spec : forall N pop script t r,
  gen_mean_kingman_tree (seq 0 N) pop (script, []) = Done t r ->
  Permutation (gleaf_taxa t) (map Some (seq 0 N)) /\
  (forall s, In s (gsubtrees t) -> length (g_kids s) = 0 \/ length (g_kids s) = 2) /\
  (exists D, forall x h, In (x, h) (gtips t) -> h == D)%Q.
Proof. exact gen_mean_kingman_spec_proved. Qed.
Print Assumptions gen_mean_kingman_spec.

Theorem gen_mean_kingman_terminates : forall N pop script,
  gen_mean_kingman_tree (seq 0 N) pop (script, []) <> NoFuel.
Proof. exact gen_mean_kingman_terminates_proved. Qed.
Print Assumptions gen_mean_kingman_terminates.

(* the specification of Props/C18.v, of the generated pure_kingman_tree *)
Theorem gen_kingman_spec : forall N pop script t r,
  gen_pure_kingman_tree (seq 0 N) pop (script, []) = Done t r ->
  Permutation (gleaf_taxa t) (map Some (seq 0 N)) /\
  (forall s, In s (gsubtrees t) -> length (g_kids s) = 0 \/ length (g_kids s) = 2) /\
  (exists D, forall x h, In (x, h) (gtips t) -> h == D)%Q.
Proof. exact gen_kingman_spec_proved. Qed.
Print Assumptions gen_kingman_spec.

(* model/birthdeath.py: birth_death_tree from its first statement to the end of the event loop
   (num_extant_tips = N, taxon_namespace and rng passed, every other option at the default written in
   the source: no GSA, no max_time, ...).  The generated code threads the tree, the two rate
   attribute stores, the next fresh identity and the local variables extant_tips, extinct_tips,
   total_time; it equals bd_loop started from bd_init.  (The proof goes through the loop invariant
   bd_inv of Props/C18.v: the generated per-node statements agree with the model's bulk operations
   because node identities are unique and extant tips are leaves.) *)
Theorem gen_birth_death_tree_loop_is_model : forall b d sb sd N ns r, 1 <= N ->
  gen_birth_death_tree_loop b d sb sd N ns r =
  match bd_loop (S (length (fst r))) (mkBdp b d sb sd N) (bd_init (mkBdp b d sb sd N)) r with
  | Done st r' => Done (s_tr st, s_ext st, s_dead st, s_brates st, s_drates st, s_next st, s_time st) r'
  | Exhausted => Exhausted
  | BadScript => BadScript
  | PyErr e => PyErr e
  | NoFuel => NoFuel
  end.
Proof. exact gen_birth_death_tree_loop_eq. Qed.
Print Assumptions gen_birth_death_tree_loop_is_model.

(* one generated pass of `while True:` = the termination test followed by bd_body *)
Theorem gen_birth_death_tree_pass_is_model : forall b d sb sd N st r,
  bd_inv N st ->
  (forall x, In x (s_ext st) \/ x = 0 -> b_has (s_brates st) x = true /\ b_has (s_drates st) x = true) ->
  gen_birth_death_tree_loop_while4 b d sb sd N [0] []
    (s_brates st, s_drates st, s_tr st, s_time st, s_ext st, s_next st, s_dead st) r =
  (if N <=? length (s_ext st)
   then Done (CBreak (R := Empty_set) (s_brates st, s_drates st, s_tr st, s_time st, s_ext st, s_next st, s_dead st)) r
   else match bd_body (mkBdp b d sb sd N) st r with
        | Done st' r' => Done (CNext (R := Empty_set) (s_brates st', s_drates st', s_tr st', s_time st', s_ext st', s_next st', s_dead st')) r'
        | Exhausted => Exhausted
        | BadScript => BadScript
        | PyErr e => PyErr e
        | NoFuel => NoFuel
        end).
Proof. exact gen_bd_pass. Qed.
Print Assumptions gen_birth_death_tree_pass_is_model.

(* the loop invariant of Props/C18.v and the tip count, of the generated loop *)
Theorem gen_birth_death_tree_loop_invariant : forall b d sb sd N ns r tr ext dead br dr next time r',
  1 <= N ->
  gen_birth_death_tree_loop b d sb sd N ns r = Done (tr, ext, dead, br, dr, next, time) r' ->
  bd_inv N (mkSt tr ext dead br dr next time) /\ length ext = N.
Proof. exact gen_bd_loop_invariant. Qed.
Print Assumptions gen_birth_death_tree_loop_invariant.

(* model/birthdeath.py: uniform_pure_birth_tree (taxon_namespace = the taxa 0 .. N-1), whole function *)
Theorem gen_uniform_pure_birth_tree_is_model : forall N b r,
  gen_uniform_pure_birth_tree (seq 0 N) b r = pb_run N b r.
Proof. exact gen_uniform_pure_birth_tree_eq. Qed.
Print Assumptions gen_uniform_pure_birth_tree_is_model.

(* model/birthdeath.py: birth_death_tree from tree.suppress_unifurcations() to `return tree` (the
   taxon assignment; fresh labels through taxon_namespace.new_taxon): the repaired form of the
   model's taxa_block (first argument true), for every case mode cs *)
Theorem gen_birth_death_tree_taxa_is_model : forall cs t ns r,
  NoDup (ids t) ->
  gen_birth_death_tree_taxa t ns r = taxa_block true cs ns (suppress t) r.
Proof. exact gen_birth_death_tree_taxa_eq. Qed.
Print Assumptions gen_birth_death_tree_taxa_is_model.

(* model/birthdeath.py: birth_death_tree, the pruning of the extinct tips between the event loop and
   suppress_unifurcations (`if not is_retain_extinct_tips: ... tree.prune_subtree(nd, ...)`):
   the upward climb `while nd.parent_node is not None and len(nd.parent_node._child_nodes) == 1`
   stops where the top-down computation ctop says, within fuel = number of nodes ... *)
Theorem gen_climb_is_ctop : forall T x, NoDup (ids T) -> In x (ids T) ->
  exists y n, ctop x T = Some (y, n) /\ climbf (S (length (ids T))) T x = Some y.
Proof. exact climb_is_ctop. Qed.
Print Assumptions gen_climb_is_ctop.

(* ... and removing the subtree at the node where the climb stops is the model's bottom-up prune1
   (None = the climb reached the seed node: prune_subtree raises TypeError) *)
Theorem gen_prune_at_top_is_prune1 : forall x t, NoDup (ids t) -> In x (ids t) ->
  forall y n, ctop x t = Some (y, n) ->
  prune1 x t = if y =? b_id t then None else Some (remove_child y t).
Proof. exact prune1_ctop. Qed.
Print Assumptions gen_prune_at_top_is_prune1.

(* the translated block = prune_all of the model, for a tree with distinct identities whose extinct
   tips are leaves (both are part of the loop invariant gen_birth_death_tree_loop_invariant) *)
Theorem gen_birth_death_tree_prune_is_model : forall t dead r,
  NoDup (ids t) -> (forall x, In x dead -> In x (leaf_ids t)) ->
  gen_birth_death_tree_prune t dead r = prune_all dead [] t r.
Proof. exact gen_birth_death_tree_prune_eq. Qed.
Print Assumptions gen_birth_death_tree_prune_is_model.

(* the three translated parts in source order, connected through the variables they were cut at
   (Proofs/C18GenPruneEq.v, gen_birth_death_tree_whole), are bd_run of the model ... *)
Theorem gen_birth_death_tree_is_model : forall cs b d sb sd N ns r, 1 <= N ->
  gen_birth_death_tree_whole b d sb sd N ns r = bd_run true cs (mkBdp b d sb sd N) ns r.
Proof. exact gen_birth_death_tree_whole_eq. Qed.
Print Assumptions gen_birth_death_tree_is_model.

(* ... so bd_result_spec holds of the translated code *)
Theorem gen_birth_death_tree_spec : forall (cs : bool) b d sb sd N (ns : list lab) (script : list draw)
                                           (t : btree) (ns' : list lab) (r : rs),
  1 <= N ->
  gen_birth_death_tree_whole b d sb sd N ns (script, []) = Done (t, ns') r ->
  length (leaf_ids t) = N /\
  (forall s, In s (subtrees t) -> length (b_kids s) = 0 \/ length (b_kids s) = 2) /\
  NoDup (ids t) /\
  (exists D, forall x q, In (x, q) (depths t) -> q == D)%Q /\
  (forall x, In x (leaf_taxa t) -> exists i, x = Some i /\ i < length ns') /\
  NoDup (leaf_taxa t) /\
  (exists extra, ns' = ns ++ extra).
Proof. exact gen_bd_result_spec. Qed.
Print Assumptions gen_birth_death_tree_spec.

(* model/birthdeath.py: fast_birth_death_tree.  One pass of its event loop (waiting time from the
   total rate, rng.randint index into extant_tips, rng.random() against b/(b+d), creation times held
   in edge.length, `extant_tips[taxI] = c1`, `del extant_tips[taxI]`, restart from initial_lengths)
   refines fbd_body of the model under the loop invariant fbd_inv; the exit pass closes the open
   edges (= close_set).  br / dr: the birth_rate / death_rate attribute stores, written but never
   read by this function *)
Theorem gen_fast_birth_death_tree_pass_refines : forall b d N st br dr r, fbd_inv N st ->
  if N <=? length (f_ext st)
  then gen_fast_birth_death_tree_loop_while3 b d N [0] [] [0%Q] (ftup st br dr) r =
       Done (CBreak (R := Empty_set) (ftup (fclosed st) br dr)) r
  else follows (fbd_body (fP b d N) st r)
               (gen_fast_birth_death_tree_loop_while3 b d N [0] [] [0%Q] (ftup st br dr) r)
               (fun st' r' => exists br' dr',
                  gen_fast_birth_death_tree_loop_while3 b d N [0] [] [0%Q] (ftup st br dr) r =
                  Done (CNext (R := Empty_set) (ftup st' br' dr')) r').
Proof. exact gen_fbd_pass. Qed.
Print Assumptions gen_fast_birth_death_tree_pass_refines.

(* from the first statement to the end of the event loop: the same outcome as fbd_loop from fbd_init
   (same error, or the same tree / tip lists / clock / next identity and the same generator state) *)
Theorem gen_fast_birth_death_tree_loop_is_model : forall b d N ns r, 1 <= N ->
  follows (fbd_loop (S (length (fst r))) (fP b d N) fbd_init r)
          (gen_fast_birth_death_tree_loop b d N ns r)
          (fun st' r' => exists br dr,
             gen_fast_birth_death_tree_loop b d N ns r = Done (fbd_loop_result st' br dr) r').
Proof. exact gen_fast_birth_death_tree_loop_refines. Qed.
Print Assumptions gen_fast_birth_death_tree_loop_is_model.

(* the three translated parts in source order (Proofs/C18GenFBD.v, gen_fast_birth_death_tree_whole; the
   pruning and taxon-assignment statements are those of birth_death_tree) are fbd_run of the model *)
Theorem gen_fast_birth_death_tree_is_model : forall cs b d N ns r, 1 <= N ->
  gen_fast_birth_death_tree_whole b d N ns r = fbd_run true cs (fP b d N) ns r.
Proof. exact gen_fast_birth_death_tree_whole_eq. Qed.
Print Assumptions gen_fast_birth_death_tree_is_model.

(* ... so fast_bd_result_spec holds of the translated code *)
Theorem gen_fast_birth_death_tree_spec : forall (cs : bool) b d N (ns : list lab) (script : list draw)
                                                (t : btree) (ns' : list lab) (r : rs),
  1 <= N ->
  gen_fast_birth_death_tree_whole b d N ns (script, []) = Done (t, ns') r ->
  length (leaf_ids t) = N /\
  (forall s, In s (subtrees t) -> length (b_kids s) = 0 \/ length (b_kids s) = 2) /\
  NoDup (ids t) /\
  (exists D, forall x q, In (x, q) (depths t) -> q == D)%Q /\
  (forall x, In x (leaf_taxa t) -> exists i, x = Some i /\ i < length ns') /\
  NoDup (leaf_taxa t) /\
  (exists extra, ns' = ns ++ extra).
Proof. exact gen_fbd_result_spec. Qed.
Print Assumptions gen_fast_birth_death_tree_spec.

(* every draw of geometric_rv / poisson_rv / time_to_coalescence / weighted_index_choice /
   sample_multinomial / birth_death_tree / fast_birth_death_tree / uniform_pure_birth_tree /
   coalesce_nodes is a method call on the rng argument (no GLOBAL_RNG but the default, no helper
   that shuffles on its own generator); poisson_rv, weighted_choice, discrete_time_to_coalescence,
   pure_kingman_tree and contained_coalescent_tree pass it on (read off the AST) *)
Theorem gen_rng_threading :
  fact_geometric_rv_draws_from_rng = true /\
  fact_poisson_rv_draws_from_rng = true /\
  fact_discrete_time_to_coalescence_passes_rng = true /\
  fact_time_to_coalescence_draws_from_rng = true /\
  fact_weighted_index_choice_draws_from_rng = true /\
  fact_weighted_choice_passes_rng = true /\
  fact_sample_multinomial_draws_from_rng = true /\
  fact_birth_death_tree_draws_from_rng = true /\
  fact_fast_birth_death_tree_draws_from_rng = true /\
  fact_uniform_pure_birth_tree_draws_from_rng = true /\
  fact_coalesce_nodes_draws_from_rng = true /\
  fact_pure_kingman_tree_passes_rng = true /\
  fact_contained_coalescent_tree_passes_rng = true.
Proof. exact gen_rng_threading_facts. Qed.
Print Assumptions gen_rng_threading.

(* the repaired sites as the source has them now: the fresh-label site of both birth-death
   simulators calls new_taxon (the model's first argument true: bd_result_spec / fast_bd_result_spec
   of Props/C18.v apply), and contained_coalescent_tree creates the gene nodes of a species in
   namespace order (sorted(..., key=accession_index)) *)
Theorem gen_repaired_sites :
  fact_birth_death_tree_fresh_label_new_taxon = true /\
  fact_fast_birth_death_tree_fresh_label_new_taxon = true /\
  fact_contained_gene_taxa_sorted_by_accession = true.
Proof. exact gen_repaired_sites_facts. Qed.
Print Assumptions gen_repaired_sites.

(* ------------------------------------------------------------------------------------------------
   model/birthdeath.py: discrete_birth_death_tree (whole function).  The options ntax= / max_time=
   are parameters (None = not passed), repeat_until_success= and rng= are passed, once with and once
   without taxon_namespace=.  The generated code IS the model Model/C18DiscModel.v; the theorems below
   are about the generated code (gen_disc selects the variant).  Tree.randomly_assign_taxa (another
   file) is the hand-written primitive py_randomly_assign_taxa of Model/C18DiscPrims.v.
   ------------------------------------------------------------------------------------------------ *)
Theorem gen_discrete_birth_death_tree_is_model : forall (P : dparams) (r : rs),
  (forall ns, gen_discrete_birth_death_tree_ns (dp_b P) (dp_d P) (dp_sb P) (dp_sd P) ns (dp_repeat P) (dp_ntax P) (dp_maxt P) r
              = disc_run P (Some ns) r) /\
  gen_discrete_birth_death_tree (dp_b P) (dp_d P) (dp_sb P) (dp_sd P) (dp_repeat P) (dp_ntax P) (dp_maxt P) r
  = disc_run P None r.
Proof. intros P r. split; [intros ns; apply gen_disc_ns_eq|apply gen_disc_eq]. Qed.
Print Assumptions gen_discrete_birth_death_tree_is_model.

(* the body of `for nd in leaf_nodes` and one pass of the generation loop are the model's *)
Theorem gen_discrete_bd_loop_bodies_are_model : forall (P : dparams) (tt tg : option nat),
  gen_discrete_birth_death_tree_forM1 (dp_b P) (dp_d P) (dp_sb P) (dp_sd P) (dp_repeat P) = disc_leaf P /\
  gen_discrete_birth_death_tree_ns_forM1 (dp_b P) (dp_d P) (dp_sb P) (dp_sd P) (dp_repeat P) = disc_leaf P /\
  gen_discrete_birth_death_tree_while2 (dp_b P) (dp_d P) (dp_sb P) (dp_sd P) tt tg (dp_repeat P) = disc_gen P tt tg /\
  gen_discrete_birth_death_tree_ns_while2 (dp_b P) (dp_d P) (dp_sb P) (dp_sd P) tt tg (dp_repeat P) = disc_gen P tt tg.
Proof. intros. destruct (gen_disc_leaf_eq P), (gen_disc_gen_eq P tt tg). auto. Qed.
Print Assumptions gen_discrete_bd_loop_bodies_are_model.

(* LOOP INVARIANT of the leaf loop inside one generation.  U = the leaves of the snapshot still to be
   visited, all at depth D; V = every other leaf (visited survivors and the children born in this
   generation), all at depth D + 1; identities unique and below `next`, every node has 0 or 2 children.
   One pass of the body for the next leaf nd - birth, death with tree.prune_subtree(nd) +
   suppress_unifurcations (possibly changing the seed node), death of the seed node with
   repeat_until_success, or no event - re-establishes it for the rest of the snapshot and consumes at
   least one draw.  (dinv is unfolded by discrete_bd_leaf_invariant_unfold.) *)
Theorem discrete_bd_leaf_invariant_step : forall P D nd U V br dr t next g r c r',
  dinv D (nd :: U) V t next ->
  disc_leaf P (br, dr, t, next, g) nd r = Done c r' ->
  exists br' dr' t' next' g' V', c = CNext (br', dr', t', next', g') /\ dinv D U V' t' next' /\ left_ r' < left_ r.
Proof. exact disc_leaf_inv. Qed.
Print Assumptions discrete_bd_leaf_invariant_step.

Theorem discrete_bd_leaf_invariant_unfold : forall D U V t next,
  dinv D U V t next <->
  (NoDup (ids t) /\ (forall y, In y (ids t) -> y < next) /\
   (forall s, In s (subtrees t) -> length (b_kids s) = 0 \/ length (b_kids s) = 2) /\
   NoDup U /\ (forall y, In y (leaf_ids t) <-> In y U \/ In y V) /\ (forall y, In y U -> ~ In y V) /\
   eqd U D t /\ eqd V (D + 1) t).
Proof. exact dinv_unfold_proved. Qed.
Print Assumptions discrete_bd_leaf_invariant_unfold.

(* the invariant is satisfiable: the seed node alone, before the first generation *)
Example discrete_bd_leaf_invariant_initial : dinv 0 [0] [] (bleaf 0 0) 1.
Proof. apply (ginv_dinv (bleaf 0 0) 1 0%Q ginv_init). constructor. intros _. reflexivity. Qed.

(* LOOP INVARIANT of the generation loop: between generations the tree has unique identities, is
   binary, all its leaves are equidistant from the root and leaf_nodes is its leaf list; a pass that
   continues re-establishes this and consumes at least one draw; the loop is left exactly when its
   test fails, with the state unchanged *)
Theorem discrete_bd_generation_invariant : forall P tt tg s r c r',
  gstate s -> disc_gen P tt tg s r = Done c r' ->
  match c with
  | CNext s' => gstate s' /\ left_ r' < left_ r
  | CBreak s' => s' = s /\ r' = r /\ (let '(_, _, _, _, gens, leaves) := s in disc_test tt tg leaves gens = false)
  | CReturn e => False
  end.
Proof. exact disc_gen_inv. Qed.
Print Assumptions discrete_bd_generation_invariant.

(* PARTIAL CORRECTNESS over every draw script, every option setting the translator covers: the
   returned tree is binary, well formed, all tips equidistant (exact arithmetic), every leaf carries
   a taxon of the final namespace, the taxa are distinct, the namespace is only extended, and under
   the tip-count rule alone (no max_time) it has AT LEAST the target number of tips.
   Full statement of the property would say `= N`: false, see discrete_bd_exact_tip_count_refuted. *)
Theorem gen_discrete_bd_result_spec_partial : forall P ons script t ns' r,
  gen_disc P ons (script, []) = Done (t, ns') r ->
  (forall s, In s (subtrees t) -> length (b_kids s) = 0 \/ length (b_kids s) = 2) /\
  NoDup (ids t) /\
  (exists D, forall x q, In (x, q) (depths t) -> q == D)%Q /\
  (forall x, In x (leaf_taxa t) -> exists i, x = Some i /\ i < length ns') /\
  NoDup (leaf_taxa t) /\
  (exists extra, ns' = match ons with Some ns => ns | None => [] end ++ extra) /\
  (dp_maxt P = None -> forall N, disc_target P ons = Some N -> N <= length (leaf_ids t)).
Proof. exact gen_disc_spec. Qed.
Print Assumptions gen_discrete_bd_result_spec_partial.

Theorem discrete_bd_exact_tip_count_refuted :
  exists P script t ns' r N, dp_maxt P = None /\ disc_target P None = Some N /\ (dp_d P < dp_b P)%Q /\
    disc_sim P None script = Done (t, ns') r /\ length (leaf_ids t) <> N.
Proof. exact disc_exact_tip_count_refuted_proved. Qed.
Print Assumptions discrete_bd_exact_tip_count_refuted.

(* grown to len(namespace) = 3 tips, the tree overshoots to 4 and Tree.randomly_assign_taxa raises
   AttributeError: an admissible call that returns no tree *)
Theorem discrete_bd_short_namespace_raises :
  exists P ns script, dp_maxt P = None /\ disc_target P (Some ns) = Some (length ns) /\ (dp_d P < dp_b P)%Q /\
    disc_sim P (Some ns) script = PyErr PyPrims.AttrErr.
Proof. exact disc_short_namespace_raises_proved. Qed.
Print Assumptions discrete_bd_short_namespace_raises.

(* TOTAL EXTINCTION (the seed node is the only lineage and its draw falls in the death window):
   repeat_until_success=False raises TreeSimTotalExtinctionException; repeat_until_success=True does
   NOT restart the tree: only num_gens is reset to 0, the seed node keeps its lengthened edge *)
Theorem discrete_bd_total_extinction : forall P br dr t next g u rest calls,
  b_has br (b_id t) = true -> b_has dr (b_id t) = true ->
  Qltb u (b_rate br (b_id t)) = false ->
  Qltb (b_rate br (b_id t)) u && Qltb u (b_rate br (b_id t) + b_rate dr (b_id t))%Q = true ->
  disc_leaf P (br, dr, t, next, g) (b_id t) (DUnit u :: rest, calls) =
  if dp_repeat P
  then Done (CNext (br, dr, b_upd_len t (b_id t) (fun l_ => (l_ + 1)%Q), next, 0)) (rest, CUnit :: calls)
  else PyErr PyPrims.OtherErr.
Proof. exact disc_total_extinction. Qed.
Print Assumptions discrete_bd_total_extinction.

(* the model's loop bounds (script length + 2 per while loop: every continuing pass consumes a draw) suffice *)
Theorem gen_discrete_bd_fuel_suffices : forall P ons script, gen_disc P ons (script, []) <> NoFuel.
Proof. exact gen_disc_fuel. Qed.
Print Assumptions gen_discrete_bd_fuel_suffices.
