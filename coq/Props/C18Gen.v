(* C18 - translator tie: coq/Gen/Sim.v is regenerated on every run from the CURRENT Python source
   (py/dv/gen_sim.py, fail closed) over the primitives of Model/C18Prims.v; each generated function
   is proved equal to the corresponding function of the hand-written model Model/C18Model.v, so the
   theorems of Props/C18.v hold of the generated code by rewriting.  An edit of the Python source
   changes Gen/Sim.v and breaks these proofs. *)
From Coq Require Import QArith ZArith List Bool Arith Permutation.
From DV Require Import Model.C18Model Model.C18Prims Gen.Sim.
From DV Require Import Proofs.C18Lists Proofs.C18Tree Proofs.C18Monad Proofs.C18BD Proofs.C18PB Proofs.C18Coal Proofs.C18GenCoal Proofs.C18GenBD Proofs.C18GenPB Proofs.C18GenTaxa.
From DV Require Model.PyPrims.
Import ListNotations.
Open Scope nat_scope.

(* calculate/probability.py *)
Theorem gen_weighted_index_choice_is_model : forall ws r,
  gen_weighted_index_choice ws r = weighted_index_choice ws r.
Proof. exact gen_weighted_index_choice_eq. Qed.
Print Assumptions gen_weighted_index_choice_is_model.

(* weighted_choice(seq, weights) called, as birth_death_tree does, with one weight per element *)
Theorem gen_weighted_choice_is_model : forall (A : Type) (seq : list A) ws r,
  length ws = length seq ->
  gen_weighted_choice seq ws r =
  (let! oi := weighted_index_choice ws in
   match oi with
   | None => raise PyPrims.TypeErr
   | Some i => match nth_error seq i with Some a => ret a | None => raise PyPrims.IndexErr end
   end) r.
Proof. exact gen_weighted_choice_eq. Qed.
Print Assumptions gen_weighted_choice_is_model.

(* model/coalescent.py *)
Theorem gen_time_to_coalescence_is_model : forall n pop r, 1 < n ->
  gen_time_to_coalescence n pop r = (let! e := d_exp (choose2 n) in ret (e * time_units pop)%Q) r.
Proof. exact gen_time_to_coalescence_eq. Qed.
Print Assumptions gen_time_to_coalescence_is_model.

Theorem gen_coalesce_nodes_is_model : forall pop period nodes r,
  gen_coalesce_nodes pop period nodes r = coalesce_nodes pop period nodes r.
Proof. exact gen_coalesce_nodes_eq. Qed.
Print Assumptions gen_coalesce_nodes_is_model.

(* taxon_namespace = the taxa 0 .. N-1 *)
Theorem gen_pure_kingman_tree_is_model : forall N pop r,
  gen_pure_kingman_tree (seq 0 N) pop r = kingman_run N pop r.
Proof. exact gen_pure_kingman_tree_eq. Qed.
Print Assumptions gen_pure_kingman_tree_is_model.

(* the specification of Props/C18.v, of the generated pure_kingman_tree *)
Theorem gen_kingman_spec : forall N pop script t r,
  gen_pure_kingman_tree (seq 0 N) pop (script, []) = Done t r ->
  Permutation (gleaf_taxa t) (map Some (seq 0 N)) /\
  (forall s, In s (gsubtrees t) -> length (g_kids s) = 0 \/ length (g_kids s) = 2) /\
  (exists D, forall x h, In (x, h) (gtips t) -> h == D)%Q.
Proof. exact gen_kingman_spec_proved. Qed.
Print Assumptions gen_kingman_spec.

(* model/birthdeath.py: birth_death_tree from its first statement to the end of the event loop
   (num_extant_tips = N, taxon_namespace and rng passed, every other option at the default written in
   the source: no GSA, no max_time, ...).  The generated code threads the tree, the two rate
   attribute stores, the next fresh identity and the local variables extant_tips, extinct_tips,
   total_time; it equals bd_loop started from bd_init.  (The proof goes through the loop invariant
   bd_inv of Props/C18.v: the generated per-node statements agree with the model's bulk operations
   because node identities are unique and extant tips are leaves.) *)
Theorem gen_birth_death_tree_loop_is_model : forall b d sb sd N ns r, 1 <= N ->
  gen_birth_death_tree_loop b d sb sd N ns r =
  match bd_loop (S (length (fst r))) (mkBdp b d sb sd N) (bd_init (mkBdp b d sb sd N)) r with
  | Done st r' => Done (s_tr st, s_ext st, s_dead st, s_brates st, s_drates st, s_next st, s_time st) r'
  | Exhausted => Exhausted
  | BadScript => BadScript
  | PyErr e => PyErr e
  | NoFuel => NoFuel
  end.
Proof. exact gen_birth_death_tree_loop_eq. Qed.
Print Assumptions gen_birth_death_tree_loop_is_model.

(* one generated pass of `while True:` = the termination test followed by bd_body *)
Theorem gen_birth_death_tree_pass_is_model : forall b d sb sd N st r,
  bd_inv N st ->
  (forall x, In x (s_ext st) \/ x = 0 -> b_has (s_brates st) x = true /\ b_has (s_drates st) x = true) ->
  gen_birth_death_tree_loop_while4 b d sb sd N [0] []
    (s_brates st, s_drates st, s_tr st, s_time st, s_ext st, s_next st, s_dead st) r =
  (if N <=? length (s_ext st)
   then Done (CBreak (R := Empty_set) (s_brates st, s_drates st, s_tr st, s_time st, s_ext st, s_next st, s_dead st)) r
   else match bd_body (mkBdp b d sb sd N) st r with
        | Done st' r' => Done (CNext (R := Empty_set) (s_brates st', s_drates st', s_tr st', s_time st', s_ext st', s_next st', s_dead st')) r'
        | Exhausted => Exhausted
        | BadScript => BadScript
        | PyErr e => PyErr e
        | NoFuel => NoFuel
        end).
Proof. exact gen_bd_pass. Qed.
Print Assumptions gen_birth_death_tree_pass_is_model.

(* the loop invariant of Props/C18.v and the tip count, of the generated loop *)
Theorem gen_birth_death_tree_loop_invariant : forall b d sb sd N ns r tr ext dead br dr next time r',
  1 <= N ->
  gen_birth_death_tree_loop b d sb sd N ns r = Done (tr, ext, dead, br, dr, next, time) r' ->
  bd_inv N (mkSt tr ext dead br dr next time) /\ length ext = N.
Proof. exact gen_bd_loop_invariant. Qed.
Print Assumptions gen_birth_death_tree_loop_invariant.

(* model/birthdeath.py: uniform_pure_birth_tree (taxon_namespace = the taxa 0 .. N-1), whole function *)
Theorem gen_uniform_pure_birth_tree_is_model : forall N b r,
  gen_uniform_pure_birth_tree (seq 0 N) b r = pb_run N b r.
Proof. exact gen_uniform_pure_birth_tree_eq. Qed.
Print Assumptions gen_uniform_pure_birth_tree_is_model.

(* model/birthdeath.py: birth_death_tree from tree.suppress_unifurcations() to `return tree` (the
   taxon assignment; fresh labels through taxon_namespace.new_taxon): the repaired form of the
   model's taxa_block (first argument true), for every case mode cs.  (The pruning of the extinct
   tips between the event loop and this part is not translated.) *)
Theorem gen_birth_death_tree_taxa_is_model : forall cs t ns r,
  NoDup (ids t) ->
  gen_birth_death_tree_taxa t ns r = taxa_block true cs ns (suppress t) r.
Proof. exact gen_birth_death_tree_taxa_eq. Qed.
Print Assumptions gen_birth_death_tree_taxa_is_model.

(* every draw of geometric_rv / poisson_rv / time_to_coalescence / weighted_index_choice /
   sample_multinomial / birth_death_tree / fast_birth_death_tree / uniform_pure_birth_tree /
   coalesce_nodes is a method call on the rng argument (no GLOBAL_RNG but the default, no helper
   that shuffles on its own generator); poisson_rv, weighted_choice, discrete_time_to_coalescence,
   pure_kingman_tree and contained_coalescent_tree pass it on (read off the AST) *)
Theorem gen_rng_threading :
  fact_geometric_rv_draws_from_rng = true /\
  fact_poisson_rv_draws_from_rng = true /\
  fact_discrete_time_to_coalescence_passes_rng = true /\
  fact_time_to_coalescence_draws_from_rng = true /\
  fact_weighted_index_choice_draws_from_rng = true /\
  fact_weighted_choice_passes_rng = true /\
  fact_sample_multinomial_draws_from_rng = true /\
  fact_birth_death_tree_draws_from_rng = true /\
  fact_fast_birth_death_tree_draws_from_rng = true /\
  fact_uniform_pure_birth_tree_draws_from_rng = true /\
  fact_coalesce_nodes_draws_from_rng = true /\
  fact_pure_kingman_tree_passes_rng = true /\
  fact_contained_coalescent_tree_passes_rng = true.
Proof. exact gen_rng_threading_facts. Qed.
Print Assumptions gen_rng_threading.

(* the repaired sites as the source has them now: the fresh-label site of both birth-death
   simulators calls new_taxon (the model's first argument true: bd_result_spec / fast_bd_result_spec
   of Props/C18.v apply), and contained_coalescent_tree creates the gene nodes of a species in
   namespace order (sorted(..., key=accession_index)) *)
Theorem gen_repaired_sites :
  fact_birth_death_tree_fresh_label_new_taxon = true /\
  fact_fast_birth_death_tree_fresh_label_new_taxon = true /\
  fact_contained_gene_taxa_sorted_by_accession = true.
Proof. exact gen_repaired_sites_facts. Qed.
Print Assumptions gen_repaired_sites.
