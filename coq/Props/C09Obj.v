(* C09 property theorems, wave 7 (object level): statements only, each closed by `exact`.
   Model: Model/C09Obj.v.  Part 1: a matrix is a namespace `ns` plus the dictionary `rm` taxon -> sequence in
   the order the rows were ENTERED; `iter_rows ns rm` is CharacterMatrix.__iter__ (namespace order, taxa that
   have a row).  Part 2: `rid` = identity of a row's value list; store = the lists; `o_step md w o` runs one
   merge operation / concatenate / export on the matrices `ow_ms w`, md = what CharacterDataSequence(other)
   does with other's list (CopyValues: the library; ShareValues: the list itself). *)
From Coq Require Import ZArith List Bool Permutation.
From DV Require Import Model.PyPrims Model.C09AlphaTypes Model.C09Alphabets Model.C09Model Model.C09Spec
  Model.C09Nexus Model.C09Convert Model.C09Obj Gen.CharObj Proofs.C09Text Proofs.C09Fasta Proofs.C09NexusProofs
  Proofs.C09ObjProofs Proofs.C09GenObj.
Import ListNotations.
Open Scope Z_scope.

(* the order in which the rows were entered is not observable through iteration: two dictionaries with the same
   (taxon, sequence) pairs give the same matrix *)
Theorem iteration_ignores_entry_order : forall (ns : list text) (rm rm' : rowmap),
  NoDup (map fst rm) -> Permutation rm rm' -> iter_rows ns rm = iter_rows ns rm'.
Proof. exact iter_rows_perm. Qed.
Print Assumptions iteration_ignores_entry_order.

(* the taxa of the matrix are the namespace's taxa that have a row, in namespace order; all of them when every
   taxon has one *)
Theorem iteration_is_namespace_order : forall (ns : list text) (rm : rowmap),
  map fst (iter_rows ns rm) = filter (has_row rm) ns /\
  ((forall l, In l ns -> has_row rm l = true) -> map fst (iter_rows ns rm) = ns).
Proof. intros ns rm. split; [apply iter_rows_labels | apply iter_rows_labels_full]. Qed.
Print Assumptions iteration_is_namespace_order.

(* NEXUS with simple=True (one DATA block, no TAXA block: the reader rebuilds the namespace from the MATRIX
   rows), data types DNA / RNA / NUCLEOTIDE / PROTEIN: whatever the order rm' in which the rows were entered,
   the reader applied to the writer's tokens returns the matrix in NAMESPACE order and a namespace listing
   the matrix's taxa in namespace order. *)
Theorem nexus_simple_roundtrip_keeps_namespace_order : forall (lower : text -> text) (dt : dtype) (cs : bool)
    (ns : list text) (rm rm' : rowmap) (nchar : Z),
  fixed_dtype dt = true ->
  NoDup (map fst rm) -> Permutation rm rm' ->
  iter_rows ns rm <> [] -> 1 <= nchar ->
  forallb label_token_ok (map fst (iter_rows ns rm)) = true ->
  NoDup (map (keyf lower cs) (map fst (iter_rows ns rm))) ->
  cells_ok (alphabet_of_dtype dt) (iter_rows ns rm) = true ->
  rectangular nchar (iter_rows ns rm) = true ->
  exists toks st',
    write_chars_block dt [alphabet_of_dtype dt] [] (mkNW true None None) (rows_by IterMatrix ns rm') = Ok toks
    /\ read_chars_block lower keep_ns (nx_init [] None cs) toks
       = Ok (st', [mkBR dt (alphabet_of_dtype dt) (iter_rows ns rm) (filter (has_row rm) ns) None None], [EOL; EOL; EOL]).
Proof. exact nexus_simple_order_l. Qed.
Print Assumptions nexus_simple_roundtrip_keeps_namespace_order.

(* a writer that walks the dictionary (order of entry) instead does NOT: for namespace [a; b] with the rows
   entered b, a the DATA block reads back with taxa and namespace [b; a] *)
Theorem nexus_simple_roundtrip_entered_order_refuted :
  exists toks st' rows nsb,
    NoDup (map fst ex_rm) /\ (forall l, In l ex_ns -> has_row ex_rm l = true) /\
    write_chars_block DtDna [alphabet_of_dtype DtDna] [] (mkNW true None None) (rows_by IterEntered ex_ns ex_rm) = Ok toks
    /\ read_chars_block (fun t => t) keep_ns (nx_init [] None false) toks
       = Ok (st', [mkBR DtDna (alphabet_of_dtype DtDna) rows nsb None None], [EOL; EOL; EOL])
    /\ map fst rows <> map fst (iter_rows ex_ns ex_rm) /\ nsb <> ex_ns.
Proof. exact entered_order_refuted_l. Qed.
Print Assumptions nexus_simple_roundtrip_entered_order_refuted.

(* translator tie: the iteration NexusWriter._write_char_block (current source) uses for the rows *)
Theorem gen_write_char_block_row_iteration_is_model : forall (ns : list text) (rm : rowmap),
  rows_by NexusWriter_write_char_block_row_iter ns rm = iter_rows ns rm.
Proof. exact gen_row_iter_is_matrix_l. Qed.
Print Assumptions gen_write_char_block_row_iteration_is_model.

(* ---- construction routes over several matrices ---- *)

(* frame: in a world where no value list sits under two (matrix, taxon) slots and every id is allocated, a
   step (add_/replace_/update_/extend_sequences, extend_matrix on receiver k with argument j; concatenate;
   export_character_indices) changes no matrix other than its receiver - the argument / source matrices
   included: same taxon -> list map, same values in every list *)
Theorem route_step_changes_no_other_matrix : forall (w : oworld) (o : oop) (w' : oworld) (i : nat) (mi : orows),
  (NoDup (all_ids w) /\ forall r, In r (all_ids w) -> r < s_next (ow_store w)) ->
  o_step CopyValues w o = Ok w' -> receiver o <> Some i -> nth_error (ow_ms w) i = Some mi ->
  nth_error (ow_ms w') i = Some mi /\ deref (ow_store w') mi = deref (ow_store w) mi.
Proof. exact o_step_frame. Qed.
Print Assumptions route_step_changes_no_other_matrix.

(* C09's clause on the sources of a route: a matrix the step does not operate on is written to FASTA and read
   back, AFTER the step, with the content it had before it *)
Theorem source_roundtrip_after_route_step : forall (lower : text -> text) (a : alphabet) (wrap : bool) (width : Z)
    (ns : list text) (w : oworld) (o : oop) (w' : oworld) (i : nat) (mi : orows),
  (NoDup (all_ids w) /\ forall r, In r (all_ids w) -> r < s_next (ow_store w)) ->
  o_step CopyValues w o = Ok w' -> receiver o <> Some i -> nth_error (ow_ms w) i = Some mi ->
  forallb fasta_label_ok (map fst (iter_rows ns (deref (ow_store w) mi))) = true ->
  labels_distinct lower (map fst (iter_rows ns (deref (ow_store w) mi))) = true ->
  cells_ok a (iter_rows ns (deref (ow_store w) mi)) = true ->
  rows_nonempty (iter_rows ns (deref (ow_store w) mi)) = true ->
  exists mi', nth_error (ow_ms w') i = Some mi' /\
    read_fasta lower a (write_fasta a wrap width (iter_rows ns (deref (ow_store w') mi')))
    = Ok (iter_rows ns (deref (ow_store w) mi)).
Proof. exact source_roundtrip_after_step_l. Qed.
Print Assumptions source_roundtrip_after_route_step.

(* the hypothesis is satisfiable (two matrices as from_dict / a reader deliver them), and concatenate([m0; m1])
   leaves both sources as they were *)
Theorem route_hypothesis_example :
  (NoDup (all_ids (o_init ex_ms)) /\ forall r, In r (all_ids (o_init ex_ms)) -> r < s_next (ow_store (o_init ex_ms))) /\
  exists w', o_run CopyValues (o_init ex_ms) [OConcat [0%nat; 1%nat]] = Ok w'
             /\ firstn 2 (contents w') = ex_ms
             /\ nth 2 (contents w') [] = [([97], [0; 1; 0]); ([98], [2; 3; 1])]
             /\ sepb w' = true.
Proof. split; [exact ex_sep | exact ex_concat_keeps_sources]. Qed.
Print Assumptions route_hypothesis_example.

(* if CharacterDataSequence(other) took other's value list itself, the frame would be false: concatenate([m0; m1])
   appends m1's characters to every row of the SOURCE m0 *)
Theorem route_step_frame_refuted_with_shared_values :
  exists w', (NoDup (all_ids (o_init ex_ms)) /\ forall r, In r (all_ids (o_init ex_ms)) -> r < s_next (ow_store (o_init ex_ms)))
             /\ o_run ShareValues (o_init ex_ms) [OConcat [0%nat; 1%nat]] = Ok w'
             /\ nth 0 (contents w') [] = [([97], [0; 1; 0]); ([98], [2; 3; 1])]
             /\ nth 0 (contents w') [] <> nth 0 ex_ms []
             /\ sepb w' = false.
Proof. exact shared_values_refuted_l. Qed.
Print Assumptions route_step_frame_refuted_with_shared_values.

(* translator tie: CharacterDataSequence.__init__(other) of the current source (extend / values inlined) yields
   the model's copy: the same list id, the same allocation counter, the same values in every list *)
Theorem gen_sequence_from_sequence_is_copy : forall (s : store) (ro : rid), ro <> s_next s ->
  snd (CharacterDataSequence_init_from_sequence s ro) = snd (new_from CopyValues s ro)
  /\ s_next (fst (CharacterDataSequence_init_from_sequence s ro)) = s_next (fst (new_from CopyValues s ro))
  /\ forall x, hget (fst (CharacterDataSequence_init_from_sequence s ro)) x = hget (fst (new_from CopyValues s ro)) x.
Proof. exact gen_init_is_copy_l. Qed.
Print Assumptions gen_sequence_from_sequence_is_copy.

From DV Require Import Proofs.C09W9Sep.

(* ---- wave 9: separation is an invariant of routes; whole histories ---- *)

(* a route step preserves separation: after add_/replace_/update_/extend_sequences, extend_matrix, concatenate or
   export_character_indices (CharacterDataSequence(other) copying the values) still no value list sits under two
   (matrix, taxon) slots and every id is allocated *)
Theorem route_step_preserves_separation : forall (w : oworld) (o : oop) (w' : oworld),
  (NoDup (all_ids w) /\ forall r, In r (all_ids w) -> r < s_next (ow_store w)) ->
  o_step CopyValues w o = Ok w' ->
  NoDup (all_ids w') /\ forall r, In r (all_ids w') -> r < s_next (ow_store w').
Proof. exact o_step_sep. Qed.
Print Assumptions route_step_preserves_separation.

(* every world delivered by from_dict / the readers (each row a fresh list) is separated, for ANY matrices *)
Theorem initial_world_separated : forall (ms : list rowmap),
  NoDup (all_ids (o_init ms)) /\ forall r, In r (all_ids (o_init ms)) -> r < s_next (ow_store (o_init ms)).
Proof. exact o_init_sep. Qed.
Print Assumptions initial_world_separated.

(* the flag the correspondence compares with the implementation (sepb; `shared` = its negation) decides separation *)
Theorem sepb_decides_separation : forall (w : oworld),
  sepb w = true <-> (NoDup (all_ids w) /\ forall r, In r (all_ids w) -> r < s_next (ow_store w)).
Proof. exact sepb_spec. Qed.
Print Assumptions sepb_decides_separation.

(* whole histories: for every history of route steps from a separated world that runs, at EVERY position
   (pre ++ o :: post) the step o starts in a separated world w1, ends in a separated world w2, changes no matrix
   but its receiver (same taxon -> list map, same values in every list), and the final world is separated *)
Theorem route_history_changes_only_receivers : forall (pre : list oop) (o : oop) (post : list oop) (w wf : oworld),
  (NoDup (all_ids w) /\ forall r, In r (all_ids w) -> r < s_next (ow_store w)) ->
  o_run CopyValues w (pre ++ o :: post) = Ok wf ->
  exists w1 w2,
    o_run CopyValues w pre = Ok w1 /\ o_step CopyValues w1 o = Ok w2 /\ o_run CopyValues w2 post = Ok wf
    /\ (NoDup (all_ids w1) /\ forall r, In r (all_ids w1) -> r < s_next (ow_store w1))
    /\ (NoDup (all_ids w2) /\ forall r, In r (all_ids w2) -> r < s_next (ow_store w2))
    /\ (NoDup (all_ids wf) /\ forall r, In r (all_ids wf) -> r < s_next (ow_store wf))
    /\ forall i mi, receiver o <> Some i -> nth_error (ow_ms w1) i = Some mi ->
         nth_error (ow_ms w2) i = Some mi /\ deref (ow_store w2) mi = deref (ow_store w1) mi.
Proof. exact route_history_l. Qed.
Print Assumptions route_history_changes_only_receivers.

(* a matrix that no step of the route has as its receiver - a pure SOURCE - has after the whole route the
   taxon -> list map and the values it had before it *)
Theorem route_keeps_pure_sources : forall (ops : list oop) (w w' : oworld) (i : nat) (mi : orows),
  (NoDup (all_ids w) /\ forall r, In r (all_ids w) -> r < s_next (ow_store w)) ->
  o_run CopyValues w ops = Ok w' -> (forall o, In o ops -> receiver o <> Some i) ->
  nth_error (ow_ms w) i = Some mi ->
  nth_error (ow_ms w') i = Some mi /\ deref (ow_store w') mi = deref (ow_store w) mi.
Proof. exact o_run_frame. Qed.
Print Assumptions route_keeps_pure_sources.

(* C09's clause on the sources, whole routes: such a matrix is written to FASTA and read back AFTER the route
   with the content it had before it (the frame gives equality of the matrix: every other round-trip theorem
   composes the same way) *)
Theorem source_roundtrip_after_route : forall (lower : text -> text) (a : alphabet) (wrap : bool) (width : Z)
    (ns : list text) (w : oworld) (ops : list oop) (w' : oworld) (i : nat) (mi : orows),
  (NoDup (all_ids w) /\ forall r, In r (all_ids w) -> r < s_next (ow_store w)) ->
  o_run CopyValues w ops = Ok w' -> (forall o, In o ops -> receiver o <> Some i) ->
  nth_error (ow_ms w) i = Some mi ->
  forallb fasta_label_ok (map fst (iter_rows ns (deref (ow_store w) mi))) = true ->
  labels_distinct lower (map fst (iter_rows ns (deref (ow_store w) mi))) = true ->
  cells_ok a (iter_rows ns (deref (ow_store w) mi)) = true ->
  rows_nonempty (iter_rows ns (deref (ow_store w) mi)) = true ->
  exists mi', nth_error (ow_ms w') i = Some mi' /\
    read_fasta lower a (write_fasta a wrap width (iter_rows ns (deref (ow_store w') mi')))
    = Ok (iter_rows ns (deref (ow_store w) mi)).
Proof. exact source_roundtrip_after_route_l. Qed.
Print Assumptions source_roundtrip_after_route.

(* routes from delivered matrices: whatever the matrices and the steps, the model's `shared` flag is false at the
   end (what the object-level correspondence compares with the implementation on every pool route) *)
Theorem route_from_initial_world_never_shares : forall (ms : list rowmap) (ops : list oop) (w' : oworld),
  o_run CopyValues (o_init ms) ops = Ok w' -> sepb w' = true.
Proof. exact route_from_init_sepb. Qed.
Print Assumptions route_from_initial_world_never_shares.

(* the hypotheses are satisfiable: a five-step route (update_sequences, extend_sequences, concatenate with a
   repeated argument, export_character_indices, replace_sequences) over three delivered matrices runs *)
Theorem route_history_example :
  exists w', o_run CopyValues (o_init ex_ms3) ex_route = Ok w'
             /\ length (ow_ms w') = 5%nat
             /\ nth 0 (contents w') [] = [([97], [0; 1]); ([98], [2; 3]); ([99], [3; 3])]
             /\ nth 1 (contents w') [] = [([98], [1; 2; 3]); ([97], [0; 0; 1]); ([99], [3; 3])]
             /\ nth 2 (contents w') [] = [([99], [3])]
             /\ nth 3 (contents w') [] = [([97], [0; 1; 0; 0; 1; 0; 1]); ([98], [2; 3; 1; 2; 3; 2; 3]); ([99], [3; 3; 3; 3; 3; 3])].
Proof. exact ex_route_runs. Qed.
Print Assumptions route_history_example.

(* preservation is false if CharacterDataSequence(other) took other's value list itself: one concatenate from a
   separated world ends in a world with a list under two slots *)
Theorem route_step_separation_refuted_with_shared_values :
  exists w', (NoDup (all_ids (o_init ex_ms)) /\ forall r, In r (all_ids (o_init ex_ms)) -> r < s_next (ow_store (o_init ex_ms)))
             /\ o_step ShareValues (o_init ex_ms) (OConcat [0%nat; 1%nat]) = Ok w'
             /\ ~ (NoDup (all_ids w') /\ forall r, In r (all_ids w') -> r < s_next (ow_store w')).
Proof. exact sep_preservation_refuted_shared_l. Qed.
Print Assumptions route_step_separation_refuted_with_shared_values.
