(* C09 property theorems, wave 7 (object level): statements only, each closed by `exact`.
   Model: Model/C09Obj.v.  Part 1: a matrix is a namespace `ns` plus the dictionary `rm` taxon -> sequence in
   the order the rows were ENTERED; `iter_rows ns rm` is CharacterMatrix.__iter__ (namespace order, taxa that
   have a row).  Part 2: `rid` = identity of a row's value list; store = the lists; `o_step md w o` runs one
   merge operation / concatenate / export on the matrices `ow_ms w`, md = what CharacterDataSequence(other)
   does with other's list (CopyValues: the library; ShareValues: the list itself). *)
From Coq Require Import ZArith List Bool Permutation.
From DV Require Import Model.PyPrims Model.C09AlphaTypes Model.C09Alphabets Model.C09Model Model.C09Spec
  Model.C09Nexus Model.C09Convert Model.C09Obj Gen.CharObj Proofs.C09Text Proofs.C09Fasta Proofs.C09NexusProofs
  Proofs.C09ObjProofs Proofs.C09GenObj.
Import ListNotations.
Open Scope Z_scope.

(* the order in which the rows were entered is not observable through iteration: two dictionaries with the same
   (taxon, sequence) pairs give the same matrix *)
Theorem iteration_ignores_entry_order : forall (ns : list text) (rm rm' : rowmap),
  NoDup (map fst rm) -> Permutation rm rm' -> iter_rows ns rm = iter_rows ns rm'.
Proof. exact iter_rows_perm. Qed.
Print Assumptions iteration_ignores_entry_order.

(* the taxa of the matrix are the namespace's taxa that have a row, in namespace order; all of them when every
   taxon has one *)
Theorem iteration_is_namespace_order : forall (ns : list text) (rm : rowmap),
  map fst (iter_rows ns rm) = filter (has_row rm) ns /\
  ((forall l, In l ns -> has_row rm l = true) -> map fst (iter_rows ns rm) = ns).
Proof. intros ns rm. split; [apply iter_rows_labels | apply iter_rows_labels_full]. Qed.
Print Assumptions iteration_is_namespace_order.

(* NEXUS with simple=True (one DATA block, no TAXA block: the reader rebuilds the namespace from the MATRIX
   rows), data types DNA / RNA / NUCLEOTIDE / PROTEIN: whatever the order rm' in which the rows were entered,
   the reader applied to the writer's tokens returns the matrix in NAMESPACE order and a namespace listing
   the matrix's taxa in namespace order. *)
Theorem nexus_simple_roundtrip_keeps_namespace_order : forall (lower : text -> text) (dt : dtype) (cs : bool)
    (ns : list text) (rm rm' : rowmap) (nchar : Z),
  fixed_dtype dt = true ->
  NoDup (map fst rm) -> Permutation rm rm' ->
  iter_rows ns rm <> [] -> 1 <= nchar ->
  forallb label_token_ok (map fst (iter_rows ns rm)) = true ->
  NoDup (map (keyf lower cs) (map fst (iter_rows ns rm))) ->
  cells_ok (alphabet_of_dtype dt) (iter_rows ns rm) = true ->
  rectangular nchar (iter_rows ns rm) = true ->
  exists toks st',
    write_chars_block dt [alphabet_of_dtype dt] [] (mkNW true None None) (rows_by IterMatrix ns rm') = Ok toks
    /\ read_chars_block lower keep_ns (nx_init [] None cs) toks
       = Ok (st', [mkBR dt (alphabet_of_dtype dt) (iter_rows ns rm) (filter (has_row rm) ns) None None], [EOL; EOL; EOL]).
Proof. exact nexus_simple_order_l. Qed.
Print Assumptions nexus_simple_roundtrip_keeps_namespace_order.

(* a writer that walks the dictionary (order of entry) instead does NOT: for namespace [a; b] with the rows
   entered b, a the DATA block reads back with taxa and namespace [b; a] *)
Theorem nexus_simple_roundtrip_entered_order_refuted :
  exists toks st' rows nsb,
    NoDup (map fst ex_rm) /\ (forall l, In l ex_ns -> has_row ex_rm l = true) /\
    write_chars_block DtDna [alphabet_of_dtype DtDna] [] (mkNW true None None) (rows_by IterEntered ex_ns ex_rm) = Ok toks
    /\ read_chars_block (fun t => t) keep_ns (nx_init [] None false) toks
       = Ok (st', [mkBR DtDna (alphabet_of_dtype DtDna) rows nsb None None], [EOL; EOL; EOL])
    /\ map fst rows <> map fst (iter_rows ex_ns ex_rm) /\ nsb <> ex_ns.
Proof. exact entered_order_refuted_l. Qed.
Print Assumptions nexus_simple_roundtrip_entered_order_refuted.

(* translator tie: the iteration NexusWriter._write_char_block (current source) uses for the rows *)
Theorem gen_write_char_block_row_iteration_is_model : forall (ns : list text) (rm : rowmap),
  rows_by NexusWriter_write_char_block_row_iter ns rm = iter_rows ns rm.
Proof. exact gen_row_iter_is_matrix_l. Qed.
Print Assumptions gen_write_char_block_row_iteration_is_model.

(* ---- construction routes over several matrices ---- *)

(* frame: in a world where no value list sits under two (matrix, taxon) slots and every id is allocated, a
   step (add_/replace_/update_/extend_sequences, extend_matrix on receiver k with argument j; concatenate;
   export_character_indices) changes no matrix other than its receiver - the argument / source matrices
   included: same taxon -> list map, same values in every list *)
Theorem route_step_changes_no_other_matrix : forall (w : oworld) (o : oop) (w' : oworld) (i : nat) (mi : orows),
  (NoDup (all_ids w) /\ forall r, In r (all_ids w) -> r < s_next (ow_store w)) ->
  o_step CopyValues w o = Ok w' -> receiver o <> Some i -> nth_error (ow_ms w) i = Some mi ->
  nth_error (ow_ms w') i = Some mi /\ deref (ow_store w') mi = deref (ow_store w) mi.
Proof. exact o_step_frame. Qed.
Print Assumptions route_step_changes_no_other_matrix.

(* C09's clause on the sources of a route: a matrix the step does not operate on is written to FASTA and read
   back, AFTER the step, with the content it had before it *)
Theorem source_roundtrip_after_route_step : forall (lower : text -> text) (a : alphabet) (wrap : bool) (width : Z)
    (ns : list text) (w : oworld) (o : oop) (w' : oworld) (i : nat) (mi : orows),
  (NoDup (all_ids w) /\ forall r, In r (all_ids w) -> r < s_next (ow_store w)) ->
  o_step CopyValues w o = Ok w' -> receiver o <> Some i -> nth_error (ow_ms w) i = Some mi ->
  forallb fasta_label_ok (map fst (iter_rows ns (deref (ow_store w) mi))) = true ->
  labels_distinct lower (map fst (iter_rows ns (deref (ow_store w) mi))) = true ->
  cells_ok a (iter_rows ns (deref (ow_store w) mi)) = true ->
  rows_nonempty (iter_rows ns (deref (ow_store w) mi)) = true ->
  exists mi', nth_error (ow_ms w') i = Some mi' /\
    read_fasta lower a (write_fasta a wrap width (iter_rows ns (deref (ow_store w') mi')))
    = Ok (iter_rows ns (deref (ow_store w) mi)).
Proof. exact source_roundtrip_after_step_l. Qed.
Print Assumptions source_roundtrip_after_route_step.

(* the hypothesis is satisfiable (two matrices as from_dict / a reader deliver them), and concatenate([m0; m1])
   leaves both sources as they were *)
Theorem route_hypothesis_example :
  (NoDup (all_ids (o_init ex_ms)) /\ forall r, In r (all_ids (o_init ex_ms)) -> r < s_next (ow_store (o_init ex_ms))) /\
  exists w', o_run CopyValues (o_init ex_ms) [OConcat [0%nat; 1%nat]] = Ok w'
             /\ firstn 2 (contents w') = ex_ms
             /\ nth 2 (contents w') [] = [([97], [0; 1; 0]); ([98], [2; 3; 1])]
             /\ sepb w' = true.
Proof. split; [exact ex_sep | exact ex_concat_keeps_sources]. Qed.
Print Assumptions route_hypothesis_example.

(* if CharacterDataSequence(other) took other's value list itself, the frame would be false: concatenate([m0; m1])
   appends m1's characters to every row of the SOURCE m0 *)
Theorem route_step_frame_refuted_with_shared_values :
  exists w', (NoDup (all_ids (o_init ex_ms)) /\ forall r, In r (all_ids (o_init ex_ms)) -> r < s_next (ow_store (o_init ex_ms)))
             /\ o_run ShareValues (o_init ex_ms) [OConcat [0%nat; 1%nat]] = Ok w'
             /\ nth 0 (contents w') [] = [([97], [0; 1; 0]); ([98], [2; 3; 1])]
             /\ nth 0 (contents w') [] <> nth 0 ex_ms []
             /\ sepb w' = false.
Proof. exact shared_values_refuted_l. Qed.
Print Assumptions route_step_frame_refuted_with_shared_values.

(* translator tie: CharacterDataSequence.__init__(other) of the current source (extend / values inlined) yields
   the model's copy: the same list id, the same allocation counter, the same values in every list *)
Theorem gen_sequence_from_sequence_is_copy : forall (s : store) (ro : rid), ro <> s_next s ->
  snd (CharacterDataSequence_init_from_sequence s ro) = snd (new_from CopyValues s ro)
  /\ s_next (fst (CharacterDataSequence_init_from_sequence s ro)) = s_next (fst (new_from CopyValues s ro))
  /\ forall x, hget (fst (CharacterDataSequence_init_from_sequence s ro)) x = hget (fst (new_from CopyValues s ro)) x.
Proof. exact gen_init_is_copy_l. Qed.
Print Assumptions gen_sequence_from_sequence_is_copy.
