(* C09 property theorems, wave 7 (object level): statements only, each closed by `exact`.
   Model: Model/C09Obj.v.  Part 1: a matrix is a namespace `ns` plus the dictionary `rm` taxon -> sequence in
   the order the rows were ENTERED; `iter_rows ns rm` is CharacterMatrix.__iter__ (namespace order, taxa that
   have a row).  Part 2: `rid` = identity of a row's value list; store = the lists; `o_step md w o` runs one
   merge operation / concatenate / export on the matrices `ow_ms w`, md = what CharacterDataSequence(other)
   does with other's list (CopyValues: the library; ShareValues: the list itself). *)
From Coq Require Import ZArith List Bool Permutation.
From DV Require Import Model.PyPrims Model.C09AlphaTypes Model.C09Alphabets Model.C09Model Model.C09Spec
  Model.C09Nexus Model.C09Convert Model.C09Obj Gen.CharObj Proofs.C09Text Proofs.C09Fasta Proofs.C09NexusProofs
  Proofs.C09ObjProofs Proofs.C09GenObj.
Import ListNotations.
Open Scope Z_scope.

(* the order in which the rows were entered is not observable through iteration: two dictionaries with the same
   (taxon, sequence) pairs give the same matrix *)
Theorem iteration_ignores_entry_order : forall (ns : list text) (rm rm' : rowmap),
  NoDup (map fst rm) -> Permutation rm rm' -> iter_rows ns rm = iter_rows ns rm'.
Proof. exact iter_rows_perm. Qed.
Print Assumptions iteration_ignores_entry_order.

(* the taxa of the matrix are the namespace's taxa that have a row, in namespace order; all of them when every
   taxon has one *)
Theorem iteration_is_namespace_order : forall (ns : list text) (rm : rowmap),
  map fst (iter_rows ns rm) = filter (has_row rm) ns /\
  ((forall l, In l ns -> has_row rm l = true) -> map fst (iter_rows ns rm) = ns).
Proof. intros ns rm. split; [apply iter_rows_labels | apply iter_rows_labels_full]. Qed.
Print Assumptions iteration_is_namespace_order.

(* NEXUS with simple=True (one DATA block, no TAXA block: the reader rebuilds the namespace from the MATRIX
   rows), data types DNA / RNA / NUCLEOTIDE / PROTEIN: whatever the order rm' in which the rows were entered,
   the reader applied to the writer's tokens returns the matrix in NAMESPACE order and a namespace listing
   the matrix's taxa in namespace order. *)
Theorem nexus_simple_roundtrip_keeps_namespace_order : forall (lower : text -> text) (dt : dtype) (cs : bool)
    (ns : list text) (rm rm' : rowmap) (nchar : Z),
  fixed_dtype dt = true ->
  NoDup (map fst rm) -> Permutation rm rm' ->
  iter_rows ns rm <> [] -> 1 <= nchar ->
  forallb label_token_ok (map fst (iter_rows ns rm)) = true ->
  NoDup (map (keyf lower cs) (map fst (iter_rows ns rm))) ->
  cells_ok (alphabet_of_dtype dt) (iter_rows ns rm) = true ->
  rectangular nchar (iter_rows ns rm) = true ->
  exists toks st',
    write_chars_block dt [alphabet_of_dtype dt] [] (mkNW true None None) (rows_by IterMatrix ns rm') = Ok toks
    /\ read_chars_block lower keep_ns (nx_init [] None cs) toks
       = Ok (st', [mkBR dt (alphabet_of_dtype dt) (iter_rows ns rm) (filter (has_row rm) ns) None None], [EOL; EOL; EOL]).
Proof. exact nexus_simple_order_l. Qed.
Print Assumptions nexus_simple_roundtrip_keeps_namespace_order.

(* a writer that walks the dictionary (order of entry) instead does NOT: for namespace [a; b] with the rows
   entered b, a the DATA block reads back with taxa and namespace [b; a] *)
Theorem nexus_simple_roundtrip_entered_order_refuted :
  exists toks st' rows nsb,
    NoDup (map fst ex_rm) /\ (forall l, In l ex_ns -> has_row ex_rm l = true) /\
    write_chars_block DtDna [alphabet_of_dtype DtDna] [] (mkNW true None None) (rows_by IterEntered ex_ns ex_rm) = Ok toks
    /\ read_chars_block (fun t => t) keep_ns (nx_init [] None false) toks
       = Ok (st', [mkBR DtDna (alphabet_of_dtype DtDna) rows nsb None None], [EOL; EOL; EOL])
    /\ map fst rows <> map fst (iter_rows ex_ns ex_rm) /\ nsb <> ex_ns.
Proof. exact entered_order_refuted_l. Qed.
Print Assumptions nexus_simple_roundtrip_entered_order_refuted.

(* translator tie: the iteration NexusWriter._write_char_block (current source) uses for the rows *)
Theorem gen_write_char_block_row_iteration_is_model : forall (ns : list text) (rm : rowmap),
  rows_by NexusWriter_write_char_block_row_iter ns rm = iter_rows ns rm.
Proof. exact gen_row_iter_is_matrix_l. Qed.
Print Assumptions gen_write_char_block_row_iteration_is_model.

(* ---- construction routes over several matrices ---- *)

(* frame: in a world where no value list sits under two (matrix, taxon) slots and every id is allocated, a
   step (add_/replace_/update_/extend_sequences, extend_matrix on receiver k with argument j; concatenate;
   export_character_indices) changes no matrix other than its receiver - the argument / source matrices
   included: same taxon -> list map, same values in every list *)
Theorem route_step_changes_no_other_matrix : forall (w : oworld) (o : oop) (w' : oworld) (i : nat) (mi : orows),
  (NoDup (all_ids w) /\ forall r, In r (all_ids w) -> r < s_next (ow_store w)) ->
  o_step CopyValues w o = Ok w' -> receiver o <> Some i -> nth_error (ow_ms w) i = Some mi ->
  nth_error (ow_ms w') i = Some mi /\ deref (ow_store w') mi = deref (ow_store w) mi.
Proof. exact o_step_frame. Qed.
Print Assumptions route_step_changes_no_other_matrix.

(* C09's clause on the sources of a route: a matrix the step does not operate on is written to FASTA and read
   back, AFTER the step, with the content it had before it *)
Theorem source_roundtrip_after_route_step : forall (lower : text -> text) (a : alphabet) (wrap : bool) (width : Z)
    (ns : list text) (w : oworld) (o : oop) (w' : oworld) (i : nat) (mi : orows),
  (NoDup (all_ids w) /\ forall r, In r (all_ids w) -> r < s_next (ow_store w)) ->
  o_step CopyValues w o = Ok w' -> receiver o <> Some i -> nth_error (ow_ms w) i = Some mi ->
  forallb fasta_label_ok (map fst (iter_rows ns (deref (ow_store w) mi))) = true ->
  labels_distinct lower (map fst (iter_rows ns (deref (ow_store w) mi))) = true ->
  cells_ok a (iter_rows ns (deref (ow_store w) mi)) = true ->
  rows_nonempty (iter_rows ns (deref (ow_store w) mi)) = true ->
  exists mi', nth_error (ow_ms w') i = Some mi' /\
    read_fasta lower a (write_fasta a wrap width (iter_rows ns (deref (ow_store w') mi')))
    = Ok (iter_rows ns (deref (ow_store w) mi)).
Proof. exact source_roundtrip_after_step_l. Qed.
Print Assumptions source_roundtrip_after_route_step.

(* the hypothesis is satisfiable (two matrices as from_dict / a reader deliver them), and concatenate([m0; m1])
   leaves both sources as they were *)
Theorem route_hypothesis_example :
  (NoDup (all_ids (o_init ex_ms)) /\ forall r, In r (all_ids (o_init ex_ms)) -> r < s_next (ow_store (o_init ex_ms))) /\
  exists w', o_run CopyValues (o_init ex_ms) [OConcat [0%nat; 1%nat]] = Ok w'
             /\ firstn 2 (contents w') = ex_ms
             /\ nth 2 (contents w') [] = [([97], [0; 1; 0]); ([98], [2; 3; 1])]
             /\ sepb w' = true.
Proof. split; [exact ex_sep | exact ex_concat_keeps_sources]. Qed.
Print Assumptions route_hypothesis_example.

(* if CharacterDataSequence(other) took other's value list itself, the frame would be false: concatenate([m0; m1])
   appends m1's characters to every row of the SOURCE m0 *)
Theorem route_step_frame_refuted_with_shared_values :
  exists w', (NoDup (all_ids (o_init ex_ms)) /\ forall r, In r (all_ids (o_init ex_ms)) -> r < s_next (ow_store (o_init ex_ms)))
             /\ o_run ShareValues (o_init ex_ms) [OConcat [0%nat; 1%nat]] = Ok w'
             /\ nth 0 (contents w') [] = [([97], [0; 1; 0]); ([98], [2; 3; 1])]
             /\ nth 0 (contents w') [] <> nth 0 ex_ms []
             /\ sepb w' = false.
Proof. exact shared_values_refuted_l. Qed.
Print Assumptions route_step_frame_refuted_with_shared_values.

(* translator tie: CharacterDataSequence.__init__(other) of the current source (extend / values inlined) yields
   the model's copy: the same list id, the same allocation counter, the same values in every list *)
Theorem gen_sequence_from_sequence_is_copy : forall (s : store) (ro : rid), ro <> s_next s ->
  snd (CharacterDataSequence_init_from_sequence s ro) = snd (new_from CopyValues s ro)
  /\ s_next (fst (CharacterDataSequence_init_from_sequence s ro)) = s_next (fst (new_from CopyValues s ro))
  /\ forall x, hget (fst (CharacterDataSequence_init_from_sequence s ro)) x = hget (fst (new_from CopyValues s ro)) x.
Proof. exact gen_init_is_copy_l. Qed.
Print Assumptions gen_sequence_from_sequence_is_copy.

From DV Require Import Proofs.C09W9Sep.

(* ---- wave 9: separation is an invariant of routes; whole histories ---- *)

(* a route step preserves separation: after add_/replace_/update_/extend_sequences, extend_matrix, concatenate or
   export_character_indices (CharacterDataSequence(other) copying the values) still no value list sits under two
   (matrix, taxon) slots and every id is allocated *)
Theorem route_step_preserves_separation : forall (w : oworld) (o : oop) (w' : oworld),
  (NoDup (all_ids w) /\ forall r, In r (all_ids w) -> r < s_next (ow_store w)) ->
  o_step CopyValues w o = Ok w' ->
  NoDup (all_ids w') /\ forall r, In r (all_ids w') -> r < s_next (ow_store w').
Proof. exact o_step_sep. Qed.
Print Assumptions route_step_preserves_separation.

(* every world delivered by from_dict / the readers (each row a fresh list) is separated, for ANY matrices *)
Theorem initial_world_separated : forall (ms : list rowmap),
  NoDup (all_ids (o_init ms)) /\ forall r, In r (all_ids (o_init ms)) -> r < s_next (ow_store (o_init ms)).
Proof. exact o_init_sep. Qed.
Print Assumptions initial_world_separated.

(* the flag the correspondence compares with the implementation (sepb; `shared` = its negation) decides separation *)
Theorem sepb_decides_separation : forall (w : oworld),
  sepb w = true <-> (NoDup (all_ids w) /\ forall r, In r (all_ids w) -> r < s_next (ow_store w)).
Proof. exact sepb_spec. Qed.
Print Assumptions sepb_decides_separation.

(* whole histories: for every history of route steps from a separated world that runs, at EVERY position
   (pre ++ o :: post) the step o starts in a separated world w1, ends in a separated world w2, changes no matrix
   but its receiver (same taxon -> list map, same values in every list), and the final world is separated *)
Theorem route_history_changes_only_receivers : forall (pre : list oop) (o : oop) (post : list oop) (w wf : oworld),
  (NoDup (all_ids w) /\ forall r, In r (all_ids w) -> r < s_next (ow_store w)) ->
  o_run CopyValues w (pre ++ o :: post) = Ok wf ->
  exists w1 w2,
    o_run CopyValues w pre = Ok w1 /\ o_step CopyValues w1 o = Ok w2 /\ o_run CopyValues w2 post = Ok wf
    /\ (NoDup (all_ids w1) /\ forall r, In r (all_ids w1) -> r < s_next (ow_store w1))
    /\ (NoDup (all_ids w2) /\ forall r, In r (all_ids w2) -> r < s_next (ow_store w2))
    /\ (NoDup (all_ids wf) /\ forall r, In r (all_ids wf) -> r < s_next (ow_store wf))
    /\ forall i mi, receiver o <> Some i -> nth_error (ow_ms w1) i = Some mi ->
         nth_error (ow_ms w2) i = Some mi /\ deref (ow_store w2) mi = deref (ow_store w1) mi.
Proof. exact route_history_l. Qed.
Print Assumptions route_history_changes_only_receivers.

(* a matrix that no step of the route has as its receiver - a pure SOURCE - has after the whole route the
   taxon -> list map and the values it had before it *)
Theorem route_keeps_pure_sources : forall (ops : list oop) (w w' : oworld) (i : nat) (mi : orows),
  (NoDup (all_ids w) /\ forall r, In r (all_ids w) -> r < s_next (ow_store w)) ->
  o_run CopyValues w ops = Ok w' -> (forall o, In o ops -> receiver o <> Some i) ->
  nth_error (ow_ms w) i = Some mi ->
  nth_error (ow_ms w') i = Some mi /\ deref (ow_store w') mi = deref (ow_store w) mi.
Proof. exact o_run_frame. Qed.
Print Assumptions route_keeps_pure_sources.

(* C09's clause on the sources, whole routes: such a matrix is written to FASTA and read back AFTER the route
   with the content it had before it (the frame gives equality of the matrix: every other round-trip theorem
   composes the same way) *)
Theorem source_roundtrip_after_route : forall (lower : text -> text) (a : alphabet) (wrap : bool) (width : Z)
    (ns : list text) (w : oworld) (ops : list oop) (w' : oworld) (i : nat) (mi : orows),
  (NoDup (all_ids w) /\ forall r, In r (all_ids w) -> r < s_next (ow_store w)) ->
  o_run CopyValues w ops = Ok w' -> (forall o, In o ops -> receiver o <> Some i) ->
  nth_error (ow_ms w) i = Some mi ->
  forallb fasta_label_ok (map fst (iter_rows ns (deref (ow_store w) mi))) = true ->
  labels_distinct lower (map fst (iter_rows ns (deref (ow_store w) mi))) = true ->
  cells_ok a (iter_rows ns (deref (ow_store w) mi)) = true ->
  rows_nonempty (iter_rows ns (deref (ow_store w) mi)) = true ->
  exists mi', nth_error (ow_ms w') i = Some mi' /\
    read_fasta lower a (write_fasta a wrap width (iter_rows ns (deref (ow_store w') mi')))
    = Ok (iter_rows ns (deref (ow_store w) mi)).
Proof. exact source_roundtrip_after_route_l. Qed.
Print Assumptions source_roundtrip_after_route.

(* routes from delivered matrices: whatever the matrices and the steps, the model's `shared` flag is false at the
   end (what the object-level correspondence compares with the implementation on every pool route) *)
Theorem route_from_initial_world_never_shares : forall (ms : list rowmap) (ops : list oop) (w' : oworld),
  o_run CopyValues (o_init ms) ops = Ok w' -> sepb w' = true.
Proof. exact route_from_init_sepb. Qed.
Print Assumptions route_from_initial_world_never_shares.

(* the hypotheses are satisfiable: a five-step route (update_sequences, extend_sequences, concatenate with a
   repeated argument, export_character_indices, replace_sequences) over three delivered matrices runs *)
Theorem route_history_example :
  exists w', o_run CopyValues (o_init ex_ms3) ex_route = Ok w'
             /\ length (ow_ms w') = 5%nat
             /\ nth 0 (contents w') [] = [([97], [0; 1]); ([98], [2; 3]); ([99], [3; 3])]
             /\ nth 1 (contents w') [] = [([98], [1; 2; 3]); ([97], [0; 0; 1]); ([99], [3; 3])]
             /\ nth 2 (contents w') [] = [([99], [3])]
             /\ nth 3 (contents w') [] = [([97], [0; 1; 0; 0; 1; 0; 1]); ([98], [2; 3; 1; 2; 3; 2; 3]); ([99], [3; 3; 3; 3; 3; 3])].
Proof. exact ex_route_runs. Qed.
Print Assumptions route_history_example.

(* preservation is false if CharacterDataSequence(other) took other's value list itself: one concatenate from a
   separated world ends in a world with a list under two slots *)
Theorem route_step_separation_refuted_with_shared_values :
  exists w', (NoDup (all_ids (o_init ex_ms)) /\ forall r, In r (all_ids (o_init ex_ms)) -> r < s_next (ow_store (o_init ex_ms)))
             /\ o_step ShareValues (o_init ex_ms) (OConcat [0%nat; 1%nat]) = Ok w'
             /\ ~ (NoDup (all_ids w') /\ forall r, In r (all_ids w') -> r < s_next (ow_store w')).
Proof. exact sep_preservation_refuted_shared_l. Qed.
Print Assumptions route_step_separation_refuted_with_shared_values.

From DV Require Import Proofs.C09PhylipInst Proofs.C09NexusStd Proofs.C09Main Proofs.C09Examples
  Proofs.C09W10Src Proofs.C09W10Val Proofs.C09W10Rt Proofs.C09W10Spec.

(* ---- wave 10: the round trip after a route, every format; sources AND receivers / results ---- *)

(* MX ns w mi: matrix mi of world w as every writer walks it (namespace order over the dereferenced rows) *)
Local Notation MX ns w mi := (iter_rows ns (deref (ow_store w) mi)).

(* (a) SOURCES: source_roundtrip_after_route instantiated for the other formats.  A matrix that no step of the
   route has as its receiver is written AFTER the route and read back with the content it had BEFORE it. *)

(* PHYLIP, all four variants (strict / relaxed x sequential / interleaved), any delimiter / underscore setting *)
Theorem source_roundtrip_after_route_phylip : forall (lower : text -> text) (a : alphabet) (wo : phy_wopts) (ro : phy_ropts)
    (nchar : Z) (ns : list text) w ops w' i mi,
  (NoDup (all_ids w) /\ forall r, In r (all_ids w) -> r < s_next (ow_store w)) -> o_run CopyValues w ops = Ok w' -> (forall o, In o ops -> receiver o <> Some i) ->
  nth_error (ow_ms w) i = Some mi ->
  r_strict ro = w_strict wo ->
  MX ns w mi <> [] -> 1 <= nchar ->
  forallb (phylip_label_ok wo ro) (map fst (MX ns w mi)) = true ->
  labels_distinct lower (map fst (MX ns w mi)) = true ->
  cells_ok a (MX ns w mi) = true ->
  rectangular nchar (MX ns w mi) = true ->
  exists mi', nth_error (ow_ms w') i = Some mi' /\
    exists t, write_phylip (symbols_as_string a) wo (MX ns w' mi') = Ok t
              /\ read_phylip lower Z (phylip_states a) ro t = Ok (MX ns w mi).
Proof. exact source_phylip_after_route_l. Qed.
Print Assumptions source_roundtrip_after_route_phylip.

(* PHYLIP, continuous characters: the cells of the store name the values (dec); render / parse premises as in phylip_continuous_roundtrip *)
Theorem source_roundtrip_after_route_phylip_continuous : forall (lower : text -> text) (V : Type) (render : V -> text)
    (parse : text -> option V) (dec : Z -> V),
  (forall v, parse (render v) = Some v) ->
  (forall v, render v <> [] /\ nospace (render v)) ->
  forall (wo : phy_wopts) (ro : phy_ropts) (nchar : Z) (ns : list text) w ops w' i mi,
  (NoDup (all_ids w) /\ forall r, In r (all_ids w) -> r < s_next (ow_store w)) -> o_run CopyValues w ops = Ok w' -> (forall o, In o ops -> receiver o <> Some i) ->
  nth_error (ow_ms w) i = Some mi ->
  r_strict ro = w_strict wo ->
  cont_rows dec (MX ns w mi) <> [] -> 1 <= nchar ->
  forallb (phylip_label_ok wo ro) (map fst (cont_rows dec (MX ns w mi))) = true ->
  labels_distinct lower (map fst (cont_rows dec (MX ns w mi))) = true ->
  rectangular nchar (cont_rows dec (MX ns w mi)) = true ->
  exists mi', nth_error (ow_ms w') i = Some mi' /\
    exists t, write_phylip (cont_as_string V render) wo (cont_rows dec (MX ns w' mi')) = Ok t
              /\ read_phylip lower V (phylip_cont V parse) ro t = Ok (cont_rows dec (MX ns w mi)).
Proof. exact source_phylip_continuous_after_route_l. Qed.
Print Assumptions source_roundtrip_after_route_phylip_continuous.

(* NEXUS CHARACTERS / DATA block, token level, DNA / RNA / NUCLEOTIDE / PROTEIN *)
Theorem source_roundtrip_after_route_nexus : forall (lower : text -> text) (dt : dtype) (simple cs : bool) (nchar : Z)
    (ns : list text) w ops w' i mi,
  (NoDup (all_ids w) /\ forall r, In r (all_ids w) -> r < s_next (ow_store w)) -> o_run CopyValues w ops = Ok w' -> (forall o, In o ops -> receiver o <> Some i) ->
  nth_error (ow_ms w) i = Some mi ->
  fixed_dtype dt = true ->
  MX ns w mi <> [] -> 1 <= nchar ->
  forallb label_token_ok (map fst (MX ns w mi)) = true ->
  NoDup (map (keyf lower cs) (map fst (MX ns w mi))) ->
  cells_ok (alphabet_of_dtype dt) (MX ns w mi) = true ->
  rectangular nchar (MX ns w mi) = true ->
  exists mi', nth_error (ow_ms w') i = Some mi' /\
    exists toks st',
      write_chars_block dt [alphabet_of_dtype dt] [] (mkNW simple None None) (MX ns w' mi') = Ok toks
      /\ read_chars_block lower keep_ns
           (if simple then nx_init [] None cs
            else nx_init (map fst (MX ns w mi)) (Some (len (MX ns w mi))) cs) toks
         = Ok (st', [mkBR dt (alphabet_of_dtype dt) (MX ns w mi) (map fst (MX ns w mi)) None None], [EOL; EOL; EOL]).
Proof. exact source_nexus_after_route_l. Qed.
Print Assumptions source_roundtrip_after_route_nexus.

(* NEXUS, the data types written as DATATYPE=STANDARD SYMBOLS="..": same taxa, same states by symbol *)
Theorem source_roundtrip_after_route_nexus_standard : forall (lower : text -> text) (dt : dtype) (a : alphabet)
    (sym_order : list text) (simple cs : bool) (nchar : Z) (ns : list text) w ops w' i mi,
  (NoDup (all_ids w) /\ forall r, In r (all_ids w) -> r < s_next (ow_store w)) -> o_run CopyValues w ops = Ok w' -> (forall o, In o ops -> receiver o <> Some i) ->
  nth_error (ow_ms w) i = Some mi ->
  std_dtype dt = true -> std_alphabet_ok a = true ->
  same_set sym_order (fundamental_symbols [a]) = true -> texts_distinct sym_order = true ->
  MX ns w mi <> [] -> 1 <= nchar ->
  forallb label_token_ok (map fst (MX ns w mi)) = true ->
  NoDup (map (keyf lower cs) (map fst (MX ns w mi))) ->
  forallb (fun r => forallb (valid_cell a) (snd r)) (MX ns w mi) = true ->
  rectangular nchar (MX ns w mi) = true ->
  exists mi', nth_error (ow_ms w') i = Some mi' /\
    exists toks st' b rows',
      write_chars_block dt [a] sym_order (mkNW simple None None) (MX ns w' mi') = Ok toks
      /\ read_chars_block lower keep_ns
           (if simple then nx_init [] None cs
            else nx_init (map fst (MX ns w mi)) (Some (len (MX ns w mi))) cs) toks
         = Ok (st', [mkBR DtStandard b rows' (map fst (MX ns w mi)) None None], [EOL; EOL; EOL])
      /\ map fst rows' = map fst (MX ns w mi)
      /\ map (fun r => map (state_str b) (snd r)) rows'
         = map (fun r => map (state_str a) (snd r)) (MX ns w mi).
Proof. exact source_nexus_standard_after_route_l. Qed.
Print Assumptions source_roundtrip_after_route_nexus_standard.

(* every modelled format at once (Model/C09Convert.v: FASTA any wrapping, any PHYLIP variant, NEXUS DATA / CHARACTERS) *)
Theorem source_roundtrip_after_route_any_format : forall (lower : text -> text) (dt : dtype) (nchar : Z) (f : format)
    (ns : list text) w ops w' i mi,
  (NoDup (all_ids w) /\ forall r, In r (all_ids w) -> r < s_next (ow_store w)) -> o_run CopyValues w ops = Ok w' -> (forall o, In o ops -> receiver o <> Some i) ->
  nth_error (ow_ms w) i = Some mi ->
  admissible lower dt nchar f (MX ns w mi) = true ->
  exists mi', nth_error (ow_ms w') i = Some mi' /\ through lower dt f (MX ns w' mi') = Ok (MX ns w mi).
Proof. exact source_through_after_route_l. Qed.
Print Assumptions source_roundtrip_after_route_any_format.

(* satisfiable: a three-step route (extend_sequences, concatenate, export_character_indices) over two delivered
   matrices runs, matrix 0 is never a receiver, and its content meets the hypotheses of each theorem above *)

(* the route part of the hypotheses *)
Theorem source_route_example :
  (NoDup (all_ids (o_init ex_ms)) /\ forall r, In r (all_ids (o_init ex_ms)) -> r < s_next (ow_store (o_init ex_ms)))
  /\ (exists w', o_run CopyValues (o_init ex_ms) ex_route10 = Ok w' /\ length (ow_ms w') = 4%nat)
  /\ (forall o, In o ex_route10 -> receiver o <> Some 0%nat)
  /\ nth_error (ow_ms (o_init ex_ms)) 0 = Some ex_mi0
  /\ MX ex_ns (o_init ex_ms) ex_mi0 = [([97], [0; 1]); ([98], [2; 3])].
Proof. exact ex10_route. Qed.
Print Assumptions source_route_example.

(* PHYLIP strict+interleaved+underscore conversion and relaxed+two-blank delimiter *)
Theorem source_route_phylip_hypotheses_example :
  let m := MX ex_ns (o_init ex_ms) ex_mi0 in
  r_strict (mkPR true true false true) = w_strict (mkPW true true) /\ m <> [] /\ 1 <= 2
  /\ forallb (phylip_label_ok (mkPW true true) (mkPR true true false true)) (map fst m) = true
  /\ forallb (phylip_label_ok (mkPW false false) (mkPR false false true false)) (map fst m) = true
  /\ labels_distinct ascii_low (map fst m) = true /\ cells_ok alpha_dna m = true /\ rectangular 2 m = true.
Proof. exact ex10_phylip_hyps. Qed.
Print Assumptions source_route_phylip_hypotheses_example.

(* PHYLIP continuous *)
Theorem source_route_phylip_continuous_hypotheses_example :
  let m := cont_rows (fun z => z) (MX ex_ns (o_init ex_ms) ex_mi0) in
  m <> [] /\ forallb (phylip_label_ok (mkPW false false) (mkPR false true true false)) (map fst m) = true
  /\ labels_distinct ascii_low (map fst m) = true /\ rectangular 2 m = true.
Proof. exact ex10_cont_hyps. Qed.
Print Assumptions source_route_phylip_continuous_hypotheses_example.

(* NEXUS fixed data types *)
Theorem source_route_nexus_hypotheses_example :
  let m := MX ex_ns (o_init ex_ms) ex_mi0 in
  fixed_dtype DtDna = true /\ m <> [] /\ 1 <= 2 /\ forallb label_token_ok (map fst m) = true
  /\ NoDup (map (keyf ascii_low false) (map fst m)) /\ cells_ok (alphabet_of_dtype DtDna) m = true
  /\ rectangular 2 m = true.
Proof. exact ex10_nexus_hyps. Qed.
Print Assumptions source_route_nexus_hypotheses_example.

(* NEXUS STANDARD family *)
Theorem source_route_nexus_standard_hypotheses_example :
  let m := MX ex_ns (o_init ex_ms) ex_mi0 in
  std_dtype DtStandard = true /\ std_alphabet_ok alpha_standard = true
  /\ same_set ex_order (fundamental_symbols [alpha_standard]) = true /\ texts_distinct ex_order = true
  /\ m <> [] /\ forallb label_token_ok (map fst m) = true
  /\ NoDup (map (keyf ascii_low true) (map fst m))
  /\ forallb (fun r => forallb (valid_cell alpha_standard) (snd r)) m = true /\ rectangular 2 m = true.
Proof. exact ex10_standard_hyps. Qed.
Print Assumptions source_route_nexus_standard_hypotheses_example.

(* all formats *)
Theorem source_route_any_format_hypotheses_example :
  let m := MX ex_ns (o_init ex_ms) ex_mi0 in
  admissible ascii_low DtDna 2 (FFasta true 70) m = true
  /\ admissible ascii_low DtDna 2 (FPhylip (mkPW true false) (mkPR true true false false)) m = true
  /\ admissible ascii_low DtDna 2 (FPhylip (mkPW false false) (mkPR false false false false)) m = true
  /\ admissible ascii_low DtDna 2 (FNexus false) m = true /\ admissible ascii_low DtProtein 2 (FNexus true) m = true.
Proof. exact ex10_through_hyps. Qed.
Print Assumptions source_route_any_format_hypotheses_example.


(* (b) the value-level semantics of routes (Proofs/C09W10Val.v): a matrix is its dictionary taxon -> sequence, no
   store.  v_bin b rm arg: receiver.op(argument), one v_step per (taxon, sequence) of the argument; v_concat:
   extend_matrix of a new empty matrix with every part; v_export: the selected columns of every row;
   v_op / v_run: one step / a route on the list of all matrices.  The object-level route from a separated world
   computes exactly it, for EVERY matrix of the world. *)

(* one step *)
Theorem route_step_computes_value_semantics : forall w o w', (NoDup (all_ids w) /\ forall r, In r (all_ids w) -> r < s_next (ow_store w)) -> o_step CopyValues w o = Ok w' -> v_op (contents w) o = Ok (contents w').
Proof. exact o_step_value. Qed.
Print Assumptions route_step_computes_value_semantics.

(* whole routes *)
Theorem route_computes_value_semantics : forall ops w w', (NoDup (all_ids w) /\ forall r, In r (all_ids w) -> r < s_next (ow_store w)) -> o_run CopyValues w ops = Ok w' -> v_run (contents w) ops = Ok (contents w').
Proof. exact o_run_value. Qed.
Print Assumptions route_computes_value_semantics.

(* the world of delivered matrices holds exactly those matrices: routes from delivered matrices ms are v_run ms *)
Theorem initial_world_contents : forall ms, contents (o_init ms) = ms.
Proof. exact o_init_contents. Qed.
Print Assumptions initial_world_contents.

(* closed form of the merge operations, row by row (merge: Proofs/C09W10Spec.v): add keeps, replace / update overwrite, extend appends *)
Theorem value_merge_row_rule : forall b arg rm l, NoDup (map fst arg) ->
  rm_get l (v_bin b rm arg) = merge b (rm_get l rm) (rm_get l arg).
Proof. exact rm_get_v_bin. Qed.
Print Assumptions value_merge_row_rule.

(* the same on the walked matrix *)
Theorem value_merge_walked_matrix : forall ns b rm arg, NoDup (map fst arg) ->
  iter_rows ns (v_bin b rm arg)
  = flat_map (fun l => match merge b (rm_get l rm) (rm_get l arg) with Some c => [(l, c)] | None => [] end) ns.
Proof. exact iter_rows_v_bin. Qed.
Print Assumptions value_merge_walked_matrix.

(* concatenate: a taxon has a row iff some part has one; it is the parts' rows for that taxon joined in order *)
Theorem value_concatenate_walked_matrix : forall ns parts, Forall (fun p => NoDup (map fst p)) parts ->
  iter_rows ns (v_concat parts)
  = flat_map (fun l => if existsb (fun p => has_row p l) parts then [(l, concat (map (row_of l) parts))] else []) ns.
Proof. exact iter_rows_v_concat. Qed.
Print Assumptions value_concatenate_walked_matrix.

(* export_character_indices: same taxa, every row cut down to the selected columns *)
Theorem value_export_walked_matrix : forall ns idx rm,
  iter_rows ns (v_export idx rm) = map (fun r => (fst r, select_cols idx 0 (snd r))) (iter_rows ns rm).
Proof. exact iter_rows_v_export. Qed.
Print Assumptions value_export_walked_matrix.

(* dictionaries stay dictionaries along a route (the closed forms above apply at every step) *)
Theorem value_route_keeps_keys_distinct : forall ops cs cs', Forall (fun p => NoDup (map fst p)) cs -> v_run cs ops = Ok cs' ->
  Forall (fun p => NoDup (map fst p)) cs'.
Proof. exact v_run_keys. Qed.
Print Assumptions value_route_keeps_keys_distinct.


(* (c) RECEIVERS and RESULTS: after a route from a separated world, matrix i of the final world - a receiver, a
   concatenate result, an export result or a source alike - is written and read back with the content c the
   value-level semantics gives it (nth_error cs i = Some c, cs = the value-level run), in every format. *)

(* FASTA *)
Theorem matrix_roundtrip_after_route_fasta : forall (lower : text -> text) (a : alphabet) (wrap : bool) (width : Z)
    (ns : list text) w ops w' cs i c,
  (NoDup (all_ids w) /\ forall r, In r (all_ids w) -> r < s_next (ow_store w)) -> o_run CopyValues w ops = Ok w' -> v_run (contents w) ops = Ok cs -> nth_error cs i = Some c ->
  forallb fasta_label_ok (map fst (iter_rows ns c)) = true ->
  labels_distinct lower (map fst (iter_rows ns c)) = true ->
  cells_ok a (iter_rows ns c) = true ->
  rows_nonempty (iter_rows ns c) = true ->
  exists mi', nth_error (ow_ms w') i = Some mi' /\
    read_fasta lower a (write_fasta a wrap width (MX ns w' mi')) = Ok (iter_rows ns c).
Proof. exact result_fasta_after_route_l. Qed.
Print Assumptions matrix_roundtrip_after_route_fasta.

(* PHYLIP, all four variants *)
Theorem matrix_roundtrip_after_route_phylip : forall (lower : text -> text) (a : alphabet) (wo : phy_wopts) (ro : phy_ropts)
    (nchar : Z) (ns : list text) w ops w' cs i c,
  (NoDup (all_ids w) /\ forall r, In r (all_ids w) -> r < s_next (ow_store w)) -> o_run CopyValues w ops = Ok w' -> v_run (contents w) ops = Ok cs -> nth_error cs i = Some c ->
  r_strict ro = w_strict wo ->
  iter_rows ns c <> [] -> 1 <= nchar ->
  forallb (phylip_label_ok wo ro) (map fst (iter_rows ns c)) = true ->
  labels_distinct lower (map fst (iter_rows ns c)) = true ->
  cells_ok a (iter_rows ns c) = true ->
  rectangular nchar (iter_rows ns c) = true ->
  exists mi', nth_error (ow_ms w') i = Some mi' /\
    exists t, write_phylip (symbols_as_string a) wo (MX ns w' mi') = Ok t
              /\ read_phylip lower Z (phylip_states a) ro t = Ok (iter_rows ns c).
Proof. exact result_phylip_after_route_l. Qed.
Print Assumptions matrix_roundtrip_after_route_phylip.

(* PHYLIP continuous *)
Theorem matrix_roundtrip_after_route_phylip_continuous : forall (lower : text -> text) (V : Type) (render : V -> text)
    (parse : text -> option V) (dec : Z -> V),
  (forall v, parse (render v) = Some v) ->
  (forall v, render v <> [] /\ nospace (render v)) ->
  forall (wo : phy_wopts) (ro : phy_ropts) (nchar : Z) (ns : list text) w ops w' cs i c,
  (NoDup (all_ids w) /\ forall r, In r (all_ids w) -> r < s_next (ow_store w)) -> o_run CopyValues w ops = Ok w' -> v_run (contents w) ops = Ok cs -> nth_error cs i = Some c ->
  r_strict ro = w_strict wo ->
  cont_rows dec (iter_rows ns c) <> [] -> 1 <= nchar ->
  forallb (phylip_label_ok wo ro) (map fst (cont_rows dec (iter_rows ns c))) = true ->
  labels_distinct lower (map fst (cont_rows dec (iter_rows ns c))) = true ->
  rectangular nchar (cont_rows dec (iter_rows ns c)) = true ->
  exists mi', nth_error (ow_ms w') i = Some mi' /\
    exists t, write_phylip (cont_as_string V render) wo (cont_rows dec (MX ns w' mi')) = Ok t
              /\ read_phylip lower V (phylip_cont V parse) ro t = Ok (cont_rows dec (iter_rows ns c)).
Proof. exact result_phylip_continuous_after_route_l. Qed.
Print Assumptions matrix_roundtrip_after_route_phylip_continuous.

(* NEXUS fixed data types *)
Theorem matrix_roundtrip_after_route_nexus : forall (lower : text -> text) (dt : dtype) (simple cs0 : bool) (nchar : Z)
    (ns : list text) w ops w' cs i c,
  (NoDup (all_ids w) /\ forall r, In r (all_ids w) -> r < s_next (ow_store w)) -> o_run CopyValues w ops = Ok w' -> v_run (contents w) ops = Ok cs -> nth_error cs i = Some c ->
  fixed_dtype dt = true ->
  iter_rows ns c <> [] -> 1 <= nchar ->
  forallb label_token_ok (map fst (iter_rows ns c)) = true ->
  NoDup (map (keyf lower cs0) (map fst (iter_rows ns c))) ->
  cells_ok (alphabet_of_dtype dt) (iter_rows ns c) = true ->
  rectangular nchar (iter_rows ns c) = true ->
  exists mi', nth_error (ow_ms w') i = Some mi' /\
    exists toks st',
      write_chars_block dt [alphabet_of_dtype dt] [] (mkNW simple None None) (MX ns w' mi') = Ok toks
      /\ read_chars_block lower keep_ns
           (if simple then nx_init [] None cs0
            else nx_init (map fst (iter_rows ns c)) (Some (len (iter_rows ns c))) cs0) toks
         = Ok (st', [mkBR dt (alphabet_of_dtype dt) (iter_rows ns c) (map fst (iter_rows ns c)) None None], [EOL; EOL; EOL]).
Proof. exact result_nexus_after_route_l. Qed.
Print Assumptions matrix_roundtrip_after_route_nexus.

(* NEXUS STANDARD family *)
Theorem matrix_roundtrip_after_route_nexus_standard : forall (lower : text -> text) (dt : dtype) (a : alphabet)
    (sym_order : list text) (simple cs0 : bool) (nchar : Z) (ns : list text) w ops w' cs i c,
  (NoDup (all_ids w) /\ forall r, In r (all_ids w) -> r < s_next (ow_store w)) -> o_run CopyValues w ops = Ok w' -> v_run (contents w) ops = Ok cs -> nth_error cs i = Some c ->
  std_dtype dt = true -> std_alphabet_ok a = true ->
  same_set sym_order (fundamental_symbols [a]) = true -> texts_distinct sym_order = true ->
  iter_rows ns c <> [] -> 1 <= nchar ->
  forallb label_token_ok (map fst (iter_rows ns c)) = true ->
  NoDup (map (keyf lower cs0) (map fst (iter_rows ns c))) ->
  forallb (fun r => forallb (valid_cell a) (snd r)) (iter_rows ns c) = true ->
  rectangular nchar (iter_rows ns c) = true ->
  exists mi', nth_error (ow_ms w') i = Some mi' /\
    exists toks st' b rows',
      write_chars_block dt [a] sym_order (mkNW simple None None) (MX ns w' mi') = Ok toks
      /\ read_chars_block lower keep_ns
           (if simple then nx_init [] None cs0
            else nx_init (map fst (iter_rows ns c)) (Some (len (iter_rows ns c))) cs0) toks
         = Ok (st', [mkBR DtStandard b rows' (map fst (iter_rows ns c)) None None], [EOL; EOL; EOL])
      /\ map fst rows' = map fst (iter_rows ns c)
      /\ map (fun r => map (state_str b) (snd r)) rows'
         = map (fun r => map (state_str a) (snd r)) (iter_rows ns c).
Proof. exact result_nexus_standard_after_route_l. Qed.
Print Assumptions matrix_roundtrip_after_route_nexus_standard.

(* every modelled format at once *)
Theorem matrix_roundtrip_after_route_any_format : forall (lower : text -> text) (dt : dtype) (nchar : Z) (f : format)
    (ns : list text) w ops w' cs i c,
  (NoDup (all_ids w) /\ forall r, In r (all_ids w) -> r < s_next (ow_store w)) -> o_run CopyValues w ops = Ok w' -> v_run (contents w) ops = Ok cs -> nth_error cs i = Some c ->
  admissible lower dt nchar f (iter_rows ns c) = true ->
  exists mi', nth_error (ow_ms w') i = Some mi' /\ through lower dt f (MX ns w' mi') = Ok (iter_rows ns c).
Proof. exact result_through_after_route_l. Qed.
Print Assumptions matrix_roundtrip_after_route_any_format.

(* satisfiable: the same route; matrix 1 is the receiver of extend_sequences, matrix 2 the concatenate result,
   matrix 3 the export result; their value-level contents meet the hypotheses of each theorem above *)

(* the route part: the value-level run and the three contents *)
Theorem matrix_route_example :
  (NoDup (all_ids (o_init ex_ms)) /\ forall r, In r (all_ids (o_init ex_ms)) -> r < s_next (ow_store (o_init ex_ms)))
  /\ (exists w', o_run CopyValues (o_init ex_ms) ex_route10 = Ok w')
  /\ v_run (contents (o_init ex_ms)) ex_route10 = Ok ex10_cs
  /\ nth_error ex10_cs 1 = Some [([98], [1; 2; 3]); ([97], [0; 0; 1])]
  /\ nth_error ex10_cs 2 = Some [([97], [0; 1; 0; 0; 1]); ([98], [2; 3; 1; 2; 3])]
  /\ nth_error ex10_cs 3 = Some [([97], [0; 0]); ([98], [2; 1])]
  /\ iter_rows ex_ns [([98], [1; 2; 3]); ([97], [0; 0; 1])] = [([97], [0; 0; 1]); ([98], [1; 2; 3])].
Proof. exact ex10_value_route. Qed.
Print Assumptions matrix_route_example.

(* FASTA, concatenate result *)
Theorem matrix_route_fasta_hypotheses_example :
  let m := iter_rows ex_ns ex10_concat in
  forallb fasta_label_ok (map fst m) = true /\ labels_distinct ascii_low (map fst m) = true
  /\ cells_ok alpha_dna m = true /\ rows_nonempty m = true.
Proof. exact ex10r_fasta_hyps. Qed.
Print Assumptions matrix_route_fasta_hypotheses_example.

(* PHYLIP, concatenate result *)
Theorem matrix_route_phylip_hypotheses_example :
  let m := iter_rows ex_ns ex10_concat in
  r_strict (mkPR true true false true) = w_strict (mkPW true true) /\ m <> [] /\ 1 <= 5
  /\ forallb (phylip_label_ok (mkPW true true) (mkPR true true false true)) (map fst m) = true
  /\ forallb (phylip_label_ok (mkPW false false) (mkPR false false true false)) (map fst m) = true
  /\ labels_distinct ascii_low (map fst m) = true /\ cells_ok alpha_dna m = true /\ rectangular 5 m = true.
Proof. exact ex10r_phylip_hyps. Qed.
Print Assumptions matrix_route_phylip_hypotheses_example.

(* PHYLIP continuous, concatenate result *)
Theorem matrix_route_phylip_continuous_hypotheses_example :
  let m := cont_rows (fun z => z) (iter_rows ex_ns ex10_concat) in
  m <> [] /\ forallb (phylip_label_ok (mkPW false false) (mkPR false true true false)) (map fst m) = true
  /\ labels_distinct ascii_low (map fst m) = true /\ rectangular 5 m = true.
Proof. exact ex10r_cont_hyps. Qed.
Print Assumptions matrix_route_phylip_continuous_hypotheses_example.

(* NEXUS, concatenate result *)
Theorem matrix_route_nexus_hypotheses_example :
  let m := iter_rows ex_ns ex10_concat in
  fixed_dtype DtDna = true /\ m <> [] /\ 1 <= 5 /\ forallb label_token_ok (map fst m) = true
  /\ NoDup (map (keyf ascii_low false) (map fst m)) /\ cells_ok (alphabet_of_dtype DtDna) m = true
  /\ rectangular 5 m = true.
Proof. exact ex10r_nexus_hyps. Qed.
Print Assumptions matrix_route_nexus_hypotheses_example.

(* NEXUS STANDARD family, concatenate result *)
Theorem matrix_route_nexus_standard_hypotheses_example :
  let m := iter_rows ex_ns ex10_concat in
  std_dtype DtStandard = true /\ std_alphabet_ok alpha_standard = true
  /\ same_set ex_order (fundamental_symbols [alpha_standard]) = true /\ texts_distinct ex_order = true
  /\ m <> [] /\ forallb label_token_ok (map fst m) = true
  /\ NoDup (map (keyf ascii_low true) (map fst m))
  /\ forallb (fun r => forallb (valid_cell alpha_standard) (snd r)) m = true /\ rectangular 5 m = true.
Proof. exact ex10r_standard_hyps. Qed.
Print Assumptions matrix_route_nexus_standard_hypotheses_example.

(* all formats: concatenate result, receiver, export result *)
Theorem matrix_route_any_format_hypotheses_example :
  admissible ascii_low DtDna 5 (FFasta true 70) (iter_rows ex_ns ex10_concat) = true
  /\ admissible ascii_low DtDna 5 (FPhylip (mkPW true false) (mkPR true true false false)) (iter_rows ex_ns ex10_concat) = true
  /\ admissible ascii_low DtDna 5 (FNexus false) (iter_rows ex_ns ex10_concat) = true
  /\ admissible ascii_low DtDna 3 (FPhylip (mkPW false false) (mkPR false false false false))
       (iter_rows ex_ns [([98], [1; 2; 3]); ([97], [0; 0; 1])]) = true
  /\ admissible ascii_low DtDna 3 (FNexus true) (iter_rows ex_ns [([98], [1; 2; 3]); ([97], [0; 0; 1])]) = true
  /\ admissible ascii_low DtDna 2 (FFasta false 0) (iter_rows ex_ns [([97], [0; 0]); ([98], [2; 1])]) = true
  /\ admissible ascii_low DtProtein 2 (FNexus true) (iter_rows ex_ns [([97], [0; 0]); ([98], [2; 1])]) = true.
Proof. exact ex10r_through_hyps. Qed.
Print Assumptions matrix_route_any_format_hypotheses_example.

From DV Require Import Proofs.C09W10Tot.

(* the value-level run and the object-level run succeed together: whenever the value-level route runs, the
   object-level route from a separated world runs too and ends in a world holding exactly its matrices (so the
   hypothesis `o_run .. = Ok w'` of the theorems under (c) follows from the value-level run) *)
Theorem route_runs_when_value_semantics_runs : forall (ops : list oop) (w : oworld) (cs : list rowmap),
  (NoDup (all_ids w) /\ forall r, In r (all_ids w) -> r < s_next (ow_store w)) ->
  v_run (contents w) ops = Ok cs ->
  exists w', o_run CopyValues w ops = Ok w' /\ contents w' = cs.
Proof. exact o_run_value_total. Qed.
Print Assumptions route_runs_when_value_semantics_runs.

(* false if CharacterDataSequence(other) took other's value list itself: after concatenate([m0; m1]) the SOURCE
   m0 holds m1's characters too, the value-level semantics leaves it alone *)
Theorem route_value_semantics_refuted_with_shared_values :
  exists w' cs, (NoDup (all_ids (o_init ex_ms)) /\ forall r, In r (all_ids (o_init ex_ms)) -> r < s_next (ow_store (o_init ex_ms)))
    /\ o_run ShareValues (o_init ex_ms) [OConcat [0%nat; 1%nat]] = Ok w'
    /\ v_run (contents (o_init ex_ms)) [OConcat [0%nat; 1%nat]] = Ok cs
    /\ nth 0 cs [] = [([97], [0; 1]); ([98], [2; 3])]
    /\ nth 0 (contents w') [] = [([97], [0; 1; 0]); ([98], [2; 3; 1])]
    /\ contents w' <> cs.
Proof. exact value_semantics_refuted_shared_l. Qed.
Print Assumptions route_value_semantics_refuted_with_shared_values.
