(* C18 - simulated trees meet their specification for every seed and are reproducible.
   Statements about the executable model coq/Model/C18Model.v (a transcription of
   birth_death_tree, fast_birth_death_tree, uniform_pure_birth_tree, coalesce_nodes,
   pure_kingman_tree, contained_coalescent_tree over a finite draw script); proofs in
   Proofs/C18*.v.  Arithmetic is exact (Q); binary64 rounding is outside the model. *)
From Coq Require Import QArith List Bool Arith Permutation.
From DV Require Import Model.C18Model.
From DV Require Import Proofs.C18Lists Proofs.C18Tree Proofs.C18Monad Proofs.C18BD Proofs.C18FBD Proofs.C18PB Proofs.C18Coal Proofs.C18CC Proofs.C18Frame Proofs.C18Examples Proofs.C18Final Proofs.C18Labels.
Import ListNotations.
Open Scope nat_scope.

(* ---- birth_death_tree: partial correctness over EVERY draw script (termination of the random
   walk is not claimed).  cs = the namespace's case sensitivity, ns = its labels, ns' = the labels
   afterwards.  The first argument of bd_sim selects the form of the fresh-label site:
   false = the code as it stands (taxon_namespace.require_taxon(label)), true = the repaired form
   (a new taxon is always created); py/dv/c18.py detects which form the working tree has. ---- *)

(* full specification, repaired fresh-label site *)
Theorem bd_result_spec : forall (cs : bool) (P : bdp) (ns : list lab) (script : list draw)
                                (t : btree) (ns' : list lab) (r : rs),
  1 <= p_n P ->
  bd_sim true cs P ns script = Done (t, ns') r ->
  (* exactly N extant leaves *)
  length (leaf_ids t) = p_n P /\
  (* every internal node has exactly 2 children *)
  (forall s, In s (subtrees t) -> length (b_kids s) = 0 \/ length (b_kids s) = 2) /\
  (* well formed: no node occurs twice *)
  NoDup (ids t) /\
  (* all extant tips equidistant from the root (exact arithmetic) *)
  (exists D, forall x q, In (x, q) (depths t) -> q == D)%Q /\
  (* every leaf carries a taxon of the final namespace, and the N taxa are distinct *)
  (forall x, In x (leaf_taxa t) -> exists i, x = Some i /\ i < length ns') /\
  NoDup (leaf_taxa t) /\
  (* the supplied namespace is only extended *)
  (exists extra, ns' = ns ++ extra).
Proof. exact bd_result_spec_full. Qed.
Print Assumptions bd_result_spec.

(* the code as it stands: everything, except that distinctness of the taxa needs the namespace to
   be case-sensitive or free of lower-case variants "t<k>" of the fresh labels "T<k>".
   Missing for the full statement: distinct taxa for EVERY namespace - which is false, see
   bd_distinct_taxa_refuted *)
Theorem bd_result_spec_partial : forall (cs : bool) (P : bdp) (ns : list lab) (script : list draw)
                                        (t : btree) (ns' : list lab) (r : rs),
  1 <= p_n P ->
  bd_sim false cs P ns script = Done (t, ns') r ->
  length (leaf_ids t) = p_n P /\
  (forall s, In s (subtrees t) -> length (b_kids s) = 0 \/ length (b_kids s) = 2) /\
  NoDup (ids t) /\
  (exists D, forall x q, In (x, q) (depths t) -> q == D)%Q /\
  (forall x, In x (leaf_taxa t) -> exists i, x = Some i /\ i < length ns') /\
  ((cs = true \/ (forall k, ~ In (LT false k) ns)) -> NoDup (leaf_taxa t)) /\
  (exists extra, ns' = ns ++ extra).
Proof. exact bd_result_spec_current. Qed.
Print Assumptions bd_result_spec_partial.

(* witness: namespace ["t1"] (case-insensitive), N = 2: both leaves get the taxon t1 *)
Theorem bd_distinct_taxa_refuted :
  exists P ns script t ns' r,
    1 <= p_n P /\ bd_sim false false P ns script = Done (t, ns') r /\ ~ NoDup (leaf_taxa t).
Proof. exact bd_taxa_refuted_proved. Qed.
Print Assumptions bd_distinct_taxa_refuted.

(* the loop invariant, written out *)
Theorem bd_inv_unfold : forall N st,
  bd_inv N st <->
  ( NoDup (ids (s_tr st)) /\
    (* extant = leaves minus extinct *)
    (forall y, In y (leaf_ids (s_tr st)) <-> In y (s_ext st) \/ In y (s_dead st)) /\
    NoDup (s_ext st ++ s_dead st) /\
    (* arity 2 *)
    arity (fun n => n = 0 \/ n = 2) (s_tr st) /\
    (* all extant tips equidistant *)
    (exists D, eqd (s_ext st) D (s_tr st)) /\
    (forall y, In y (ids (s_tr st)) -> y < s_next st) /\
    b_id (s_tr st) = 0 /\
    1 <= length (s_ext st) <= N ).
Proof. exact bd_inv_unfold_proved. Qed.
Print Assumptions bd_inv_unfold.

Theorem bd_invariant_initial : forall P, 1 <= p_n P -> bd_inv (p_n P) (bd_init P).
Proof. exact bd_init_inv. Qed.
Print Assumptions bd_invariant_initial.

(* one pass through the event loop (waiting time added to all extant edges, event choice, birth /
   death / restart) preserves the invariant, whatever the draws *)
Theorem bd_invariant_step : forall P st r st' r',
  1 <= p_n P -> bd_inv (p_n P) st -> length (s_ext st) < p_n P ->
  bd_body P st r = Done st' r' -> bd_inv (p_n P) st'.
Proof. exact bd_body_inv. Qed.
Print Assumptions bd_invariant_step.

Theorem bd_invariant_loop : forall fuel P st r st' r',
  1 <= p_n P -> bd_inv (p_n P) st -> bd_loop fuel P st r = Done st' r' ->
  bd_inv (p_n P) st' /\ length (s_ext st') = p_n P.
Proof. exact bd_loop_inv. Qed.
Print Assumptions bd_invariant_loop.

(* restart after total extinction re-establishes the initial state (the seed keeps its length) *)
Theorem bd_restart_initial : forall st, b_id (s_tr st) = 0 ->
  s_ext (bd_restart st) = [0] /\ s_dead (bd_restart st) = [] /\
  exists l x, s_tr (bd_restart st) = B 0 l x [].
Proof. exact bd_restart_state. Qed.
Print Assumptions bd_restart_initial.

(* fuel = script length + 1 suffices: every pass consumes at least one draw or ends the run *)
Theorem bd_fuel_suffices : forall fresh_new cs P ns script, bd_sim fresh_new cs P ns script <> NoFuel.
Proof. exact bd_fuel_proved. Qed.
Print Assumptions bd_fuel_suffices.

(* ---- fast_birth_death_tree (edge lengths kept as creation times until a lineage closes):
   the same specification ---- *)
Theorem fast_bd_result_spec : forall (cs : bool) (P : bdp) (ns : list lab) (script : list draw)
                                     (t : btree) (ns' : list lab) (r : rs),
  1 <= p_n P ->
  fbd_sim true cs P ns script = Done (t, ns') r ->
  length (leaf_ids t) = p_n P /\
  (forall s, In s (subtrees t) -> length (b_kids s) = 0 \/ length (b_kids s) = 2) /\
  NoDup (ids t) /\
  (exists D, forall x q, In (x, q) (depths t) -> q == D)%Q /\
  (forall x, In x (leaf_taxa t) -> exists i, x = Some i /\ i < length ns') /\
  NoDup (leaf_taxa t) /\
  (exists extra, ns' = ns ++ extra).
Proof. exact fbd_result_spec_full. Qed.
Print Assumptions fast_bd_result_spec.

Theorem fast_bd_result_spec_partial : forall (cs : bool) (P : bdp) (ns : list lab) (script : list draw)
                                             (t : btree) (ns' : list lab) (r : rs),
  1 <= p_n P ->
  fbd_sim false cs P ns script = Done (t, ns') r ->
  length (leaf_ids t) = p_n P /\
  (forall s, In s (subtrees t) -> length (b_kids s) = 0 \/ length (b_kids s) = 2) /\
  NoDup (ids t) /\
  (exists D, forall x q, In (x, q) (depths t) -> q == D)%Q /\
  (forall x, In x (leaf_taxa t) -> exists i, x = Some i /\ i < length ns') /\
  ((cs = true \/ (forall k, ~ In (LT false k) ns)) -> NoDup (leaf_taxa t)) /\
  (exists extra, ns' = ns ++ extra).
Proof. exact fbd_result_spec_current. Qed.
Print Assumptions fast_bd_result_spec_partial.

Theorem fast_bd_fuel_suffices : forall fresh_new cs P ns script, fbd_sim fresh_new cs P ns script <> NoFuel.
Proof. exact fbd_fuel_proved. Qed.
Print Assumptions fast_bd_fuel_suffices.

(* ---- uniform_pure_birth_tree ---- *)
Theorem pure_birth_spec : forall N b script t r,
  1 <= N -> pb_sim N b script = Done t r ->
  length (leaf_ids t) = N /\
  (* leaf k (in tree order) carries taxon k of the namespace *)
  leaf_taxa t = map Some (seq 0 N) /\
  (forall s, In s (subtrees t) -> length (b_kids s) = 0 \/ length (b_kids s) = 2) /\
  NoDup (ids t) /\
  (exists D, forall x q, In (x, q) (depths t) -> q == D)%Q.
Proof. exact pure_birth_spec_proved. Qed.
Print Assumptions pure_birth_spec.

(* the loop gains one leaf per pass: fuel = N suffices *)
Theorem pure_birth_fuel_suffices : forall N b script, pb_sim N b script <> NoFuel.
Proof. exact pb_fuel_proved. Qed.
Print Assumptions pure_birth_fuel_suffices.

(* ---- pure_kingman_tree: total correctness ---- *)
Theorem kingman_spec : forall N pop script t r,
  kingman_sim N pop script = Done t r ->
  (* one leaf per taxon *)
  Permutation (gleaf_taxa t) (map Some (seq 0 N)) /\
  (* every internal node has exactly 2 children *)
  (forall s, In s (gsubtrees t) -> length (g_kids s) = 0 \/ length (g_kids s) = 2) /\
  (* ultrametric: all root-to-tip sums equal *)
  (exists D, forall x h, In (x, h) (gtips t) -> h == D)%Q.
Proof. exact kingman_spec_proved. Qed.
Print Assumptions kingman_spec.

(* the loop loses one lineage per pass: fuel = N suffices *)
Theorem kingman_terminates : forall N pop script, kingman_sim N pop script <> NoFuel.
Proof. exact kingman_fuel_proved. Qed.
Print Assumptions kingman_terminates.

(* every script that offers a waiting time and two distinct positions for n = N, ..., 2 lineages
   makes the simulator return (and then kingman_spec applies) *)
Theorem kingman_total : forall N pop script,
  1 <= N ->
  (fix ok (n : nat) (s : list draw) {struct n} : Prop :=
     match n with
     | S ((S m) as n') =>
         match s with
         | DExp _ :: DSample [i; j] :: rest => i < n /\ j < n /\ i <> j /\ ok n' rest
         | _ => False
         end
     | _ => True
     end) N script ->
  exists t r, kingman_sim N pop script = Done t r.
Proof. exact kingman_total_proved. Qed.
Print Assumptions kingman_total.

(* ---- contained_coalescent_tree.  S is the species tree (genes = the gene taxa sampled in a node,
   len = edge length, pop = population size of the edge).  For a species node c below the root, a
   gene x sampled inside c and a gene y sampled outside c:  wherever x and y are joined in the gene
   tree, x sits at least up_len c x above its tip - the whole species path from the node holding x
   to the top of c's edge.  (c = the child of mrca(A, B) on A's side gives: coalescence time of
   x, y >= divergence time of A, B.)  Every internal gene node is binary. ---- *)
Theorem contained_spec : forall (S : stree) (script : list draw) (g : gtree) (r : rs),
  cc_sim S script = Done g r ->
  NoDup (sgenes S) ->
  (forall c, In c (ssubtrees S) -> (0 <= lenq (s_len c))%Q /\ (0 <= s_pop c)%Q) ->
  (forall q, In (DExp q) script -> (0 <= q)%Q) ->
  (forall c x y h,
     In c (flat_map ssubtrees (s_kids S)) -> In x (sgenes c) -> ~ In y (sgenes c) ->
     joins g x y h -> (up_len c x <= h)%Q) /\
  (forall s, In s (gsubtrees g) -> length (g_kids s) = 0 \/ length (g_kids s) = 2).
Proof. exact contained_spec_proved. Qed.
Print Assumptions contained_spec.

Theorem contained_terminates : forall S script, cc_sim S script <> NoFuel.
Proof. exact cc_fuel_proved. Qed.
Print Assumptions contained_terminates.

(* ---- reproducibility, model side: the result of every simulator depends only on the script
   entries it consumed - runs from generator states that agree on those draws return identical
   trees, taxa and generator calls, and leave exactly the unconsumed entries.  The implementation
   side (the library consumes exactly the model's draws in the same order and never touches
   GLOBAL_RNG) is the draw-trace correspondence of py/dv/c18.py ---- *)
Theorem draws_local : forall (s : simcall) (script : list draw) res rest calls,
  run_sim s script = Done res (rest, calls) ->
  exists used, script = used ++ rest /\
               forall rest', run_sim s (used ++ rest') = Done res (rest', calls).
Proof. exact draws_local_proved. Qed.
Print Assumptions draws_local.

(* the model is a function of (arguments, script): an interface lemma *)
Theorem deterministic : forall (s : simcall) (script1 script2 : list draw),
  script1 = script2 -> run_sim s script1 = run_sim s script2.
Proof. exact deterministic_proved. Qed.
Print Assumptions deterministic.

(* ---- wave 8: LABELS.  "N distinct taxa" read as pairwise distinct Taxon objects (above: NoDup
   (leaf_taxa t), taxa are positions of the namespace) AND pairwise distinct labels; "the namespace
   gains no duplicate label".  leaf_label ns' o = the label the final namespace holds at position o.
   The label-in-use set of the taxon-assignment block is the label list of the NAMESPACE (not of
   the pool that pop() drains) extended by every label minted. ---- *)
Theorem bd_labels_distinct : forall (cs : bool) (P : bdp) (ns : list lab) (script : list draw)
                                    (t : btree) (ns' : list lab) (r : rs),
  1 <= p_n P -> NoDup ns ->
  bd_sim true cs P ns script = Done (t, ns') r ->
  (* the namespace still holds no label twice *)
  NoDup ns' /\
  (* it was only extended, and by labels it did not hold *)
  (exists extra, ns' = ns ++ extra /\ forall a, In a extra -> ~ In a ns) /\
  (* the labels on the N leaves are pairwise distinct *)
  NoDup (map (leaf_label ns') (leaf_taxa t)).
Proof. exact bd_labels_proved. Qed.
Print Assumptions bd_labels_distinct.

Theorem fast_bd_labels_distinct : forall (cs : bool) (P : bdp) (ns : list lab) (script : list draw)
                                         (t : btree) (ns' : list lab) (r : rs),
  1 <= p_n P -> NoDup ns ->
  fbd_sim true cs P ns script = Done (t, ns') r ->
  NoDup ns' /\
  (exists extra, ns' = ns ++ extra /\ forall a, In a extra -> ~ In a ns) /\
  NoDup (map (leaf_label ns') (leaf_taxa t)).
Proof. exact fbd_labels_proved. Qed.
Print Assumptions fast_bd_labels_distinct.

(* successive simulations SHARING one namespace (any sizes: the second may need fewer, as many or
   more taxa than the namespace holds after the first): the namespace stays duplicate-free and only
   grows, the second tree's leaf labels are pairwise distinct, and the first tree's leaves still
   denote the same pairwise distinct labels.  Satisfiable: bd_shared_namespace_example
   (Proofs/C18Labels.v: N = 2 into ["t1"], then N = 3 on the namespace that call left). *)
Theorem bd_shared_namespace : forall (cs : bool) (P1 P2 : bdp) (ns : list lab) (s1 s2 : list draw)
                                     (t1 : btree) (ns1 : list lab) (r1 : rs) (t2 : btree) (ns2 : list lab) (r2 : rs),
  1 <= p_n P1 -> 1 <= p_n P2 -> NoDup ns ->
  bd_sim true cs P1 ns s1 = Done (t1, ns1) r1 ->
  bd_sim true cs P2 ns1 s2 = Done (t2, ns2) r2 ->
  NoDup ns2 /\ (exists e1 e2, ns1 = ns ++ e1 /\ ns2 = ns ++ e1 ++ e2) /\
  NoDup (map (leaf_label ns2) (leaf_taxa t2)) /\
  map (leaf_label ns2) (leaf_taxa t1) = map (leaf_label ns1) (leaf_taxa t1) /\
  NoDup (map (leaf_label ns2) (leaf_taxa t1)).
Proof. exact bd_shared_namespace_proved. Qed.
Print Assumptions bd_shared_namespace.

(* "distinct under the namespace's rule" for a case-INsensitive namespace is false of the code as it
   stands (label-in-use test on exact strings): witness namespace ["t1"], N = 2, the namespace ends
   as ["t1"; "T1"].  An observation OUTSIDE the property text (the Taxon objects and the label strings are
   distinct; what a case-insensitive lookup can tell apart is not part of "N distinct taxa": DESIGN 11.7);
   the harness's oracle compares label strings. *)
Theorem bd_labels_distinct_under_case_rule_refuted :
  exists P ns script t ns' r,
    1 <= p_n P /\ NoDup (map lab_lower ns) /\
    bd_sim true false P ns script = Done (t, ns') r /\ ~ NoDup (map lab_lower ns').
Proof. exact bd_labels_case_rule_refuted_proved. Qed.
Print Assumptions bd_labels_distinct_under_case_rule_refuted.
