From Coq Require Import QArith List. Import ListNotations.
From DV Require Import Model.C18Model.
Theorem c18_placeholder : True. Proof. exact I. Qed.
Print Assumptions c18_placeholder.
