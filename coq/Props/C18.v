(* C18 - simulated trees meet their specification for every seed and are reproducible.
   Statements about the executable model coq/Model/C18Model.v; proofs in Proofs/C18*.v. *)
From Coq Require Import QArith List Bool Arith Permutation.
From DV Require Import Model.C18Model.
From DV Require Import Proofs.C18Lists Proofs.C18Tree Proofs.C18Monad Proofs.C18BD Proofs.C18PB Proofs.C18Coal Proofs.C18Examples.
Import ListNotations.
Open Scope nat_scope.

(* ---- birth_death_tree: partial correctness over EVERY draw script (termination of the random
   walk is not claimed).  fresh_new = false is the code as it stands (fresh labels go through
   require_taxon), cs the namespace's case sensitivity, ns its labels. ---- *)
Theorem bd_result_spec : forall (fresh_new cs : bool) (P : bdp) (ns : list lab) (script : list draw)
                                (t : btree) (ns' : list lab) (r : rs),
  1 <= p_n P ->
  bd_sim fresh_new cs P ns script = Done (t, ns') r ->
  (* exactly N extant leaves *)
  length (leaf_ids t) = p_n P /\
  (* every internal node has exactly 2 children *)
  (forall s, In s (subtrees t) -> length (b_kids s) = 0 \/ length (b_kids s) = 2) /\
  (* well formed: no node occurs twice *)
  NoDup (ids t) /\
  (* all extant tips equidistant from the root (exact arithmetic) *)
  (exists D, forall x q, In (x, q) (depths t) -> q == D)%Q /\
  (* every leaf carries a taxon of the final namespace *)
  (forall x, In x (leaf_taxa t) -> exists i, x = Some i /\ i < length ns') /\
  (* ... and the N taxa are distinct - unless the namespace is case-insensitive and already holds
     a lower-case variant "t<k>" of a fresh label (see bd_distinct_taxa_refuted) *)
  ((fresh_new = true \/ cs = true \/ (forall k, ~ In (LT false k) ns)) -> NoDup (leaf_taxa t)).
Proof. exact bd_result_spec_proved. Qed.
Print Assumptions bd_result_spec.

(* the full-strength clause (distinct taxa for EVERY supplied namespace) is false for the code as
   it stands: witness namespace ["t1"], N = 2 *)
Theorem bd_distinct_taxa_refuted :
  exists P ns script t ns' r,
    1 <= p_n P /\ bd_sim false false P ns script = Done (t, ns') r /\ ~ NoDup (leaf_taxa t).
Proof. exact bd_taxa_refuted_proved. Qed.
Print Assumptions bd_distinct_taxa_refuted.

(* the loop invariant, written out *)
Theorem bd_inv_unfold : forall N st,
  bd_inv N st <->
  ( NoDup (ids (s_tr st)) /\
    (* extant = leaves minus extinct *)
    (forall y, In y (leaf_ids (s_tr st)) <-> In y (s_ext st) \/ In y (s_dead st)) /\
    NoDup (s_ext st ++ s_dead st) /\
    (* arity 2 *)
    arity (fun n => n = 0 \/ n = 2) (s_tr st) /\
    (* all extant tips equidistant *)
    (exists D, eqd (s_ext st) D (s_tr st)) /\
    (forall y, In y (ids (s_tr st)) -> y < s_next st) /\
    b_id (s_tr st) = 0 /\
    1 <= length (s_ext st) <= N ).
Proof.
  intros N st. split.
  - intros [H1 H2 H3 H4 H5 H6 H7 H8]. repeat split; try assumption; try apply H2; try apply H8.
  - intros (H1 & H2 & H3 & H4 & H5 & H6 & H7 & H8). constructor; assumption.
Qed.
Print Assumptions bd_inv_unfold.

Theorem bd_invariant_initial : forall P, 1 <= p_n P -> bd_inv (p_n P) (bd_init P).
Proof. exact bd_init_inv. Qed.
Print Assumptions bd_invariant_initial.

(* one pass through the event loop (waiting time, event choice, birth / death / restart)
   preserves the invariant, whatever the draws *)
Theorem bd_invariant_step : forall P st r st' r',
  1 <= p_n P -> bd_inv (p_n P) st -> length (s_ext st) < p_n P ->
  bd_body P st r = Done st' r' -> bd_inv (p_n P) st'.
Proof. exact bd_body_inv. Qed.
Print Assumptions bd_invariant_step.

Theorem bd_invariant_loop : forall fuel P st r st' r',
  1 <= p_n P -> bd_inv (p_n P) st -> bd_loop fuel P st r = Done st' r' ->
  bd_inv (p_n P) st' /\ length (s_ext st') = p_n P.
Proof. exact bd_loop_inv. Qed.
Print Assumptions bd_invariant_loop.

(* restart after total extinction re-establishes the initial state (the seed keeps its length) *)
Theorem bd_restart_initial : forall st, b_id (s_tr st) = 0 ->
  s_ext (bd_restart st) = [0] /\ s_dead (bd_restart st) = [] /\
  exists l x, s_tr (bd_restart st) = B 0 l x [].
Proof. exact bd_restart_state. Qed.
Print Assumptions bd_restart_initial.

(* fuel = script length + 1 suffices: every pass consumes at least one draw or ends the run *)
Theorem bd_fuel_suffices : forall fresh_new cs P ns script, bd_sim fresh_new cs P ns script <> NoFuel.
Proof. exact bd_fuel_proved. Qed.
Print Assumptions bd_fuel_suffices.

(* ---- uniform_pure_birth_tree ---- *)
Theorem pure_birth_spec : forall N b script t r,
  1 <= N -> pb_sim N b script = Done t r ->
  length (leaf_ids t) = N /\
  leaf_taxa t = map Some (seq 0 N) /\
  (forall s, In s (subtrees t) -> length (b_kids s) = 0 \/ length (b_kids s) = 2) /\
  NoDup (ids t) /\
  (exists D, forall x q, In (x, q) (depths t) -> q == D)%Q.
Proof. exact pure_birth_spec_proved. Qed.
Print Assumptions pure_birth_spec.

Theorem pure_birth_fuel_suffices : forall N b script, pb_sim N b script <> NoFuel.
Proof. exact pb_fuel_proved. Qed.
Print Assumptions pure_birth_fuel_suffices.

(* ---- pure_kingman_tree: total correctness ---- *)
Theorem kingman_spec : forall N pop script t r,
  kingman_sim N pop script = Done t r ->
  (* one leaf per taxon *)
  Permutation (gleaf_taxa t) (map Some (seq 0 N)) /\
  (* every internal node has exactly 2 children *)
  (forall s, In s (gsubtrees t) -> length (g_kids s) = 0 \/ length (g_kids s) = 2) /\
  (* ultrametric: all root-to-tip sums equal *)
  (exists D, forall x h, In (x, h) (gtips t) -> h == D)%Q.
Proof. exact kingman_spec_proved. Qed.
Print Assumptions kingman_spec.

Theorem kingman_terminates : forall N pop script, kingman_sim N pop script <> NoFuel.
Proof. exact kingman_fuel_proved. Qed.
Print Assumptions kingman_terminates.

(* every script that offers a waiting time and two distinct positions for n = N, ..., 2 lineages
   makes the simulator return (and then kingman_spec applies) *)
Theorem kingman_total : forall N pop script,
  1 <= N ->
  (fix ok (n : nat) (s : list draw) {struct n} : Prop :=
     match n with
     | S ((S m) as n') =>
         match s with
         | DExp _ :: DSample [i; j] :: rest => i < n /\ j < n /\ i <> j /\ ok n' rest
         | _ => False
         end
     | _ => True
     end) N script ->
  exists t r, kingman_sim N pop script = Done t r.
Proof. exact kingman_total_proved. Qed.
Print Assumptions kingman_total.

(* ---- determinism: the model is a function of (arguments, script); the meaningful half - the
   implementation consumes exactly the model's draws in the same order and never touches
   GLOBAL_RNG - is the draw-trace correspondence of py/dv/c18.py ---- *)
Theorem deterministic : forall (s : simcall) (script1 script2 : list draw),
  script1 = script2 -> run_sim s script1 = run_sim s script2.
Proof. intros s script1 script2 E. rewrite E. reflexivity. Qed.
Print Assumptions deterministic.
