(* C01 property theorems: statements only, each closed by `exact`.

   py_*            : Gen/BitFns.v, regenerated from utility/bitprocessing.py and the static methods
                     of Bipartition on every run
   encode, mk_bip, from_splits, ... : Model/C01Model.v (transcription, tied by the correspondence run)
   mem m i         := Z.testbit m i = true                     (set meaning of a mask)
   msubset a b     := forall i, 0 <= i -> mem a i -> mem b i
   mdisjoint a b   := forall i, 0 <= i -> mem a i -> mem b i -> False
   at_most_one m   := forall i j, 0 <= i -> 0 <= j -> mem m i -> mem m j -> i = j
   leaf_taxa       : Model/Tree.v, taxa of the leaves of a subtree, left to right (naive recursion)
   cmask acc t     : union of the bits 2^(acc x) of the taxa x on the leaves of t (Proofs/C01Enc.v)
   clades acc t    : the clade masks of all nodes of t; enc_splits r : the split bitmasks of an encoding
   set_eq l1 l2    := forall m, In m l1 <-> In m l2
   canon acc t     : ids/labels/lengths erased, unifurcations suppressed, children sorted by clade mask
   leaves_ok t     : boolean: every leaf has a taxon and the leaf taxa are pairwise distinct
   ucanon acc t    : canonical form of the UNROOTED topology: the seed is moved along edges (rotations,
                     reroot) until it is adjacent to the leaf carrying the lowest taxon bit on the tree,
                     that leaf is dropped, and the rooted canonical form of the rest is taken
   tequiv / uequiv : closure of the elementary moves (child permutation, unifurcation insertion,
                     attribute changes, inside subtrees; uequiv adds moving the seed along an edge) *)
From Coq Require Import ZArith List Bool.
From DV Require Import Model.PyPrims Model.Tree Gen.BitFns Model.C01Model
  Proofs.C01Bits Proofs.C01Enc Proofs.C01Bip Proofs.C01Topo Proofs.C01From Proofs.C01Unrooted Proofs.C01More
  Proofs.C01Flags Proofs.C01Recon Proofs.C01Examples Proofs.C01Examples2.
Import ListNotations.
Open Scope Z_scope.

(* ============================== A. bit level ============================================== *)

(* least_significant_set_bit(n), n <> 0 (negative n included), is the single lowest set bit *)
Theorem lsb_spec : forall n, n <> 0 ->
  exists k, (0 <= k /\ Z.testbit n k = true /\ forall j, 0 <= j < k -> Z.testbit n j = false)
            /\ py_least_significant_set_bit n = 2 ^ k.
Proof. exact lsb_pow2. Qed.
Print Assumptions lsb_spec.

Theorem lsb_testbit_spec : forall n i, 0 <= i ->
  (Z.testbit (py_least_significant_set_bit n) i = true <->
   (Z.testbit n i = true /\ forall j, 0 <= j < i -> Z.testbit n j = false)).
Proof. exact lsb_testbit. Qed.
Print Assumptions lsb_testbit_spec.

(* normalize_bitmask with lowest_relevant_bit = 2^k *)
Theorem normalize_spec : forall b f k, 0 <= k ->
  py_normalize_bitmask b f (2 ^ k) = (if Z.testbit b k then Z.land (Z.lnot b) f else Z.land b f).
Proof. exact normalize_eq. Qed.
Print Assumptions normalize_spec.

Theorem normalize_testbit_spec : forall b f k i, 0 <= k -> 0 <= i ->
  Z.testbit (py_normalize_bitmask b f (2 ^ k)) i =
  (if Z.testbit b k then negb (Z.testbit b i) else Z.testbit b i) && Z.testbit f i.
Proof. exact normalize_testbit. Qed.
Print Assumptions normalize_testbit_spec.

Theorem normalize_low_bit_clear : forall b f k, 0 <= k ->
  Z.testbit (py_normalize_bitmask b f (2 ^ k)) k = false.
Proof. exact normalize_low_clear. Qed.
Print Assumptions normalize_low_bit_clear.

Theorem normalize_within_fill : forall b f k, 0 <= k ->
  Z.land (py_normalize_bitmask b f (2 ^ k)) f = py_normalize_bitmask b f (2 ^ k).
Proof. exact normalize_subset_fill. Qed.
Print Assumptions normalize_within_fill.

(* both sides of a split of `f` have the same normal form: the split bitmask identifies the split *)
Theorem normalize_side_independent : forall b f k, 0 <= k -> Z.testbit f k = true ->
  py_normalize_bitmask (Z.land (Z.lnot b) f) f (2 ^ k) = py_normalize_bitmask b f (2 ^ k).
Proof. exact normalize_complement. Qed.
Print Assumptions normalize_side_independent.

(* is_trivial_bitmask: |A| <= 1 or |fill \ A| <= 1 on the masked sets (the two equality tests of
   the code are subsumed) *)
Theorem is_trivial_spec : forall b f,
  py_is_trivial_bitmask b f = true <->
  (at_most_one (Z.land b f) \/ at_most_one (Z.land (Z.lnot b) f)).
Proof. exact is_trivial_sets. Qed.
Print Assumptions is_trivial_spec.

(* "at most one element" as cardinality: popcount (bin(x).count("1")) <= 1 on finite sets, and the
   two canonical forms *)
Theorem at_most_one_popcount : forall x, 0 <= x -> (py_popcount x <= 1 <-> at_most_one x).
Proof. exact popcount_le1. Qed.
Print Assumptions at_most_one_popcount.

Theorem at_most_one_forms : forall m, at_most_one m <-> (m = 0 \/ exists k, 0 <= k /\ m = 2 ^ k).
Proof. exact at_most_one_cases. Qed.
Print Assumptions at_most_one_forms.

Theorem is_trivial_leafset_spec : forall x,
  py_is_trivial_leafset x = true <-> exists k, 0 <= k /\ Z.abs x = 2 ^ k.
Proof. exact is_trivial_leafset_spec_l. Qed.
Print Assumptions is_trivial_leafset_spec.

(* is_compatible_bitmasks: exactly what the code decides (fill <> 0): disjoint or nested.
   Its fourth test is equivalent to its third; "A u B = fill" is never tested. *)
Theorem is_compatible_exact_spec : forall m1 m2 f, f <> 0 ->
  (py_is_compatible_bitmasks m1 m2 f = true <->
   (mdisjoint (Z.land f m1) (Z.land f m2) \/ msubset (Z.land f m1) (Z.land f m2)
    \/ msubset (Z.land f m2) (Z.land f m1))).
Proof. exact is_compatible_exact. Qed.
Print Assumptions is_compatible_exact_spec.

(* ... which is set-theoretic split compatibility when both masks avoid a common element k of
   fill (normalised against the same lowest relevant bit) *)
Theorem is_compatible_spec : forall m1 m2 f k, 0 <= k ->
  Z.testbit f k = true -> Z.testbit m1 k = false -> Z.testbit m2 k = false ->
  (py_is_compatible_bitmasks m1 m2 f = true <->
   (mdisjoint (Z.land f m1) (Z.land f m2) \/ msubset (Z.land f m1) (Z.land f m2)
    \/ msubset (Z.land f m2) (Z.land f m1) \/ Z.lor (Z.land f m1) (Z.land f m2) = f)).
Proof. exact is_compatible_normalised. Qed.
Print Assumptions is_compatible_spec.

(* ... and NOT for un-normalised arguments: fill=1111, m1=0110, m2=1101 are compatible splits
   (1101|0010 is 0010|1101, nested in 0110) but rejected, while the same two splits written with
   m2's other side are accepted *)
Theorem is_compatible_raw_refuted :
  exists m1 m2 f, f <> 0 /\ Z.land f m1 = m1 /\ Z.land f m2 = m2 /\
    (mdisjoint (Z.land f m1) (Z.land f m2) \/ msubset (Z.land f m1) (Z.land f m2)
     \/ msubset (Z.land f m2) (Z.land f m1) \/ Z.lor (Z.land f m1) (Z.land f m2) = f) /\
    py_is_compatible_bitmasks m1 m2 f = false /\
    py_is_compatible_bitmasks m1 (Z.land (Z.lnot m2) f) f = true.
Proof. exact is_compatible_raw_refuted_l. Qed.
Print Assumptions is_compatible_raw_refuted.

(* fill = 0: no masking, and only "disjoint or m1 inside m2" is tested (asymmetric) *)
Theorem is_compatible_fill0_spec : forall m1 m2,
  py_is_compatible_bitmasks m1 m2 0 = true <-> (mdisjoint m1 m2 \/ msubset m1 m2).
Proof. exact is_compatible_fill0. Qed.
Print Assumptions is_compatible_fill0_spec.

(* Bipartition objects: construction normalises, so is_compatible_with between two bipartitions
   of the same tree leafset and rooting state is set-theoretic compatibility *)
Theorem bipartition_construct_spec : forall a f r, f <> 0 ->
  fst (mk_bip a f r) = Z.land a f /\
  Z.land f (snd (mk_bip a f r)) = snd (mk_bip a f r) /\
  (is_true r = true -> snd (mk_bip a f r) = fst (mk_bip a f r)) /\
  (is_true r = false ->
     exists low, (0 <= low /\ Z.testbit f low = true /\ forall j, 0 <= j < low -> Z.testbit f j = false) /\
       snd (mk_bip a f r) = (if Z.testbit a low then Z.land (Z.lnot (Z.land a f)) f else Z.land a f) /\
       Z.testbit (snd (mk_bip a f r)) low = false).
Proof. exact mk_bip_spec. Qed.
Print Assumptions bipartition_construct_spec.

Theorem bipartition_is_compatible_spec : forall a b f r, f <> 0 ->
  (bip_is_compatible_with (snd (mk_bip a f r)) (snd (mk_bip b f r)) f = true <->
   (if is_true r
    then mdisjoint (snd (mk_bip a f r)) (snd (mk_bip b f r)) \/
         msubset (snd (mk_bip a f r)) (snd (mk_bip b f r)) \/
         msubset (snd (mk_bip b f r)) (snd (mk_bip a f r))
    else mdisjoint (snd (mk_bip a f r)) (snd (mk_bip b f r)) \/
         msubset (snd (mk_bip a f r)) (snd (mk_bip b f r)) \/
         msubset (snd (mk_bip b f r)) (snd (mk_bip a f r)) \/
         Z.lor (snd (mk_bip a f r)) (snd (mk_bip b f r)) = f)).
Proof. exact bip_compatible_spec_l. Qed.
Print Assumptions bipartition_is_compatible_spec.

(* is_compatible_with(int) on a bipartition that is not rooted: the int is normalised like the split of
   the Bipartition built from it, so the predicate is set-theoretic compatibility for EVERY int,
   whichever side of the split it names (repaired in /repo c50cd9ba; before that an int naming the
   split by its lowest-taxon side was rejected) *)
Theorem is_compatible_with_int_repaired_spec : forall a b f r, f <> 0 -> is_true r = false ->
  (bip_is_compatible_with_int r (snd (mk_bip a f r)) b f = true <->
   (mdisjoint (snd (mk_bip a f r)) (snd (mk_bip b f r)) \/ msubset (snd (mk_bip a f r)) (snd (mk_bip b f r)) \/
    msubset (snd (mk_bip b f r)) (snd (mk_bip a f r)) \/ Z.lor (snd (mk_bip a f r)) (snd (mk_bip b f r)) = f)).
Proof. exact bip_compatible_int_repaired_l. Qed.
Print Assumptions is_compatible_with_int_repaired_spec.

Theorem is_leafset_nested_spec : forall ls other fill,
  bip_is_leafset_nested_within ls other fill = true <-> msubset ls (Z.land fill other).
Proof. exact leafset_nested_spec_l. Qed.
Print Assumptions is_leafset_nested_spec.

Theorem is_nested_within_spec : forall r b1 b2 fill masked,
  bip_is_nested_within r b1 b2 fill masked = true <->
  msubset (if is_true r then fst b1 else snd b1)
          (if masked then (if is_true r then fst b2 else snd b2)
           else Z.land fill (if is_true r then fst b2 else snd b2)).
Proof. exact nested_within_spec_l. Qed.
Print Assumptions is_nested_within_spec.

(* ============================== B. encoding =============================================== *)

(* After encode_bipartitions: one entry per node of the resulting tree, in post-order, carrying
   that node's id, and bit i of its leafset mask is set iff i is the accession index of the taxon
   of a leaf below the node.  (Arbitrary accession map; non-negative on the tree's taxa.) *)
Theorem leafset_mask_exact : forall acc rooted t,
  (forall x, In (Some x) (leaf_taxa t) -> 0 <= acc x) ->
  Forall2 (fun n e =>
             fst e = t_id n /\
             forall i, 0 <= i ->
               (Z.testbit (fst (snd e)) i = true <-> exists x, In (Some x) (leaf_taxa n) /\ acc x = i))
          (postorder (r_tree (encode acc rooted t))) (r_edges (encode acc rooted t))
  /\ r_enc (encode acc rooted t) = map snd (r_edges (encode acc rooted t)).
Proof. exact leafset_mask_exact_l. Qed.
Print Assumptions leafset_mask_exact.

(* rooted tree: split = leafset on every edge, rooting flag untouched *)
Theorem split_mask_rooted : forall acc rooted t, is_true rooted = true ->
  Forall (fun e => snd (snd e) = fst (snd e)) (r_edges (encode acc rooted t))
  /\ r_rooted (encode acc rooted t) = rooted.
Proof. exact split_mask_rooted_l. Qed.
Print Assumptions split_mask_rooted.

(* unrooted (False or None) tree, S = the bits of the taxa on the tree, low = the lowest of them
   (whatever it is: bit 0 need not be on the tree): every split is the leafset or its complement
   within S, whichever does not contain low; low is clear; the split lies within S.
   A tree without any taxon (S = 0) gets split 0 everywhere. *)
Theorem split_mask_unrooted : forall acc rooted t, is_true rooted = false ->
  (cmask acc t = 0 -> Forall (fun e => snd (snd e) = 0) (r_edges (encode acc rooted t))) /\
  (forall low, 0 <= low -> Z.testbit (cmask acc t) low = true ->
     (forall j, 0 <= j < low -> Z.testbit (cmask acc t) j = false) ->
     Forall (fun e =>
               snd (snd e) = (if Z.testbit (fst (snd e)) low
                              then Z.land (Z.lnot (fst (snd e))) (cmask acc t) else fst (snd e)) /\
               Z.testbit (snd (snd e)) low = false /\
               Z.land (snd (snd e)) (cmask acc t) = snd (snd e))
            (r_edges (encode acc rooted t))).
Proof. exact split_mask_unrooted_l. Qed.
Print Assumptions split_mask_unrooted.

(* structural side effect = suppress_unifurcations after collapse_basal_bifurcation-if-not-rooted
   (in this order); the rooting flag changes only None/False -> False and only when the collapse
   happened; leaf taxa keep their left-to-right order; no unifurcation is left *)
Theorem encode_structure : forall acc rooted t,
  r_tree (encode acc rooted t)
    = suppress (if negb (is_true rooted) && (nkids t =? 2) then fst (collapse_basal t) else t) /\
  r_rooted (encode acc rooted t)
    = (if negb (is_true rooted) && (nkids t =? 2) && snd (collapse_basal t) then Some false else rooted) /\
  leaf_taxa (r_tree (encode acc rooted t)) = leaf_taxa t /\
  unif_free (r_tree (encode acc rooted t)) = true.
Proof. exact encode_structure_l. Qed.
Print Assumptions encode_structure.

(* Idempotence (structure, flag, masks, encoding list).
   The unrestricted statement fails (encode_idempotent_refuted, witness [&U](A,((B,C)))).
   encode_fixed_point_iff characterises EXACTLY when the first call is already a fixed point: the tree
   is rooted, or the result's seed is not a bifurcation, or it is one that collapse_basal_bifurcation
   leaves alone (both children have < 2 children).  encode_idempotent_sufficient: sufficient conditions on
   the input; encode_twice_stable: the second call always is a fixed point. *)
Theorem encode_fixed_point_iff : forall acc rooted t,
  encode acc (r_rooted (encode acc rooted t)) (r_tree (encode acc rooted t)) = encode acc rooted t <->
  (is_true rooted = true \/ nkids (r_tree (encode acc rooted t)) <> 2 \/
   snd (collapse_basal (r_tree (encode acc rooted t))) = false).
Proof. exact encode_fixed_point_iff_l. Qed.
Print Assumptions encode_fixed_point_iff.

Theorem encode_idempotent_sufficient : forall acc rooted t,
  is_true rooted = true \/ unif_free t = true ->
  encode acc (r_rooted (encode acc rooted t)) (r_tree (encode acc rooted t)) = encode acc rooted t.
Proof. exact encode_idempotent_partial_l. Qed.
Print Assumptions encode_idempotent_sufficient.

Theorem encode_idempotent_refuted :
  exists acc rooted t,
    r_tree (encode acc (r_rooted (encode acc rooted t)) (r_tree (encode acc rooted t)))
      <> r_tree (encode acc rooted t) /\
    map snd (r_enc (encode acc (r_rooted (encode acc rooted t)) (r_tree (encode acc rooted t))))
      <> map snd (r_enc (encode acc rooted t)).
Proof. exact encode_idempotent_refuted_l. Qed.
Print Assumptions encode_idempotent_refuted.

Theorem encode_twice_stable : forall acc rooted t,
  encode acc (r_rooted (encode acc (r_rooted (encode acc rooted t)) (r_tree (encode acc rooted t))))
             (r_tree (encode acc (r_rooted (encode acc rooted t)) (r_tree (encode acc rooted t))))
  = encode acc (r_rooted (encode acc rooted t)) (r_tree (encode acc rooted t)).
Proof. exact encode_twice_stable_l. Qed.
Print Assumptions encode_twice_stable.


(* ---- the flags suppress_unifurcations (su) and collapse_unrooted_basal_bifurcation (cb) ------------ *)
(* encode_f su cb models encode_bipartitions(suppress_unifurcations=su,
   collapse_unrooted_basal_bifurcation=cb); encode_f true true is the function above. *)
Theorem encode_flags_default : forall acc rooted t, encode_f true true acc rooted t = encode acc rooted t.
Proof. exact encode_f_default. Qed.
Print Assumptions encode_flags_default.

Theorem leafset_mask_exact_flags : forall su cb acc rooted t,
  (forall x, In (Some x) (leaf_taxa t) -> 0 <= acc x) ->
  Forall2 (fun n e =>
             fst e = t_id n /\
             forall i, 0 <= i ->
               (Z.testbit (fst (snd e)) i = true <-> exists x, In (Some x) (leaf_taxa n) /\ acc x = i))
          (postorder (r_tree (encode_f su cb acc rooted t))) (r_edges (encode_f su cb acc rooted t))
  /\ r_enc (encode_f su cb acc rooted t) = map snd (r_edges (encode_f su cb acc rooted t)).
Proof. exact leafset_mask_exact_f_l. Qed.
Print Assumptions leafset_mask_exact_flags.

Theorem split_mask_rooted_flags : forall su cb acc rooted t, is_true rooted = true ->
  Forall (fun e => snd (snd e) = fst (snd e)) (r_edges (encode_f su cb acc rooted t))
  /\ r_rooted (encode_f su cb acc rooted t) = rooted.
Proof. exact split_mask_rooted_f_l. Qed.
Print Assumptions split_mask_rooted_flags.

Theorem split_mask_unrooted_flags : forall su cb acc rooted t, is_true rooted = false ->
  (cmask acc t = 0 -> Forall (fun e => snd (snd e) = 0) (r_edges (encode_f su cb acc rooted t))) /\
  (forall low, 0 <= low -> Z.testbit (cmask acc t) low = true ->
     (forall j, 0 <= j < low -> Z.testbit (cmask acc t) j = false) ->
     Forall (fun e =>
               snd (snd e) = (if Z.testbit (fst (snd e)) low
                              then Z.land (Z.lnot (fst (snd e))) (cmask acc t) else fst (snd e)) /\
               Z.testbit (snd (snd e)) low = false /\
               Z.land (snd (snd e)) (cmask acc t) = snd (snd e))
            (r_edges (encode_f su cb acc rooted t))).
Proof. exact split_mask_unrooted_f_l. Qed.
Print Assumptions split_mask_unrooted_flags.

(* structure under the flags: suppression only with su, collapse only with cb (and not rooted, seed
   bifurcation); the flag changes only when the collapse happened; leaf taxa keep their order;
   with both flags off the tree is untouched *)
Theorem encode_structure_flags : forall su cb acc rooted t,
  r_tree (encode_f su cb acc rooted t)
    = (if su then suppress else (fun u => u))
        (if cb && negb (is_true rooted) && (nkids t =? 2) then fst (collapse_basal t) else t) /\
  r_rooted (encode_f su cb acc rooted t)
    = (if cb && negb (is_true rooted) && (nkids t =? 2) && snd (collapse_basal t) then Some false else rooted) /\
  leaf_taxa (r_tree (encode_f su cb acc rooted t)) = leaf_taxa t /\
  (su = true -> unif_free (r_tree (encode_f su cb acc rooted t)) = true) /\
  (su = false -> cb = false -> r_tree (encode_f su cb acc rooted t) = t).
Proof. exact encode_structure_f_l. Qed.
Print Assumptions encode_structure_flags.

(* ============================== C. topology =============================================== *)

(* splits_iff_topology, rooted: for trees whose leaves carry pairwise distinct taxa and any injective
   non-negative taxon-to-bit map, the encodings have equal SETS of split bitmasks iff the trees have
   the same canonical form (same topology up to child order and unifurcations).  Both directions. *)
Theorem splits_iff_topology_rooted : forall acc rooted t1 t2,
  (forall x, 0 <= acc x) -> (forall x y, acc x = acc y -> x = y) ->
  is_true rooted = true -> leaves_ok t1 = true -> leaves_ok t2 = true ->
  (set_eq (enc_splits (encode acc rooted t1)) (enc_splits (encode acc rooted t2))
   <-> canon acc t1 = canon acc t2).
Proof. exact splits_iff_topology_rooted_l. Qed.
Print Assumptions splits_iff_topology_rooted.

(* the same on the trees themselves (hierarchy uniqueness): clade-mask sets <-> canonical form *)
Theorem clades_iff_topology : forall acc, (forall x, 0 <= acc x) -> (forall x y, acc x = acc y -> x = y) ->
  forall t1 t2, leaves_ok t1 = true -> leaves_ok t2 = true ->
  (set_eq (clades acc t1) (clades acc t2) <-> canon acc t1 = canon acc t2).
Proof. exact clades_iff_canon. Qed.
Print Assumptions clades_iff_topology.

(* the rooted encoding is the set of clade masks of the INPUT tree (no hypothesis on the leaves) *)
Theorem rooted_encoding_is_clade_set : forall acc rooted t, is_true rooted = true ->
  set_eq (enc_splits (encode acc rooted t)) (clades acc t).
Proof. exact rooted_splits_are_clades. Qed.
Print Assumptions rooted_encoding_is_clade_set.

(* "whatever their child order, unifurcations": the moves of tequiv change neither the split set
   nor (for distinct leaf taxa) the canonical form *)
Theorem rooted_splits_invariant : forall acc r1 r2 t1 t2,
  is_true r1 = true -> is_true r2 = true -> tequiv t1 t2 ->
  set_eq (enc_splits (encode acc r1 t1)) (enc_splits (encode acc r2 t2)).
Proof. exact rooted_splits_invariant_l. Qed.
Print Assumptions rooted_splits_invariant.

Theorem canon_invariant_under_moves : forall acc a b,
  (forall x, 0 <= acc x) -> (forall x y, acc x = acc y -> x = y) ->
  leaves_ok a = true -> tequiv a b -> canon acc a = canon acc b.
Proof. exact canon_invariant. Qed.
Print Assumptions canon_invariant_under_moves.

(* unrooted (False / None): the encoding is the set of clade masks normalised within the tree's own
   mask, and it is invariant under child order, unifurcations and the position of the seed
   (uequiv; collapse_basal_bifurcation itself is such a move). *)
Theorem unrooted_encoding_is_normalised_clade_set : forall acc rooted t,
  (forall x, 0 <= acc x) -> (forall x y, acc x = acc y -> x = y) ->
  is_true rooted = false -> leaves_ok t = true ->
  set_eq (enc_splits (encode acc rooted t))
         (map (fun m => py_normalize_bitmask m (cmask acc t) (py_least_significant_set_bit (cmask acc t)))
              (clades acc t)).
Proof. exact unrooted_splits_are_uset. Qed.
Print Assumptions unrooted_encoding_is_normalised_clade_set.

Theorem unrooted_splits_invariant : forall acc r1 r2 t1 t2,
  (forall x, 0 <= acc x) -> (forall x y, acc x = acc y -> x = y) ->
  is_true r1 = false -> is_true r2 = false -> leaves_ok t1 = true -> uequiv t1 t2 ->
  set_eq (enc_splits (encode acc r1 t1)) (enc_splits (encode acc r2 t2)).
Proof. exact usplits_invariant_l. Qed.
Print Assumptions unrooted_splits_invariant.

Theorem collapse_basal_is_unrooted_move : forall t, uequiv t (fst (collapse_basal t)).
Proof. exact collapse_basal_uequiv. Qed.
Print Assumptions collapse_basal_is_unrooted_move.

(* splits_iff_topology, unrooted (is_rooted False or None): trees with the same leaf taxa (pairwise
   distinct), seeds with at least two children: the encodings have equal SETS of split bitmasks iff
   the trees have the same unrooted canonical form.  Both directions. *)
Theorem splits_iff_topology_unrooted : forall acc,
  (forall x, 0 <= acc x) -> (forall x y, acc x = acc y -> x = y) ->
  forall r1 r2 t1 t2,
  is_true r1 = false -> is_true r2 = false ->
  leaves_ok t1 = true -> leaves_ok t2 = true ->
  (2 <= length (t_kids t1))%nat -> (2 <= length (t_kids t2))%nat ->
  cmask acc t1 = cmask acc t2 ->
  (set_eq (enc_splits (encode acc r1 t1)) (enc_splits (encode acc r2 t2)) <-> ucanon acc t1 = ucanon acc t2).
Proof. exact splits_iff_topology_unrooted_l. Qed.
Print Assumptions splits_iff_topology_unrooted.

(* the same without the hypothesis on the seeds: compare the unrooted canonical forms of the
   unifurcation-free trees (single-leaf trees and seeds with one child included) *)
Theorem splits_iff_topology_unrooted_full : forall acc,
  (forall x, 0 <= acc x) -> (forall x y, acc x = acc y -> x = y) ->
  forall r1 r2 t1 t2,
  is_true r1 = false -> is_true r2 = false ->
  leaves_ok t1 = true -> leaves_ok t2 = true -> cmask acc t1 = cmask acc t2 ->
  (set_eq (enc_splits (encode acc r1 t1)) (enc_splits (encode acc r2 t2))
   <-> ucanon acc (suppress t1) = ucanon acc (suppress t2)).
Proof. exact splits_iff_topology_unrooted_full_l. Qed.
Print Assumptions splits_iff_topology_unrooted_full.

(* ... and the unrooted canonical form is the same for any two trees related by child permutation,
   unifurcation insertion and moving the seed ("whatever ... the position of the seed node") *)
Theorem ucanon_invariant_under_moves : forall acc,
  (forall x, 0 <= acc x) -> (forall x y, acc x = acc y -> x = y) ->
  forall t1 t2, leaves_ok t1 = true ->
  (2 <= length (t_kids t1))%nat -> (2 <= length (t_kids t2))%nat ->
  uequiv t1 t2 -> ucanon acc t1 = ucanon acc t2.
Proof. exact ucanon_invariant. Qed.
Print Assumptions ucanon_invariant_under_moves.

(* ============================== from_split_bitmasks ======================================= *)
(* ns : the namespace's members in order as (taxon id, accession index); count = _current_accession_count;
   star_m / to_tree / mtree : working trees of from_split_bitmasks (Model/C01Model.v, Proofs/C01From.v);
   the namespace is consistent with acc:  distinct taxon ids >= 0, index = acc (taxon). *)

(* from_splits_order_irrelevant: two orders of the same list of splits rebuild the same topology,
   provided the splits that lie inside the namespace's bits (the others are skipped by the code) are
   pairwise disjoint-or-nested after the de-normalisation step: true for every encoding of one tree *)
Theorem from_splits_order_irrelevant : forall acc,
  (forall x, 0 <= acc x) -> (forall x y, acc x = acc y -> x = y) ->
  forall ns, (NoDup (map fst ns) /\ Forall (fun p => 0 <= fst p /\ snd p = acc (fst p)) ns) ->
  (2 <= length ns)%nat ->
  forall count rooted l l', Permutation.Permutation l l' ->
  ForallOrdPairs (fun a b => mdisjoint a b \/ msubset a b \/ msubset b a)
    (filter (fun s => Z.eqb (Z.land s (fold_right Z.lor 0 (map (fun p => 2 ^ snd p) ns))) s)
            (splits_to_add rooted (all_taxa_bitmask count) l)) ->
  canon acc (to_tree (from_splits ns count rooted l)) = canon acc (to_tree (from_splits ns count rooted l')).
Proof. exact from_splits_order_irrelevant_l. Qed.
Print Assumptions from_splits_order_irrelevant.

(* from_splits_rebuilds.  ns may be LARGER than the tree's leaf set: `extras` are the members that are
   not on the tree; vacated accession indices allowed (count only exceeds every index).
   Rooted encoding, any order: the rebuilt tree is the tree as one clade next to the extra members,
   which are leaves below the root (t_ext t extras = T [t; extra leaves]; for no extra member this is
   the tree below a unifurcation, i.e. canon = canon t). *)
Theorem from_splits_rebuilds_rooted : forall acc,
  (forall x, 0 <= acc x) -> (forall x y, acc x = acc y -> x = y) ->
  forall ns, (NoDup (map fst ns) /\ Forall (fun p => 0 <= fst p /\ snd p = acc (fst p)) ns) ->
  (2 <= length ns)%nat ->
  forall count, (forall p, In p ns -> snd p < count) ->
  forall t extras, leaves_ok t = true ->
  Permutation.Permutation (leaf_taxa t ++ map Some extras) (map (fun p => Some (fst p)) ns) ->
  forall rooted l, is_true rooted = true ->
  Permutation.Permutation l (enc_splits (encode acc rooted t)) ->
  canon acc (to_tree (from_splits ns count rooted l))
  = canon acc (T 0 None None None (t :: map (fun x => T 0 (Some x) None None []) extras)).
Proof. exact from_splits_rebuilds_rooted_ext_l. Qed.
Print Assumptions from_splits_rebuilds_rooted.

(* ... restricted to the tree's own taxa its clades are exactly the tree's clades *)
Theorem from_splits_rooted_restriction : forall acc,
  (forall x, 0 <= acc x) -> (forall x y, acc x = acc y -> x = y) ->
  forall ns, (NoDup (map fst ns) /\ Forall (fun p => 0 <= fst p /\ snd p = acc (fst p)) ns) ->
  (2 <= length ns)%nat ->
  forall count, (forall p, In p ns -> snd p < count) ->
  forall t extras, leaves_ok t = true ->
  Permutation.Permutation (leaf_taxa t ++ map Some extras) (map (fun p => Some (fst p)) ns) ->
  forall rooted l, is_true rooted = true ->
  Permutation.Permutation l (enc_splits (encode acc rooted t)) ->
  forall y, y <> 0 ->
  (In y (map (fun m => Z.land m (cmask acc t)) (clades acc (to_tree (from_splits ns count rooted l))))
   <-> In y (clades acc t)).
Proof. exact from_splits_rooted_restriction_l. Qed.
Print Assumptions from_splits_rooted_restriction.

(* Unrooted encoding (the `1 & m` de-normalisation never fires on an encoding: no split contains bit 0;
   splits are inside the root's mask).  Namespace = the tree's leaf taxa: the rebuilt tree has the
   tree's unrooted topology. *)
Theorem from_splits_rebuilds_unrooted : forall acc,
  (forall x, 0 <= acc x) -> (forall x y, acc x = acc y -> x = y) ->
  forall ns, (NoDup (map fst ns) /\ Forall (fun p => 0 <= fst p /\ snd p = acc (fst p)) ns) ->
  (2 <= length ns)%nat ->
  forall count, (forall p, In p ns -> snd p < count) ->
  forall t rooted l, leaves_ok t = true ->
  Permutation.Permutation (leaf_taxa t) (map (fun p => Some (fst p)) ns) ->
  is_true rooted = false -> Permutation.Permutation l (enc_splits (encode acc rooted t)) ->
  ucanon acc (suppress (to_tree (from_splits ns count rooted l))) = ucanon acc (suppress t).
Proof. exact from_splits_rebuilds_unrooted_l. Qed.
Print Assumptions from_splits_rebuilds_unrooted.

(* Unrooted encoding, larger namespace: restricted to the tree's own taxa (every clade intersected with
   the tree's mask and normalised within it) the rebuilt tree has exactly the tree's split set, hence
   by splits_iff_topology_unrooted_full the tree's unrooted topology ... *)
Theorem from_splits_unrooted_restriction : forall acc,
  (forall x, 0 <= acc x) -> (forall x y, acc x = acc y -> x = y) ->
  forall ns, (NoDup (map fst ns) /\ Forall (fun p => 0 <= fst p /\ snd p = acc (fst p)) ns) ->
  (2 <= length ns)%nat ->
  forall count, (forall p, In p ns -> snd p < count) ->
  forall t extras, leaves_ok t = true ->
  Permutation.Permutation (leaf_taxa t ++ map Some extras) (map (fun p => Some (fst p)) ns) ->
  forall rooted l, is_true rooted = false ->
  Permutation.Permutation l (enc_splits (encode acc rooted t)) ->
  set_eq (map (fun m => py_normalize_bitmask (Z.land m (cmask acc t)) (cmask acc t)
                          (py_least_significant_set_bit (cmask acc t)))
              (clades acc (to_tree (from_splits ns count rooted l))))
         (map (fun m => py_normalize_bitmask m (cmask acc t) (py_least_significant_set_bit (cmask acc t)))
              (clades acc t)).
Proof. exact from_splits_unrooted_restriction_l. Qed.
Print Assumptions from_splits_unrooted_restriction.

(* ... and (rooted or not) the extra members hang off the root as leaves: the bit of an extra member
   occurs in no clade of the rebuilt tree except its own leaf and the root *)
Theorem from_splits_extras_at_root : forall acc,
  (forall x, 0 <= acc x) -> (forall x y, acc x = acc y -> x = y) ->
  forall ns, (NoDup (map fst ns) /\ Forall (fun p => 0 <= fst p /\ snd p = acc (fst p)) ns) ->
  (2 <= length ns)%nat ->
  forall count, (forall p, In p ns -> snd p < count) ->
  forall t extras, leaves_ok t = true ->
  Permutation.Permutation (leaf_taxa t ++ map Some extras) (map (fun p => Some (fst p)) ns) ->
  forall rooted l x m, Permutation.Permutation l (enc_splits (encode acc rooted t)) ->
  In x extras -> In m (clades acc (to_tree (from_splits ns count rooted l))) ->
  Z.testbit m (acc x) = true ->
  m = 2 ^ acc x \/ m = fold_right Z.lor 0 (map (fun p => 2 ^ snd p) ns).
Proof.
  intros acc Hnn Hinj ns Hns Hlen count Hcount t extras LK PT rooted l x m PL.
  destruct (is_true rooted) eqn:HR.
  - exact (extras_at_root_rooted_l acc Hnn Hinj ns Hns Hlen count Hcount t extras LK PT rooted l x m HR PL).
  - exact (extras_at_root_unrooted_l acc Hnn Hinj ns Hns Hlen count Hcount t extras LK PT rooted l x m HR PL).
Qed.
Print Assumptions from_splits_extras_at_root.

(* greedy insertion of ONE split into any well-formed working tree: masks stay consistent, no clade is
   lost, at most the split itself is gained, the leaves are kept, and the split IS gained whenever it
   is disjoint-or-nested with every clade of the tree (insert_iff_compatible, "if" direction) *)
Theorem insert_split_spec : forall s k, s <> 0 ->
  (0 <= k /\ Z.testbit s k = true /\ forall j, 0 <= j < k -> Z.testbit s j = false) ->
  forall t, mwf t -> msubset s (m_mask t) ->
  (mwf (insert_split s (2 ^ k) t) /\ m_mask (insert_split s (2 ^ k) t) = m_mask t /\
   (forall y, In y (mclades (insert_split s (2 ^ k) t)) -> In y (mclades t) \/ y = s) /\
   (forall y, In y (mclades t) -> In y (mclades (insert_split s (2 ^ k) t))) /\
   Permutation.Permutation (mleaves (insert_split s (2 ^ k) t)) (mleaves t)) /\
  ((forall y, In y (mclades t) -> (mdisjoint s y \/ msubset s y \/ msubset y s)) ->
   In s (mclades (insert_split s (2 ^ k) t))).
Proof. exact insert_ok. Qed.
Print Assumptions insert_split_spec.

(* tree_compatible_spec.  Tree.is_compatible_with_bipartition on an encoded tree = compatible with every
   bipartition of the encoding, in the set-theoretic sense (the `bipartition in self.bipartition_encoding`
   shortcut is sound because the bipartitions of one tree are pairwise compatible).
   Rooted: clades, disjoint or nested.  Unrooted: splits (4 cases), for a bipartition built against the
   same tree mask (inside it, lowest taxon bit clear - what Bipartition(...) guarantees). *)
Theorem tree_compatible_rooted_spec : forall acc rooted t s,
  (forall x, 0 <= acc x) -> (forall x y, acc x = acc y -> x = y) ->
  is_true rooted = true -> leaves_ok t = true ->
  Z.land (cmask acc t) s = s ->
  (tree_is_compatible_with (enc_splits (encode acc rooted t)) (cmask acc t) s = true <->
   forall b, In b (enc_splits (encode acc rooted t)) -> (mdisjoint b s \/ msubset b s \/ msubset s b)).
Proof. exact tree_compatible_rooted_spec_l. Qed.
Print Assumptions tree_compatible_rooted_spec.

Theorem tree_compatible_unrooted_spec : forall acc,
  (forall x, 0 <= acc x) -> (forall x y, acc x = acc y -> x = y) ->
  forall rooted t s, is_true rooted = false -> leaves_ok t = true ->
  Z.land (cmask acc t) s = s ->
  Z.testbit s (Z.log2 (py_least_significant_set_bit (cmask acc t))) = false ->
  (tree_is_compatible_with (enc_splits (encode acc rooted t)) (cmask acc t) s = true <->
   forall b, In b (enc_splits (encode acc rooted t)) ->
     (mdisjoint b s \/ msubset b s \/ msubset s b \/ Z.lor b s = cmask acc t)).
Proof. exact tree_compatible_unrooted_spec_l. Qed.
Print Assumptions tree_compatible_unrooted_spec.

(* the clades of one tree with pairwise distinct leaf taxa are pairwise disjoint-or-nested *)
Theorem tree_clades_laminar : forall acc t,
  (forall x, 0 <= acc x) -> (forall x y, acc x = acc y -> x = y) ->
  NoDup (leaf_taxa t) -> forall a b, In a (clades acc t) -> In b (clades acc t) ->
  (mdisjoint a b \/ msubset a b \/ msubset b a).
Proof. exact clades_laminar. Qed.
Print Assumptions tree_clades_laminar.

(* ---------------------------------------------------------------------------------------------- *)
(* Object level (wave 7): Bipartition objects as store cells (Model/C01ObjModel.v).
   oheap = (store: cell -> attributes, next unused cell, node id -> cell of that node's Edge._bipartition);
   otree = heap, structure, rooting flag, Tree.bipartition_encoding (None or a list of cells), and the lists
   earlier encodings returned to the caller (ot_saved, oldest first).  obj_encode su cb ss mut is
   encode_bipartitions / update_bipartitions with its four keywords transcribed as to which object is created,
   bound to an edge, written in place and returned; obj_edit is any operation that changes structure and
   rooting and is not asked to update the bipartitions; obj_supp is suppress_unifurcations(update_bipartitions=True)
   (wave 8, see the end of this file); obj_step runs one of them.
   owf s: every cell referred to by an edge, by the stored list or by a saved list, and every allocated cell,
   is below the allocation counter (holds of the initial state and is preserved: owf_init / owf_step).   *)
From DV Require Import Model.C01GenPrims Model.C01ObjModel Proofs.C01Obj.

(* every encoding creates its objects: the objects of the new encoding did not exist before, no edge, no
   stored list and no list returned earlier referred to them; every retained edge of the encoded tree is bound
   to one of them; every object that existed keeps its attributes; edges of nodes that are not in the
   encoded tree keep their binding *)
Theorem encoding_creates_fresh_bipartition_objects : forall su cb ss mut acc s,
  owf s ->
  exists cells,
    ot_saved (obj_encode su cb ss mut acc s) = ot_saved s ++ [cells] /\
    ot_stored (obj_encode su cb ss mut acc s) = (if ss then None else Some cells) /\
    (forall c, In c cells ->
       st_get (oh_store (ot_heap s)) c = None /\
       (forall k, oh_slot (ot_heap s) k <> Some c) /\
       (forall l, In l (ot_saved s) -> ~ In c l) /\
       (forall l, ot_stored s = Some l -> ~ In c l)) /\
    (forall e, In e (r_edges (encode_f su cb acc (ot_rooted s) (ot_tree s))) ->
       exists c, oh_slot (ot_heap (obj_encode su cb ss mut acc s)) (fst e) = Some c /\ In c cells) /\
    (forall c b, st_get (oh_store (ot_heap s)) c = Some b ->
       st_get (oh_store (ot_heap (obj_encode su cb ss mut acc s))) c = Some b) /\
    (forall k, ~ In k (map fst (r_edges (encode_f su cb acc (ot_rooted s) (ot_tree s)))) ->
       oh_slot (ot_heap (obj_encode su cb ss mut acc s)) k = oh_slot (ot_heap s) k).
Proof. exact encoding_creates_fresh_objects_l. Qed.
Print Assumptions encoding_creates_fresh_bipartition_objects.

Theorem object_invariant_holds : forall acc rooted t steps,
  owf (fold_left (obj_step acc) steps (ot_init rooted t)).
Proof. intros. apply owf_steps, owf_init. Qed.
Print Assumptions object_invariant_holds.

(* an encoding returned earlier keeps its objects and their masks (all attributes) under EVERY later history
   of encodings (any keywords) and editing operations on the tree *)
Theorem saved_encoding_keeps_its_masks : forall acc rooted t before after k l,
  let s1 := fold_left (obj_step acc) before (ot_init rooted t) in
  let s2 := fold_left (obj_step acc) after s1 in
  nth_error (ot_saved s1) k = Some l ->
  nth_error (ot_saved s2) k = Some l /\
  map (deref (ot_heap s2)) l = map (deref (ot_heap s1)) l.
Proof. exact saved_encoding_keeps_its_masks_l. Qed.
Print Assumptions saved_encoding_keeps_its_masks.

(* no Bipartition object is shared between two encodings of a history *)
Theorem no_bipartition_object_shared : forall acc rooted t steps i j li lj,
  let s := fold_left (obj_step acc) steps (ot_init rooted t) in
  i <> j -> nth_error (ot_saved s) i = Some li -> nth_error (ot_saved s) j = Some lj ->
  forall c, In c li -> ~ In c lj.
Proof. exact no_bipartition_object_shared_l. Qed.
Print Assumptions no_bipartition_object_shared.

(* the object level refines the value level: the new objects, in order, carry exactly the (leafset, split)
   pairs and the rooting flag of the value-level encoding encode_f (of which the theorems above speak), and
   the retained edges are bound to them in tree_edges order - with or without suppress_storage *)
Theorem object_level_refines_value_level : forall su cb ss mut acc s,
  let s' := obj_encode su cb ss mut acc s in
  let R := encode_f su cb acc (ot_rooted s) (ot_tree s) in
  NoDup (map fst (r_edges R)) ->
  exists cells,
    ot_saved s' = ot_saved s ++ [cells] /\
    cells = cells_from (oh_next (ot_heap s)) (length (r_edges R)) /\
    map (fun e => oh_slot (ot_heap s') (fst e)) (r_edges R) = map Some cells /\
    map (fun c => option_map (fun b => (b_leafset b, b_split b, b_rooted b)) (st_get (oh_store (ot_heap s')) c)) cells
    = map (fun e => Some (Some (fst (snd e)), Some (snd (snd e)), r_rooted R)) (r_edges R).
Proof. exact obj_encode_contents. Qed.
Print Assumptions object_level_refines_value_level.

(* the statement bites: recycling the object already bound to the edge changes a saved encoding *)
Theorem recycling_variant_refuted :
  let s1 := obj_encode_recycle true true false false (fun x => x) (ot_init (Some true) demo_tree1) in
  let s2 := obj_encode_recycle true true false false (fun x => x) (obj_edit demo_tree2 (Some true) s1) in
  exists l, nth_error (ot_saved s1) 0 = Some l /\ nth_error (ot_saved s2) 0 = Some l /\
            map (deref (ot_heap s2)) l <> map (deref (ot_heap s1)) l.
Proof. exact recycling_variant_refuted_l. Qed.
Print Assumptions recycling_variant_refuted.

(* ---------------------------------------------------------------------------------------------- *)
(* Object level (wave 8): Tree.suppress_unifurcations(update_bipartitions=True) is the one operation that
   MAINTAINS Tree.bipartition_encoding instead of encoding again (Model/C01ObjModel.v obj_supp, step HSupp of
   the histories above: object_invariant_holds, saved_encoding_keeps_its_masks and no_bipartition_object_shared
   quantify over histories that contain it).  It removes from the stored list the objects of the outdegree-one
   nodes, chosen by IDENTITY (id()).
   If the edges of the tree, in post-order, are bound to pairwise distinct objects and the stored list is the list
   of these objects (what an encoding with suppress_unifurcations=False leaves: object_level_refines_value_level),
   and t is the tree without its outdegree-one nodes, then afterwards the stored list is exactly the list of the
   objects on the edges of t (one per edge, pairwise distinct, all from the old list); nothing is created,
   written or rebound, and the lists returned by earlier encodings stay. *)
From DV Require Import Proofs.C01ObjSupp.

Theorem suppress_unifurcations_maintains_one_object_per_edge : forall t r s cells,
  NoDup cells ->
  map (fun n => oh_slot (ot_heap s) (t_id n)) (postorder (ot_tree s)) = map Some cells ->
  ot_stored s = Some cells ->
  map t_id (postorder t) = map t_id (filter (fun n => negb (is_unary n)) (postorder (ot_tree s))) ->
  let s' := obj_supp t r s in
  exists cells',
    ot_stored s' = Some cells' /\
    map (fun n => oh_slot (ot_heap s') (t_id n)) (postorder t) = map Some cells' /\
    NoDup cells' /\
    (forall c, In c cells' -> In c cells) /\
    length cells' = length (postorder t) /\
    ot_heap s' = ot_heap s /\ ot_saved s' = ot_saved s /\ ot_tree s' = t /\ ot_rooted s' = r.
Proof. exact supp_one_object_per_edge_l. Qed.
Print Assumptions suppress_unifurcations_maintains_one_object_per_edge.

(* the hypotheses are satisfiable and the conclusion has content: (((a,b)),c,d) encoded with
   suppress_unifurcations=False, then suppressed: object 3 (the outdegree-one node's) leaves the list, object 2
   (the surviving child's, SAME split bitmask 3) stays *)
Theorem suppress_unifurcations_example :
  let s1 := obj_encode false true false false (fun x => x) (ot_init (Some true) demo_unary) in
  let s2 := obj_supp demo_unary_suppressed (Some true) s1 in
  NoDup [0; 1; 2; 3; 4; 5; 6] /\
  map (fun n => oh_slot (ot_heap s1) (t_id n)) (postorder (ot_tree s1)) = map Some [0; 1; 2; 3; 4; 5; 6] /\
  ot_stored s1 = Some [0; 1; 2; 3; 4; 5; 6] /\
  map t_id (postorder demo_unary_suppressed) = map t_id (filter (fun n => negb (is_unary n)) (postorder (ot_tree s1))) /\
  ot_stored s2 = Some [0; 1; 2; 4; 5; 6] /\
  map (fun c => option_map b_split (st_get (oh_store (ot_heap s2)) c)) [2; 3] = [Some (Some 3); Some (Some 3)].
Proof. exact supp_example. Qed.
Print Assumptions suppress_unifurcations_example.

(* the statement bites: choosing the objects to drop by Bipartition.__eq__/__hash__ (the split bitmask) instead
   of by identity (seeded change C01-9) satisfies the hypotheses and violates the conclusion on that tree *)
Theorem suppress_by_value_variant_refuted :
  let s1 := obj_encode false true false false (fun x => x) (ot_init (Some true) demo_unary) in
  let s2 := obj_supp_by_value demo_unary_suppressed (Some true) s1 in
  exists cells cells',
    NoDup cells /\
    map (fun n => oh_slot (ot_heap s1) (t_id n)) (postorder (ot_tree s1)) = map Some cells /\
    ot_stored s1 = Some cells /\
    map t_id (postorder demo_unary_suppressed) = map t_id (filter (fun n => negb (is_unary n)) (postorder (ot_tree s1))) /\
    ot_stored s2 = Some cells' /\
    map (fun n => oh_slot (ot_heap s2) (t_id n)) (postorder demo_unary_suppressed) <> map Some cells' /\
    length cells' <> length (postorder demo_unary_suppressed).
Proof. exact by_value_variant_refuted_l. Qed.
Print Assumptions suppress_by_value_variant_refuted.
