(* C12 property theorems: statements only, each closed by `exact`.
   Model: Model/C12Model.v (generic Python object heap + copy.deepcopy with the library's overrides).
   h       the source heap (the dumped reachable graph of a tree / tree list / matrix / namespace)
   seeds   objects pre-seeded in `memo` to themselves ([] for copy.deepcopy; the namespace and its taxa
           for taxon-namespace-scoped copies: ns_seeds h ns)
   nf      variant of AnnotationSet.__deepcopy__ in the working tree (false: as found, a target None raises
           KeyError unless None is memoised; true: repaired); every theorem holds for both
   wf_heap executable well-formedness (references inside the heap, seeds inside the heap, members of
           owned annotation sets are neither seeds nor atomic, bound-attribute names are immutable
           values, attribute names are immutable values); evaluated on every dumped case *)
From Coq Require Import ZArith List Bool.
From DV Require Import Model.PyPrims Model.C12Model Proofs.C12Proofs Proofs.C12IsoTop Proofs.C12Examples.
Import ListNotations.
Open Scope Z_scope.

(* Termination: fuel above the number of source objects always suffices (every recursive call on an
   unmemoised object first enlarges memo). *)
Theorem deepcopy_fuel_suffices : forall nf h seeds root fuel,
  wf_heap h seeds = true -> 0 <= root < hlen h -> (length h < fuel)%nat ->
  run_seeded nf fuel h seeds root <> OutOfFuel.
Proof. exact deepcopy_fuel_suffices_l. Qed.
Print Assumptions deepcopy_fuel_suffices.

(* deepcopy_iso_disjoint, part 1: the result heap extends the old one (old objects untouched) and every
   object reachable from the copy is fresh except what the seeds / atomic objects reach.
   (part 2, equality of content, is deepcopy_content_bisimulation below.) *)
Theorem deepcopy_extends_and_fresh : forall nf h seeds root fuel s' y,
  wf_heap h seeds = true -> 0 <= root < hlen h -> (length h < fuel)%nat ->
  run_seeded nf fuel h seeds root = Ok (s', R y) ->
  (forall o, o < hlen h -> hget (sh s') o = hget h o)
  /\ hlen h <= hlen (sh s')
  /\ (forall o, reach (sh s') y o ->
        hlen h <= o < hlen (sh s') \/ exists b, (In b seeds \/ is_atomic h b = true) /\ reach h b o).
Proof. exact deepcopy_fresh_disjoint_l. Qed.
Print Assumptions deepcopy_extends_and_fresh.

(* deepcopy_iso_disjoint, part 2: equality of content.  c = sc s' is the correspondence recorded when the
   copies were allocated (one pair per allocated copy; the interpreter never reads it).
     - the root corresponds to the returned copy;
     - for every pair (a, b): a is a source object, b a NEW object of the same class and kind; every entry
       of b is related (vrel: equal immutable values, recorded copies, or the very same seed / atomic
       object) to an entry of a, and every entry of a has a related entry with a related value in b:
       structure, labels, lengths, rooting, taxa, comments, extra attributes, bipartitions, sequences and
       every Annotation object (name, value, is_attribute, bound-attribute tuple (copy, name)) correspond
       exactly; list positions are keys, so order is preserved;
     - no object is the copy of two sources (the relation is injective on objects).
   EXCEPT (named, not proved for all inputs; checked per case by the correspondence run): the
   AnnotationSet object that `annotations.add` rebuilds for an annotable copy and its two containers
   (`rebuilt` / `not_carried`: key "_annotations" of annotable objects, "_item_list"/"_item_set" and
   non-"target" attributes of annotation sets) - i.e. WHICH annotations the copy's set lists, in which
   order.  c also is not single-valued on tuples (a re-targeted bound-attribute tuple has two recorded
   copies, one of them garbage), so "memo is an isomorphism ONTO the copy's reachable set" is not
   claimed. *)
Theorem deepcopy_content_bisimulation_partial : forall nf h seeds root fuel s' y,
  wf_heap h seeds = true -> wf_heap2 h = true -> memz root (owned_list h) = false ->
  0 <= root < hlen h -> (length h < fuel)%nat ->
  run_seeded nf fuel h seeds root = Ok (s', R y) ->
  vrel (hlen h) (sc s') (R root) (R y)
  /\ (forall a b, In (a, b) (sc s') ->
        0 <= a < hlen h /\ hlen h <= b < hlen (sh s') /\
        exists oa ob, hget h a = Some oa /\ hget (sh s') b = Some ob /\ ocls oa = ocls ob /\ okind oa = okind ob
          /\ (forall k' v', In (k', v') (obody ob) ->
                rebuilt (okind oa) k' \/
                exists k v, In (k, v) (obody oa) /\ vrel (hlen h) (sc s') k k' /\ vrel (hlen h) (sc s') v v')
          /\ (forall k v, In (k, v) (obody oa) ->
                not_carried (okind oa) k \/
                exists k' v', In (k', v') (obody ob) /\ vrel (hlen h) (sc s') k k' /\ vrel (hlen h) (sc s') v v'))
  /\ (forall a a' b, In (a, b) (sc s') -> In (a', b) (sc s') -> a = a').
Proof. exact deepcopy_bisimulation_l. Qed.
Print Assumptions deepcopy_content_bisimulation_partial.

(* copy.deepcopy / clone(2): whatever both the source and the copy can reach is reachable from an atomic
   object (StateAlphabet / StateIdentity, whose __deepcopy__ returns self): no node, edge, taxon,
   namespace, annotation, list or dict is shared. *)
Theorem deep_shares_nothing : forall nf h root fuel s' y,
  wf_heap h [] = true -> 0 <= root < hlen h -> (length h < fuel)%nat ->
  run nf fuel h root RDeep = Ok (s', R y) ->
  forall o, reach (sh s') y o -> reach (sh s') root o ->
    exists b, is_atomic h b = true /\ reach h b o.
Proof. exact deep_shares_nothing_l. Qed.
Print Assumptions deep_shares_nothing.

(* taxon-namespace-scoped copy / clone(1) / Tree.__copy__: whatever both sides can reach is reachable
   from the namespace, one of its taxa, or an atomic object.  (Full statement "exactly": every seed the
   source reaches is also reached by the copy - follows from the content theorem only for seeds not
   reached through annotation sets; not stated.) *)
Theorem scoped_shares_exactly_namespace_partial : forall nf h root ns fuel s' y,
  wf_heap h (ns_seeds h ns) = true -> 0 <= root < hlen h -> (length h < fuel)%nat ->
  run nf fuel h root (RScoped ns) = Ok (s', R y) ->
  forall o, reach (sh s') y o -> reach (sh s') root o ->
    exists b, (In b (ns_seeds h ns) \/ is_atomic h b = true) /\ reach h b o.
Proof. exact scoped_shares_only_namespace_l. Qed.
Print Assumptions scoped_shares_exactly_namespace_partial.

(* Frame, general form: a heap that agrees with h1 on everything reachable from r shows the same graph
   from r. *)
Theorem frame_general : forall h1 h2 r,
  (forall o, reach h1 r o -> hget h2 o = hget h1 o) -> forall o, reach h1 r o <-> reach h2 r o.
Proof. exact frame_general_l. Qed.
Print Assumptions frame_general.

(* Frame after a copy, mutations of the copy: any later sequence of field writes to objects of the copy
   (numbered from hlen h: everything the copy reaches outside the shared region) and any allocations
   leave every observation of the source - its reachable set and every reachable object - unchanged. *)
Theorem frame_copy_side : forall nf h seeds root fuel s' y news ws,
  wf_heap h seeds = true -> 0 <= root < hlen h -> (length h < fuel)%nat ->
  run_seeded nf fuel h seeds root = Ok (s', R y) ->
  (forall w, In w ws -> hlen h <= fst w) ->
  (forall o, reach h root o <-> reach (write_all (sh s' ++ news) ws) root o)
  /\ (forall o, reach h root o -> hget (write_all (sh s' ++ news) ws) o = hget h o).
Proof. exact frame_copy_side_l. Qed.
Print Assumptions frame_copy_side.

(* Frame after a copy, mutations of the source: later writes to source objects that are not reachable
   from a seed or an atomic object (for copy.deepcopy: any source object outside what atomics reach; for
   scoped copies: anything but the namespace, the taxa and what they reach) leave every observation of
   the copy unchanged. *)
Theorem frame_source_side : forall nf h seeds root fuel s' y news ws,
  wf_heap h seeds = true -> 0 <= root < hlen h -> (length h < fuel)%nat ->
  run_seeded nf fuel h seeds root = Ok (s', R y) ->
  (forall w, In w ws -> fst w < hlen h /\
      ~ exists b, (In b seeds \/ is_atomic h b = true) /\ reach h b (fst w)) ->
  (forall o, reach (sh s') y o <-> reach (write_all (sh s' ++ news) ws) y o)
  /\ (forall o, reach (sh s') y o -> hget (write_all (sh s' ++ news) ws) o = hget (sh s') o).
Proof. exact frame_source_side_l. Qed.
Print Assumptions frame_source_side.

(* attribute-bound annotations follow the copy.  Full statement: at the end of the copy, the annotation a2
   recorded for a member a1 bound to its owner x has the value (y, name) with y a recorded copy of x -
   this is the instance of deepcopy_content_bisimulation_partial for the pairs (a1, a2) and
   (a1._value, a2._value).  Stated separately here for the step of the algorithm that establishes it
   (deep_copy_annotations_from's re-targeting): afterwards a2._value is a NEW tuple (dst, name), nothing
   else is modified. *)
Theorem bound_annotations_follow_copy_partial : forall s dst src a1o a2o s' ao t tob name rest,
  bget (body_of s a2o) NM_ISATTR = Some PTrue ->
  hget (sh s) a1o = Some ao -> bget (obody ao) NM_VALUE = Some (R t) ->
  hget (sh s) t = Some tob -> (okind tob = KTuple \/ okind tob = KList) ->
  values (obody tob) = R src :: name :: rest ->
  retarget s dst src (R a1o) (R a2o) = Ok s' ->
  exists tn, hlen (sh s) <= tn
    /\ bget (body_of s' a2o) NM_VALUE = Some (R tn)
    /\ body_of s' tn = [(pidx 0, R dst); (pidx 1, name)]
    /\ (forall o, o <> a2o -> o < hlen (sh s) -> hget (sh s') o = hget (sh s) o).
Proof. exact retarget_binds_copy_l. Qed.
Print Assumptions bound_annotations_follow_copy_partial.

(* Not vacuous: a well-formed heap of the library's shape (tree + namespace + taxon + attribute-bound
   annotation) on which both routes run to completion. *)
Theorem hypotheses_satisfiable :
  wf_heap ex_heap [] = true /\ wf_heap ex_heap (ns_seeds ex_heap 1) = true
  /\ (wf_heap2 ex_heap = true /\ memz 0 (owned_list ex_heap) = false)
  /\ (exists s y, run false 10 ex_heap 0 RDeep = Ok (s, R y) /\ y = 9 /\ hlen (sh s) = 19)
  /\ (exists s y, run false 10 ex_heap 0 (RScoped 1) = Ok (s, R y) /\ y = 9 /\ hlen (sh s) = 16).
Proof. exact (conj ex_wf_deep (conj ex_wf_scoped (conj ex_wf2 (conj ex_deep_runs ex_scoped_runs)))). Qed.
Print Assumptions hypotheses_satisfiable.

(* "deep copy of a well-formed graph succeeds" is REFUTED on the faithful model, as on the
   implementation (defect 1: re-copy of a copy-constructed object whose annotations belong to its
   hidden twin -> AttributeError; defect 2: per-cell AnnotationSet with target None -> KeyError unless
   None happened to be memoised). *)
Theorem deepcopy_total_refuted :
  (exists h root, wf_heap h [] = true /\ run false (S (length h)) h root RDeep = Err AttrErr)
  /\ (exists h root, wf_heap h [] = true /\ run false (S (length h)) h root RDeep = Err KeyErr).
Proof.
  exact (conj (ex_intro _ twin_heap (ex_intro _ 0 (conj twin_heap_wf twin_heap_copy_fails)))
              (ex_intro _ (cell_heap (P 60)) (ex_intro _ 0 (conj (cell_heap_wf (P 60) (or_intror eq_refl)) cell_heap_copy_fails)))).
Qed.
Print Assumptions deepcopy_total_refuted.
