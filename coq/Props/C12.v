(* C12 property theorems: statements only, each closed by `exact`.
   Model: Model/C12Model.v (generic Python object heap + copy.deepcopy with the library's overrides).
   h       the source heap (the dumped reachable graph of a tree / tree list / matrix / namespace)
   seeds   objects pre-seeded in `memo` to themselves ([] for copy.deepcopy; the namespace and its taxa
           for taxon-namespace-scoped copies: ns_seeds h ns)
   nf      variant of AnnotationSet.__deepcopy__ in the working tree (false: as found, a target None raises
           KeyError unless None is memoised; true: repaired); every theorem holds for both
   wf_heap executable well-formedness (references inside the heap, seeds inside the heap, members of
           owned annotation sets are neither seeds nor atomic, bound-attribute names are immutable
           values, attribute names are immutable values); evaluated on every dumped case *)
From Coq Require Import ZArith List Bool.
From DV Require Import Model.PyPrims Model.C12Model Model.C12Spec2 Proofs.C12Proofs Proofs.C12IsoTop Proofs.C12Examples
  Proofs.C12AnnTop Proofs.C12FunTop Proofs.C12ImageTop Proofs.C12Examples2 Model.C12Shallow Proofs.C12ShallowTop
  Model.C12Spec3 Proofs.C12IsoFullTop
  Model.C12Spec4 Proofs.C12Strict Proofs.C12StrictTop Proofs.C12Shared Proofs.C12StrictCor Proofs.C12StrictEx Proofs.C12Tuple
  Proofs.C12IsoFull Proofs.C12ResultHeap Model.C12Classes Proofs.C12Alias Proofs.C12Owner
  Proofs.C12W9Wf4 Proofs.C12W9Cor Proofs.C12W9Route Proofs.C12W9Closed.
Import ListNotations.
Open Scope Z_scope.

(* Termination: fuel above the number of source objects always suffices (every recursive call on an
   unmemoised object first enlarges memo). *)
Theorem deepcopy_fuel_suffices : forall nf h seeds root fuel,
  wf_heap h seeds = true -> 0 <= root < hlen h -> (length h < fuel)%nat ->
  run_seeded nf fuel h seeds root <> OutOfFuel.
Proof. exact deepcopy_fuel_suffices_l. Qed.
Print Assumptions deepcopy_fuel_suffices.

(* deepcopy_iso_disjoint, part 1: the result heap extends the old one (old objects untouched) and every
   object reachable from the copy is fresh except what the seeds / atomic objects reach.
   (part 2, equality of content, is deepcopy_content_bisimulation below.) *)
Theorem deepcopy_extends_and_fresh : forall nf h seeds root fuel s' y,
  wf_heap h seeds = true -> 0 <= root < hlen h -> (length h < fuel)%nat ->
  run_seeded nf fuel h seeds root = Ok (s', R y) ->
  (forall o, o < hlen h -> hget (sh s') o = hget h o)
  /\ hlen h <= hlen (sh s')
  /\ (forall o, reach (sh s') y o ->
        hlen h <= o < hlen (sh s') \/ exists b, (In b seeds \/ is_atomic h b = true) /\ reach h b o).
Proof. exact deepcopy_fresh_disjoint_l. Qed.
Print Assumptions deepcopy_extends_and_fresh.

(* deepcopy_iso_disjoint, part 2: equality of content.  c = sc s' is the correspondence recorded when the
   copies were allocated (one pair per allocated copy; the interpreter never reads it).
     - the root corresponds to the returned copy;
     - for every pair (a, b): a is a source object, b a NEW object of the same class and kind; every entry
       of b is related (vrel: equal immutable values, recorded copies, or the very same seed / atomic
       object) to an entry of a, and every entry of a has a related entry with a related value in b:
       structure, labels, lengths, rooting, taxa, comments, extra attributes, bipartitions, sequences and
       every Annotation object (name, value, is_attribute, bound-attribute tuple (copy, name)) correspond
       exactly; list positions are keys, so order is preserved;
     - no object is the copy of two sources (the relation is injective on objects).
   EXCEPT (named, not proved for all inputs; checked per case by the correspondence run): the
   AnnotationSet object that `annotations.add` rebuilds for an annotable copy and its two containers
   (`rebuilt` / `not_carried`: key "_annotations" of annotable objects, "_item_list"/"_item_set" and
   non-"target" attributes of annotation sets) - i.e. WHICH annotations the copy's set lists, in which
   order.  c also is not single-valued on tuples (a re-targeted bound-attribute tuple has two recorded
   copies, one of them garbage), so "memo is an isomorphism ONTO the copy's reachable set" is not
   claimed. *)
Theorem deepcopy_content_bisimulation_partial : forall nf h seeds root fuel s' y,
  wf_heap h seeds = true -> wf_heap2 h = true -> memz root (owned_list h) = false ->
  0 <= root < hlen h -> (length h < fuel)%nat ->
  run_seeded nf fuel h seeds root = Ok (s', R y) ->
  vrel (hlen h) (sc s') (R root) (R y)
  /\ (forall a b, In (a, b) (sc s') ->
        0 <= a < hlen h /\ hlen h <= b < hlen (sh s') /\
        exists oa ob, hget h a = Some oa /\ hget (sh s') b = Some ob /\ ocls oa = ocls ob /\ okind oa = okind ob
          /\ (forall k' v', In (k', v') (obody ob) ->
                rebuilt (okind oa) k' \/
                exists k v, In (k, v) (obody oa) /\ vrel (hlen h) (sc s') k k' /\ vrel (hlen h) (sc s') v v')
          /\ (forall k v, In (k, v) (obody oa) ->
                not_carried (okind oa) k \/
                exists k' v', In (k', v') (obody ob) /\ vrel (hlen h) (sc s') k k' /\ vrel (hlen h) (sc s') v v'))
  /\ (forall a a' b, In (a, b) (sc s') -> In (a', b) (sc s') -> a = a').
Proof. exact deepcopy_bisimulation_l. Qed.
Print Assumptions deepcopy_content_bisimulation_partial.

(* copy.deepcopy / clone(2): whatever both the source and the copy can reach is reachable from an atomic
   object (StateAlphabet / StateIdentity, whose __deepcopy__ returns self): no node, edge, taxon,
   namespace, annotation, list or dict is shared. *)
Theorem deep_shares_nothing : forall nf h root fuel s' y,
  wf_heap h [] = true -> 0 <= root < hlen h -> (length h < fuel)%nat ->
  run nf fuel h root RDeep = Ok (s', R y) ->
  forall o, reach (sh s') y o -> reach (sh s') root o ->
    exists b, is_atomic h b = true /\ reach h b o.
Proof. exact deep_shares_nothing_l. Qed.
Print Assumptions deep_shares_nothing.

(* taxon-namespace-scoped copy / clone(1) / Tree.__copy__: whatever both sides can reach is reachable
   from the namespace, one of its taxa, or an atomic object.  (Full statement "exactly": every seed the
   source reaches is also reached by the copy - follows from the content theorem only for seeds not
   reached through annotation sets; not stated.) *)
Theorem scoped_shares_exactly_namespace_partial : forall nf h root ns fuel s' y,
  wf_heap h (ns_seeds h ns) = true -> 0 <= root < hlen h -> (length h < fuel)%nat ->
  run nf fuel h root (RScoped ns) = Ok (s', R y) ->
  forall o, reach (sh s') y o -> reach (sh s') root o ->
    exists b, (In b (ns_seeds h ns) \/ is_atomic h b = true) /\ reach h b o.
Proof. exact scoped_shares_only_namespace_l. Qed.
Print Assumptions scoped_shares_exactly_namespace_partial.

(* Frame, general form: a heap that agrees with h1 on everything reachable from r shows the same graph
   from r. *)
Theorem frame_general : forall h1 h2 r,
  (forall o, reach h1 r o -> hget h2 o = hget h1 o) -> forall o, reach h1 r o <-> reach h2 r o.
Proof. exact frame_general_l. Qed.
Print Assumptions frame_general.

(* Frame after a copy, mutations of the copy: any later sequence of field writes to objects of the copy
   (numbered from hlen h: everything the copy reaches outside the shared region) and any allocations
   leave every observation of the source - its reachable set and every reachable object - unchanged. *)
Theorem frame_copy_side : forall nf h seeds root fuel s' y news ws,
  wf_heap h seeds = true -> 0 <= root < hlen h -> (length h < fuel)%nat ->
  run_seeded nf fuel h seeds root = Ok (s', R y) ->
  (forall w, In w ws -> hlen h <= fst w) ->
  (forall o, reach h root o <-> reach (write_all (sh s' ++ news) ws) root o)
  /\ (forall o, reach h root o -> hget (write_all (sh s' ++ news) ws) o = hget h o).
Proof. exact frame_copy_side_l. Qed.
Print Assumptions frame_copy_side.

(* Frame after a copy, mutations of the source: later writes to source objects that are not reachable
   from a seed or an atomic object (for copy.deepcopy: any source object outside what atomics reach; for
   scoped copies: anything but the namespace, the taxa and what they reach) leave every observation of
   the copy unchanged. *)
Theorem frame_source_side : forall nf h seeds root fuel s' y news ws,
  wf_heap h seeds = true -> 0 <= root < hlen h -> (length h < fuel)%nat ->
  run_seeded nf fuel h seeds root = Ok (s', R y) ->
  (forall w, In w ws -> fst w < hlen h /\
      ~ exists b, (In b seeds \/ is_atomic h b = true) /\ reach h b (fst w)) ->
  (forall o, reach (sh s') y o <-> reach (write_all (sh s' ++ news) ws) y o)
  /\ (forall o, reach (sh s') y o -> hget (write_all (sh s' ++ news) ws) o = hget (sh s') o).
Proof. exact frame_source_side_l. Qed.
Print Assumptions frame_source_side.

(* attribute-bound annotations follow the copy.  Full statement: at the end of the copy, the annotation a2
   recorded for a member a1 bound to its owner x has the value (y, name) with y a recorded copy of x -
   this is the instance of deepcopy_content_bisimulation_partial for the pairs (a1, a2) and
   (a1._value, a2._value).  Stated separately here for the step of the algorithm that establishes it
   (deep_copy_annotations_from's re-targeting): afterwards a2._value is a NEW tuple (dst, name), nothing
   else is modified. *)
Theorem bound_annotations_follow_copy_partial : forall s dst src a1o a2o s' ao t tob name rest,
  bget (body_of s a2o) NM_ISATTR = Some PTrue ->
  hget (sh s) a1o = Some ao -> bget (obody ao) NM_VALUE = Some (R t) ->
  hget (sh s) t = Some tob -> (okind tob = KTuple \/ okind tob = KList) ->
  values (obody tob) = R src :: name :: rest ->
  retarget s dst src (R a1o) (R a2o) = Ok s' ->
  exists tn, hlen (sh s) <= tn
    /\ bget (body_of s' a2o) NM_VALUE = Some (R tn)
    /\ body_of s' tn = [(pidx 0, R dst); (pidx 1, name)]
    /\ (forall o, o <> a2o -> o < hlen (sh s) -> hget (sh s') o = hget (sh s) o).
Proof. exact retarget_binds_copy_l. Qed.
Print Assumptions bound_annotations_follow_copy_partial.

(* Not vacuous: a well-formed heap of the library's shape (tree + namespace + taxon + attribute-bound
   annotation) on which both routes run to completion. *)
Theorem hypotheses_satisfiable :
  wf_heap ex_heap [] = true /\ wf_heap ex_heap (ns_seeds ex_heap 1) = true
  /\ (wf_heap2 ex_heap = true /\ memz 0 (owned_list ex_heap) = false)
  /\ (exists s y, run false 10 ex_heap 0 RDeep = Ok (s, R y) /\ y = 9 /\ hlen (sh s) = 19)
  /\ (exists s y, run false 10 ex_heap 0 (RScoped 1) = Ok (s, R y) /\ y = 9 /\ hlen (sh s) = 16).
Proof. exact (conj ex_wf_deep (conj ex_wf_scoped (conj ex_wf2 (conj ex_deep_runs ex_scoped_runs)))). Qed.
Print Assumptions hypotheses_satisfiable.

(* "deep copy of a well-formed graph succeeds" is REFUTED on the faithful model, as on the
   implementation (defect 1: re-copy of a copy-constructed object whose annotations belong to its
   hidden twin -> AttributeError; defect 2: per-cell AnnotationSet with target None -> KeyError unless
   None happened to be memoised). *)
Theorem deepcopy_total_refuted :
  (exists h root, wf_heap h [] = true /\ run false (S (length h)) h root RDeep = Err AttrErr)
  /\ (exists h root, wf_heap h [] = true /\ run false (S (length h)) h root RDeep = Err KeyErr).
Proof.
  exact (conj (ex_intro _ twin_heap (ex_intro _ 0 (conj twin_heap_wf twin_heap_copy_fails)))
              (ex_intro _ (cell_heap (P 60)) (ex_intro _ 0 (conj (cell_heap_wf (P 60) (or_intror eq_refl)) cell_heap_copy_fails)))).
Qed.
Print Assumptions deepcopy_total_refuted.

(* ==== second wave ====================================================================================
   Additional executable hypotheses (Model/C12Spec2.v), evaluated on every dumped case:
   wf_heap3      members of an owned annotation set are pairwise distinct; the `_taxa` list of a namespace
                 is referred to by that namespace only
   root_seeds_ok the root is not a `_taxa` list; no memo seed is a tuple, a `_taxa` list, an owned
                 annotation set or one of its containers
   wf_heap3s     (image theorems only) every AnnotationSet object is the `_annotations` of an annotable
                 object; an owned AnnotationSet has the attributes _item_list, _item_set, target only, its
                 target is its owner, its _item_set holds members of its _item_list.  Fails on matrices
                 with per-cell annotation sets and on copy-constructed sources (hidden twin): counted by
                 the harness, those heaps are covered by the other theorems only. *)

(* The EXCEPT clause of deepcopy_content_bisimulation_partial, closed: for every recorded pair (a, b) of
   annotable objects (Annotable / Taxon / TaxonNamespace kinds), the copy b has no `_annotations` iff a's
   set has no object member, and otherwise b._annotations is a NEW AnnotationSet with target b whose
   _item_list lists, at keys 0, 1, 2, ... and in the order of a's _item_list, exactly the recorded
   copies of the members of a's set (AnnState / ibody), and whose _item_set holds the same copies. *)
Theorem deepcopy_annotation_sets_rebuilt : forall nf h seeds root fuel s' y,
  wf_heap h seeds = true -> wf_heap2 h = true -> wf_heap3 h = true -> memz root (owned_list h) = false ->
  0 <= root < hlen h -> (length h < fuel)%nat ->
  run_seeded nf fuel h seeds root = Ok (s', R y) ->
  forall a b oa, In (a, b) (sc s') -> hget h a = Some oa -> is_annk (okind oa) = true ->
    exists done, AnnState s' b done
      /\ map fst done = refs_of (ann_items h oa)
      /\ (forall p, In p done -> In p (sc s')).
Proof. exact deepcopy_annotation_sets_l. Qed.
Print Assumptions deepcopy_annotation_sets_rebuilt.

(* The recorded correspondence is single-valued on the source side (with deepcopy_content_bisimulation's
   injectivity: single-valued both ways), EXCEPT on sources of kind tuple: the (owner, name) pair of an
   attribute-bound annotation is recorded once for the generic copy of the annotation and once for the
   re-targeted pair (copy, name) (tuples are immutable values; the dumper gives them no identity).
   No recorded source is an owned annotation set or a memo seed; every fresh object has distinct keys. *)
Theorem deepcopy_single_valued : forall nf h seeds root fuel s' y,
  wf_heap h seeds = true -> wf_heap2 h = true -> wf_heap3 h = true -> root_seeds_ok h seeds root = true ->
  memz root (owned_list h) = false -> 0 <= root < hlen h -> (length h < fuel)%nat ->
  run_seeded nf fuel h seeds root = Ok (s', R y) ->
  (forall a b b', In (a, b) (sc s') -> In (a, b') (sc s') -> b = b' \/ kind_at h a = Some KTuple)
  /\ (forall a b, In (a, b) (sc s') -> ~ In a (owned_list h) /\ ~ In a seeds)
  /\ (forall o ob, hlen h <= o -> hget (sh s') o = Some ob -> NoDup (map fst (obody ob))).
Proof. exact deepcopy_single_valued_l. Qed.
Print Assumptions deepcopy_single_valued.

(* The correspondence is ONTO the copy's reachable set and TOTAL on the source's:
     - every object the copy reaches is an old object (shared: deepcopy_extends_and_fresh says which), the
       recorded copy of an object the source root reaches, or one of the three rebuilt objects
       (AnnotationSet, _item_list, _item_set: copy_cont) of such a copy - whose content
       deepcopy_annotation_sets_rebuilt gives;
     - every object the source root reaches has a recorded copy that the copy reaches, or is reached by the
       copy as the very same object (shared), or is the owned AnnotationSet / _item_list / _item_set
       (src_cont) of an annotable object whose recorded copy the copy reaches.
   With deepcopy_extends_and_fresh, deepcopy_content_bisimulation_partial, deepcopy_annotation_sets_rebuilt
   and deepcopy_single_valued this is deepcopy_iso_disjoint; what stays short of it: the tuple exception of
   deepcopy_single_valued, and the hypothesis wf_heap3s. *)
Theorem deepcopy_image_onto_and_total : forall nf h seeds root fuel s' y,
  wf_heap h seeds = true -> wf_heap2 h = true -> wf_heap3 h = true -> wf_heap3s h = true ->
  root_seeds_ok h seeds root = true -> memz root (owned_list h) = false ->
  0 <= root < hlen h -> (length h < fuel)%nat ->
  run_seeded nf fuel h seeds root = Ok (s', R y) ->
  (forall o, reach (sh s') y o ->
     o < hlen h \/ (exists a, In (a, o) (sc s') /\ reach h root a) \/ copy_cont h s' root o)
  /\ (forall a, reach h root a ->
        0 <= a < hlen h /\
        ((exists b, In (a, b) (sc s') /\ reach (sh s') y b) \/ reach (sh s') y a \/ src_cont h s' y a)).
Proof. exact deepcopy_image_l. Qed.
Print Assumptions deepcopy_image_onto_and_total.

(* Converse of scoped_shares_exactly_namespace_partial ("exactly"): every seed - the namespace, each of its
   taxa - that the source reaches, and everything below it, is reached by the copy as the very same
   objects. *)
Theorem scoped_shares_every_reachable_seed : forall nf h root ns fuel s' y,
  wf_heap h (ns_seeds h ns) = true -> wf_heap2 h = true -> wf_heap3 h = true -> wf_heap3s h = true ->
  root_seeds_ok h (ns_seeds h ns) root = true -> memz root (owned_list h) = false ->
  0 <= root < hlen h -> (length h < fuel)%nat ->
  run nf fuel h root (RScoped ns) = Ok (s', R y) ->
  forall b o, In b (ns_seeds h ns) -> reach h root b -> reach h b o ->
    reach (sh s') y o /\ reach (sh s') root o.
Proof. exact scoped_shares_every_seed_l. Qed.
Print Assumptions scoped_shares_every_reachable_seed.

(* the additional hypotheses hold on the example heap of hypotheses_satisfiable *)
Theorem hypotheses3_satisfiable :
  wf_heap3 ex_heap = true /\ wf_heap3s ex_heap = true
  /\ root_seeds_ok ex_heap [] 0 = true /\ root_seeds_ok ex_heap (ns_seeds ex_heap 1) 0 = true.
Proof. exact ex_wf3. Qed.
Print Assumptions hypotheses3_satisfiable.

(* ==== second wave: the shallow routes (Model/C12Shallow.v) =============================================
   copy.copy(x) / x.clone(0) of a TreeList and of a CharacterMatrix (shallow_copy with the class's template:
   treelist_template, matrix_template, cont_matrix_template), TaxonNamespace(ns) / copy.copy(ns) (ns_copy);
   Tree.__copy__ is the taxon-namespace-scoped copy (route RScoped: the theorems above).  extract_tree and
   StandardCharacterMatrix (its constructor installs a brand-new state alphabet) are not modelled.
   The hypotheses are evaluated, and the model compared with the implementation, on every dumped shallow
   case (scase_ok). *)

(* The documented depth of copy.copy(TreeList) / copy.copy(CharacterMatrix): the result is ONE new object y;
   the source heap is untouched; each attribute of the class's template is
       FSame  - the very same value as the source's (label, taxon_namespace, ...),
       FCopy  - a NEW container of the same class with the same entries, i.e. the same member objects
                (`_trees`, `_taxon_sequence_map`, `state_alphabets`),
       FEmpty - a NEW EMPTY container (`comments`, `character_types`, `character_subsets`: see the _refuted
                theorems below);
   and y._annotations is a new AnnotationSet listing, in order, deep copies of the source's annotations
   (AnnState; the recorded pairs c2, other than (root, y), are related exactly as in
   deepcopy_content_bisimulation_partial; references to the source object inside annotation values become
   references to y). *)
Theorem shallow_copy_documented_depth : forall nf fuel h root tmpl ob s' y,
  hget h root = Some ob -> wf_heap h (shallow_shares h (obody ob) tmpl) = true -> wf_heap2 h = true -> wf_heap3 h = true ->
  template_ok tmpl = true -> is_annk (okind ob) = true -> (length h < fuel)%nat ->
  shallow_copy nf fuel h root tmpl = Ok (s', R y) ->
  y = hlen h /\ (forall o, o < hlen h -> hget (sh s') o = hget h o)
  /\ kind_at (sh s') y = Some (okind ob)
  /\ Forall (FieldOK h s' y (obody ob) (hlen h + 1)) tmpl
  /\ exists c2 done,
       (forall p, In p c2 -> In p (sc s')) /\ In (root, y) c2
       /\ AnnState s' y done /\ map fst done = refs_of (ann_items h ob) /\ (forall p, In p done -> In p c2)
       /\ (forall a b, In (a, b) c2 -> b <> y ->
             0 <= a < hlen h /\ hlen h < b < hlen (sh s') /\
             exists oa ob', hget h a = Some oa /\ hget (sh s') b = Some ob' /\ ocls oa = ocls ob' /\ okind oa = okind ob'
               /\ (forall k' v', In (k', v') (obody ob') ->
                     rebuilt (okind oa) k' \/ exists k v, In (k, v) (obody oa) /\ vrel (hlen h) c2 k k' /\ vrel (hlen h) c2 v v')
               /\ (forall k v, In (k, v) (obody oa) ->
                     not_carried (okind oa) k \/ exists k' v', In (k', v') (obody ob') /\ vrel (hlen h) c2 k k' /\ vrel (hlen h) c2 v v')).
Proof. exact shallow_copy_depth_l. Qed.
Print Assumptions shallow_copy_documented_depth.

(* What a shallow copy shares with its source, exactly: everything the copy reaches is new, or reachable
   from a documented share (shallow_shares: what the FSame attributes refer to - the namespace - and the
   members of the FCopy containers - the trees, the taxa and sequences) or from an atomic object; and every
   documented share is reached by both. *)
Theorem shallow_copy_shares_exactly : forall nf fuel h root tmpl ob s' y,
  hget h root = Some ob -> wf_heap h (shallow_shares h (obody ob) tmpl) = true -> wf_heap2 h = true -> wf_heap3 h = true ->
  template_ok tmpl = true -> is_annk (okind ob) = true -> (length h < fuel)%nat ->
  shallow_copy nf fuel h root tmpl = Ok (s', R y) ->
  (forall o, reach (sh s') y o ->
     hlen h <= o < hlen (sh s') \/
     exists b, (In b (shallow_shares h (obody ob) tmpl) \/ is_atomic h b = true) /\ reach h b o)
  /\ (forall b, In b (shallow_shares h (obody ob) tmpl) -> reach (sh s') y b /\ reach h root b).
Proof. exact shallow_copy_shares_l. Qed.
Print Assumptions shallow_copy_shares_exactly.

(* Frame for the shallow route: (1) later writes to the copy's own objects (numbered from hlen h) and
   allocations leave every observation of the source unchanged; (2) later writes to source objects that no
   documented share or atomic object reaches leave every observation of the copy unchanged; (3) a write to a
   shared object (the namespace, a member tree, a taxon, a sequence) is visible from both: both still reach
   the object and find the new body there. *)
Theorem shallow_copy_frame : forall nf fuel h root tmpl ob s' y,
  hget h root = Some ob -> wf_heap h (shallow_shares h (obody ob) tmpl) = true -> wf_heap2 h = true -> wf_heap3 h = true ->
  template_ok tmpl = true -> is_annk (okind ob) = true -> (length h < fuel)%nat ->
  shallow_copy nf fuel h root tmpl = Ok (s', R y) ->
  (forall news ws, (forall w, In w ws -> hlen h <= fst w) ->
     (forall o, reach h root o <-> reach (write_all (sh s' ++ news) ws) root o)
     /\ (forall o, reach h root o -> hget (write_all (sh s' ++ news) ws) o = hget h o))
  /\ (forall news ws,
        (forall w, In w ws -> fst w < hlen h /\
            ~ exists b, (In b (shallow_shares h (obody ob) tmpl) \/ is_atomic h b = true) /\ reach h b (fst w)) ->
        (forall o, reach (sh s') y o <-> reach (write_all (sh s' ++ news) ws) y o)
        /\ (forall o, reach (sh s') y o -> hget (write_all (sh s' ++ news) ws) o = hget (sh s') o))
  /\ (forall b nb, In b (shallow_shares h (obody ob) tmpl) -> b <> root -> ~ In b (shallow_conts (obody ob) tmpl) ->
        hget (write_all (sh s') [(b, nb)]) b = Some nb
        /\ reach (write_all (sh s') [(b, nb)]) y b /\ reach (write_all (sh s') [(b, nb)]) root b).
Proof. exact shallow_copy_frame_l. Qed.
Print Assumptions shallow_copy_frame.

(* TaxonNamespace(ns) / copy.copy(ns) / ns.clone(0) is the deep copy of ns with every taxon pre-seeded to
   itself (ns_copy = run_seeded with seeds ns_taxa: every theorem above about run_seeded applies, in
   particular the frame theorems).  Its documented depth: a new namespace; what it shares with ns is exactly
   what the taxa (and atomic objects) reach, and every taxon of ns is reached by the copy as the very same
   object. *)
Theorem ns_copy_shares_exactly_taxa : forall nf h ns fuel s' y,
  wf_heap h (ns_taxa h ns) = true -> wf_heap2 h = true -> wf_heap3 h = true -> wf_heap3s h = true ->
  root_seeds_ok h (ns_taxa h ns) ns = true -> memz ns (owned_list h) = false ->
  0 <= ns < hlen h -> (length h < fuel)%nat ->
  ns_copy nf fuel h ns = Ok (s', R y) ->
  (forall o, o < hlen h -> hget (sh s') o = hget h o)
  /\ (forall o, reach (sh s') y o ->
        hlen h <= o < hlen (sh s') \/ exists b, (In b (ns_taxa h ns) \/ is_atomic h b = true) /\ reach h b o)
  /\ (forall b o, In b (ns_taxa h ns) -> reach h ns b -> reach h b o -> reach (sh s') y o /\ reach (sh s') ns o).
Proof. exact ns_copy_shares_l. Qed.
Print Assumptions ns_copy_shares_exactly_taxa.

(* Not vacuous: a TreeList-shaped heap (sh_heap) satisfying the hypotheses, on which the shallow copy runs. *)
Theorem shallow_hypotheses_satisfiable :
  (wf_heap sh_heap (root_shares sh_heap 0 treelist_template) = true /\ wf_heap2 sh_heap = true /\ wf_heap3 sh_heap = true
   /\ memz 0 (owned_list sh_heap) = false /\ template_ok treelist_template = true
   /\ root_shares sh_heap 0 treelist_template = [1; 6])
  /\ (exists s', shallow_copy false 12 sh_heap 0 treelist_template = Ok (s', R 11) /\ hlen (sh s') = 20).
Proof. exact (conj sh_heap_hyps sh_heap_runs). Qed.
Print Assumptions shallow_hypotheses_satisfiable.

(* "All member objects are references" (Annotable.__copy__) is REFUTED for the container attributes that the
   constructor creates empty: the source has a comment, the copy's `comments` is a new EMPTY list (the same
   holds for character_types and character_subsets of a matrix: known finding
   shallow-matrix-copy-drops-character-subsets-and-types; `comments` of TreeList and CharacterMatrix:
   proposed finding shallow-copy-drops-comments). *)
Theorem shallow_copy_keeps_container_content_refuted : exists s' c c',
  shallow_copy false 12 sh_heap 0 treelist_template = Ok (s', R 11)
  /\ bget (body_of (init_st false sh_heap []) 0) NM_COMMENTS = Some (R c) /\ body_of (init_st false sh_heap []) c <> []
  /\ bget (body_of s' 11) NM_COMMENTS = Some (R c') /\ body_of s' c' = [].
Proof. exact sh_heap_drops_comments. Qed.
Print Assumptions shallow_copy_keeps_container_content_refuted.

(* "Attribute-bound annotations of the copy can be read" is REFUTED (known finding
   shallow-copy-bound-annotation-dangling): the copy's annotation a2 is bound to (copy, name) - value tuple
   (R 11, name) - while the copy has no attribute `name` (the source's extra attribute is not in the class's
   template, so the default-constructed copy lacks it). *)
Theorem shallow_copy_bound_annotation_resolves_refuted : exists s' a2 t name,
  shallow_copy false 12 sh_heap 0 treelist_template = Ok (s', R 11)
  /\ AnnState s' 11 [(9, a2)]
  /\ bget (body_of s' a2) NM_ISATTR = Some PTrue /\ bget (body_of s' a2) NM_VALUE = Some (R t)
  /\ body_of s' t = [(pidx 0, R 11); (pidx 1, name)]
  /\ bget (body_of s' 11) name = None
  /\ bget (body_of (init_st false sh_heap []) 0) name = Some (P 1005).
Proof. exact sh_heap_dangling. Qed.
Print Assumptions shallow_copy_bound_annotation_resolves_refuted.

(* ==== fifth wave: the full isomorphism (Model/C12Spec3.v, Proofs/C12IsoFull.v) ============================
   iso_rel h s' root y a b  (written out: Model/C12Spec3.v) :=
       reach h root a /\ reach (sh s') y b /\
       (   In (a, b) (sc s')                 (b was allocated as the copy of a: memo[id(a)] = b)
        \/ (a = b /\ 0 <= a < hlen h)        (shared: the copy reaches the very same old object)
        \/ cont_pair h s' a b)               (a / b are x._annotations, its _item_list or its _item_set for a
                                              recorded pair (x, b') of annotable objects: the three objects
                                              `annotations.add` rebuilds)
   viso rho v v' : equal immutable values, or references R a / R b with rho a b.
   Additional executable hypothesis wf_heap4 (evaluated on every dumped case, counted by the harness): the
   annotation set owned by an annotable object is exactly an AnnotationSet {_item_list: list of objects,
   _item_set: the same members, target: the owner}, and no two owners share a set or a container.
   wf_heap3s / wf_heap4 are GENUINE preconditions (they fail on copy-constructed sources - hidden twin - and on
   per-cell annotation sets, where the copy is not isomorphic or raises); they are established by the model's
   own builder: every annotation set the copy algorithm builds has exactly this shape
   (deepcopy_annotation_sets_rebuilt: AnnState), and ex_heap / the dumped heaps satisfy them.

   deepcopy_isomorphism: the correspondence is a GRAPH ISOMORPHISM between what the source root reaches and
   what the copy reaches:
     1  the roots correspond;
     2  ONTO: every object the copy reaches is the image of a source object;
     3  TOTAL: every object the source root reaches has an image, EXCEPT an EMPTY owned annotation set and its
        two containers (empty_annset_part): the copy of an object whose `_annotations` lists nothing has no
        `_annotations` attribute (it is created lazily on first access) - see deepcopy_raw_bijection_refuted;
     4  INJECTIVE: no object of the copy is the image of two source objects;
     5  SINGLE-VALUED: a source object has one image, EXCEPT (a) TUPLES - the model allocates a new tuple for
        every tuple it copies and a second one for the re-targeted (owner, name) pair of a bound annotation, so
        a source tuple that is aliased can have two content-identical images (deepcopy_tuple_single_valued_refuted;
        the implementation does the same, and additionally hands back the SAME tuple when no member changed:
        tuple_unchanged_same_content) - (b) an object that the copy ALSO reaches as a shared object (it is
        referred to both from inside a seed / atomic object and from outside: copied and shared) - (c) an owned
        _item_list / _item_set that is also referred to from elsewhere (copied generically and rebuilt);
     6  what is shared is related to ITSELF only and everything else is related to a FRESH object
        (deepcopy_extends_and_fresh: a shared object is reachable from a seed or an atomic object);
     7  corresponding objects have the same class and kind, distinct keys on both sides, and every
        attribute / slot / list position / dict entry / set member of the one has a corresponding entry
        (corresponding key: equal names and indices, so list order is preserved; corresponding value) in the
        other, both ways - EXCEPT the `_annotations` entry of an object whose set is empty (see 3). *)
Theorem deepcopy_isomorphism : forall nf h seeds root fuel s' y,
  wf_heap h seeds = true -> wf_heap2 h = true -> wf_heap3 h = true -> wf_heap3s h = true -> wf_heap4 h = true ->
  root_seeds_ok h seeds root = true -> memz root (owned_list h) = false ->
  0 <= root < hlen h -> (length h < fuel)%nat ->
  run_seeded nf fuel h seeds root = Ok (s', R y) ->
  iso_rel h s' root y root y
  /\ (forall b, reach (sh s') y b -> exists a, iso_rel h s' root y a b)
  /\ (forall a, reach h root a -> (exists b, iso_rel h s' root y a b) \/ empty_annset_part h a)
  /\ (forall a a' b, iso_rel h s' root y a b -> iso_rel h s' root y a' b -> a = a')
  /\ (forall a b b', iso_rel h s' root y a b -> iso_rel h s' root y a b' ->
        b = b' \/ kind_at h a = Some KTuple \/ (reach (sh s') y a /\ a < hlen h)
        \/ (In a (owned_conts h) /\ exists b0, In (a, b0) (sc s')))
  /\ (forall a b, iso_rel h s' root y a b ->
        (b < hlen h -> a = b) /\ (hlen h <= b -> 0 <= a < hlen h /\ a <> b))
  /\ (forall a b, iso_rel h s' root y a b ->
        exists oa ob, hget h a = Some oa /\ hget (sh s') b = Some ob /\ ocls oa = ocls ob /\ okind oa = okind ob
          /\ NoDup (map fst (obody oa)) /\ NoDup (map fst (obody ob))
          /\ (forall k v, In (k, v) (obody oa) ->
                (exists k' v', In (k', v') (obody ob) /\ viso (iso_rel h s' root y) k k' /\ viso (iso_rel h s' root y) v v')
                \/ (is_annk (okind oa) = true /\ k = NM_ANN /\ refs_of (ann_items h oa) = []
                    /\ bget (obody ob) NM_ANN = None))
          /\ (forall k' v', In (k', v') (obody ob) ->
                exists k v, In (k, v) (obody oa) /\ viso (iso_rel h s' root y) k k' /\ viso (iso_rel h s' root y) v v')).
Proof. exact deepcopy_isomorphism_l. Qed.
Print Assumptions deepcopy_isomorphism.

(* the isomorphism for the taxon-namespace-scoped copy (clone(1), Tree.__copy__): seeds = the namespace and
   its taxa; with scoped_shares_exactly_namespace below, the objects related to themselves are exactly what
   the namespace and its taxa (and atomic objects) reach *)
Theorem scoped_copy_isomorphism : forall nf h root ns fuel s' y,
  wf_heap h (ns_seeds h ns) = true -> wf_heap2 h = true -> wf_heap3 h = true -> wf_heap3s h = true -> wf_heap4 h = true ->
  root_seeds_ok h (ns_seeds h ns) root = true -> memz root (owned_list h) = false ->
  0 <= root < hlen h -> (length h < fuel)%nat ->
  run nf fuel h root (RScoped ns) = Ok (s', R y) ->
  iso_rel h s' root y root y
  /\ (forall b, reach (sh s') y b -> exists a, iso_rel h s' root y a b)
  /\ (forall a, reach h root a -> (exists b, iso_rel h s' root y a b) \/ empty_annset_part h a)
  /\ (forall a a' b, iso_rel h s' root y a b -> iso_rel h s' root y a' b -> a = a')
  /\ (forall a b, iso_rel h s' root y a b ->
        (b < hlen h -> a = b) /\ (hlen h <= b -> 0 <= a < hlen h /\ a <> b)).
Proof. exact scoped_copy_isomorphism_l. Qed.
Print Assumptions scoped_copy_isomorphism.

(* gap 2 closed: "shares EXACTLY the namespace and its taxa".  Both directions in one statement:
   (only)  whatever both sides reach is reachable from the namespace, one of its taxa or an atomic object;
   (every) the namespace and every taxon the source reaches, and everything below them, is reached by both
           as the very same objects;
   (self)  and in the isomorphism each of these objects corresponds to itself and to nothing fresh.
   Remaining short of an `iff`: an atomic object (StateAlphabet) that the source reaches is not proved to be
   reached by the copy as the same object (no invariant excludes that an atomic object is recorded). *)
Theorem scoped_shares_exactly_namespace : forall nf h root ns fuel s' y,
  wf_heap h (ns_seeds h ns) = true -> wf_heap2 h = true -> wf_heap3 h = true -> wf_heap3s h = true ->
  root_seeds_ok h (ns_seeds h ns) root = true -> memz root (owned_list h) = false ->
  0 <= root < hlen h -> (length h < fuel)%nat ->
  run nf fuel h root (RScoped ns) = Ok (s', R y) ->
  (forall o, reach (sh s') y o -> reach (sh s') root o ->
     exists b, (In b (ns_seeds h ns) \/ is_atomic h b = true) /\ reach h b o)
  /\ (forall b o, In b (ns_seeds h ns) -> reach h root b -> reach h b o ->
        reach (sh s') y o /\ reach (sh s') root o /\ iso_rel h s' root y o o).
Proof. exact scoped_shares_exactly_l. Qed.
Print Assumptions scoped_shares_exactly_namespace.

(* the hypotheses of deepcopy_isomorphism hold on the example heap, and the relation is not trivial there:
   annotation 6 |-> 13, taxon 7 |-> 12, bound tuple 8 |-> 15, the rebuilt set is 16 with _item_list 17 = [13];
   under the scoped copy the tree's namespace attribute still is 1 and the taxon 7 is not copied *)
Theorem isomorphism_hypotheses_satisfiable :
  (wf_heap4 ex_heap = true /\ root_ok4 ex_heap 0 = true)
  /\ (exists s', run false 10 ex_heap 0 RDeep = Ok (s', R 9)
      /\ In (6, 13) (sc s') /\ In (7, 12) (sc s') /\ In (8, 15) (sc s')
      /\ bget (body_of s' 9) NM_ANN = Some (R 16) /\ body_of s' 17 = [(pidx 0, R 13)])
  /\ (exists s', run false 10 ex_heap 0 (RScoped 1) = Ok (s', R 9)
      /\ bget (body_of s' 9) (P 100) = Some (R 1) /\ ~ In 7 (map fst (sc s'))).
Proof. exact (conj ex_wf4 ex_iso_pairs). Qed.
Print Assumptions isomorphism_hypotheses_satisfiable.

(* "a bijection between everything the source reaches and everything the copy reaches" is REFUTED (exception 3
   is necessary): an annotable object with an EMPTY annotation set satisfies every hypothesis; the source
   reaches 4 objects (object, AnnotationSet, list, set), its copy 1, and the copy has no `_annotations`.
   Replayed on the implementation (t.annotations; copy.deepcopy(t): "_annotations" in t.__dict__ and not in the
   copy's): same.  Not a defect: the attribute is created lazily by the `annotations` property. *)
Theorem deepcopy_raw_bijection_refuted :
  wf_heap empty_ann_heap [] = true /\ wf_heap2 empty_ann_heap = true /\ wf_heap3 empty_ann_heap = true
  /\ wf_heap3s empty_ann_heap = true /\ wf_heap4 empty_ann_heap = true /\ root_seeds_ok empty_ann_heap [] 0 = true
  /\ exists s', run_seeded false 6 empty_ann_heap [] 0 = Ok (s', R 4)
       /\ reach_count empty_ann_heap 0 = 4%nat /\ reach_count (sh s') 4 = 1%nat
       /\ bget (body_of s' 4) NM_ANN = None.
Proof. exact raw_bijection_refuted_l. Qed.
Print Assumptions deepcopy_raw_bijection_refuted.

(* "single-valued on tuples" is REFUTED (exception 5a is necessary): the (owner, name) tuple 5 of a bound
   annotation that is also the value of an attribute of the owner has two recorded copies, 7 and 9, BOTH
   reachable from the copy, with identical content (copy, name); the source reaches 6 objects, the copy 7.
   Replayed on the implementation (t.alias = a._value; t2 = copy.deepcopy(t): t2.alias is not
   a2._value, t2.alias == a2._value, both bound to t2): same.  Not a defect: tuples are immutable. *)
Theorem deepcopy_tuple_single_valued_refuted :
  wf_heap alias_tuple_heap [] = true /\ wf_heap2 alias_tuple_heap = true /\ wf_heap3 alias_tuple_heap = true
  /\ wf_heap3s alias_tuple_heap = true /\ wf_heap4 alias_tuple_heap = true /\ root_seeds_ok alias_tuple_heap [] 0 = true
  /\ exists s', run_seeded false 8 alias_tuple_heap [] 0 = Ok (s', R 6)
       /\ copies_of (sc s') 5 = [9; 7]
       /\ existsb (Z.eqb 7) (reach_list (sh s') [6]) = true /\ existsb (Z.eqb 9) (reach_list (sh s') [6]) = true
       /\ body_of s' 7 = [(pidx 0, R 6); (pidx 1, P 101)] /\ body_of s' 9 = [(pidx 0, R 6); (pidx 1, P 101)]
       /\ reach_count alias_tuple_heap 0 = 6%nat /\ reach_count (sh s') 6 = 7%nat.
Proof. exact tuple_single_valued_refuted_l. Qed.
Print Assumptions deepcopy_tuple_single_valued_refuted.

(* tuples whose members are all unchanged (immutable values, memo-seeded or atomic objects): the model's new
   tuple has exactly the source tuple's content - the case in which CPython's _deepcopy_tuple hands back the
   very same tuple (replayed: t.tp = (taxon, "x"); t.clone(1).tp is t.tp).  The dumper therefore numbers a
   tuple once per side (c12_graph.py), and 6 above relates a source tuple to a fresh object in the model. *)
Theorem tuple_unchanged_same_content :
  exists s' t', run false 6 seeded_tuple_heap 0 (RScoped 1) = Ok (s', R 5)
    /\ bget (body_of s' 5) (P 101) = Some (R t') /\ t' <> 4
    /\ body_of s' t' = body_of (init_st false seeded_tuple_heap []) 4.
Proof. exact tuple_unchanged_same_content_l. Qed.
Print Assumptions tuple_unchanged_same_content.

(* ==== sixth wave: privacy hypothesis, strict isomorphism, sharing as an iff, tuples ========================
   Exceptions 5(b) and 5(c) of deepcopy_isomorphism are closed under an EXECUTABLE privacy hypothesis
   (Model/C12Spec4.v), evaluated on every dumped case and counted by the harness (counts strict-isomorphism-hypotheses):
     private_region_ok h seeds reg root : reg contains every memo seed and every atomic object, is closed under
         references, an object OUTSIDE reg refers into reg only at a seed, an atomic object or a tuple of immutable
         values (CPython's singleton `()`), and the root is outside reg or itself a seed / atomic object;
         private_ok h seeds root takes reg := seeded_region h seeds = everything the seeds and atomic objects reach
         (closure is checked by the predicate itself, no property of the traversal is assumed);
     conts_private_ok h : the `_item_list` / `_item_set` of an owned annotation set is referred to only by the
         attribute `_item_list` / `_item_set` of an AnnotationSet object;
     root_ok4 h root : the root is not an owned annotation set or one of its containers.
   The hypothesis is NECESSARY (two _refuted witnesses below, replayed on the library) and it fails on real
   inputs exactly when something inside the shared namespace refers back into the copied structure (a taxon
   attribute or a namespace annotation bound to a node / edge / sequence of the source): then source and copy
   share that object through the namespace - the honest domain of "shares exactly the namespace and its taxa". *)

(* deepcopy_isomorphism_strict: under the privacy hypothesis the correspondence iso_rel is a BIJECTION between what
   the source root reaches and what the copy reaches (root |-> copy, onto, total except an EMPTY owned annotation
   set - deepcopy_raw_bijection_refuted -, injective) and SINGLE-VALUED without exception other than tuples
   (deepcopy_tuple_single_valued_refuted); what corresponds to itself is EXACTLY the region (non-tuples);
   no recorded source is atomic, none whose copy is reached is an owned container; and the predecessor lemma:
   every fresh object b the copy reaches, other than the copy itself, is referred to by a fresh object m the copy
   reaches, m is the image of am, and am refers to the source a of b. *)
Theorem deepcopy_isomorphism_strict : forall nf h seeds reg root fuel s' y,
  wf_heap h seeds = true -> wf_heap2 h = true -> wf_heap3 h = true -> wf_heap3s h = true -> wf_heap4 h = true ->
  root_seeds_ok h seeds root = true -> memz root (owned_list h) = false ->
  private_region_ok h seeds reg root = true -> conts_private_ok h = true -> root_ok4 h root = true ->
  0 <= root < hlen h -> (length h < fuel)%nat ->
  run_seeded nf fuel h seeds root = Ok (s', R y) ->
  iso_rel h s' root y root y
  /\ (forall b, reach (sh s') y b -> exists a, iso_rel h s' root y a b)
  /\ (forall a, reach h root a -> (exists b, iso_rel h s' root y a b) \/ empty_annset_part h a)
  /\ (forall a a' b, iso_rel h s' root y a b -> iso_rel h s' root y a' b -> a = a')
  /\ (forall a b b', iso_rel h s' root y a b -> iso_rel h s' root y a b' -> b = b' \/ kind_at h a = Some KTuple)
  /\ (forall a b, iso_rel h s' root y a b -> kind_at h a <> Some KTuple -> (a = b <-> In a reg))
  /\ (forall a b, In (a, b) (sc s') -> is_atomic h a = false /\ (reach (sh s') y b -> ~ In a (owned_conts h)))
  /\ (forall b, reach (sh s') y b -> hlen h <= b -> b = y \/
        exists a am m, iso_rel h s' root y a b /\ iso_rel h s' root y am m /\ hlen h <= m
                       /\ edge h am a /\ edge (sh s') m b).
Proof. exact deepcopy_isomorphism_strict_l. Qed.
Print Assumptions deepcopy_isomorphism_strict.

(* the same for the two routes of the model with the executable region (wf_heap5 = private_ok && conts_private_ok
   && root_ok4; route_seeds h RDeep = [], route_seeds h (RScoped ns) = the namespace and its taxa) *)
Theorem route_isomorphism_strict : forall nf h root r fuel s' y,
  (r = RDeep \/ exists ns, r = RScoped ns) ->
  wf_heap h (route_seeds h r) = true -> wf_heap2 h = true -> wf_heap3 h = true -> wf_heap3s h = true -> wf_heap4 h = true ->
  root_seeds_ok h (route_seeds h r) root = true -> memz root (owned_list h) = false ->
  wf_heap5 h (route_seeds h r) root = true ->
  0 <= root < hlen h -> (length h < fuel)%nat ->
  run nf fuel h root r = Ok (s', R y) ->
  (forall b, reach (sh s') y b -> exists a, iso_rel h s' root y a b)
  /\ (forall a, reach h root a -> (exists b, iso_rel h s' root y a b) \/ empty_annset_part h a)
  /\ (forall a a' b, iso_rel h s' root y a b -> iso_rel h s' root y a' b -> a = a')
  /\ (forall a b b', iso_rel h s' root y a b -> iso_rel h s' root y a b' -> b = b' \/ kind_at h a = Some KTuple)
  /\ (forall a b, iso_rel h s' root y a b -> kind_at h a <> Some KTuple ->
        (a = b <-> In a (seeded_region h (route_seeds h r)))).
Proof. exact route_isomorphism_strict_l. Qed.
Print Assumptions route_isomorphism_strict.

(* the privacy hypothesis holds on the example heap of hypotheses_satisfiable, for both routes; the region of the
   scoped copy is {namespace 1, its _taxa list 2, taxon 7}, that of the deep copy is empty *)
Theorem privacy_hypothesis_satisfiable :
  wf_heap5 ex_heap [] 0 = true /\ wf_heap5 ex_heap (ns_seeds ex_heap 1) 0 = true
  /\ seeded_region ex_heap (ns_seeds ex_heap 1) = [7; 2; 1] /\ seeded_region ex_heap [] = [].
Proof. exact ex_wf5. Qed.
Print Assumptions privacy_hypothesis_satisfiable.

(* "single-valued without the privacy hypothesis" is REFUTED, part (b): a list that the tree AND a taxon refer to
   satisfies every other hypothesis; the namespace-scoped copy copies it (4 |-> 6, reached by the copy) and also
   reaches the original 4 through the shared taxon.  Replayed on the implementation (t.x = L; ns[0].x = L;
   c = t.clone(1): c.x is not L, c.taxon_namespace[0].x is L): same.  Not a violation of the property text: the
   shared object hangs below a taxon. *)
Theorem deepcopy_copied_and_shared_refuted :
  let h := shared_list_heap in let seeds := ns_seeds h 1 in
  wf_heap h seeds = true /\ wf_heap2 h = true /\ wf_heap3 h = true /\ wf_heap3s h = true /\ wf_heap4 h = true
  /\ root_seeds_ok h seeds 0 = true /\ memz 0 (owned_list h) = false
  /\ conts_private_ok h = true /\ root_ok4 h 0 = true /\ private_ok h seeds 0 = false
  /\ exists s', run false 6 h 0 (RScoped 1) = Ok (s', R 5)
       /\ In (4, 6) (sc s') /\ kind_at h 4 = Some KList
       /\ memz 6 (reach_list (sh s') [5]) = true /\ memz 4 (reach_list (sh s') [5]) = true
       /\ memz 4 (reach_list h [0]) = true.
Proof. exact copied_and_shared_refuted_l. Qed.
Print Assumptions deepcopy_copied_and_shared_refuted.

(* part (c): the `_item_list` of the object's own annotation set is also the value of an attribute; the deep copy
   copies it generically (2 |-> 6, the copy's attribute) AND rebuilds it (9, the copy's _annotations._item_list),
   with the same content.  Replayed (t.alias = t.annotations._item_list; c = copy.deepcopy(t): c.alias is not
   c.annotations._item_list, c.alias == c.annotations._item_list): same.  Not a defect (a private attribute was
   aliased by the caller). *)
Theorem deepcopy_container_copied_and_rebuilt_refuted :
  let h := alias_ilist_heap in
  wf_heap h [] = true /\ wf_heap2 h = true /\ wf_heap3 h = true /\ wf_heap3s h = true /\ wf_heap4 h = true
  /\ root_seeds_ok h [] 0 = true /\ memz 0 (owned_list h) = false
  /\ private_ok h [] 0 = true /\ root_ok4 h 0 = true /\ conts_private_ok h = false
  /\ exists s', run false 6 h 0 RDeep = Ok (s', R 5)
       /\ In (2, 6) (sc s') /\ bget (body_of s' 5) (P 101) = Some (R 6)
       /\ bget (body_of s' 5) NM_ANN = Some (R 8) /\ bget (body_of s' 8) NM_ILIST = Some (R 9)
       /\ body_of s' 6 = body_of s' 9
       /\ memz 6 (reach_list (sh s') [5]) = true /\ memz 9 (reach_list (sh s') [5]) = true.
Proof. exact container_copied_and_rebuilt_refuted_l. Qed.
Print Assumptions deepcopy_container_copied_and_rebuilt_refuted.

(* WHAT a seeded deep copy shares with its source, as an iff (no privacy hypothesis): an object is reached by both
   the copy and the source root  iff  it is reachable from a memo seed or an ATOMIC object (StateAlphabet,
   StateIdentity) that the source root reaches; each such seed / atomic object is reached by the copy as the very
   same object, corresponds to itself and to nothing else; no atomic object is ever recorded as copied (every object
   the algorithm allocates has a non-atomic kind: Proofs/C12NoAtom.v).  Closes the atomic-object gap of
   scoped_shares_exactly_namespace. *)
Theorem deepcopy_shares_exactly_iff : forall nf h seeds root fuel s' y,
  wf_heap h seeds = true -> wf_heap2 h = true -> wf_heap3 h = true -> wf_heap3s h = true -> wf_heap4 h = true ->
  root_seeds_ok h seeds root = true -> memz root (owned_list h) = false ->
  0 <= root < hlen h -> (length h < fuel)%nat ->
  run_seeded nf fuel h seeds root = Ok (s', R y) ->
  (forall o, (reach (sh s') y o /\ reach (sh s') root o) <->
             (exists b, (In b seeds \/ is_atomic h b = true) /\ reach h root b /\ reach h b o))
  /\ (forall b, (In b seeds \/ is_atomic h b = true) -> reach h root b ->
        reach (sh s') y b /\ iso_rel h s' root y b b /\ forall b', iso_rel h s' root y b b' -> b' = b)
  /\ (forall a b, In (a, b) (sc s') -> is_atomic h a = false).
Proof. exact shares_exactly_iff_l. Qed.
Print Assumptions deepcopy_shares_exactly_iff.

(* the taxon-namespace-scoped copy shares EXACTLY what the namespace, its taxa and the atomic objects the source
   reaches reach: the `iff` that scoped_shares_exactly_namespace stopped short of *)
Theorem scoped_shares_exactly_namespace_iff : forall nf h root ns fuel s' y,
  wf_heap h (ns_seeds h ns) = true -> wf_heap2 h = true -> wf_heap3 h = true -> wf_heap3s h = true -> wf_heap4 h = true ->
  root_seeds_ok h (ns_seeds h ns) root = true -> memz root (owned_list h) = false ->
  0 <= root < hlen h -> (length h < fuel)%nat ->
  run nf fuel h root (RScoped ns) = Ok (s', R y) ->
  (forall o, (reach (sh s') y o /\ reach (sh s') root o) <->
             (exists b, (In b (ns_seeds h ns) \/ is_atomic h b = true) /\ reach h root b /\ reach h b o))
  /\ (forall b, is_atomic h b = true -> reach h root b ->
        reach (sh s') y b /\ iso_rel h s' root y b b /\ forall b', iso_rel h s' root y b b' -> b' = b).
Proof. exact scoped_shares_iff_l. Qed.
Print Assumptions scoped_shares_exactly_namespace_iff.

(* tuples, general form of tuple_unchanged_same_content: a recorded tuple all of whose members are UNCHANGED by the
   copy (immutable values, memo seeds, atomic objects) has a copy of the same class with IDENTICAL content: the same
   entries, the same value at every index (bget), the same length - the case in which CPython's _deepcopy_tuple
   returns the very same tuple object (the dumper numbers such a tuple once per side). *)
Theorem tuple_unchanged_identical : forall nf h seeds root fuel s' y,
  wf_heap h seeds = true -> wf_heap2 h = true -> wf_heap3 h = true -> root_seeds_ok h seeds root = true ->
  memz root (owned_list h) = false -> 0 <= root < hlen h -> (length h < fuel)%nat ->
  run_seeded nf fuel h seeds root = Ok (s', R y) ->
  forall t t' ot, In (t, t') (sc s') -> hget h t = Some ot -> okind ot = KTuple ->
    (forall k v, In (k, v) (obody ot) -> match v with P _ => True | R a => In a seeds \/ is_atomic h a = true end) ->
    exists ot', hget (sh s') t' = Some ot' /\ hlen h <= t' /\ ocls ot' = ocls ot /\ okind ot' = KTuple
      /\ (forall k v, In (k, v) (obody ot') <-> In (k, v) (obody ot))
      /\ (forall k, bget (obody ot') k = bget (obody ot) k)
      /\ length (obody ot') = length (obody ot).
Proof. exact tuple_unchanged_identical_l. Qed.
Print Assumptions tuple_unchanged_identical.

(* the RESULT heap (source objects AND every copy) again has exactly-shaped owned annotation sets: the first
   conjunct of wf_heap4, as a proposition, for (sh s') - so a copy is again in the domain of the isomorphism
   theorems as far as the per-owner shape goes (every fresh annotable object is a recorded copy: Proofs/C12FreshRec.v;
   its set is the rebuilt one).  PARTIAL with respect to `wf_heap4 (sh s') = true`: the second conjunct (no two owners
   of the result heap share a set or container: NoDup (owned_conts (sh s'))) is not derived here - for fresh owners it
   is Inv3.own_ann / own_cont, for old owners the hypothesis, the mixed case and the boolean form are missing. *)
Theorem result_heap_annotation_sets_exact_partial : forall nf h seeds root fuel s' y,
  wf_heap h seeds = true -> wf_heap2 h = true -> wf_heap3 h = true -> wf_heap4 h = true ->
  memz root (owned_list h) = false -> 0 <= root < hlen h -> (length h < fuel)%nat ->
  run_seeded nf fuel h seeds root = Ok (s', R y) ->
  forall x ob, hget (sh s') x = Some ob -> is_annk (okind ob) = true ->
    match bget (obody ob) NM_ANN with
    | None => True
    | Some (P _) => False
    | Some (R sx) =>
      exists sxo lx zx l z, hget (sh s') sx = Some sxo
        /\ bget (obody sxo) NM_ILIST = Some (R lx) /\ bget (obody sxo) NM_ISET = Some (R zx)
        /\ bget (obody sxo) NM_TARGET = Some (R x) /\ ocls sxo = CLS_ANNSET /\ okind sxo = KAnnSet
        /\ hget (sh s') lx = Some l /\ hget (sh s') zx = Some z /\ ocls l = CLS_LIST /\ okind l = KList
        /\ (forall v, In v (values (obody l)) -> exists o, v = R o)
        /\ ocls z = CLS_SET /\ okind z = KSet /\ obody z = map (fun e => (snd e, PNone)) (obody l)
    end.
Proof. exact result_heap_exact_l. Qed.
Print Assumptions result_heap_annotation_sets_exact_partial.

(* ---- wave 7: object-level independence, stated on the objects themselves -------------------------------------------
   The heap is object-level (every Python object with identity is an entry: EMPTY lists, dicts and sets, frozen and
   mutable Bipartition objects, the (owner, attribute) tuple of a bound annotation); copy.deepcopy is transcribed as to
   which object is allocated / stored / written.  With the atomic objects opaque, as they are dumped (atomic_opaque:
   StateAlphabet / StateIdentity carry no body), whatever the deep copy and its source both reach IS an atomic object:
   no list, dict, set, plain object or annotable object of the copy is an object of the source, whatever its content
   (emptiness, `is_mutable` flags, falsy values play no role). *)
Theorem deep_copy_shares_only_atomic_objects : forall nf h root fuel s' y,
  wf_heap h [] = true -> atomic_opaque h = true -> 0 <= root < hlen h -> (length h < fuel)%nat ->
  run nf fuel h root RDeep = Ok (s', R y) ->
  forall o, reach (sh s') y o -> reach (sh s') root o -> is_atomic h o = true.
Proof. exact deep_shares_only_atomic_l. Qed.
Print Assumptions deep_copy_shares_only_atomic_objects.

(* the taxon-namespace-scoped copy: a shared object is atomic or reachable from the namespace / one of its taxa *)
Theorem scoped_copy_shares_only_namespace_region_and_atomic_objects : forall nf h root ns fuel s' y,
  wf_heap h (ns_seeds h ns) = true -> atomic_opaque h = true -> 0 <= root < hlen h -> (length h < fuel)%nat ->
  run nf fuel h root (RScoped ns) = Ok (s', R y) ->
  forall o, reach (sh s') y o -> reach (sh s') root o ->
    is_atomic h o = true \/ exists b, In b (ns_seeds h ns) /\ reach h b o.
Proof. exact scoped_shares_only_region_l. Qed.
Print Assumptions scoped_copy_shares_only_namespace_region_and_atomic_objects.

(* satisfiable on a tip node with an empty child list, empty comments lists, an empty dict attribute and an edge with a
   frozen bipartition; every one of these is a NEW object of the copy *)
Theorem alias_hypotheses_satisfiable_and_empty_containers_copied :
  (wf_heap tip_heap [] = true /\ atomic_opaque tip_heap = true)
  /\ exists s y, run false 20 tip_heap 0 RDeep = Ok (s, R y) /\ y = 7
    /\ body_of s 7 = [(P 100, R 8); (P 101, R 9); (P 102, R 10); (P 103, R 11)]
    /\ body_of s 8 = [] /\ body_of s 9 = [] /\ body_of s 10 = []
    /\ body_of s 11 = [(P 104, R 7); (P 105, R 12); (P 101, R 13)]
    /\ body_of s 12 = [(P 106, P 1003); (P 107, P 1); (P 108, R 11)] /\ body_of s 13 = []
    /\ reach_list (sh s) [7] = [13; 12; 11; 10; 9; 8; 7].
Proof. exact (conj tip_heap_hyp tip_heap_copy_shares_nothing). Qed.
Print Assumptions alias_hypotheses_satisfiable_and_empty_containers_copied.

(* an attribute-bound annotation given ANOTHER object as owner (owner_instance= of add_bound_attribute), wherever the owner
   sits in the copied structure (copied earlier or later than the annotation): the annotation `a` holds `_value` = a pair
   (owner, name).  Its counterpart a' in the copy holds a pair (owner', name) with the SAME name whose owner' is the
   counterpart of owner under the isomorphism of deepcopy_isomorphism; owner' is the very object `owner` only if that
   object is one the copy shares (a memo seed or atomic object: owner' < hlen h), otherwise a fresh object of the copy,
   different from the source's owner.  So the copy's annotation follows the copy's attribute. *)
Theorem foreign_owner_annotation_follows_copy : forall nf h seeds root fuel s' y,
  wf_heap h seeds = true -> wf_heap2 h = true -> wf_heap3 h = true -> wf_heap3s h = true -> wf_heap4 h = true ->
  root_seeds_ok h seeds root = true -> memz root (owned_list h) = false ->
  0 <= root < hlen h -> (length h < fuel)%nat ->
  run_seeded nf fuel h seeds root = Ok (s', R y) ->
  forall a a' oa t ot owner name,
    iso_rel h s' root y a a' ->
    hget h a = Some oa -> In (NM_VALUE, R t) (obody oa) ->
    hget h t = Some ot -> In (pidx 0, R owner) (obody ot) -> In (pidx 1, P name) (obody ot) ->
    exists oa' t' ot' owner',
      hget (sh s') a' = Some oa' /\ In (NM_VALUE, R t') (obody oa')
      /\ hget (sh s') t' = Some ot' /\ In (pidx 0, R owner') (obody ot') /\ In (pidx 1, P name) (obody ot')
      /\ iso_rel h s' root y t t' /\ iso_rel h s' root y owner owner'
      /\ (owner' < hlen h -> owner = owner')
      /\ (hlen h <= owner' -> owner <> owner').
Proof. exact foreign_owner_follows_copy_l. Qed.
Print Assumptions foreign_owner_annotation_follows_copy.

(* its hypotheses hold on a heap whose annotation is bound to a LATER sibling of the annotated node *)
Theorem foreign_owner_hypotheses_satisfiable :
  wf_heap owner_heap [] = true /\ wf_heap2 owner_heap = true /\ wf_heap3 owner_heap = true
  /\ wf_heap3s owner_heap = true /\ wf_heap4 owner_heap = true /\ root_seeds_ok owner_heap [] 0 = true
  /\ memz 0 (owned_list owner_heap) = false.
Proof. exact owner_heap_iso_hyp. Qed.
Print Assumptions foreign_owner_hypotheses_satisfiable.

(* ---- wave 9: the result heap is again in the domain of the isomorphism theorems (wf_heap4), copy of a copy ------------
   result_heap_wf4 closes result_heap_annotation_sets_exact_partial: BOTH conjuncts of wf_heap4, in the executable boolean
   form, hold for the result heap (sh s') of a successful deep / scoped copy - every annotable object (old or copy) has an
   exactly-shaped owned annotation set, and no annotation set, _item_list or _item_set of the result heap has two owners.
   Old/old owners: hypothesis on h; fresh/fresh: Inv3.own_cont and the `target` back pointer; old/fresh: what an old owner
   holds is old (h is closed), what a fresh owner holds is fresh (an old set / list / set object cannot refer to a fresh
   object: Proofs/C12W9Wf4.v fresh_owner_parts_fresh). *)
Theorem result_heap_wf4 : forall nf h seeds root fuel s' y,
  wf_heap h seeds = true -> wf_heap2 h = true -> wf_heap3 h = true -> wf_heap4 h = true ->
  memz root (owned_list h) = false -> 0 <= root < hlen h -> (length h < fuel)%nat ->
  run_seeded nf fuel h seeds root = Ok (s', R y) ->
  wf_heap4 (sh s') = true.
Proof. exact result_heap_wf4_l. Qed.
Print Assumptions result_heap_wf4.

(* its second conjunct as a proposition *)
Theorem result_heap_owned_conts_nodup : forall nf h seeds root fuel s' y,
  wf_heap h seeds = true -> wf_heap2 h = true -> wf_heap3 h = true -> wf_heap4 h = true ->
  memz root (owned_list h) = false -> 0 <= root < hlen h -> (length h < fuel)%nat ->
  run_seeded nf fuel h seeds root = Ok (s', R y) ->
  NoDup (owned_conts (sh s')).
Proof. exact result_heap_nodup_l. Qed.
Print Assumptions result_heap_owned_conts_nodup.

(* an owned set / container of the result heap is one of the source heap (old owner), or a fresh object that is not the
   recorded copy of anything (fresh owner: rebuilt by annotations.add) *)
Theorem result_heap_owned_conts_split : forall nf h seeds root fuel s' y,
  wf_heap h seeds = true -> wf_heap2 h = true -> wf_heap3 h = true -> wf_heap4 h = true ->
  memz root (owned_list h) = false -> 0 <= root < hlen h -> (length h < fuel)%nat ->
  run_seeded nf fuel h seeds root = Ok (s', R y) ->
  forall a, In a (owned_conts (sh s')) ->
    (a < hlen h /\ In a (owned_conts h)) \/ (hlen h <= a /\ ~ (exists a0, In (a0, a) (sc s'))).
Proof. exact result_conts_split. Qed.
Print Assumptions result_heap_owned_conts_split.

(* the copy's root y is a legal root of a further copy: not an owned annotation set or container of the result heap
   (root_ok4, one of the three privacy hypotheses of deepcopy_isomorphism_strict), not in owned_list, inside the heap *)
Theorem result_heap_root_ok : forall nf h seeds root fuel s' y,
  wf_heap h seeds = true -> wf_heap2 h = true -> wf_heap3 h = true -> wf_heap4 h = true ->
  memz root (owned_list h) = false -> root_ok4 h root = true -> 0 <= root < hlen h -> (length h < fuel)%nat ->
  run_seeded nf fuel h seeds root = Ok (s', R y) ->
  root_ok4 (sh s') y = true /\ memz y (owned_list (sh s')) = false /\ 0 <= y < hlen (sh s').
Proof. exact result_root_ok4_l. Qed.
Print Assumptions result_heap_root_ok.

(* COPY OF A COPY: y1 = copy of root (heap h -> sh s1), y2 = copy of y1 (heap sh s1 -> sh s2, any seeds2 / variant nf2).
   The strict isomorphism holds between the first copy and the second, and wf_heap4 / root_ok4 / root-not-owned are
   DERIVED for the intermediate heap and hold again after the second copy (so they never need re-checking along a chain
   of copies).  PARTIAL: the other hypotheses of deepcopy_isomorphism_strict on the intermediate heap - wf_heap, wf_heap2,
   wf_heap3, wf_heap3s, root_seeds_ok and the two privacy predicates private_region_ok / conts_private_ok - are NOT derived
   from those of h; they remain explicit (executable) hypotheses on (sh s1).  Missing for the full statement
   `hypotheses on h -> hypotheses on sh s1`: an invariant classifying every fresh object that is not a recorded copy as the
   rebuilt AnnotationSet / _item_list / _item_set of a recorded annotable copy (needed for conts_private_ok, wf_heap3s and
   for the closure part of private_region_ok), and preservation of bound_names_ok / items_nodup_ok / taxa_private_ok. *)
Theorem copy_of_copy_isomorphic_partial : forall nf h seeds root fuel s1 y1 nf2 seeds2 reg2 fuel2 s2 y2,
  wf_heap h seeds = true -> wf_heap2 h = true -> wf_heap3 h = true -> wf_heap4 h = true ->
  memz root (owned_list h) = false -> root_ok4 h root = true -> 0 <= root < hlen h -> (length h < fuel)%nat ->
  run_seeded nf fuel h seeds root = Ok (s1, R y1) ->
  wf_heap (sh s1) seeds2 = true -> wf_heap2 (sh s1) = true -> wf_heap3 (sh s1) = true -> wf_heap3s (sh s1) = true ->
  root_seeds_ok (sh s1) seeds2 y1 = true ->
  private_region_ok (sh s1) seeds2 reg2 y1 = true -> conts_private_ok (sh s1) = true ->
  (length (sh s1) < fuel2)%nat ->
  run_seeded nf2 fuel2 (sh s1) seeds2 y1 = Ok (s2, R y2) ->
  (iso_rel (sh s1) s2 y1 y2 y1 y2
   /\ (forall b, reach (sh s2) y2 b -> exists a, iso_rel (sh s1) s2 y1 y2 a b)
   /\ (forall a, reach (sh s1) y1 a -> (exists b, iso_rel (sh s1) s2 y1 y2 a b) \/ empty_annset_part (sh s1) a)
   /\ (forall a a' b, iso_rel (sh s1) s2 y1 y2 a b -> iso_rel (sh s1) s2 y1 y2 a' b -> a = a')
   /\ (forall a b b', iso_rel (sh s1) s2 y1 y2 a b -> iso_rel (sh s1) s2 y1 y2 a b' ->
         b = b' \/ kind_at (sh s1) a = Some KTuple)
   /\ (forall a b, iso_rel (sh s1) s2 y1 y2 a b -> kind_at (sh s1) a <> Some KTuple -> (a = b <-> In a reg2))
   /\ (forall a b, In (a, b) (sc s2) ->
         is_atomic (sh s1) a = false /\ (reach (sh s2) y2 b -> ~ In a (owned_conts (sh s1))))
   /\ (forall b, reach (sh s2) y2 b -> hlen (sh s1) <= b -> b = y2 \/
         exists a am m, iso_rel (sh s1) s2 y1 y2 a b /\ iso_rel (sh s1) s2 y1 y2 am m /\ hlen (sh s1) <= m
                        /\ edge (sh s1) am a /\ edge (sh s2) m b))
  /\ wf_heap4 (sh s1) = true /\ root_ok4 (sh s1) y1 = true
  /\ wf_heap4 (sh s2) = true /\ root_ok4 (sh s2) y2 = true /\ memz y2 (owned_list (sh s2)) = false.
Proof. exact copy_of_copy_isomorphic_l. Qed.
Print Assumptions copy_of_copy_isomorphic_partial.

(* its hypotheses are satisfiable: on the example heap, for the deep and the namespace-scoped route, the residual
   hypotheses (cc_residual = wf_heap && wf_heap2 && wf_heap3 && wf_heap3s && root_seeds_ok && private_region_ok (region =
   seeded_region) && conts_private_ok) hold on the first copy's heap, the second copy succeeds, and they hold on the second
   copy's heap again *)
Theorem copy_of_copy_hypotheses_satisfiable :
  wf_heap4 ex_heap = true /\ root_ok4 ex_heap 0 = true
  /\ (exists s1 s2, run_seeded false 10 ex_heap [] 0 = Ok (s1, R 9)
        /\ cc_residual (sh s1) [] 9 = true
        /\ run_seeded false 30 (sh s1) [] 9 = Ok (s2, R 19) /\ hlen (sh s2) = 29
        /\ cc_residual (sh s2) [] 19 = true)
  /\ (exists s1 s2, run_seeded false 10 ex_heap (ns_seeds ex_heap 1) 0 = Ok (s1, R 9)
        /\ cc_residual (sh s1) (ns_seeds (sh s1) 1) 9 = true
        /\ run_seeded false 30 (sh s1) (ns_seeds (sh s1) 1) 9 = Ok (s2, R 16) /\ hlen (sh s2) = 23
        /\ cc_residual (sh s2) (ns_seeds (sh s2) 1) 16 = true).
Proof. exact cc_example. Qed.
Print Assumptions copy_of_copy_hypotheses_satisfiable.

(* result_heap_wf4 + result_heap_root_ok on the two modelled routes (copy.deepcopy / taxon-namespace-scoped copy) *)
Theorem route_result_heap_wf4 : forall nf h root r fuel s' y,
  (r = RDeep \/ exists ns, r = RScoped ns) ->
  wf_heap h (route_seeds h r) = true -> wf_heap2 h = true -> wf_heap3 h = true -> wf_heap4 h = true ->
  memz root (owned_list h) = false -> root_ok4 h root = true -> 0 <= root < hlen h -> (length h < fuel)%nat ->
  run nf fuel h root r = Ok (s', R y) ->
  wf_heap4 (sh s') = true /\ root_ok4 (sh s') y = true /\ memz y (owned_list (sh s')) = false
  /\ 0 <= y < hlen (sh s').
Proof. exact route_result_heap_wf4_l. Qed.
Print Assumptions route_result_heap_wf4.

(* the result heap is closed again (every reference of every object, old or new, points inside the heap): the first
   conjunct of wf_heap for the intermediate heap of a copy of a copy *)
Theorem result_heap_closed : forall nf h seeds root fuel s' y,
  wf_heap h seeds = true -> 0 <= root < hlen h -> (length h < fuel)%nat ->
  run_seeded nf fuel h seeds root = Ok (s', R y) ->
  closedb (sh s') = true.
Proof. exact result_heap_closed_l. Qed.
Print Assumptions result_heap_closed.
