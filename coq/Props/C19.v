(* C19 property theorems: statements only, each closed by `exact`.
   Model: coq/Model/C19Model.v (transcription of CharacterMatrix row/column operations).
   aget/aput = Python dict lookup / assignment on the insertion-ordered `_taxon_sequence_map`;
   T = members of the matrix's taxon namespace in namespace order; lower/suffix/locus = str.lower,
   "%s_%03d" % (l, i), "locus%03d" % i on label ids. *)
From Coq Require Import ZArith List Bool.
From DV Require Import Model.PyPrims Model.C19Model Model.C19RowHeap.
From DV Require Import Proofs.C19RowHeapSep Proofs.C19RowHeapFrame.
From DV Require Import Proofs.C19RefineRows Proofs.C19Refine Proofs.C19RefineHist Proofs.C19RefineSpecs.
From DV Require Import Proofs.C19Alist Proofs.C19Rows Proofs.C19Cols Proofs.C19Concat Proofs.C19Proofs
                       Proofs.C19Slice Proofs.C19Step Proofs.C19Examples.
Import ListNotations.
Open Scope Z_scope.

(* ---------------------------------------------------------------------------------------------
   concatenate.  For well-formed arguments (dict keys unique, sequences only for namespace taxa -
   an invariant of every history, see wellformed_invariant) a successful call means: the list is
   not empty, all matrices are over the first one's namespace, which is not empty; EVERY matrix has
   a sequence for EVERY taxon of the namespace and all sequences of one matrix have that matrix's
   width (so matrices with missing taxa or ragged rows are refused, never padded); the result has
   the first matrix's row order, the sequence of each taxon is the concatenation of its sequences in
   argument order, there is no sequence for any other taxon, no label; one character subset per
   source matrix, in argument order, the k-th holding exactly the columns
   [sum of earlier widths, + width of the k-th); subset names are pairwise different up to case;
   the k-th name is the matrix label (or locusNNN) if that was still free, else label_00i for the
   least free i >= 2. *)
Theorem concatenate_spec :
  forall (lower : lbl -> lbl) (suffix : lbl -> Z -> lbl) (locus : Z -> lbl)
         (taxa_of : nsid -> list tid) (cms : list matrix) (res : matrix),
  (forall n, NoDup (taxa_of n)) ->
  Forall (fun cm => NoDup (map fst (m_rows cm)) /\ incl (map fst (m_rows cm)) (taxa_of (m_ns cm))) cms ->
  concatenate lower suffix locus taxa_of cms = Ok res ->
  exists c0 rest, cms = c0 :: rest /\
    let T := taxa_of (m_ns c0) in
    T <> [] /\
    m_ns res = m_ns c0 /\ m_label res = None /\
    Forall (fun cm => m_ns cm = m_ns c0) cms /\
    Forall (fun cm => forall t, In t T ->
                      exists r, aget t (m_rows cm) = Some r /\ zlen r = vector_size (m_rows cm)) cms /\
    map fst (m_rows res) = map fst (m_rows c0) /\
    (forall t, In t T ->
       aget t (m_rows res)
       = Some (concat (map (fun cm => match aget t (m_rows cm) with Some r => r | None => [] end) cms))) /\
    (forall t, ~ In t T -> aget t (m_rows res) = None) /\
    length (m_subs res) = length cms /\
    NoDup (map (fun p => lower (fst p)) (m_subs res)) /\
    forall k cm l idx, nth_error cms k = Some cm -> nth_error (m_subs res) k = Some (l, idx) ->
      idx = zrange (fold_right Z.add 0 (map (fun c => vector_size (m_rows c)) (firstn k cms)))
                   (vector_size (m_rows cm)) /\
      has_key lower l (firstn k (m_subs res)) = false /\
      let base := match m_label cm with None => locus (Z.of_nat k) | Some b => b end in
      (l = base \/
       exists i, 2 <= i /\ l = suffix base i /\ has_key lower base (firstn k (m_subs res)) = true /\
                 forall j, 2 <= j < i -> has_key lower (suffix base j) (firstn k (m_subs res)) = true).
Proof. exact concatenate_spec_l. Qed.
Print Assumptions concatenate_spec.

(* The one branch of the model of concatenate that is not a transcription (`cm[0]` on a matrix
   without a sequence for the first taxon would CREATE one in the argument; the model answers
   AssertErr there) is dead code for well-formed matrices: the length check before it guarantees
   the sequence exists. *)
Theorem concatenate_first_row_present :
  forall (T : list tid) (m : matrix) (t0 : tid) (T' : list tid),
  NoDup T -> (NoDup (map fst (m_rows m)) /\ incl (map fst (m_rows m)) T) ->
  zlen (m_rows m) = zlen T -> T = t0 :: T' -> aget t0 (m_rows m) <> None.
Proof. exact concat_first_row_present. Qed.
Print Assumptions concatenate_first_row_present.

(* The k-th recorded subset covers exactly the k-th source: selecting its columns (what
   export_character_indices does, see export_spec) from the concatenated sequence of a taxon gives
   back that taxon's sequence in the k-th argument matrix, and the subset has as many columns. *)
Theorem concatenate_subset_selects_source :
  forall (lower : lbl -> lbl) (suffix : lbl -> Z -> lbl) (locus : Z -> lbl)
         (taxa_of : nsid -> list tid) (cms : list matrix) (res : matrix),
  (forall n, NoDup (taxa_of n)) ->
  Forall (fun cm => NoDup (map fst (m_rows cm)) /\ incl (map fst (m_rows cm)) (taxa_of (m_ns cm))) cms ->
  concatenate lower suffix locus taxa_of cms = Ok res ->
  forall k cm l idx t,
    nth_error cms k = Some cm -> nth_error (m_subs res) k = Some (l, idx) -> In t (taxa_of (m_ns res)) ->
    exists whole part, aget t (m_rows res) = Some whole /\ aget t (m_rows cm) = Some part /\
                       select_from idx 0 whole = part /\ zlen part = zlen idx.
Proof. exact concatenate_subset_selects_source_l. Qed.
Print Assumptions concatenate_subset_selects_source.

(* Termination of the free-name loop AS WRITTEN NOW.  Premise (explicit): "%s_%03d" % (l, i)
   determines i, also after case folding.  Then with fuel |subsets| + 2 the loop returns a name that
   is free, having run its body at most |subsets| + 1 times (pigeonhole), and concatenate as a whole
   never runs out of fuel - whatever the labels, repeated or not. *)
Theorem concatenate_terminates :
  forall (lower : lbl -> lbl) (suffix : lbl -> Z -> lbl) (locus : Z -> lbl),
  (forall l i j, lower (suffix l i) = lower (suffix l j) -> i = j) ->
  (forall ss l, exists r,
      free_name lower suffix (S (S (length ss))) ss l l 2 = Ok r /\ has_key lower r ss = false /\
      (r = l \/ exists j, 2 <= j <= 2 + Z.of_nat (length ss) /\ r = suffix l j)) /\
  (forall taxa_of cms, concatenate lower suffix locus taxa_of cms <> OutOfFuel).
Proof. exact concatenate_terminates_l. Qed.
Print Assumptions concatenate_terminates.

(* HISTORY (defect F12, repaired in the source by `cs_label = "%s_%03d" % (new_label, i)`):
   the loop body used to assign `label`, so the tested variable never changed: once the first
   candidate is taken the old loop never returns, for any amount of fuel. *)
Theorem concatenate_old_loop_fixpoint :
  forall (lower : lbl -> lbl) (suffix : lbl -> Z -> lbl) (fuel : nat) (ss : subsets)
         (new_label cs_label label : lbl) (i : Z),
  has_key lower cs_label ss = true ->
  old_free_name lower suffix fuel ss new_label cs_label label i = OutOfFuel.
Proof. exact old_loop_guard_fixed. Qed.
Print Assumptions concatenate_old_loop_fixpoint.

(* ---------------------------------------------------------------------------------------------
   export_character_indices: a new matrix over the same namespace with the same label and row
   order, no character subsets, and for every taxon exactly the cells at the selected positions
   that exist, in ascending position order (duplicates, negative and too large indices ignored). *)
Theorem export_spec :
  forall (T : list tid) (m : matrix) (idx : list Z) (d : cell),
  incl (map fst (m_rows m)) T ->
  let e := export_character_indices T m idx in
  m_ns e = m_ns m /\ m_label e = m_label m /\ m_subs e = [] /\
  map fst (m_rows e) = map fst (m_rows m) /\
  forall t, aget t (m_rows e) =
            match aget t (m_rows m) with
            | None => None
            | Some r => Some (map (fun j => nth (Z.to_nat j) r d)
                                  (filter (fun j => memb j idx) (zrange 0 (zlen r))))
            end.
Proof. exact export_spec_l. Qed.
Print Assumptions export_spec.

(* export_character_subset by name: the first subset whose name matches up to case, KeyError if none *)
Theorem export_subset_spec :
  forall (lower : lbl -> lbl) (T : list tid) (m : matrix) (l : lbl),
  (forall idx, find_sub lower l (m_subs m) = Some idx ->
     export_character_subset lower T m l = Ok (export_character_indices T m idx) /\
     exists a b l', m_subs m = a ++ (l', idx) :: b /\ lower l' = lower l /\ has_key lower l a = false) /\
  (find_sub lower l (m_subs m) = None ->
     export_character_subset lower T m l = Err KeyErr /\ has_key lower l (m_subs m) = false).
Proof. exact export_subset_spec_l. Qed.
Print Assumptions export_subset_spec.

(* ---------------------------------------------------------------------------------------------
   fill: returns the size used (the given one, else the longest existing length); namespace, label,
   subsets, row order unchanged; every sequence keeps its cells and gets max(0, size - len) copies
   of the value at the end (append) or the front; so its length is max(size, len); without a
   given size all sequences are exactly `size` long afterwards, and size is attained by an existing
   sequence (or is 0). *)
Theorem fill_spec :
  forall (T : list tid) (m : matrix) (v : cell) (size : option Z) (app : bool),
  incl (map fst (m_rows m)) T ->
  let s := match size with Some s => s | None => max_sequence_size T (m_rows m) end in
  let m' := fst (fill T m v size app) in
  snd (fill T m v size app) = s /\
  m_ns m' = m_ns m /\ m_label m' = m_label m /\ m_subs m' = m_subs m /\
  map fst (m_rows m') = map fst (m_rows m) /\
  (forall t, aget t (m_rows m') =
             match aget t (m_rows m) with
             | None => None
             | Some r => Some (if app then r ++ repeat v (Z.to_nat (s - zlen r))
                               else repeat v (Z.to_nat (s - zlen r)) ++ r)
             end) /\
  (forall t r r', aget t (m_rows m) = Some r -> aget t (m_rows m') = Some r' -> zlen r' = Z.max s (zlen r)) /\
  (size = None -> forall t r', aget t (m_rows m') = Some r' -> zlen r' = s) /\
  (size = None -> s = 0 \/ exists t r, aget t (m_rows m) = Some r /\ zlen r = s).
Proof. exact fill_spec_l. Qed.
Print Assumptions fill_spec.

(* fill_taxa: existing sequences untouched and in place; an empty sequence is appended, in
   namespace order, for exactly the namespace taxa that had none *)
Theorem fill_taxa_spec :
  forall (T : list tid) (m : matrix),
  NoDup T ->
  let m' := fill_taxa T m in
  m_ns m' = m_ns m /\ m_label m' = m_label m /\ m_subs m' = m_subs m /\
  map fst (m_rows m') = map fst (m_rows m) ++ filter (fun t => negb (ahas t (m_rows m))) T /\
  (forall t, aget t (m_rows m') =
             match aget t (m_rows m) with
             | Some r => Some r
             | None => if memb t T then Some [] else None
             end).
Proof. exact fill_taxa_spec_l. Qed.
Print Assumptions fill_taxa_spec.

(* pack = fill_taxa then fill: every namespace taxon has a sequence, existing cells untouched,
   padding at the chosen end, all equally long when no size is given *)
Theorem pack_spec :
  forall (T : list tid) (m : matrix) (v : cell) (size : option Z) (app : bool),
  NoDup T -> incl (map fst (m_rows m)) T ->
  let m' := fst (pack T m v size app) in
  let s := match size with Some s => s | None => max_sequence_size T (m_rows (fill_taxa T m)) end in
  m_ns m' = m_ns m /\ m_label m' = m_label m /\ m_subs m' = m_subs m /\
  map fst (m_rows m') = map fst (m_rows m) ++ filter (fun t => negb (ahas t (m_rows m))) T /\
  (forall t, In t T -> ahas t (m_rows m') = true) /\
  (forall t, aget t (m_rows m') =
             let pad0 r := if app then r ++ repeat v (Z.to_nat (s - zlen r))
                           else repeat v (Z.to_nat (s - zlen r)) ++ r in
             match aget t (m_rows m) with
             | Some r => Some (pad0 r)
             | None => if memb t T then Some (pad0 []) else None
             end) /\
  (size = None -> forall t r', aget t (m_rows m') = Some r' -> zlen r' = s).
Proof. exact pack_spec_l. Qed.
Print Assumptions pack_spec.

(* ---------------------------------------------------------------------------------------------
   the row algebra, as finite-map equations plus the resulting row order; label, namespace and
   subsets of the receiver are kept; the other matrix is a value here - that it is not modified
   inside a history is arguments_unchanged *)
Theorem add_sequences_spec :
  forall self other : matrix,
  NoDup (map fst (m_rows other)) -> m_ns other = m_ns self ->
  exists rs', add_sequences self other = Ok (mkM (m_ns self) (m_label self) rs' (m_subs self)) /\
    (forall t, aget t rs' = match aget t (m_rows self) with Some r => Some r | None => aget t (m_rows other) end) /\
    map fst rs' = map fst (m_rows self) ++ filter (fun t => negb (ahas t (m_rows self))) (map fst (m_rows other)).
Proof. exact add_sequences_spec_l. Qed.
Print Assumptions add_sequences_spec.

Theorem replace_sequences_spec :
  forall self other : matrix,
  NoDup (map fst (m_rows other)) -> m_ns other = m_ns self ->
  exists rs', replace_sequences self other = Ok (mkM (m_ns self) (m_label self) rs' (m_subs self)) /\
    (forall t, aget t rs' = match aget t (m_rows self) with
                            | None => None
                            | Some r => match aget t (m_rows other) with Some r' => Some r' | None => Some r end
                            end) /\
    map fst rs' = map fst (m_rows self).
Proof. exact replace_sequences_spec_l. Qed.
Print Assumptions replace_sequences_spec.

Theorem update_sequences_spec :
  forall self other : matrix,
  NoDup (map fst (m_rows other)) -> m_ns other = m_ns self ->
  exists rs', update_sequences self other = Ok (mkM (m_ns self) (m_label self) rs' (m_subs self)) /\
    (forall t, aget t rs' = match aget t (m_rows other) with Some r' => Some r' | None => aget t (m_rows self) end) /\
    map fst rs' = map fst (m_rows self) ++ filter (fun t => negb (ahas t (m_rows self))) (map fst (m_rows other)).
Proof. exact update_sequences_spec_l. Qed.
Print Assumptions update_sequences_spec.

Theorem extend_sequences_spec :
  forall (self other : matrix) (addnew : bool),
  NoDup (map fst (m_rows other)) -> m_ns other = m_ns self ->
  exists rs', extend_sequences self other addnew = Ok (mkM (m_ns self) (m_label self) rs' (m_subs self)) /\
    (forall t, aget t rs' = match aget t (m_rows self), aget t (m_rows other) with
                            | Some r, Some r' => Some (r ++ r')
                            | Some r, None => Some r
                            | None, Some r' => if addnew then Some r' else None
                            | None, None => None
                            end) /\
    map fst rs' = map fst (m_rows self) ++
                  (if addnew then filter (fun t => negb (ahas t (m_rows self))) (map fst (m_rows other)) else []).
Proof. exact extend_sequences_spec_l. Qed.
Print Assumptions extend_sequences_spec.

Theorem extend_matrix_spec :
  forall self other : matrix,
  NoDup (map fst (m_rows other)) -> m_ns other = m_ns self ->
  exists rs', extend_matrix self other = Ok (mkM (m_ns self) (m_label self) rs' (m_subs self)) /\
    (forall t, aget t rs' = match aget t (m_rows self), aget t (m_rows other) with
                            | Some r, Some r' => Some (r ++ r')
                            | Some r, None => Some r
                            | None, Some r' => Some r'
                            | None, None => None
                            end) /\
    map fst rs' = map fst (m_rows self) ++ filter (fun t => negb (ahas t (m_rows self))) (map fst (m_rows other)).
Proof. exact extend_matrix_spec_l. Qed.
Print Assumptions extend_matrix_spec.

(* remove_sequences succeeds iff the taxa are distinct and all have a sequence; in every case
   exactly a prefix ts1 of the list has been removed (all other rows untouched, order kept), and
   an error is a KeyError at a taxon that has no sequence (any more) *)
Theorem remove_sequences_spec :
  forall (rs : rows) (ts : list tid),
  NoDup (map fst rs) ->
  (snd (remove_rows rs ts) = None <-> NoDup ts /\ incl ts (map fst rs)) /\
  exists ts1 ts2, ts = ts1 ++ ts2 /\ NoDup ts1 /\ incl ts1 (map fst rs) /\
    fst (remove_rows rs ts) = filter (fun p => negb (memb (fst p) ts1)) rs /\
    match snd (remove_rows rs ts) with
    | None => ts2 = []
    | Some e => e = KeyErr /\ exists t ts3, ts2 = t :: ts3 /\ (In t ts1 \/ ~ In t (map fst rs))
    end.
Proof. exact remove_sequences_spec_l. Qed.
Print Assumptions remove_sequences_spec.

Theorem discard_sequences_spec :
  forall (rs : rows) (ts : list tid),
  NoDup (map fst rs) -> discard_rows rs ts = filter (fun p => negb (memb (fst p) ts)) rs.
Proof. exact discard_sequences_spec_l. Qed.
Print Assumptions discard_sequences_spec.

Theorem keep_sequences_spec :
  forall (rs : rows) (ts : list tid),
  keep_rows rs ts = filter (fun p => memb (fst p) ts) rs /\
  forall t, aget t (keep_rows rs ts) = if memb t ts then aget t rs else None.
Proof. exact keep_sequences_spec_l. Qed.
Print Assumptions keep_sequences_spec.

(* a row list filtered on the key: a kept key has its old sequence, a dropped key none *)
Theorem filtered_rows_lookup :
  forall (P : tid -> bool) (rs : rows) (t : tid),
  aget t (filter (fun p => P (fst p)) rs) = if P t then aget t rs else None.
Proof. exact filter_rows_get. Qed.
Print Assumptions filtered_rows_lookup.

(* ---------------------------------------------------------------------------------------------
   over whole histories *)

(* a step changes no matrix other than its receiver (class methods and exports: none at all),
   in particular no argument matrix; namespaces are never changed *)
Theorem arguments_unchanged :
  forall (lower : lbl -> lbl) (suffix : lbl -> Z -> lbl) (locus : Z -> lbl)
         (w : world) (o : op) (j : mid) (mj : matrix),
  aget j (w_ms w) = Some mj -> receiver o <> Some j ->
  aget j (w_ms (fst (step lower suffix locus w o))) = Some mj /\
  w_nss (fst (step lower suffix locus w o)) = w_nss w.
Proof. exact step_frame. Qed.
Print Assumptions arguments_unchanged.

(* a matrix over another namespace is refused with ValueError (TaxonNamespaceIdentityError) and
   nothing changes ... *)
Theorem foreign_namespace_refused :
  forall (lower : lbl -> lbl) (suffix : lbl -> Z -> lbl) (locus : Z -> lbl)
         (w : world) (o : op) (m other : mid) (mm mo : matrix),
  aget m (w_ms w) = Some mm -> aget other (w_ms w) = Some mo -> m_ns mo <> m_ns mm ->
  (o = AddSeqs m other \/ o = ReplaceSeqs m other \/ o = UpdateSeqs m other \/
   (exists b, o = ExtendSeqs m other b) \/ o = ExtendMatrix m other) ->
  step lower suffix locus w o = (w, OErr ValueErr).
Proof. exact step_foreign_refused. Qed.
Print Assumptions foreign_namespace_refused.

(* ... and concatenate never returns a matrix when the list mixes namespaces *)
Theorem concatenate_foreign_namespace_refused :
  forall (lower : lbl -> lbl) (suffix : lbl -> Z -> lbl) (locus : Z -> lbl)
         (taxa_of : nsid -> list tid) (cms : list matrix),
  (forall l i j, lower (suffix l i) = lower (suffix l j) -> i = j) ->
  (exists c0 rest cm, cms = c0 :: rest /\ In cm cms /\ m_ns cm <> m_ns c0) ->
  exists e, concatenate lower suffix locus taxa_of cms = Err e.
Proof. exact concatenate_foreign_refused_l. Qed.
Print Assumptions concatenate_foreign_namespace_refused.

(* the side conditions used above (dict keys unique, sequences only for taxa of the matrix's
   namespace, namespaces without repeated members) hold after every history if they hold before *)
Theorem wellformed_invariant :
  forall (lower : lbl -> lbl) (suffix : lbl -> Z -> lbl) (locus : Z -> lbl)
         (ops : list op) (w : world),
  ((forall n T, aget n (w_nss w) = Some T -> NoDup T) /\
   (forall j m, aget j (w_ms w) = Some m ->
                NoDup (map fst (m_rows m)) /\ incl (map fst (m_rows m)) (taxa_of w (m_ns m)))) ->
  let w' := run_world lower suffix locus w ops in
  (forall n T, aget n (w_nss w') = Some T -> NoDup T) /\
  (forall j m, aget j (w_ms w') = Some m ->
               NoDup (map fst (m_rows m)) /\ incl (map fst (m_rows m)) (taxa_of w' (m_ns m))).
Proof. exact run_world_wf. Qed.
Print Assumptions wellformed_invariant.

(* Termination: no operation, on any state, in any history, fails to return (no fuel exhaustion,
   no Hang) - including m.extend_sequences(m) / m.extend_matrix(m), which double every sequence
   since repair 99e94739 (that the source has the repaired form is checked on every run by the
   translator tie Props/C19Gen.v and by the harness, which still issues these calls). *)
Theorem all_operations_terminate :
  forall (lower : lbl -> lbl) (suffix : lbl -> Z -> lbl) (locus : Z -> lbl) (w : world) (o : op),
  (forall l i j, lower (suffix l i) = lower (suffix l j) -> i = j) ->
  snd (step lower suffix locus w o) <> OErr Hang.
Proof. exact step_terminates. Qed.
Print Assumptions all_operations_terminate.

(* ---------------------------------------------------------------------------------------------
   OBJECT level (Model/C19RowHeap.v): rows are mutable objects in a store, a matrix maps a taxon to a
   row id; alloc = a constructor call, the in-place operations (extend, fill's padding, export's column
   deletion, m[k].append / extend / [i] = v / del [i]) rewrite the cells of an id.
   all_ids w = the row ids held by all matrices of the world, matrix by matrix, in map order. *)

(* Separation: in every state reachable from matrices built by the constructors (every row a fresh
   object) by ANY history of the operations the property names - concatenate (also from streams /
   paths), export_character_indices / _subset, fill, fill_taxa, pack, add_ / replace_ / update_ /
   extend_sequences, extend_matrix, remove_ / discard_ / keep_sequences, new_sequence, __getitem__,
   __setitem__ with a list of values, new_character_subset - and of the four in-place row operations
   m[k].append / .extend / [i] = v / del [i]  (`copying o = true`: every constructor of `oop` except
   OSetItemRow, OCopy) no row object is held by two taxa or by two matrices. *)
Theorem no_row_object_shared :
  forall (lower : lbl -> lbl) (suffix : lbl -> Z -> lbl) (locus : Z -> lbl)
         (nss : list (nsid * list tid)) (generic : bool) (ms : list (mid * matrix)) (ops : list oop),
  forallb copying ops = true ->
  NoDup (all_ids (o_run lower suffix locus (o_init nss generic ms) ops)).
Proof. exact no_sharing_reachable. Qed.
Print Assumptions no_row_object_shared.

(* the invariant behind it, for an arbitrary separated state: no id twice, every held id allocated *)
Theorem separation_preserved :
  forall (lower : lbl -> lbl) (suffix : lbl -> Z -> lbl) (locus : Z -> lbl) (w : oworld) (o : oop),
  copying o = true ->
  (NoDup (all_ids w) /\ forall r, In r (all_ids w) -> r < s_next (ow_store w)) ->
  let w' := fst (o_step lower suffix locus w o) in
  NoDup (all_ids w') /\ forall r, In r (all_ids w') -> r < s_next (ow_store w').
Proof. exact o_step_sep. Qed.
Print Assumptions separation_preserved.

(* ... and exactly the two remaining operations DO share (the library as it is: __setitem__ keeps a row
   object of the matrix's own sequence type, __copy__ stores the source's row objects):
   from a constructor-built world one such step puts an id under two slots *)
Theorem no_row_object_shared_refuted_by_setitem_row :
  (NoDup (all_ids ex_ow) /\ forall r, In r (all_ids ex_ow) -> r < s_next (ow_store ex_ow)) /\
  ~ NoDup (all_ids (fst (o_step (fun x => x) (fun l _ => l) (fun i => i) ex_ow (OSetItemRow 1 (KTax 1) 0 0)))).
Proof. exact sharing_by_setitem_row. Qed.
Print Assumptions no_row_object_shared_refuted_by_setitem_row.

Theorem no_row_object_shared_refuted_by_copy :
  (NoDup (all_ids ex_ow) /\ forall r, In r (all_ids ex_ow) -> r < s_next (ow_store ex_ow)) /\
  ~ NoDup (all_ids (fst (o_step (fun x => x) (fun l _ => l) (fun i => i) ex_ow (OCopy 0)))).
Proof. exact sharing_by_copy. Qed.
Print Assumptions no_row_object_shared_refuted_by_copy.

(* Under separation every operation changes exactly the rows it names, at OBJECT level: a matrix j that
   is not the receiver - argument matrices included - keeps its taxon -> row-object map (same ids) AND
   the cells of every row object it holds; so a later in-place operation on the receiver's rows (or on
   rows the operation created) cannot reach it either: the statement holds again after that step. *)
Theorem arguments_unchanged_object_level :
  forall (lower : lbl -> lbl) (suffix : lbl -> Z -> lbl) (locus : Z -> lbl)
         (w : oworld) (o : oop) (j : mid) (mj : omatrix),
  copying o = true ->
  (NoDup (all_ids w) /\ forall r, In r (all_ids w) -> r < s_next (ow_store w)) ->
  aget j (ow_ms w) = Some mj -> oreceiver o <> Some j ->
  let w' := fst (o_step lower suffix locus w o) in
  aget j (ow_ms w') = Some mj /\
  deref (ow_store w') (om_rows mj) = deref (ow_store w) (om_rows mj).
Proof. exact o_step_keeps. Qed.
Print Assumptions arguments_unchanged_object_level.

(* an in-place operation on the row m[k] names ONE row: every other row of m keeps its object and cells *)
Theorem inplace_row_operation_names_one_row :
  forall (w : oworld) (m : mid) (k : key) (f : rowop) (mm : omatrix) (t t' : tid) (r' : rid),
  (NoDup (all_ids w) /\ forall r, In r (all_ids w) -> r < s_next (ow_store w)) ->
  aget m (ow_ms w) = Some mm -> resolve_key (otaxa_of w (om_ns mm)) k = Ok t -> t' <> t ->
  aget t' (om_rows mm) = Some r' ->
  exists mm', aget m (ow_ms (fst (o_rowop w m k f))) = Some mm' /\ aget t' (om_rows mm') = Some r' /\
              hget (ow_store (fst (o_rowop w m k f))) r' = hget (ow_store w) r'.
Proof. exact rowop_names_one_row. Qed.
Print Assumptions inplace_row_operation_names_one_row.

(* ---------------------------------------------------------------------------------------------
   REFINEMENT: the object level refines the value level.  abs_w dereferences every row id of every matrix
   (abs_m s m = the matrix whose rows are the cells the store s holds for m's row objects).
   The invariant of the refinement: separation (no row object under two slots, every held id allocated) and the
   value-level well-formedness of the dereferenced state (dict keys unique, rows only for namespace taxa,
   namespaces without repeated members - wellformed_invariant above).  Under it EVERY operation of the
   value-level language, executed on row objects - copies by alloc; extend, fill's padding, export's column
   deletion as in-place rewriting of ONE object's cells - yields after dereferencing exactly the state and the
   result of the value-level model (proved for all 19 constructors of `op`, the aliased calls
   m.extend_sequences(m) / m.extend_matrix(m) / m.add_sequences(m) ... included). *)
Theorem object_level_refines_value_level :
  forall (lower : lbl -> lbl) (suffix : lbl -> Z -> lbl) (locus : Z -> lbl) (w : oworld) (b : op),
  ((NoDup (all_ids w) /\ forall r, In r (all_ids w) -> r < s_next (ow_store w)) /\
   ((forall n T, aget n (ow_nss w) = Some T -> NoDup T) /\
    (forall j m, aget j (w_ms (abs_w w)) = Some m ->
                 NoDup (map fst (m_rows m)) /\ incl (map fst (m_rows m)) (taxa_of (abs_w w) (m_ns m))))) ->
  (abs_w (fst (o_step lower suffix locus w (OBase b))), snd (o_step lower suffix locus w (OBase b)))
  = step lower suffix locus (abs_w w) b.
Proof. exact o_step_base_refines. Qed.
Print Assumptions object_level_refines_value_level.

(* the invariant is kept by every copying operation (the value-level ones and the in-place row operations) ... *)
Theorem refinement_invariant_preserved :
  forall (lower : lbl -> lbl) (suffix : lbl -> Z -> lbl) (locus : Z -> lbl) (w0 : oworld) (o : oop),
  copying o = true ->
  (let w := w0 in
  ((NoDup (all_ids w) /\ forall r, In r (all_ids w) -> r < s_next (ow_store w)) /\
   ((forall n T, aget n (ow_nss w) = Some T -> NoDup T) /\
    (forall j m, aget j (w_ms (abs_w w)) = Some m ->
                 NoDup (map fst (m_rows m)) /\ incl (map fst (m_rows m)) (taxa_of (abs_w w) (m_ns m)))))) ->
  let w := fst (o_step lower suffix locus w0 o) in
  ((NoDup (all_ids w) /\ forall r, In r (all_ids w) -> r < s_next (ow_store w)) /\
   ((forall n T, aget n (ow_nss w) = Some T -> NoDup T) /\
    (forall j m, aget j (w_ms (abs_w w)) = Some m ->
                 NoDup (map fst (m_rows m)) /\ incl (map fst (m_rows m)) (taxa_of (abs_w w) (m_ns m))))).
Proof. exact o_step_oinv. Qed.
Print Assumptions refinement_invariant_preserved.

(* ... holds for constructor-built matrices (o_init: every row a fresh object), whose abstraction is the
   value-level world they were built from ... *)
Theorem constructor_built_world_abstracts :
  forall (nss : list (nsid * list tid)) (generic : bool) (ms : list (mid * matrix)),
  abs_w (o_init nss generic ms) = mkW nss ms (zlen ms).
Proof. exact abs_o_init. Qed.
Print Assumptions constructor_built_world_abstracts.

(* ... hence in every state reachable from them by any history of copying operations *)
Theorem refinement_invariant_reachable :
  forall (lower : lbl -> lbl) (suffix : lbl -> Z -> lbl) (locus : Z -> lbl) (nss : list (nsid * list tid)) (generic : bool) (ms : list (mid * matrix)) (ops : list oop),
  ((forall n T, aget n nss = Some T -> NoDup T) /\
   (forall j m, aget j ms = Some m ->
                NoDup (map fst (m_rows m)) /\ incl (map fst (m_rows m)) (taxa_of (mkW nss ms (zlen ms)) (m_ns m)))) ->
  forallb copying ops = true ->
  let w := o_run lower suffix locus (o_init nss generic ms) ops in
  ((NoDup (all_ids w) /\ forall r, In r (all_ids w) -> r < s_next (ow_store w)) /\
   ((forall n T, aget n (ow_nss w) = Some T -> NoDup T) /\
    (forall j m, aget j (w_ms (abs_w w)) = Some m ->
                 NoDup (map fst (m_rows m)) /\ incl (map fst (m_rows m)) (taxa_of (abs_w w) (m_ns m))))).
Proof. exact reachable_oinv. Qed.
Print Assumptions refinement_invariant_reachable.

(* whole histories of value-level operations commute with dereferencing *)
Theorem object_level_history_refines_value_level :
  forall (lower : lbl -> lbl) (suffix : lbl -> Z -> lbl) (locus : Z -> lbl) (nss : list (nsid * list tid)) (generic : bool) (ms : list (mid * matrix)) (bs : list op),
  ((forall n T, aget n nss = Some T -> NoDup T) /\
   (forall j m, aget j ms = Some m ->
                NoDup (map fst (m_rows m)) /\ incl (map fst (m_rows m)) (taxa_of (mkW nss ms (zlen ms)) (m_ns m)))) ->
  abs_w (o_run lower suffix locus (o_init nss generic ms) (map OBase bs))
  = run_world lower suffix locus (mkW nss ms (zlen ms)) bs.
Proof. exact history_refines. Qed.
Print Assumptions object_level_history_refines_value_level.

(* TRANSFER: whatever holds of every value-level step from a well-formed state (every theorem above is of that
   form or a consequence of it) holds of every object-level step, read through the abstraction *)
Theorem value_level_theorems_transfer :
  forall (lower : lbl -> lbl) (suffix : lbl -> Z -> lbl) (locus : Z -> lbl) (P : world -> op -> world * out -> Prop),
  (forall vw b,
     ((forall n T, aget n (w_nss vw) = Some T -> NoDup T) /\
      (forall j m, aget j (w_ms vw) = Some m ->
                   NoDup (map fst (m_rows m)) /\ incl (map fst (m_rows m)) (taxa_of vw (m_ns m)))) ->
     P vw b (step lower suffix locus vw b)) ->
  forall (w : oworld) (b : op),
  ((NoDup (all_ids w) /\ forall r, In r (all_ids w) -> r < s_next (ow_store w)) /\
   ((forall n T, aget n (ow_nss w) = Some T -> NoDup T) /\
    (forall j m, aget j (w_ms (abs_w w)) = Some m ->
                 NoDup (map fst (m_rows m)) /\ incl (map fst (m_rows m)) (taxa_of (abs_w w) (m_ns m))))) ->
  P (abs_w w) b (abs_w (fst (o_step lower suffix locus w (OBase b))), snd (o_step lower suffix locus w (OBase b))).
Proof. exact transfer_step. Qed.
Print Assumptions value_level_theorems_transfer.

(* the hypotheses are satisfiable: the two-matrix example world ex_ow *)
Theorem refinement_invariant_example :
  let w := ex_ow in
  ((NoDup (all_ids w) /\ forall r, In r (all_ids w) -> r < s_next (ow_store w)) /\
   ((forall n T, aget n (ow_nss w) = Some T -> NoDup T) /\
    (forall j m, aget j (w_ms (abs_w w)) = Some m ->
                 NoDup (map fst (m_rows m)) /\ incl (map fst (m_rows m)) (taxa_of (abs_w w) (m_ns m))))).
Proof. exact ex_ow_oinv. Qed.
Print Assumptions refinement_invariant_example.

(* ... and the well-formedness half of the invariant is needed: over a namespace that lists a taxon twice (not
   constructible: a TaxonNamespace is an ordered set) export's loop over clone.values() reaches a row twice and
   deletes columns twice, whereas the value-level model selects once.  Separation holds in the witness. *)
Theorem object_level_refines_value_level_refuted_without_wellformedness :
  let w := mkOW [(0, [0; 0])] (mkS [(0, [5; 6; 7])] 1) [(0, mkOM 0 None [(0, 0)] [])] 1 false in
  let id1 : lbl -> lbl := fun x => x in
  let id2 : lbl -> Z -> lbl := fun l _ => l in
  let id3 : Z -> lbl := fun i => i in
  (NoDup (all_ids w) /\ forall r, In r (all_ids w) -> r < s_next (ow_store w)) /\
  (abs_w (fst (o_step id1 id2 id3 w (OBase (ExportIdx 0 [1])))), snd (o_step id1 id2 id3 w (OBase (ExportIdx 0 [1]))))
  <> step id1 id2 id3 (abs_w w) (ExportIdx 0 [1]).
Proof. exact refinement_needs_wf. Qed.
Print Assumptions object_level_refines_value_level_refuted_without_wellformedness.

(* ---- transferred corollaries, stated on object-level states ---- *)

(* arguments unchanged (values): a matrix that is not the receiver holds the same cells afterwards
   (arguments_unchanged_object_level above says more: the same objects with the same cells) *)
Theorem arguments_unchanged_on_objects :
  forall (lower : lbl -> lbl) (suffix : lbl -> Z -> lbl) (locus : Z -> lbl) (w : oworld) (b : op) (j : mid) (mj : omatrix),
  ((NoDup (all_ids w) /\ forall r, In r (all_ids w) -> r < s_next (ow_store w)) /\
   ((forall n T, aget n (ow_nss w) = Some T -> NoDup T) /\
    (forall j m, aget j (w_ms (abs_w w)) = Some m ->
                 NoDup (map fst (m_rows m)) /\ incl (map fst (m_rows m)) (taxa_of (abs_w w) (m_ns m))))) ->
  aget j (ow_ms w) = Some mj -> receiver b <> Some j ->
  let w' := fst (o_step lower suffix locus w (OBase b)) in
  (exists mj', aget j (ow_ms w') = Some mj' /\ abs_m (ow_store w') mj' = abs_m (ow_store w) mj) /\
  ow_nss w' = ow_nss w.
Proof. exact arguments_unchanged_obj. Qed.
Print Assumptions arguments_unchanged_on_objects.

(* ... in every state of every history of copying operations from constructor-built matrices *)
Theorem arguments_unchanged_in_every_history :
  forall (lower : lbl -> lbl) (suffix : lbl -> Z -> lbl) (locus : Z -> lbl) (nss : list (nsid * list tid)) (generic : bool) (ms : list (mid * matrix)) (ops : list oop)
         (b : op) (j : mid) (mj : omatrix),
  ((forall n T, aget n nss = Some T -> NoDup T) /\
   (forall j m, aget j ms = Some m ->
                NoDup (map fst (m_rows m)) /\ incl (map fst (m_rows m)) (taxa_of (mkW nss ms (zlen ms)) (m_ns m)))) ->
  forallb copying ops = true ->
  let w := o_run lower suffix locus (o_init nss generic ms) ops in
  aget j (ow_ms w) = Some mj -> receiver b <> Some j ->
  let w' := fst (o_step lower suffix locus w (OBase b)) in
  (exists mj', aget j (ow_ms w') = Some mj' /\ abs_m (ow_store w') mj' = abs_m (ow_store w) mj) /\
  ow_nss w' = ow_nss w.
Proof. exact arguments_unchanged_hist. Qed.
Print Assumptions arguments_unchanged_in_every_history.

Theorem all_operations_terminate_on_objects :
  forall (lower : lbl -> lbl) (suffix : lbl -> Z -> lbl) (locus : Z -> lbl) (w : oworld) (b : op),
  (forall l i j, lower (suffix l i) = lower (suffix l j) -> i = j) ->
  ((NoDup (all_ids w) /\ forall r, In r (all_ids w) -> r < s_next (ow_store w)) /\
   ((forall n T, aget n (ow_nss w) = Some T -> NoDup T) /\
    (forall j m, aget j (w_ms (abs_w w)) = Some m ->
                 NoDup (map fst (m_rows m)) /\ incl (map fst (m_rows m)) (taxa_of (abs_w w) (m_ns m))))) ->
  snd (o_step lower suffix locus w (OBase b)) <> OErr Hang.
Proof. exact terminates_obj. Qed.
Print Assumptions all_operations_terminate_on_objects.

Theorem all_operations_terminate_in_every_history :
  forall (lower : lbl -> lbl) (suffix : lbl -> Z -> lbl) (locus : Z -> lbl) (nss : list (nsid * list tid)) (generic : bool) (ms : list (mid * matrix)) (ops : list oop) (b : op),
  (forall l i j, lower (suffix l i) = lower (suffix l j) -> i = j) ->
  ((forall n T, aget n nss = Some T -> NoDup T) /\
   (forall j m, aget j ms = Some m ->
                NoDup (map fst (m_rows m)) /\ incl (map fst (m_rows m)) (taxa_of (mkW nss ms (zlen ms)) (m_ns m)))) ->
  forallb copying ops = true ->
  snd (o_step lower suffix locus (o_run lower suffix locus (o_init nss generic ms) ops) (OBase b)) <> OErr Hang.
Proof. exact terminates_hist. Qed.
Print Assumptions all_operations_terminate_in_every_history.

(* namespace refusal needs no invariant: nothing at all changes, not even the store *)
Theorem foreign_namespace_refused_on_objects :
  forall (lower : lbl -> lbl) (suffix : lbl -> Z -> lbl) (locus : Z -> lbl) (w : oworld) (b : op) (m other : mid) (mm mo : omatrix),
  aget m (ow_ms w) = Some mm -> aget other (ow_ms w) = Some mo -> om_ns mo <> om_ns mm ->
  (b = AddSeqs m other \/ b = ReplaceSeqs m other \/ b = UpdateSeqs m other \/
   (exists a, b = ExtendSeqs m other a) \/ b = ExtendMatrix m other) ->
  o_step lower suffix locus w (OBase b) = (w, OErr ValueErr).
Proof. exact foreign_refused_obj. Qed.
Print Assumptions foreign_namespace_refused_on_objects.

(* fill on row objects: the receiver keeps its entry; its dereferenced rows satisfy fill_spec *)
Theorem fill_spec_on_objects :
  forall (lower : lbl -> lbl) (suffix : lbl -> Z -> lbl) (locus : Z -> lbl) (w : oworld) (m : mid) (mm : omatrix) (v : cell) (size : option Z) (app : bool),
  ((NoDup (all_ids w) /\ forall r, In r (all_ids w) -> r < s_next (ow_store w)) /\
   ((forall n T, aget n (ow_nss w) = Some T -> NoDup T) /\
    (forall j m, aget j (w_ms (abs_w w)) = Some m ->
                 NoDup (map fst (m_rows m)) /\ incl (map fst (m_rows m)) (taxa_of (abs_w w) (m_ns m))))) ->
  aget m (ow_ms w) = Some mm ->
  let T := otaxa_of w (om_ns mm) in
  let M := abs_m (ow_store w) mm in
  let r := o_step lower suffix locus w (OBase (Fill m v size app)) in
  exists mm', aget m (ow_ms (fst r)) = Some mm' /\
  let M' := abs_m (ow_store (fst r)) mm' in
  let s := match size with Some s => s | None => max_sequence_size T (m_rows M) end in
  snd r = OInt s /\
  m_ns M' = m_ns M /\ m_label M' = m_label M /\ m_subs M' = m_subs M /\
  map fst (m_rows M') = map fst (m_rows M) /\
  (forall t, aget t (m_rows M') =
             match aget t (m_rows M) with
             | None => None
             | Some r => Some (if app then r ++ repeat v (Z.to_nat (s - zlen r))
                               else repeat v (Z.to_nat (s - zlen r)) ++ r)
             end) /\
  (forall t r r', aget t (m_rows M) = Some r -> aget t (m_rows M') = Some r' -> zlen r' = Z.max s (zlen r)) /\
  (size = None -> forall t r', aget t (m_rows M') = Some r' -> zlen r' = s) /\
  (size = None -> s = 0 \/ exists t r, aget t (m_rows M) = Some r /\ zlen r = s).
Proof. exact fill_spec_obj. Qed.
Print Assumptions fill_spec_on_objects.

Theorem pack_spec_on_objects :
  forall (lower : lbl -> lbl) (suffix : lbl -> Z -> lbl) (locus : Z -> lbl) (w : oworld) (m : mid) (mm : omatrix) (v : cell) (size : option Z) (app : bool),
  ((NoDup (all_ids w) /\ forall r, In r (all_ids w) -> r < s_next (ow_store w)) /\
   ((forall n T, aget n (ow_nss w) = Some T -> NoDup T) /\
    (forall j m, aget j (w_ms (abs_w w)) = Some m ->
                 NoDup (map fst (m_rows m)) /\ incl (map fst (m_rows m)) (taxa_of (abs_w w) (m_ns m))))) ->
  aget m (ow_ms w) = Some mm ->
  let T := otaxa_of w (om_ns mm) in
  let M := abs_m (ow_store w) mm in
  let r := o_step lower suffix locus w (OBase (Pack m v size app)) in
  exists mm', aget m (ow_ms (fst r)) = Some mm' /\
  let M' := abs_m (ow_store (fst r)) mm' in
  let s := match size with Some s => s | None => max_sequence_size T (m_rows (fill_taxa T M)) end in
  snd r = OUnit /\
  m_ns M' = m_ns M /\ m_label M' = m_label M /\ m_subs M' = m_subs M /\
  map fst (m_rows M') = map fst (m_rows M) ++ filter (fun t => negb (ahas t (m_rows M))) T /\
  (forall t, In t T -> ahas t (m_rows M') = true) /\
  (forall t, aget t (m_rows M') =
             let pad0 r := if app then r ++ repeat v (Z.to_nat (s - zlen r))
                           else repeat v (Z.to_nat (s - zlen r)) ++ r in
             match aget t (m_rows M) with
             | Some r => Some (pad0 r)
             | None => if memb t T then Some (pad0 []) else None
             end) /\
  (size = None -> forall t r', aget t (m_rows M') = Some r' -> zlen r' = s).
Proof. exact pack_spec_obj. Qed.
Print Assumptions pack_spec_on_objects.

(* export on row objects: a NEW matrix is appended to the world (its row objects are fresh: no_row_object_shared);
   its dereferenced rows are exactly the selected columns in ascending order *)
Theorem export_spec_on_objects :
  forall (lower : lbl -> lbl) (suffix : lbl -> Z -> lbl) (locus : Z -> lbl) (w : oworld) (m : mid) (mm : omatrix) (idx : list Z) (d : cell),
  ((NoDup (all_ids w) /\ forall r, In r (all_ids w) -> r < s_next (ow_store w)) /\
   ((forall n T, aget n (ow_nss w) = Some T -> NoDup T) /\
    (forall j m, aget j (w_ms (abs_w w)) = Some m ->
                 NoDup (map fst (m_rows m)) /\ incl (map fst (m_rows m)) (taxa_of (abs_w w) (m_ns m))))) ->
  aget m (ow_ms w) = Some mm ->
  let M := abs_m (ow_store w) mm in
  exists s' mm', o_step lower suffix locus w (OBase (ExportIdx m idx)) = (oadd_new w s' mm', ONew (ow_next w)) /\
  let e := abs_m s' mm' in
  m_ns e = m_ns M /\ m_label e = m_label M /\ m_subs e = [] /\
  map fst (m_rows e) = map fst (m_rows M) /\
  forall t, aget t (m_rows e) =
            match aget t (m_rows M) with
            | None => None
            | Some r => Some (map (fun j => nth (Z.to_nat j) r d)
                                  (filter (fun j => memb j idx) (zrange 0 (zlen r))))
            end.
Proof. exact export_spec_obj. Qed.
Print Assumptions export_spec_on_objects.

(* concatenate on row objects: a successful call appends a new matrix whose dereferenced value is what the
   value-level concatenate returns on the dereferenced arguments; these satisfy the side conditions of
   concatenate_spec / concatenate_subset_selects_source, so both apply to it verbatim *)
Theorem concatenate_spec_on_objects :
  forall (lower : lbl -> lbl) (suffix : lbl -> Z -> lbl) (locus : Z -> lbl) (w : oworld) (l : list mid) (cms : list omatrix) (j : mid),
  ((NoDup (all_ids w) /\ forall r, In r (all_ids w) -> r < s_next (ow_store w)) /\
   ((forall n T, aget n (ow_nss w) = Some T -> NoDup T) /\
    (forall j m, aget j (w_ms (abs_w w)) = Some m ->
                 NoDup (map fst (m_rows m)) /\ incl (map fst (m_rows m)) (taxa_of (abs_w w) (m_ns m))))) ->
  oget_all (ow_ms w) l = Some cms -> snd (o_step lower suffix locus w (OBase (Concat l))) = ONew j ->
  exists s' mm', fst (o_step lower suffix locus w (OBase (Concat l))) = oadd_new w s' mm' /\ j = ow_next w /\
  concatenate lower suffix locus (otaxa_of w) (map (abs_m (ow_store w)) cms) = Ok (abs_m s' mm') /\
  (forall n, NoDup (otaxa_of w n)) /\
  Forall (fun cm => NoDup (map fst (m_rows cm)) /\ incl (map fst (m_rows cm)) (otaxa_of w (m_ns cm)))
         (map (abs_m (ow_store w)) cms).
Proof. exact concatenate_spec_obj. Qed.
Print Assumptions concatenate_spec_on_objects.

(* the row algebra on row objects: whenever the value-level operation returns M on the dereferenced receiver and
   argument, the object-level step leaves the receiver dereferencing to M (so add_ / replace_ / update_ /
   extend_sequences_spec and extend_matrix_spec apply); spelled out for extend_sequences below *)
Theorem row_algebra_on_objects :
  forall (lower : lbl -> lbl) (suffix : lbl -> Z -> lbl) (locus : Z -> lbl) (w : oworld) (b : op) (m o : mid) (mm mo : omatrix) (fv : matrix -> matrix -> res matrix),
  ((NoDup (all_ids w) /\ forall r, In r (all_ids w) -> r < s_next (ow_store w)) /\
   ((forall n T, aget n (ow_nss w) = Some T -> NoDup T) /\
    (forall j m, aget j (w_ms (abs_w w)) = Some m ->
                 NoDup (map fst (m_rows m)) /\ incl (map fst (m_rows m)) (taxa_of (abs_w w) (m_ns m))))) ->
  aget m (ow_ms w) = Some mm -> aget o (ow_ms w) = Some mo ->
  (b = AddSeqs m o /\ fv = add_sequences \/ b = ReplaceSeqs m o /\ fv = replace_sequences \/
   b = UpdateSeqs m o /\ fv = update_sequences \/
   (exists a, b = ExtendSeqs m o a /\ fv = fun x y => extend_sequences x y a) \/
   b = ExtendMatrix m o /\ fv = extend_matrix) ->
  forall M, fv (abs_m (ow_store w) mm) (abs_m (ow_store w) mo) = Ok M ->
  let r := o_step lower suffix locus w (OBase b) in
  exists mm', aget m (ow_ms (fst r)) = Some mm' /\ abs_m (ow_store (fst r)) mm' = M /\ snd r = OUnit.
Proof. exact binary_obj. Qed.
Print Assumptions row_algebra_on_objects.

Theorem extend_sequences_spec_on_objects :
  forall (lower : lbl -> lbl) (suffix : lbl -> Z -> lbl) (locus : Z -> lbl) (w : oworld) (m o : mid) (mm mo : omatrix) (addnew : bool),
  ((NoDup (all_ids w) /\ forall r, In r (all_ids w) -> r < s_next (ow_store w)) /\
   ((forall n T, aget n (ow_nss w) = Some T -> NoDup T) /\
    (forall j m, aget j (w_ms (abs_w w)) = Some m ->
                 NoDup (map fst (m_rows m)) /\ incl (map fst (m_rows m)) (taxa_of (abs_w w) (m_ns m))))) ->
  aget m (ow_ms w) = Some mm -> aget o (ow_ms w) = Some mo -> om_ns mo = om_ns mm ->
  let M := abs_m (ow_store w) mm in
  let O := abs_m (ow_store w) mo in
  let r := o_step lower suffix locus w (OBase (ExtendSeqs m o addnew)) in
  snd r = OUnit /\
  exists mm', aget m (ow_ms (fst r)) = Some mm' /\
  let M' := abs_m (ow_store (fst r)) mm' in
  m_ns M' = m_ns M /\ m_label M' = m_label M /\ m_subs M' = m_subs M /\
  (forall t, aget t (m_rows M') = match aget t (m_rows M), aget t (m_rows O) with
                                  | Some r, Some r' => Some (r ++ r')
                                  | Some r, None => Some r
                                  | None, Some r' => if addnew then Some r' else None
                                  | None, None => None
                                  end) /\
  map fst (m_rows M') = map fst (m_rows M) ++
                        (if addnew then filter (fun t => negb (ahas t (m_rows M))) (map fst (m_rows O)) else []).
Proof. exact extend_sequences_spec_obj. Qed.
Print Assumptions extend_sequences_spec_on_objects.
