(* C13 translator tie: statements only, each closed by `exact`.

   Gen/Routes.v is compiled by py/dv/gen_routes.py from the CURRENT text of nexusreader.py,
   nexusyielder.py, treemodel/_tree.py and treecollectionmodel.py, statement by statement, over the
   interface operations of Model/C13GenPrims.v (tokenizer methods, namespace / tree-list objects, the
   reader methods that are not compiled).  Every theorem below says that a compiled function computes
   what the hand-written function of Model/C13Model.v computes - on every reader state, for every fuel,
   with the model's variant flags at their current value (true: the repaired forms).  So the theorems
   of Props/C13.v are theorems about the code as compiled, and an edit of a compiled function that
   changes its meaning breaks this file.

   Conventions: a compiled method takes the reader object `s : gst T` (= rs T of the model) and returns
   (value, in-out arguments, s'); st_z / st_set_z / st_set_k read and replace the tokenizer / the core of
   a state; a compiled generator returns (trees handed out, how it ended). *)
From Coq Require Import ZArith List Bool.
From DV Require Import Model.PyPrims Model.C13Model Model.C13GenPrims Gen.Routes
  Proofs.C13GenStmts Proofs.C13GenObjects Proofs.C13GenWf Proofs.C13GenTaxa Proofs.C13GenReader Proofs.C13GenYielder
  Proofs.C13GenGlue Proofs.C13GenEntry Proofs.C13GenFinal.
From DV Require Import Model.C13MapPrims Gen.RoutesMapper Proofs.C13GenMapper Proofs.C13MapperTie.
From DV Require Import Model.C13SelectPrims Gen.RoutesSelect Proofs.C13GenSelect.
From Coq Require String. Import String.StringSyntax.
Import ListNotations.
Open Scope Z_scope.

(* ============ 1. statements ============ *)

(* NexusReader._consume_to_end_of_block(token): the state afterwards (the returned token is never read) *)
Theorem gen_consume_to_end_of_block :
  forall (T : Type) (upper : str -> str) (fuel : nat) (s : gst T) (tok : option str),
  (do r <- g_consume_to_end_of_block T upper fuel s tok ;; Ok (snd r))
  = (do z' <- consume_to_end_of_block upper fuel tok (st_z T s) ;; Ok (st_set_z T s z')).
Proof. exact g_consume_to_end_of_block_eq. Qed.
Print Assumptions gen_consume_to_end_of_block.

Theorem gen_parse_title_statement :
  forall (T : Type) (upper : str -> str) (fuel : nat) (s : gst T),
  g_parse_title_statement T upper fuel s
  = (do r <- parse_title upper (st_z T s) ;; Ok (Some (fst r), st_set_z T s (snd r))).
Proof. exact g_parse_title_statement_eq. Qed.
Print Assumptions gen_parse_title_statement.

(* _parse_link_statement returns the dict; the trees block reads links.get('taxa') *)
Theorem gen_parse_link_statement :
  forall (T : Type) (upper : str -> str) (fuel : nat) (s : gst T),
  (do r <- g_parse_link_statement T upper fuel s ;; Ok (links_get_taxa (fst r), snd r))
  = (do r <- parse_link upper true fuel (st_z T s) ;; Ok (fst r, st_set_z T s (snd r))).
Proof. exact g_parse_link_statement_eq. Qed.
Print Assumptions gen_parse_link_statement.

Theorem gen_parse_dimensions_statement :
  forall (T : Type) (upper : str -> str) (fuel : nat) (s : gst T),
  g_parse_dimensions_statement T upper fuel s
  = (do r <- parse_dimensions upper fuel (st_z T s) (rd_ntax T s) ;;
     let '(n', z') := r in Ok (tt, st_set_k T s (set_z (set_ntax (r_k s) n') z'))).
Proof. exact g_parse_dimensions_statement_eq. Qed.
Print Assumptions gen_parse_dimensions_statement.

(* _parse_tree_statement(tree_factory, taxon_symbol_mapper), the mapper managing namespace ns *)
Theorem gen_parse_tree_statement :
  forall (T : Type) (lower : str -> str)
         (parse_tree : mapper -> tz -> res (option T * mapper * tz))
         (set_label : T -> option str -> T) (add_comments : T -> list str -> T)
         (fuel : nat) (s : gst T) (factory : option nat) (ns : nat) (m : mapper),
  g_parse_tree_statement T lower parse_tree set_label add_comments fuel s factory (Some (ns, m))
  = (do r <- parse_tree_stmt T parse_tree set_label add_comments m (st_z T s) ;;
     let '(t, m1, z1) := r in Ok (t, Some (ns, m1), st_set_k T s (after_tree (r_k s) ns m1 z1))).
Proof. exact g_parse_tree_statement_eq. Qed.
Print Assumptions gen_parse_tree_statement.

Theorem gen_parse_characters_data_block :
  forall (T : Type) (upper : str -> str) (fuel : nat) (s : gst T),
  g_parse_characters_data_block T upper fuel s
  = (let z0 := cast_ucase upper (st_z T s) in
     if negb (tok_is z0 K_CHARACTERS || tok_is z0 K_DATA) then Err ParseErr
     else do z <- consume_to_end_of_block upper fuel (z_cur z0) z0 ;; Ok (tt, st_set_z T s z)).
Proof. exact g_parse_characters_data_block_eq. Qed.
Print Assumptions gen_parse_characters_data_block.

(* the reader's small methods, over the atomic registry / factory operations of C13GenPrims.v
   (self._taxon_namespace_factory(..), self._taxon_namespaces.append / len / [0] / iteration, <namespace>.label,
   self._tree_list_factory(..), self._tree_lists.append, NexusTaxonSymbolMapper(..)) *)
Theorem gen_new_taxon_namespace :
  forall (T : Type) (c : nscfg) (fuel : nat) (s : gst T) (title : option str),
  g_new_taxon_namespace T c fuel s title
  = (let '(i, k, g) := new_tns c (r_k s) (r_g s) title in Ok (Some i, st_set_kg T s k g)).
Proof. exact g_new_taxon_namespace_eq. Qed.
Print Assumptions gen_new_taxon_namespace.

Theorem gen_get_taxon_namespace :
  forall (T : Type) (upper : str -> str) (c : nscfg) (fuel : nat) (s : gst T) (title : option str),
  g_get_taxon_namespace T upper c fuel s title
  = (do r <- get_tns upper c (r_k s) (r_g s) title ;; let '(i, k, g) := r in Ok (Some i, st_set_kg T s k g)).
Proof. exact g_get_taxon_namespace_eq. Qed.
Print Assumptions gen_get_taxon_namespace.

Theorem gen_get_taxon_symbol_mapper :
  forall (T : Type) (lower : str -> str) (fuel : nat) (s : gst T) (ns : option nat),
  g_get_taxon_symbol_mapper T lower fuel s ns true
  = Ok (Some (on_get ns, new_mapper lower (ns_taxa_at (r_k s) (on_get ns)) true), s).
Proof. exact g_get_taxon_symbol_mapper_eq. Qed.
Print Assumptions gen_get_taxon_symbol_mapper.

Theorem gen_new_tree_list :
  forall (T : Type) (tlf : tl_factory) (fuel : nat) (s : gst T) (ns : option nat) (title : option str),
  g_new_tree_list T tlf fuel s ns title
  = (let '(i, tls, reg) := new_tree_list T tlf (r_tls s) (r_tlreg s) title in Ok (Some i, mkRs (r_k s) (r_g s) tls reg)).
Proof. exact g_new_tree_list_eq. Qed.
Print Assumptions gen_new_tree_list.

(* ---- well-formed reader states ----
   wfr T c s (Proofs/C13GenWf.v): every namespace handle registered in self._taxon_namespaces, and namespace 0
   when the route owns one (attached namespace or a pseudo-factory), is below the number of namespace objects
   of the state.  The compiled TAXLABELS / TRANSLATE code updates the namespace object taxon by taxon, the
   model writes it back once: they agree on handles of existing objects.  The fresh state of every route is
   well-formed and every function of the model preserves it (Proofs/C13GenWf.v). *)
Theorem gen_initial_state_wellformed :
  forall (T : Type) (cf : cfg) (ns0 : list str) (d : doc), wfr T (c_ns cf) (nexus_init T cf ns0 d).
Proof. intros. apply nexus_init_wf. reflexivity. Qed.
Print Assumptions gen_initial_state_wellformed.

(* NexusReader._parse_taxlabels_statement(taxon_namespace) over the atomic namespace / taxon / label-set
   operations (for taxon in ns._taxa, label.lower(), `in label_set`, get_taxon, new_taxon, len(ns), ..) *)
Theorem gen_parse_taxlabels_statement :
  forall (T : Type) (lower upper : str -> str) (c : nscfg)
         (k : core) (g : regs) (tls : list (tlval T)) (reg : list nat) (i : nat),
  (i < length (k_nss k))%nat -> (c_attached c = true -> i = O) ->
  forall fuel : nat,
  g_parse_taxlabels_statement T lower upper c fuel (mkRs k g tls reg) (Some i)
  = (do k' <- parse_taxlabels lower c fuel k i ;; Ok (tt, mkRs k' g tls reg)).
Proof. exact g_parse_taxlabels_eq_at. Qed.
Print Assumptions gen_parse_taxlabels_statement.

(* NexusReader._parse_translate_statement(taxon_namespace): try/except around require_taxon, is_mutable followed
   as a local (the symbol mapper constructed by _get_taxon_symbol_mapper locks the namespace) *)
Theorem gen_parse_translate_statement :
  forall (T : Type) (lower : str -> str)
         (k : core) (g : regs) (tls : list (tlval T)) (reg : list nat) (i : nat),
  (i < length (k_nss k))%nat ->
  forall fuel : nat,
  g_parse_translate_statement T lower fuel (mkRs k g tls reg) (Some i)
  = (do r <- parse_translate lower fuel k i ;; let '(m, k') := r in Ok (Some (i, m), mkRs k' g tls reg)).
Proof. exact g_parse_translate_eq_at. Qed.
Print Assumptions gen_parse_translate_statement.

(* NexusReader._parse_taxa_block *)
Theorem gen_parse_taxa_block :
  forall (T : Type) (lower upper : str -> str) (c : nscfg) (fuel : nat) (s : gst T),
  wfr T c s ->
  g_parse_taxa_block T lower upper c fuel s
  = (do r <- parse_taxa_block lower upper c fuel (r_k s) (r_g s) ;;
     let '(k, g) := r in Ok (tt, st_set_kg T s k g)).
Proof. exact g_parse_taxa_block_eq. Qed.
Print Assumptions gen_parse_taxa_block.

(* ============ 2. the reader's two block loops ============ *)

Theorem gen_parse_trees_block :
  forall (T : Type) (lower upper : str -> str)
         (parse_tree : mapper -> tz -> res (option T * mapper * tz))
         (set_label : T -> option str -> T) (add_comments : T -> list str -> T)
         (c : nscfg) (tlf : tl_factory) (et : bool) (fuel : nat) (s : gst T),
  wfr T c s ->
  g_parse_trees_block T lower upper parse_tree set_label add_comments c tlf et fuel s
  = (do s' <- r_parse_trees_block T lower upper parse_tree set_label add_comments true c tlf et fuel s ;; Ok (tt, s')).
Proof. exact g_parse_trees_block_eq. Qed.
Print Assumptions gen_parse_trees_block.

Theorem gen_parse_nexus_stream :
  forall (T : Type) (lower upper : str -> str)
         (parse_tree : mapper -> tz -> res (option T * mapper * tz))
         (set_label : T -> option str -> T) (add_comments : T -> list str -> T)
         (c : nscfg) (tlf : tl_factory) (et : bool) (fuel : nat) (s : gst T),
  wfr T c s ->
  g_parse_nexus_stream T lower upper parse_tree set_label add_comments c tlf et fuel s tt
  = (do s' <- r_parse_nexus_stream T lower upper parse_tree set_label add_comments true c tlf et true fuel s ;;
     Ok (tt, s')).
Proof. exact g_parse_nexus_stream_eq. Qed.
Print Assumptions gen_parse_nexus_stream.

(* ============ 3. the iterator's own copies of the two loops ============ *)

Theorem gen_yield_from_trees_block :
  forall (T : Type) (lower upper : str -> str)
         (parse_tree : mapper -> tz -> res (option T * mapper * tz))
         (set_label : T -> option str -> T) (add_comments : T -> list str -> T)
         (c : nscfg) (et : bool) (fuel : nat) (k : core) (g : regs) (tls : list (tlval T)) (reg : list nat),
  wfs c k g ->
  let Y := y_trees_block T lower upper parse_tree set_label add_comments true c et fuel k g in
  g_yield_from_trees_block T lower upper parse_tree set_label add_comments c et fuel (mkRs k g tls reg)
  = (fst Y, match snd Y with
            | Ok (k', g') => Ok (tt, mkRs k' g' tls reg)
            | Err e => Err e
            | OutOfFuel => OutOfFuel
            end).
Proof. exact G_yield_from_trees_block. Qed.
Print Assumptions gen_yield_from_trees_block.

Theorem gen_yield_items_from_stream :
  forall (T : Type) (lower upper : str -> str)
         (parse_tree : mapper -> tz -> res (option T * mapper * tz))
         (set_label : T -> option str -> T) (add_comments : T -> list str -> T)
         (c : nscfg) (et : bool) (fuel : nat) (k : core) (g : regs) (tls : list (tlval T)) (reg : list nat),
  wfs c k g ->
  let Y := y_items_from_stream T lower upper parse_tree set_label add_comments true c et fuel k g in
  g_yield_items_from_stream T lower upper parse_tree set_label add_comments c et fuel (mkRs k g tls reg) tt
  = (fst Y, match snd Y with
            | Ok (k', g') => Ok (tt, mkRs k' g' tls reg)
            | Err e => Err e
            | OutOfFuel => OutOfFuel
            end).
Proof. exact G_yield_items_from_stream. Qed.
Print Assumptions gen_yield_items_from_stream.

(* ============ 3b. the NEWICK statement loops ============ *)

(* NewickTreeDataYielder._yield_items_from_stream: the trees handed out, and the reader state at the end
   (namespace 0 holds what the mapper added) *)
Theorem gen_newick_yield_items_from_stream :
  forall (T : Type) (lower : str -> str)
         (parse_tree : mapper -> tz -> res (option T * mapper * tz))
         (fuel : nat) (k : core) (g : regs) (tls : list (tlval T)) (reg : list nat),
  let Y := newick_yield_loop T parse_tree fuel (new_mapper lower (ns_taxa_at k O) false) (k_z k) in
  g_newick_yield_items_from_stream T lower parse_tree fuel (mkRs k g tls reg) tt
  = (fst Y, match snd Y with
            | Ok (m', z') => Ok (tt, mkRs (after_tree k O m' z') g tls reg)
            | Err e => Err e
            | OutOfFuel => OutOfFuel
            end).
Proof. exact G_newick_yield. Qed.
Print Assumptions gen_newick_yield_items_from_stream.

(* NewickReader.tree_iter consumed to its end (NewickReader._read: `for tree in self.tree_iter(..): pass`)
   with tree_factory = <TreeList tb>.new_tree: how it ends, and list tb holds the trees *)
Theorem gen_newick_tree_iter :
  forall (T : Type) (lower : str -> str)
         (parse_tree : mapper -> tz -> res (option T * mapper * tz))
         (fuel : nat) (k : core) (g : regs) (tls : list (tlval T)) (reg : list nat)
         (ns : nat) (m : mapper) (tb : nat),
  snd (g_newick_tree_iter T lower parse_tree fuel (mkRs k g tls reg) tt (Some (ns, m)) (Some tb))
  = (do r <- newick_read_loop T parse_tree fuel m (k_z k) [] ;;
     let '(ts, m', z') := r in
     Ok (tt, Some (ns, m'),
         mkRs (after_tree k ns m' z') g (fold_left (fun a t => tl_append T a tb t) ts tls) reg)).
Proof. exact G_newick_tree_iter. Qed.
Print Assumptions gen_newick_tree_iter.

(* ============ 3c. reader-level methods ============ *)

(* NexusReader._read called as DataReader.read_tree_lists calls it (no character-matrix factory): the reader
   attributes it sets, the compiled _parse_nexus_stream under the configuration they hold, the Product *)
Theorem gen_nexus_read :
  forall (T : Type) (lower upper : str -> str)
         (parse_tree : mapper -> tz -> res (option T * mapper * tz))
         (set_label : T -> option str -> T) (add_comments : T -> list str -> T)
         (fuel : nat) (s : gst T) (att : option nat) (et : bool) (fac : tns_factory) (tlf : tl_factory)
         (saf gat : option unit),
  wfr T (mkNsCfg (negb (on_is_none att)) fac) s ->
  g_nexus_read T lower upper parse_tree set_label add_comments fuel s att et false tt fac (Some tlf) None saf gat
  = (do s' <- r_parse_nexus_stream T lower upper parse_tree set_label add_comments true
                (mkNsCfg (negb (on_is_none att)) fac) tlf et true fuel s ;; Ok (s', s')).
Proof. exact g_nexus_read_eq. Qed.
Print Assumptions gen_nexus_read.

(* reader.read_tree_lists(..) on the fresh reader of a route = the COMPILED DataReader.read_tree_lists
   dispatching to the compiled NexusReader._read / NewickReader._read (route_run, Proofs/C13GenGlue.v; the
   hand-written part is the fresh state nexus_init and which class get_reader(schema) instantiates):
   the model's nexus_read / newick_read *)
Theorem gen_read_tree_lists :
  forall (T : Type) (lower upper : str -> str)
         (parse_tree : mapper -> tz -> res (option T * mapper * tz))
         (set_label : T -> option str -> T) (add_comments : T -> list str -> T)
         (sch : schema) (attached : bool) (tlf : tl_factory) (d : doc) (tl : list T),
  route_run T lower upper parse_tree set_label add_comments sch attached tlf (doc_fuel d) d tl
  = match sch with
    | Nexus =>
      do s <- nexus_read T lower upper parse_tree set_label add_comments true true
                (mkCfg (mkNsCfg attached (FacFixed true)) tlf) [] d ;;
      Ok (rs_blocks T s, match tlf with TLFixed => tl ++ rs_list0 T s | TLNew => tl end)
    | Newick =>
      do r <- newick_read T lower parse_tree [] d ;;
      Ok ([fst r], match tlf with TLFixed => tl ++ fst r | TLNew => tl end)
    end.
Proof. exact route_run_eq. Qed.
Print Assumptions gen_read_tree_lists.

(* ============ 4. the two entry points with offsets ============ *)
(* route_reader sch (Proofs/C13GenGlue.v) is what dataio.get_reader(schema) returns: its read_tree_lists is
   route_run above - compiled code from DataReader.read_tree_lists down to the block loops. *)

(* Tree.get(collection_offset=c, tree_offset=k) without a label keyword *)
Theorem gen_tree_entry :
  forall (T : Type) (lower upper : str -> str)
         (parse_tree : mapper -> tz -> res (option T * mapper * tz))
         (set_label : T -> option str -> T) (add_comments : T -> list str -> T)
         (sch : schema) (d : doc) (c k : option Z),
  g_tree_parse_and_create_from_stream T set_label (doc_fuel d) tt
    (route_reader T lower upper parse_tree set_label add_comments sch) d c k None
  = (do t <- tree_get T lower upper parse_tree set_label add_comments true true true true sch c k d ;; Ok (t, tt)).
Proof. exact g_tree_entry_eq. Qed.
Print Assumptions gen_tree_entry.

(* TreeList.get(collection_offset=c, tree_offset=k) into a new list *)
Theorem gen_treelist_entry :
  forall (T : Type) (lower upper : str -> str)
         (parse_tree : mapper -> tz -> res (option T * mapper * tz))
         (set_label : T -> option str -> T) (add_comments : T -> list str -> T)
         (sch : schema) (d : doc) (c k : option Z),
  g_treelist_parse_and_create_from_stream T (doc_fuel d) tt
    (route_reader T lower upper parse_tree set_label add_comments sch) d c k []
  = (do l <- treelist_get_off T lower upper parse_tree set_label add_comments true true true sch c k d ;; Ok (l, tt)).
Proof. exact g_treelist_entry_eq. Qed.
Print Assumptions gen_treelist_entry.

(* TreeList.read(..) (no offsets) into an existing list with trees tl0 whose namespace holds ns0 *)
Theorem gen_treelist_read :
  forall (T : Type) (lower upper : str -> str)
         (parse_tree : mapper -> tz -> res (option T * mapper * tz))
         (set_label : T -> option str -> T) (add_comments : T -> list str -> T)
         (sch : schema) (ns0 : list str) (d : doc) (tl0 : list T),
  g_treelist_parse_and_create_from_stream T (doc_fuel d) tt
    (route_reader_ns T lower upper parse_tree set_label add_comments sch ns0) d None None tl0
  = (do r <- treelist_read T lower upper parse_tree set_label add_comments true true true sch ns0 d ;;
     Ok (tl0 ++ fst r, tt)).
Proof. exact g_treelist_read_eq. Qed.
Print Assumptions gen_treelist_read.

(* DataSet.get(.., exclude_chars=True), with (a = true: taxon_namespace=<namespace 0>) or without a namespace
   argument: the compiled DataSet._parse_and_create_from_stream over the compiled DataReader.read_dataset over the
   compiled _read (route_dataset, Proofs/C13GenGlue.v).  With characters read (the default) the compiled _read
   stops at the call of _parse_nexus_stream (that branch of the block loop is not compiled). *)
Theorem gen_dataset_entry :
  forall (T : Type) (lower upper : str -> str)
         (parse_tree : mapper -> tz -> res (option T * mapper * tz))
         (set_label : T -> option str -> T) (add_comments : T -> list str -> T)
         (sch : schema) (d : doc) (a : bool),
  g_dataset_parse_and_create_from_stream T (doc_fuel d) tt
    (route_reader T lower upper parse_tree set_label add_comments sch) d (attached_ns a) false true
  = (do bl <- dataset_get T lower upper parse_tree set_label add_comments true true sch a d ;;
     Ok ((attached_ns a, bl), tt)).
Proof. exact g_dataset_entry_eq. Qed.
Print Assumptions gen_dataset_entry.

(* TreeArray.read_from_files([one file], .., tree_offset=k) for ANY iterator Y = (trees handed out, how it ended):
   the trees passed to add_tree when the iterator is exhausted, its error otherwise *)
Theorem gen_treearray_read_from_files :
  forall (T : Type) (Y : yielder_t T) (k : Z) (added : list T) (fuel : nat),
  g_treearray_read_from_files T fuel tt Y k added
  = (do _ <- snd Y ;; Ok (tt, added ++ skipn (Z.to_nat k) (fst Y), tt)).
Proof. exact g_treearray_read_eq. Qed.
Print Assumptions gen_treearray_read_from_files.

(* TreeArray.read over the COMPILED iterators (route_yielder, Proofs/C13GenFinal.v: the compiled
   _yield_items_from_stream of the schema's iterator class on the fresh state) = the model's treearray_read *)
Theorem gen_treearray_read :
  forall (T : Type) (lower upper : str -> str)
         (parse_tree : mapper -> tz -> res (option T * mapper * tz))
         (set_label : T -> option str -> T) (add_comments : T -> list str -> T)
         (sch : schema) (k : Z) (ns0 : list str) (d : doc),
  let A := treearray_read T lower upper parse_tree set_label add_comments true sch k ns0 d in
  g_treearray_read_from_files T (doc_fuel d) tt
    (route_yielder T lower upper parse_tree set_label add_comments sch ns0 d) k []
  = match snd A with
    | Ok _ => Ok (tt, fst A, tt)
    | Err e => Err e
    | OutOfFuel => OutOfFuel
    end.
Proof. exact G_treearray_read. Qed.
Print Assumptions gen_treearray_read.

(* ============ 5. a theorem of Props/C13.v restated on the compiled code ============ *)
(* nexus_loops_agree_full: the compiled reader and the compiled iterator, run on the same document,
   end alike and deliver the same trees (no hand-written loop is mentioned). *)
Theorem gen_loops_agree :
  forall (T : Type) (lower upper : str -> str)
         (parse_tree : mapper -> tz -> res (option T * mapper * tz))
         (set_label : T -> option str -> T) (add_comments : T -> list str -> T),
  (forall m z ot m' z', parse_tree m z = Ok (ot, m', z') -> exists pre, z_toks z = pre ++ z_toks z') ->
  (forall s, upper (upper s) = upper s) ->
  forall (nc : nscfg) (tlf : tl_factory) (ns0 : list str) (d : doc),
  let Y := g_yield_items_from_stream T lower upper parse_tree set_label add_comments nc false (doc_fuel d)
             (mkRs (core_init nc ns0 d) (regs_init nc) [] []) tt in
  let R := g_parse_nexus_stream T lower upper parse_tree set_label add_comments nc tlf false (doc_fuel d)
             (nexus_init T (mkCfg nc tlf) ns0 d) tt in
  match snd Y with
  | Ok (_, sy) =>
    exists s, R = Ok (tt, s) /\ r_k s = r_k sy /\ r_g s = r_g sy
              /\ match tlf with
                 | TLFixed => rs_list0 T s = fst Y
                 | TLNew => concat (rs_blocks T s) = fst Y
                 end
  | Err e => R = Err e
  | OutOfFuel => R = OutOfFuel
  end.
Proof. exact G_loops_agree. Qed.
Print Assumptions gen_loops_agree.

(* routes_agree_nexus_full restated on the compiled code alone: TreeList.read - compiled entry point, compiled
   read_tree_lists / _read, compiled reader loops - adds to the list exactly the trees the compiled iterator
   (Tree.yield_from_files into the same namespace) hands out, and fails exactly when it fails, with the same error *)
Theorem gen_routes_agree :
  forall (T : Type) (lower upper : str -> str)
         (parse_tree : mapper -> tz -> res (option T * mapper * tz))
         (set_label : T -> option str -> T) (add_comments : T -> list str -> T),
  (forall m z ot m' z', parse_tree m z = Ok (ot, m', z') -> exists pre, z_toks z = pre ++ z_toks z') ->
  (forall s, upper (upper s) = upper s) ->
  forall (ns0 : list str) (d : doc) (tl0 : list T),
  let Y := g_yield_items_from_stream T lower upper parse_tree set_label add_comments (mkNsCfg true (FacFixed false)) false
             (doc_fuel d)
             (mkRs (core_init (mkNsCfg true (FacFixed false)) ns0 d) (regs_init (mkNsCfg true (FacFixed false))) [] []) tt in
  g_treelist_parse_and_create_from_stream T (doc_fuel d) tt
    (route_reader_ns T lower upper parse_tree set_label add_comments Nexus ns0) d None None tl0
  = match snd Y with
    | Ok _ => Ok (tl0 ++ fst Y, tt)
    | Err e => Err e
    | OutOfFuel => OutOfFuel
    end.
Proof. exact G_routes_agree. Qed.
Print Assumptions gen_routes_agree.

(* ============ 6. the symbol mapper: class NexusTaxonSymbolMapper compiled (Gen/RoutesMapper.v) ============ *)
(* Gen/RoutesMapper.v is compiled by py/dv/gen_routes_mapper.py from the CURRENT text of nexusprocessing.py over
   Model/C13MapPrims.v (the mapper object = the record of its attributes, dicts = association lists, a
   CaseInsensitiveDict = the same with lower-cased keys).  mo_abs reads an object as the model's mapper record;
   mo_of nl m is the live object that stands for the model mapper m (nl = its write-only number->label dict). *)

(* __init__ (+ _set_taxon_namespace, restore_taxon_namespace_mutability, reset_supplemental_mappings): whatever the
   object held, afterwards the namespace is LOCKED, its former mutability is remembered, the TRANSLATE table is
   empty and the label / number tables and the switch are those of the model's new_mapper *)
Theorem gen_mapper_init :
  forall (lower : str -> str) (o0 : mobj) (taxa : list str) (mut b : bool),
  gm_init lower o0 (taxa, mut) b
  = Ok (tt, mkMobj (Some (taxa, false)) (Some mut)
                   (m_tokens (new_mapper lower taxa b)) (m_labels (new_mapper lower taxa b))
                   (m_numbers (new_mapper lower taxa b))
                   (rev (map (fun p => (dec_of_nat (S (fst p)), snd p)) (enum_from O taxa))) b).
Proof. exact G_mapper_init. Qed.
Print Assumptions gen_mapper_init.

Theorem gen_mapper_add_translate_token :
  forall (lower : str -> str) (o : mobj) (tok : str) (taxon : nat),
  gm_add_translate_token lower o tok taxon = Ok (tt, set_mo_token o ((lower tok, taxon) :: mo_token o))
  /\ mo_abs (set_mo_token o ((lower tok, taxon) :: mo_token o)) = add_translate_token lower (mo_abs o) tok taxon.
Proof. exact G_mapper_add_translate_token. Qed.
Print Assumptions gen_mapper_add_translate_token.

(* new_taxon: unlock with the remembered mutability, new member, lock, label and number tables told *)
Theorem gen_mapper_new_taxon :
  forall (lower : str -> str) (nl : pdict str) (m : mapper) (label : str),
  gm_new_taxon lower (mo_of nl m) label
  = Ok (fst (mapper_new_taxon lower m label), mo_of nl (snd (mapper_new_taxon lower m label))).
Proof. exact G_mapper_new_taxon. Qed.
Print Assumptions gen_mapper_new_taxon.

(* error branch: a namespace that was not mutable when the mapper was built cannot grow through it *)
Theorem gen_mapper_new_taxon_locked :
  forall (lower : str -> str) (o : mobj) (label : str),
  mo_orig o = Some false \/ mo_orig o = None -> gm_new_taxon lower o label = Err TypeErr.
Proof. exact G_mapper_new_taxon_locked. Qed.
Print Assumptions gen_mapper_new_taxon_locked.

(* lookup_taxon_symbol(symbol, create_taxon_if_not_found): TRANSLATE token, then label (both case-insensitive), then
   number (if switched on), then a new taxon (if asked) or None - in this order *)
Theorem gen_mapper_lookup_taxon_symbol :
  forall (lower : str -> str) (nl : pdict str) (m : mapper) (sym : str) (create : bool),
  gm_lookup_taxon_symbol lower (mo_of nl m) sym create
  = Ok (fst (lookup_taxon_symbol lower m sym create), mo_of nl (snd (lookup_taxon_symbol lower m sym create))).
Proof. exact G_mapper_lookup_taxon_symbol. Qed.
Print Assumptions gen_mapper_lookup_taxon_symbol.

(* require_taxon_for_symbol: the function handed to the statement parser as taxon_symbol_map_fn *)
Theorem gen_mapper_require_taxon_for_symbol :
  forall (lower : str -> str) (nl : pdict str) (m : mapper) (sym : str),
  gm_require_taxon_for_symbol lower (mo_of nl m) sym
  = Ok (Some (fst (require_taxon_for_symbol lower m sym)), mo_of nl (snd (require_taxon_for_symbol lower m sym))).
Proof. exact G_mapper_require_taxon_for_symbol. Qed.
Print Assumptions gen_mapper_require_taxon_for_symbol.

(* the hypothesis `mo_of` is no restriction on objects built by __init__ over a mutable namespace: every live object
   (remembered mutability True, namespace locked) is one, and the compiled methods keep objects live *)
Theorem gen_mapper_live_objects :
  forall (lower : str -> str),
  (forall o, mo_live o -> o = mo_of (mo_number_label o) (mo_abs o))
  /\ (forall o0 taxa b, exists o, gm_init lower o0 (taxa, true) b = Ok (tt, o) /\ mo_live o)
  /\ (forall o sym, mo_live o ->
       exists o', gm_require_taxon_for_symbol lower o sym
                  = Ok (Some (fst (require_taxon_for_symbol lower (mo_abs o) sym)), o')
                  /\ mo_abs o' = snd (require_taxon_for_symbol lower (mo_abs o) sym) /\ mo_live o').
Proof.
  intros lower. split; [exact mo_live_of|]. split; [|exact (G_mapper_require_live lower)].
  intros o0 taxa b. eexists. split; [apply G_mapper_init|]. split; [reflexivity | exists taxa; reflexivity].
Qed.
Print Assumptions gen_mapper_live_objects.

(* ---- the operations through which the compiled block drivers use the mapper are the compiled methods ---- *)
Theorem gen_tie_new_mapper :
  forall (T : Type) (lower : str -> str) (s : gst T) (ns : option nat) (b mut : bool) (o0 : mobj),
  exists o, gm_init lower o0 (ns_taxa_at (r_k s) (on_get ns), mut) b = Ok (tt, o)
            /\ ifc_new_mapper T lower s ns b = Ok (Some (on_get ns, mo_abs o), s)
            /\ mo_ns o = Some (ns_taxa_at (r_k s) (on_get ns), false) /\ mo_orig o = Some mut.
Proof. exact tie_new_mapper. Qed.
Print Assumptions gen_tie_new_mapper.

Theorem gen_tie_add_translate_token :
  forall (T : Type) (lower : str -> str) (s : gst T) (ns : nat) (m : mapper) (tok : option str) (t : otaxon) (nl : pdict str),
  exists o, gm_add_translate_token lower (mo_of nl (mapper_set_ns m (ns_taxa_at (r_k s) ns)))
              (match tok with Some x => x | None => s2z "None" end) (tx_index t) = Ok (tt, o)
            /\ ifc_mapper_add_token T lower s (Some (ns, m)) tok t = Some (ns, mo_abs o).
Proof. exact tie_add_translate_token. Qed.
Print Assumptions gen_tie_add_translate_token.

Theorem gen_tie_lookup_taxon_symbol :
  forall (T : Type) (lower : str -> str) (s : gst T) (ns : nat) (m : mapper) (sym : option str) (create : bool) (nl : pdict str),
  exists r o, gm_lookup_taxon_symbol lower (mo_of nl (mapper_set_ns m (ns_taxa_at (r_k s) ns))) (o_text sym) create = Ok (r, o)
    /\ ifc_mapper_lookup T lower s (Some (ns, m)) sym create
       = Ok (match r with Some i => Some (i, nth i (nso_taxa (mo_nso o)) []) | None => None end,
             Some (ns, mo_abs o), st_set_k T s (set_ns_taxa (r_k s) ns (nso_taxa (mo_nso o)))).
Proof. exact tie_lookup_taxon_symbol. Qed.
Print Assumptions gen_tie_lookup_taxon_symbol.

(* ============ 7. route agreement THROUGH the mapper: every leaf symbol to the same taxon ============ *)
(* g_parse_tree lower X scan: a statement parser whose tokenizer side `scan` is arbitrary (the leaf symbols of the next
   tree in document order + the rest of the tree) and whose taxa come from the COMPILED require_taxon_for_symbol,
   called once per leaf in order; a tree is (rest, [(symbol, taxon)]).  It computes what the model's mapper computes: *)
Theorem gen_resolution_is_model :
  forall (lower : str -> str) (X : Type) (scan : tz -> res (option (list str * X) * tz)) (m : mapper) (z : tz),
  g_parse_tree lower X scan m z
  = (do r <- scan z ;;
     match fst r with
     | None => Ok (None, m, snd r)
     | Some (syms, x) => Ok (Some (x, combine syms (fst (m_resolve lower m syms))), snd (m_resolve lower m syms), snd r)
     end).
Proof. exact g_parse_tree_eq. Qed.
Print Assumptions gen_resolution_is_model.

(* for EVERY token stream and every tokenizer side that consumes a prefix: TreeList.read - compiled entry point,
   read_tree_lists, _read, the reader's block loops, the compiled TAXLABELS / TRANSLATE statements, the compiled
   mapper - adds to the list exactly the trees, leaf by leaf (symbol, taxon), that the compiled iterator
   (Tree.yield_from_files into the same namespace: its own block loops, the same statements and mapper) hands out,
   and fails exactly when it fails, with the same error *)
Theorem gen_leaf_symbols_resolve_same :
  forall (lower upper : str -> str) (X : Type) (scan : tz -> res (option (list str * X) * tz))
         (set_label : leaf_tree X -> option str -> leaf_tree X) (add_comments : leaf_tree X -> list str -> leaf_tree X),
  (forall z o z', scan z = Ok (o, z') -> exists pre, z_toks z = pre ++ z_toks z') ->
  (forall s, upper (upper s) = upper s) ->
  forall (ns0 : list str) (d : doc) (tl0 : list (leaf_tree X)),
  let P := g_parse_tree lower X scan in
  let Y := g_yield_items_from_stream (leaf_tree X) lower upper P set_label add_comments (mkNsCfg true (FacFixed false)) false
             (doc_fuel d)
             (mkRs (core_init (mkNsCfg true (FacFixed false)) ns0 d) (regs_init (mkNsCfg true (FacFixed false))) [] []) tt in
  g_treelist_parse_and_create_from_stream (leaf_tree X) (doc_fuel d) tt
    (route_reader_ns (leaf_tree X) lower upper P set_label add_comments Nexus ns0) d None None tl0
  = match snd Y with
    | Ok _ => Ok (tl0 ++ fst Y, tt)
    | Err e => Err e
    | OutOfFuel => OutOfFuel
    end.
Proof. exact (fun lower upper X scan sl ac Hs Hu => R_leaf_symbols_same lower X scan Hs upper sl ac Hu). Qed.
Print Assumptions gen_leaf_symbols_resolve_same.

(* whichever namespace configuration (attached or not, one fixed namespace or a new one per TAXA block) and tree-list
   factory: the compiled reader and the compiled iterator leave EVERY namespace object with the same members in the
   same order, and the taxa of all leaves, in document order, are the same *)
Theorem gen_namespaces_same_members_same_order :
  forall (lower upper : str -> str) (X : Type) (scan : tz -> res (option (list str * X) * tz))
         (set_label : leaf_tree X -> option str -> leaf_tree X) (add_comments : leaf_tree X -> list str -> leaf_tree X),
  (forall z o z', scan z = Ok (o, z') -> exists pre, z_toks z = pre ++ z_toks z') ->
  (forall s, upper (upper s) = upper s) ->
  forall (nc : nscfg) (tlf : tl_factory) (ns0 : list str) (d : doc),
  let P := g_parse_tree lower X scan in
  let Y := g_yield_items_from_stream (leaf_tree X) lower upper P set_label add_comments nc false (doc_fuel d)
             (mkRs (core_init nc ns0 d) (regs_init nc) [] []) tt in
  let R := g_parse_nexus_stream (leaf_tree X) lower upper P set_label add_comments nc tlf false (doc_fuel d)
             (nexus_init (leaf_tree X) (mkCfg nc tlf) ns0 d) tt in
  match snd Y with
  | Ok (_, sy) =>
    exists s, R = Ok (tt, s) /\ k_nss (r_k s) = k_nss (r_k sy)
              /\ concat (map (fun t => map snd (snd t)) (match tlf with TLFixed => rs_list0 (leaf_tree X) s
                                                                      | TLNew => concat (rs_blocks (leaf_tree X) s) end))
                 = concat (map (fun t => map snd (snd t)) (fst Y))
  | Err e => R = Err e
  | OutOfFuel => R = OutOfFuel
  end.
Proof. exact (fun lower upper X scan sl ac Hs Hu => R_namespaces_same lower X scan Hs upper sl ac Hu). Qed.
Print Assumptions gen_namespaces_same_members_same_order.

(* the hypotheses are satisfiable: a tokenizer side that reads one token as a one-leaf tree consumes a prefix
   (upper idempotent: hypotheses_satisfiable in Props/C13.v) *)
Theorem gen_leaf_hypotheses_satisfiable :
  forall z o z', one_leaf_scan z = Ok (o, z') -> exists pre, z_toks z = pre ++ z_toks z'.
Proof. exact one_leaf_scan_consumes. Qed.
Print Assumptions gen_leaf_hypotheses_satisfiable.

(* ============ wave 7: the class compiled at OBJECT level (Gen/RoutesMapperObj.v) ============ *)
(* py/dv/gen_routes_mapper_obj.py decides from the AST which container object each statement allocates, rebinds, mutates
   in place or reads; an attribute that __init__ does not bind before use but the CLASS BODY binds resolves to the one
   container of the class (shared by every instance) and is listed in gmo_class_level. *)
From DV Require Import Model.C13MapObjPrims Gen.RoutesMapperObj Proofs.C13MapObj Proofs.C13MapObjSys.

(* no table of NexusTaxonSymbolMapper is class-level *)
Theorem gen_mapper_no_class_level_container : gmo_class_level = [].
Proof. exact C13MapObj.gmo_no_class_level_container. Qed.
Print Assumptions gen_mapper_no_class_level_container.

(* every compiled method, on a mapper object o of a store w in which o is well-formed, computes what its value-level twin
   (Gen/RoutesMapper.v, proved equal to the model's mapper above) computes on the dereferenced object; the new store
   dereferences to the twin's result, stays well-formed, and (inv) changes no container that existed and that o did not
   hold; whatever the object holds afterwards it held before or is new.  Errors are the same. *)
Theorem gen_mapper_obj_lookup_refines :
  forall (lower : str -> str) (cls : mcls) (w : world) (o : mref) (sym : str) (create : bool),
  wfo w o ->
  match gm_lookup_taxon_symbol lower (deref w o) sym create with
  | Ok (a, m') => exists o' w', gmo_lookup_taxon_symbol lower cls o w sym create = Ok (a, o', w')
                                /\ deref w' o' = m' /\ inv w o w' o'
  | Err e => gmo_lookup_taxon_symbol lower cls o w sym create = Err e
  | OutOfFuel => gmo_lookup_taxon_symbol lower cls o w sym create = OutOfFuel
  end.
Proof. exact (fun lower cls w o sym create H => sim_lookup_taxon_symbol lower cls w o w o sym create (inv_refl w o H)). Qed.
Print Assumptions gen_mapper_obj_lookup_refines.

Theorem gen_mapper_obj_add_translate_token_refines :
  forall (lower : str -> str) (cls : mcls) (w : world) (o : mref) (tok : str) (taxon : nat),
  wfo w o ->
  match gm_add_translate_token lower (deref w o) tok taxon with
  | Ok (a, m') => exists o' w', gmo_add_translate_token lower cls o w tok taxon = Ok (a, o', w')
                                /\ deref w' o' = m' /\ inv w o w' o'
  | Err e => gmo_add_translate_token lower cls o w tok taxon = Err e
  | OutOfFuel => gmo_add_translate_token lower cls o w tok taxon = OutOfFuel
  end.
Proof. exact (fun lower cls w o tok taxon H => sim_add_translate_token lower cls w o w o tok taxon (inv_refl w o H)). Qed.
Print Assumptions gen_mapper_obj_add_translate_token_refines.

(* construction: on ANY store and any blank object the value-level result, in four containers that did not exist;
   no existing container changes *)
Theorem gen_mapper_obj_init_refines :
  forall (lower : str -> str) (cls : mcls) (o0 : mref) (w : world) (m0 : mobj) (ns : nsobj) (b : bool),
  match gm_init lower m0 ns b with
  | Ok (_, m') => exists o' w', gmo_init lower cls o0 w ns b = Ok (tt, o', w')
                   /\ deref w' o' = m' /\ wfo w' o' /\ (w_next w <= w_next w')%nat
                   /\ (forall c, In c (refs o') -> (w_next w <= c)%nat)
                   /\ (forall c, (c < w_next w)%nat -> wn_get w' c = wn_get w c /\ ws_get w' c = ws_get w c)
  | Err e => gmo_init lower cls o0 w ns b = Err e
  | OutOfFuel => gmo_init lower cls o0 w ns b = OutOfFuel
  end.
Proof. exact sim_init. Qed.
Print Assumptions gen_mapper_obj_init_refines.

(* two readers in one store, ANY namespaces (locked ones included: errors are the same), any schedule: the interleaved
   object-level run = the value-level run on two separate values; and the value-level run gives each side what its own
   steps give alone *)
Theorem gen_interleaved_is_separate :
  forall (lower : str -> str) (cls : mcls) (w0 : world) (oA0 oB0 : mref) (nsA : nsobj) (bA : bool) (nsB : nsobj) (bB : bool)
         (sched : list (bool * mop)),
  osys2 lower cls w0 oA0 oB0 nsA bA nsB bB sched = vsys2 lower nsA bA nsB bB sched.
Proof. exact interleaved_is_separate. Qed.
Print Assumptions gen_interleaved_is_separate.

Theorem gen_interleaved_any_store :
  forall (lower : str -> str) (cls : mcls) (sched : list (bool * mop)) (w : world) (oA oB : mref),
  wfo w oA -> wfo w oB -> (forall c, In c (refs oA) -> ~ In c (refs oB)) ->
  orun2 lower cls oA oB w sched = vrun2 lower (deref w oA) (deref w oB) sched.
Proof. exact orun2_is_vrun2. Qed.
Print Assumptions gen_interleaved_any_store.

Theorem gen_separate_is_alone :
  forall (lower : str -> str) (sched : list (bool * mop)) (mA mB : mobj) (outA outB : list (option nat)),
  vrun2 lower mA mB sched = Ok (outA, outB) ->
  vrun1 lower mA (ops_of false sched) = Ok outA /\ vrun1 lower mB (ops_of true sched) = Ok outB.
Proof. exact vrun2_alone. Qed.
Print Assumptions gen_separate_is_alone.

(* ============ wave 8: which namespace OBJECT a data-set read uses ============

   Gen/RoutesSelect.v is compiled by py/dv/gen_routes_select.py from the CURRENT text of the namespace-selection
   statements of DataReader.read_dataset and DataSet._parse_and_add_from_stream (= DataSet.read) over
   Model/C13SelectPrims.v.  A namespace expression is a handle or None; `is None` / `is` are identity, but a truth
   test (`x or y`, `if x:`, `not x`) is ns_truthy st x: it looks at the MEMBERS of the namespace object in the store st,
   so None and a brand-new EMPTY namespace are distinguished.  Every theorem quantifies over the store. *)

(* an explicitly given namespace is the one used, whatever it contains: reader.read_dataset(dataset=ds,
   taxon_namespace=<object h>) with ds unattached, or attached to the same object, hands self._read the factory
   `lambda label: <object h>` and attaches the reader to that object - for EVERY store, in particular when h is empty *)
Theorem gen_explicit_namespace_is_used :
  forall (st : nsstore) (a d : option nat) (h : nat),
  d = None \/ d = Some h ->
  gs_read_dataset_select st a d (Some h) = Ok (SelFixed (Some h), Some h).
Proof. exact explicit_namespace_is_used. Qed.
Print Assumptions gen_explicit_namespace_is_used.

(* the complete selection table of read_dataset (a: reader.attached_taxon_namespace before the call, d:
   dataset.attached_taxon_namespace, t: the taxon_namespace argument): it does not mention the store *)
Theorem gen_read_dataset_selection :
  forall (st : nsstore) (a d t : option nat),
  gs_read_dataset_select st a d t
  = match t, d with
    | Some h, None => Ok (SelFixed (Some h), Some h)
    | Some h, Some h' => if Nat.eqb h' h then Ok (SelFixed (Some h), Some h) else Err ValueErr
    | None, Some h' => Ok (SelFixed (Some h'), Some h')
    | None, None => Ok (SelNew, a)
    end.
Proof. exact read_dataset_select_spec. Qed.
Print Assumptions gen_read_dataset_selection.

(* DataSet.read(.., taxon_namespace=kw) on a data set whose attached_taxon_namespace is d (the compiled prefix of
   _parse_and_add_from_stream followed by the compiled selection of read_dataset on a new reader) *)
Theorem gen_dataset_read_selection :
  forall (st : nsstore) (d kw : option nat),
  gs_dataset_read_namespace st d kw
  = match kw, d with
    | Some h, None => Ok (SelFixed (Some h), Some h)
    | Some h, Some h' => if Nat.eqb h' h then Ok (SelFixed (Some h), Some h) else Err ValueErr
    | None, Some h' => Ok (SelFixed (Some h'), Some h')
    | None, None => Ok (SelNew, None)
    end.
Proof. exact dataset_read_namespace_spec. Qed.
Print Assumptions gen_dataset_read_selection.

Theorem gen_dataset_read_explicit_namespace_is_used :
  forall (st : nsstore) (d : option nat) (h : nat),
  d = None \/ d = Some h ->
  gs_dataset_read_namespace st d (Some h) = Ok (SelFixed (Some h), Some h).
Proof. exact dataset_read_explicit_namespace_is_used. Qed.
Print Assumptions gen_dataset_read_explicit_namespace_is_used.

(* non-vacuity: in st_example namespace 0 is EMPTY (falsy, like None) and namespace 1 is not; both are used when given *)
Theorem gen_explicit_empty_namespace_example :
  ns_truthy st_example (Some 0%nat) = false /\ ns_truthy st_example None = false
  /\ ns_truthy st_example (Some 1%nat) = true
  /\ gs_dataset_read_namespace st_example None (Some 0%nat) = Ok (SelFixed (Some 0%nat), Some 0%nat)
  /\ gs_dataset_read_namespace st_example None (Some 1%nat) = Ok (SelFixed (Some 1%nat), Some 1%nat)
  /\ gs_dataset_read_namespace st_example None None = Ok (SelNew, None)
  /\ gs_dataset_read_namespace st_example (Some 1%nat) (Some 0%nat) = Err ValueErr.
Proof. exact explicit_empty_namespace_example. Qed.
Print Assumptions gen_explicit_empty_namespace_example.

(* the store is not idle: the truthiness form `taxon_namespace or dataset.attached_taxon_namespace` (hand-written
   variant select_or_form, the shape of seeded change C13-9) selects dataset.new_taxon_namespace for an explicitly
   given EMPTY namespace where the compiled code selects the given object; on NON-EMPTY namespaces the two agree *)
Theorem gen_truthiness_selection_refuted :
  exists (st : nsstore) (h : nat),
    select_or_form st None None (Some h) = Ok (SelNew, None)
    /\ gs_read_dataset_select st None None (Some h) = Ok (SelFixed (Some h), Some h).
Proof. exact truthiness_selection_refuted. Qed.
Print Assumptions gen_truthiness_selection_refuted.

Theorem gen_truthiness_selection_nonempty :
  forall (st : nsstore) (a d : option nat) (h : nat),
  st h <> [] -> (d = None \/ d = Some h) ->
  select_or_form st a d (Some h) = gs_read_dataset_select st a d (Some h).
Proof. exact truthiness_selection_nonempty. Qed.
Print Assumptions gen_truthiness_selection_nonempty.

(* tie to the value-level translation of the WHOLE method (Gen/Routes.v g_read_dataset, which gen_dataset_entry
   relates to the model's dataset_get): the factory and the reader attribute it hands to self._read are the ones the
   object-level selection computes, for every store *)
Theorem gen_read_dataset_uses_selection :
  forall (T : Type) (st : nsstore) (fuel : nat) (s : gst T) (rd : reader_read_t T) (a : option nat) (et ec : bool) (stream : unit)
         (d t : option nat) (xt xc : bool) (saf : option unit),
  g_read_dataset T fuel s rd a et ec stream d t xt xc saf
  = (do r <- gs_read_dataset_select st a d t ;;
     let '(f, a') := r in
     do r3 <- rd fuel s a' et ec stream (fac_of_sel f) (if xt then None else Some TLNew) (if xc then None else Some tt) saf (Some tt) ;;
     let '(p, s') := r3 in Ok (p, s')).
Proof. exact read_dataset_uses_selection. Qed.
Print Assumptions gen_read_dataset_uses_selection.
