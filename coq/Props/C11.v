(* C11 property theorems: statements only, each closed by `exact`.
   Model: coq/Model/C11Model.v (state = stores of taxa, namespaces, trees, tree lists, matrices, data sets;
   `step lower st op : state * out`).  `lower` is Python's str.lower on the label pool: a parameter. *)
From Coq Require Import String.
From Coq Require Import List Bool Arith ZArith.
From DV Require Import Model.PyPrims Model.C11Model Proofs.C11Step3 Proofs.C11Final Proofs.C11Examples.
From DV Require Import Model.C11Prims Gen.Containers Proofs.C11GenA Proofs.C11GenB Proofs.C11GenC Proofs.C11GenD
  Proofs.C11GenE Proofs.C11GenF Proofs.C11GenG Proofs.C11GenH.
Import ListNotations.
Open Scope nat_scope.

(* What `Closed st` says: every tree object's node taxa are members of the namespace the tree refers to;
   every matrix row taxon is a member of the matrix' namespace; every member of every tree list is an
   existing tree that refers to the list's own namespace object; every component of every data set exists
   and, when the data set has an attached namespace, refers to that namespace object. *)
Theorem closed_meaning : forall st : state,
  Closed st <->
  ((forall i t, nth_error (s_trees st) i = Some t ->
      forall x, In x (t_refs t) -> In x (members st (t_ns t))) /\
   (forall i m, nth_error (s_mats st) i = Some m ->
      forall x, In x (m_rows m) -> In x (members st (m_ns m))) /\
   (forall i l, nth_error (s_lists st) i = Some l ->
      forall tr, In tr (l_trees l) -> exists t, nth_error (s_trees st) tr = Some t /\ t_ns t = l_ns l) /\
   (forall i d, nth_error (s_dss st) i = Some d ->
      (forall l, In l (d_lists d) ->
         exists L, nth_error (s_lists st) l = Some L /\ forall a, d_att d = Some a -> l_ns L = a) /\
      (forall m, In m (d_mats d) ->
         exists M, nth_error (s_mats st) m = Some M /\ forall a, d_att d = Some a -> m_ns M = a))).
Proof. exact closed_meaning_l. Qed.
Print Assumptions closed_meaning.

(* the container view: a member of a tree list refers to the list's namespace and every taxon on its
   nodes is a member of that namespace *)
Theorem closed_members : forall (st : state) (i : nat) (l : tlist) (tr : oid),
  Closed st -> nth_error (s_lists st) i = Some l -> In tr (l_trees l) ->
  exists t, nth_error (s_trees st) tr = Some t /\ t_ns t = l_ns l
            /\ forall x, In x (t_refs t) -> In x (members st (l_ns l)).
Proof. exact closed_members_l. Qed.
Print Assumptions closed_members.

Theorem closed_init : Closed st_init.
Proof. exact closed_init_l. Qed.
Print Assumptions closed_init.

(* Every operation (41 kinds: appends, inserts, item and slice assignment, extend, +=, +, slices, new_tree,
   reads of Newick / NEXUS / FASTA sources into lists and data sets, pop / remove, migrate / reconstruct /
   update / purge on trees, lists and matrices, TreeArray.add_tree, new_sequence, matrix []=, the DataSet
   operations incl. unify_taxon_namespaces) preserves Closed - whether it succeeds or raises - provided the
   call keeps to the usage discipline `disciplined st o` (see Model: an argument tree that is re-homed is
   not held by a list under another namespace, purge only when nobody else uses the taxa, no foreign
   component into an attached data set) and does not end in TaxonNamespaceReconstructionError.
   The two provisos are necessary: see the `_refuted` theorems below. *)
Theorem closed_step : forall (lower : lbl -> lbl) (st : state) (o : op),
  Closed st -> disciplined st o = true -> snd (step lower st o) <> ORecon ->
  Closed (fst (step lower st o)).
Proof. exact closed_step_l. Qed.
Print Assumptions closed_step.

(* all states a disciplined history passes through *)
Theorem closed_history : forall (lower : lbl -> lbl) (ops : list op) (st : state),
  Closed st -> hist_ok lower st ops = true -> Forall Closed (states lower st ops).
Proof. exact closed_history_l. Qed.
Print Assumptions closed_history.

Theorem closed_reachable : forall (lower : lbl -> lbl) (ops : list op),
  hist_ok lower st_init ops = true -> Closed (run_state lower st_init ops).
Proof. exact closed_reachable_l. Qed.
Print Assumptions closed_reachable.

(* tree.migrate_taxon_namespace(n) (unify_taxa_by_label=True): the tree refers to n; no node taxon is
   dropped; every new node taxon is a member of n whose label equals the old one's up to the target's case
   rule; and two nodes end on ONE taxon exactly when their old labels are equal under the target's case
   rule (so labels that differ under that rule end on DIFFERENT taxa). *)
Theorem migrate_unifies : forall (lower : lbl -> lbl) (st : state) (tr n : oid),
  valid_tree st tr = true -> valid_ns st n = true ->
  (forall x, In x (members st n) -> x < length (s_lab st)) ->
  (forall x, In x (t_refs (gettree st tr)) -> x < length (s_lab st)) ->
  let st' := fst (step lower st (MigrateTree tr n true)) in
  let refs := t_refs (gettree st tr) in
  let refs' := t_refs (gettree st' tr) in
  let k := key lower (ns_cs st n) in
  t_ns (gettree st' tr) = n /\ length refs' = length refs
  /\ (forall i, i < length refs ->
        In (nth i refs' 0) (members st' n) /\ k (label st' (nth i refs' 0)) = k (label st (nth i refs 0)))
  /\ (forall i j, i < length refs -> j < length refs ->
        (nth i refs' 0 = nth j refs' 0 <-> k (label st (nth i refs 0)) = k (label st (nth j refs 0)))).
Proof. exact migrate_unifies_l. Qed.
Print Assumptions migrate_unifies.

(* If the tree's own labels are pairwise distinct under the target's case rule whenever they are distinct at
   all, then: equal labels <-> one taxon (different labels <-> different taxa). *)
Theorem migrate_distinct_labels : forall (lower : lbl -> lbl) (st : state) (tr n : oid),
  valid_tree st tr = true -> valid_ns st n = true ->
  (forall x, In x (members st n) -> x < length (s_lab st)) ->
  (forall x, In x (t_refs (gettree st tr)) -> x < length (s_lab st)) ->
  let st' := fst (step lower st (MigrateTree tr n true)) in
  let refs := t_refs (gettree st tr) in
  let refs' := t_refs (gettree st' tr) in
  (forall i j, i < length refs -> j < length refs ->
     key lower (ns_cs st n) (label st (nth i refs 0)) = key lower (ns_cs st n) (label st (nth j refs 0)) ->
     label st (nth i refs 0) = label st (nth j refs 0)) ->
  forall i j, i < length refs -> j < length refs ->
    (label st (nth i refs 0) = label st (nth j refs 0) <-> nth i refs' 0 = nth j refs' 0).
Proof. exact migrate_distinct_l. Qed.
Print Assumptions migrate_distinct_labels.

(* without that hypothesis: the documented merge of case variants (a / A / A -> one taxon "A") *)
Theorem migrate_case_merge :
  let st := ex_state [] in
  let st' := fst (step ex_lower st (MigrateTree 3 0 true)) in
  t_refs (gettree st 3) = [5; 4; 4] /\ label st 5 <> label st 4
  /\ t_refs (gettree st' 3) = [0; 0; 0] /\ t_ns (gettree st' 3) = 0.
Proof. exact migrate_case_merge_l. Qed.
Print Assumptions migrate_case_merge.

(* the import done by TreeList.append(tree) with the default strategy, on a tree under a foreign namespace *)
Theorem append_migrate_unifies : forall (lower : lbl -> lbl) (st : state) (l tr : oid),
  valid_list st l = true -> valid_tree st tr = true ->
  t_ns (gettree st tr) <> l_ns (getlist st l) ->
  (forall x, In x (members st (l_ns (getlist st l))) -> x < length (s_lab st)) ->
  (forall x, In x (t_refs (gettree st tr)) -> x < length (s_lab st)) ->
  let n := l_ns (getlist st l) in
  let st' := fst (step lower st (Append l tr (SMigrate true))) in
  let refs := t_refs (gettree st tr) in
  let refs' := t_refs (gettree st' tr) in
  let k := key lower (ns_cs st n) in
  l_trees (getlist st' l) = l_trees (getlist st l) ++ [tr] /\ l_ns (getlist st' l) = n
  /\ t_ns (gettree st' tr) = n /\ length refs' = length refs
  /\ (forall i, i < length refs ->
        In (nth i refs' 0) (members st' n) /\ k (label st' (nth i refs' 0)) = k (label st (nth i refs 0)))
  /\ (forall i j, i < length refs -> j < length refs ->
        (nth i refs' 0 = nth j refs' 0 <-> k (label st (nth i refs 0)) = k (label st (nth j refs 0)))).
Proof. exact append_unifies_l. Qed.
Print Assumptions append_migrate_unifies.

(* TreeList.migrate_taxon_namespace(n) re-maps all member trees under ONE shared taxon_mapping_memo: the
   list and every member refer to n, no node taxon is dropped, and ACROSS all trees of the list two nodes end
   on one taxon exactly when their labels are equal under the target's case rule *)
Theorem migrate_list_unifies : forall (lower : lbl -> lbl) (st : state) (l n : oid),
  valid_list st l = true -> valid_ns st n = true -> NoDup (l_trees (getlist st l)) ->
  (forall tr, In tr (l_trees (getlist st l)) -> tr < length (s_trees st)) ->
  (forall x, In x (members st n) -> x < length (s_lab st)) ->
  (forall tr x, In tr (l_trees (getlist st l)) -> In x (t_refs (gettree st tr)) -> x < length (s_lab st)) ->
  let st' := fst (step lower st (MigrateList l n true)) in
  let k := key lower (ns_cs st n) in
  l_ns (getlist st' l) = n /\ l_trees (getlist st' l) = l_trees (getlist st l)
  /\ (forall tr, In tr (l_trees (getlist st l)) ->
        t_ns (gettree st' tr) = n /\ length (t_refs (gettree st' tr)) = length (t_refs (gettree st tr))
        /\ forall i, i < length (t_refs (gettree st tr)) ->
             In (nth i (t_refs (gettree st' tr)) 0) (members st' n)
             /\ k (label st' (nth i (t_refs (gettree st' tr)) 0)) = k (label st (nth i (t_refs (gettree st tr)) 0)))
  /\ (forall tr1 tr2 i j, In tr1 (l_trees (getlist st l)) -> In tr2 (l_trees (getlist st l)) ->
        i < length (t_refs (gettree st tr1)) -> j < length (t_refs (gettree st tr2)) ->
        (nth i (t_refs (gettree st' tr1)) 0 = nth j (t_refs (gettree st' tr2)) 0
         <-> k (label st (nth i (t_refs (gettree st tr1)) 0)) = k (label st (nth j (t_refs (gettree st tr2)) 0)))).
Proof. exact migrate_list_unifies_l. Qed.
Print Assumptions migrate_list_unifies.

(* a popped tree was a member, is left untouched, still refers to the list's namespace object (which the
   list keeps) and all its node taxa are members of it; the state stays Closed *)
Theorem removed_tree_consistent : forall (lower : lbl -> lbl) (st : state) (l : oid) (i : Z) (st' : state) (tr : oid),
  Closed st -> step lower st (Pop l i) = (st', OId tr) ->
  exists t, nth_error (s_trees st) tr = Some t /\ nth_error (s_trees st') tr = Some t
            /\ In tr (l_trees (getlist st l))
            /\ t_ns t = l_ns (getlist st l) /\ l_ns (getlist st' l) = l_ns (getlist st l)
            /\ (forall x, In x (t_refs t) -> In x (members st' (t_ns t)))
            /\ Closed st'.
Proof. exact pop_consistent_l. Qed.
Print Assumptions removed_tree_consistent.

Theorem removed_tree_consistent_remove : forall (lower : lbl -> lbl) (st : state) (l tr : oid) (st' : state),
  Closed st -> step lower st (Remove l tr) = (st', OUnit) ->
  exists t, nth_error (s_trees st) tr = Some t /\ nth_error (s_trees st') tr = Some t
            /\ In tr (l_trees (getlist st l))
            /\ t_ns t = l_ns (getlist st l) /\ l_ns (getlist st' l) = l_ns (getlist st l)
            /\ (forall x, In x (t_refs t) -> In x (members st' (t_ns t)))
            /\ Closed st'.
Proof. exact remove_consistent_l. Qed.
Print Assumptions removed_tree_consistent_remove.

(* ... and any tree object (removed or not) stays consistent with its own namespace along every
   disciplined continuation *)
Theorem removed_tree_stays_consistent : forall (lower : lbl -> lbl) (ops : list op) (st : state) (tr : oid),
  Closed st -> hist_ok lower st ops = true ->
  forall x, In x (t_refs (gettree (run_state lower st ops) tr)) ->
            In x (members (run_state lower st ops) (t_ns (gettree (run_state lower st ops) tr))).
Proof. exact tree_stays_consistent_l. Qed.
Print Assumptions removed_tree_stays_consistent.

(* ---- the unrestricted statement is false: each witness is replayed on the library by the harness ---- *)
(* closed_step without `disciplined`: TreeList.append(t) of a tree that another list holds *)
Theorem closed_step_shared_tree_refuted :
  exists (lower : lbl -> lbl) (st : state) (o : op),
    Closed st /\ disciplined st o = false /\ is_recon (snd (step lower st o)) = false
    /\ ~ Closed (fst (step lower st o)).
Proof. exact (ex_intro _ ex_lower (ex_intro _ _ (ex_intro _ _ append_shared_tree_refuted_l))). Qed.
Print Assumptions closed_step_shared_tree_refuted.

(* ... a slice shares its trees with the list: migrating the slice breaks the list *)
Theorem closed_step_migrated_slice_refuted :
  exists (lower : lbl -> lbl) (st : state) (o : op),
    Closed st /\ disciplined st o = false /\ is_recon (snd (step lower st o)) = false
    /\ ~ Closed (fst (step lower st o)).
Proof. exact (ex_intro _ ex_lower (ex_intro _ _ (ex_intro _ _ migrate_slice_refuted_l))). Qed.
Print Assumptions closed_step_migrated_slice_refuted.

(* ... DataSet.add of a list under another namespace while a namespace is attached *)
Theorem closed_step_dataset_add_refuted :
  let st := ex_state [NewDs; Attach 0 0] in
  let o := DsAdd 0 (ObjList 1) in
  Closed st /\ disciplined st o = false /\ is_recon (snd (step ex_lower st o)) = false
  /\ ~ Closed (fst (step ex_lower st o)).
Proof. exact dataset_add_foreign_refuted_l. Qed.
Print Assumptions closed_step_dataset_add_refuted.

(* ... attach_taxon_namespace on a data set that already holds a component under another namespace *)
Theorem closed_step_dataset_attach_refuted :
  let st := ex_state [NewDs; DsAdd 0 (ObjList 1)] in
  let o := Attach 0 0 in
  Closed st /\ disciplined st o = false /\ is_recon (snd (step ex_lower st o)) = false
  /\ ~ Closed (fst (step ex_lower st o)).
Proof. exact dataset_attach_foreign_refuted_l. Qed.
Print Assumptions closed_step_dataset_attach_refuted.

(* ... purge_taxon_namespace while another list uses the same namespace *)
Theorem closed_step_purge_refuted :
  let st := ex_state [Append 0 0 (SMigrate true); NewList 0; Append 3 1 (SMigrate true)] in
  let o := PurgeList 0 in
  Closed st /\ disciplined st o = false /\ is_recon (snd (step ex_lower st o)) = false
  /\ ~ Closed (fst (step ex_lower st o)).
Proof. exact purge_shared_namespace_refuted_l. Qed.
Print Assumptions closed_step_purge_refuted.

(* closed_step without the error proviso: inside the discipline, CharacterMatrix.migrate_taxon_namespace
   raises TaxonNamespaceReconstructionError half-way and leaves the matrix outside its namespace *)
Theorem closed_step_reconstruction_error_refuted :
  let st := ex_state [NewMat 2; NewSeq 0 4; NewSeq 0 5] in
  let o := MigrateMat 0 0 true in
  Closed st /\ disciplined st o = true /\ snd (step ex_lower st o) = ORecon
  /\ ~ Closed (fst (step ex_lower st o)).
Proof. exact matrix_reconstruction_error_refuted_l. Qed.
Print Assumptions closed_step_reconstruction_error_refuted.

Theorem closed_step_unify_error_refuted :
  let st := ex_state [NewMat 2; NewSeq 0 4; NewSeq 0 5; NewDs; DsAdd 0 (ObjMat 0); DsAdd 0 (ObjList 0)] in
  let o := Unify 0 None true in
  Closed st /\ disciplined st o = true /\ snd (step ex_lower st o) = ORecon
  /\ ~ Closed (fst (step ex_lower st o)).
Proof. exact unify_reconstruction_error_refuted_l. Qed.
Print Assumptions closed_step_unify_error_refuted.

(* the memo-resolved branch of the matrix reconstruction (unify_taxon_namespaces hands the memo filled by the
   tree lists to the matrices): a second row that the memo sends to an occupied taxon is refused with
   TaxonNamespaceReconstructionError, it does not overwrite the first - both rows are still there *)
Theorem unify_shared_memo_collision :
  let st := ex_state [Append 2 2 (SMigrate true); NewMat 2; NewSeq 0 4; NewSeq 0 5; NewDs;
                      DsAdd 0 (ObjList 2); DsAdd 0 (ObjMat 0)] in
  let o := Unify 0 None true in
  Closed st /\ disciplined st o = true /\ snd (step ex_lower st o) = ORecon
  /\ m_rows (getmat st 0) = [4; 5] /\ t_refs (gettree (fst (step ex_lower st o)) 2) = [6; 6]
  /\ m_rows (getmat (fst (step ex_lower st o)) 0) = [5; 6].
Proof. exact unify_shared_memo_collision_l. Qed.
Print Assumptions unify_shared_memo_collision.

(* ---- non-vacuity ---- *)
(* a 62-step history that keeps to the discipline and uses every kind of operation *)
Theorem hist_ok_example :
  hist_ok ex_lower st_init (ex_base ++ ex_history) = true
  /\ length (s_trees (run_state ex_lower st_init (ex_base ++ ex_history))) = 22
  /\ length (s_lab (run_state ex_lower st_init (ex_base ++ ex_history))) = 19.
Proof. exact hist_ok_example_l. Qed.
Print Assumptions hist_ok_example.

(* the hypotheses of migrate_unifies hold where the migration re-maps taxa (a, C -> A, new C) *)
Theorem migrate_unifies_example :
  let st := ex_state [] in
  valid_tree st 1 = true /\ valid_ns st 0 = true
  /\ (forall x, In x (members st 0) -> x < length (s_lab st))
  /\ (forall x, In x (t_refs (gettree st 1)) -> x < length (s_lab st))
  /\ t_ns (gettree st 1) = 1 /\ t_refs (gettree st 1) = [2; 3]
  /\ t_refs (gettree (fst (step ex_lower st (MigrateTree 1 0 true))) 1) = [0; 6].
Proof. exact migrate_unifies_example_l. Qed.
Print Assumptions migrate_unifies_example.

Theorem removed_tree_example :
  let st := ex_state [Append 0 1 (SMigrate true); Append 0 2 SAdd] in
  Closed st /\ step ex_lower st (Pop 0 (-1)%Z) = (fst (step ex_lower st (Pop 0 (-1)%Z)), OId 2).
Proof. exact pop_example_l. Qed.
Print Assumptions removed_tree_example.

(* ==== translator tie ====
   coq/Gen/Containers.v is regenerated on every run from the AST of the current Python source
   (py/dv/gen_containers.py; primitives with their assumed Python semantics: coq/Model/C11Prims.v).
   The theorems below say that the translated methods compute exactly the corresponding case of the
   hand-written `step` - same resulting state (also when the call raises), same outcome.
   `strat_str` / `strat_kw` are the arguments the harness passes for a model strategy
   (taxon_import_strategy=..., unify_taxa_by_label=...); `obs_unit` / `obs_id` map the result of a call to the
   outcome the harness observes (Ok -> OUnit / OId, exception class -> OErr, TaxonNamespaceReconstructionError
   -> ORecon, non-termination -> OErr Hang).  Preconditions are the validity checks `step` itself makes, that
   member handles exist (part of Closed) and, for matrices, that the row keys are distinct (dict keys). *)

(* Tree.reconstruct_taxon_namespace = the model's recon_refs loop + write-back *)
Theorem gen_Tree_reconstruct_taxon_namespace : forall (lower : lbl -> lbl) st tr u om,
  py_Tree_reconstruct_taxon_namespace lower st tr u om
  = let n := t_ns (gettree st tr) in
    let '(s1, refs', memo') := recon_refs lower st n u (t_refs (gettree st tr)) (kw_default om []) in
    (set_tree s1 tr (mkTree n refs'), Ok memo').
Proof. exact gen_Tree_reconstruct. Qed.
Print Assumptions gen_Tree_reconstruct_taxon_namespace.

(* Tree._clone_from (behind extend / += / + / slice assignment from a TreeList) = clone_tree *)
Theorem gen_Tree__clone_from : forall (lower : lbl -> lbl) st tr n,
  py_Tree__clone_from lower st tt tr (Some n)
  = (fst (clone_tree lower st tr n), Ok (snd (clone_tree lower st tr n))).
Proof. exact gen_Tree_clone_from. Qed.
Print Assumptions gen_Tree__clone_from.

(* CharacterMatrix.reconstruct_taxon_namespace = the model's recon_rows loop (incl. the collision check on
   every branch: fresh look-up, new taxon, memo hit) *)
Theorem gen_CharacterMatrix_reconstruct_taxon_namespace : forall (lower : lbl -> lbl) st m u om,
  m < length (s_mats st) -> NoDup (m_rows (getmat st m)) ->
  py_CharacterMatrix_reconstruct_taxon_namespace lower st m u om
  = let n := m_ns (getmat st m) in
    let rows := m_rows (getmat st m) in
    let '(st1, rows', memo', ok) := recon_rows lower st n u rows rows (kw_default om []) in
    (set_mat st1 m (mkMat n rows'), if ok then Ok memo' else Err OtherErr).
Proof. exact gen_CM_reconstruct. Qed.
Print Assumptions gen_CharacterMatrix_reconstruct_taxon_namespace.

Theorem gen_step_Append : forall (lower : lbl -> lbl) st l tr s,
  valid_list st l && valid_tree st tr = true ->
  step lower st (Append l tr s) = obs_unit (py_TreeList_append lower st l tr (strat_str s) (strat_kw s)).
Proof. exact step_Append_gen. Qed.
Print Assumptions gen_step_Append.

Theorem gen_step_Insert : forall (lower : lbl -> lbl) st l i tr s,
  valid_list st l && valid_tree st tr = true ->
  step lower st (Insert l i tr s) = obs_unit (py_TreeList_insert lower st l i tr (strat_str s) (strat_kw s)).
Proof. exact step_Insert_gen. Qed.
Print Assumptions gen_step_Insert.

Theorem gen_step_Extend : forall (lower : lbl -> lbl) st l s,
  valid_list st l && valid_src st s = true ->
  step lower st (Extend l s) = obs_unit (py_TreeList_extend lower st l s).
Proof. exact step_Extend_gen. Qed.
Print Assumptions gen_step_Extend.

Theorem gen_step_IAdd : forall (lower : lbl -> lbl) st l s,
  valid_list st l && valid_src st s = true ->
  step lower st (IAdd l s) = obs_unit (py_TreeList___iadd__ lower st l s).
Proof. exact step_IAdd_gen. Qed.
Print Assumptions gen_step_IAdd.

Theorem gen_step_AddOp : forall (lower : lbl -> lbl) st l s,
  valid_list st l && valid_src st s = true ->
  step lower st (AddOp l s) = obs_id (py_TreeList___add__ lower st l s).
Proof. exact step_AddOp_gen. Qed.
Print Assumptions gen_step_AddOp.

Theorem gen_step_SetItem : forall (lower : lbl -> lbl) st l i tr,
  valid_list st l && valid_tree st tr = true ->
  step lower st (SetItem l i tr) = obs_unit (py_TreeList___setitem__ lower st l (IdxInt i) (tr, SrcTrees [])).
Proof. exact step_SetItem_gen. Qed.
Print Assumptions gen_step_SetItem.

Theorem gen_step_SetSlice : forall (lower : lbl -> lbl) st l a b s,
  valid_list st l && valid_src st s = true ->
  step lower st (SetSlice l a b s) = obs_unit (py_TreeList___setitem__ lower st l (IdxSlice a b) (0, s)).
Proof. exact step_SetSlice_gen. Qed.
Print Assumptions gen_step_SetSlice.

Theorem gen_step_GetSlice : forall (lower : lbl -> lbl) st l a b,
  valid_list st l = true ->
  (forall tr, In tr (l_trees (getlist st l)) -> tr < length (s_trees st)) ->
  step lower st (GetSlice l a b) = obs_id (py_TreeList___getitem__ lower st l (IdxSlice a b)).
Proof. exact step_GetSlice_gen. Qed.
Print Assumptions gen_step_GetSlice.

Theorem gen_step_NewTreeIn : forall (lower : lbl -> lbl) st l nsarg refs,
  valid_list st l && valid_nsopt st nsarg && forallb (valid_taxon st) refs = true ->
  step lower st (NewTreeIn l nsarg refs) = obs_id (py_TreeList_new_tree st l (nsarg, refs)).
Proof. exact step_NewTreeIn_gen. Qed.
Print Assumptions gen_step_NewTreeIn.

Theorem gen_step_Pop : forall (lower : lbl -> lbl) st l i,
  valid_list st l = true -> step lower st (Pop l i) = obs_id (py_TreeList_pop st l i).
Proof. exact step_Pop_gen. Qed.
Print Assumptions gen_step_Pop.

Theorem gen_step_Remove : forall (lower : lbl -> lbl) st l tr,
  valid_list st l && valid_tree st tr = true -> step lower st (Remove l tr) = obs_unit (py_TreeList_remove st l tr).
Proof. exact step_Remove_gen. Qed.
Print Assumptions gen_step_Remove.

Theorem gen_step_MigrateTree : forall (lower : lbl -> lbl) st tr n u,
  valid_tree st tr && valid_ns st n = true ->
  step lower st (MigrateTree tr n u) = obs_unit (py_Tree_migrate_taxon_namespace lower st tr (Some n) u None).
Proof. exact step_MigrateTree_gen. Qed.
Print Assumptions gen_step_MigrateTree.

Theorem gen_step_ReconstructTree : forall (lower : lbl -> lbl) st tr u,
  valid_tree st tr = true ->
  step lower st (ReconstructTree tr u) = obs_unit (py_Tree_reconstruct_taxon_namespace lower st tr u None).
Proof. exact step_ReconstructTree_gen. Qed.
Print Assumptions gen_step_ReconstructTree.

Theorem gen_step_UpdateTree : forall (lower : lbl -> lbl) st tr,
  valid_tree st tr = true -> step lower st (UpdateTree tr) = obs_unit (py_Tree_update_taxon_namespace st tr).
Proof. exact step_UpdateTree_gen. Qed.
Print Assumptions gen_step_UpdateTree.

Theorem gen_step_MigrateList : forall (lower : lbl -> lbl) st l n u,
  valid_list st l && valid_ns st n = true -> (forall tr, In tr (l_trees (getlist st l)) -> tr < length (s_trees st)) ->
  step lower st (MigrateList l n u) = obs_unit (py_TreeList_migrate_taxon_namespace lower st l (Some n) u None).
Proof. exact step_MigrateList_gen. Qed.
Print Assumptions gen_step_MigrateList.

Theorem gen_step_ReconstructList : forall (lower : lbl -> lbl) st l u,
  valid_list st l = true -> (forall tr, In tr (l_trees (getlist st l)) -> tr < length (s_trees st)) ->
  step lower st (ReconstructList l u) = obs_unit (py_TreeList_reconstruct_taxon_namespace lower st l u None).
Proof. exact step_ReconstructList_gen. Qed.
Print Assumptions gen_step_ReconstructList.

Theorem gen_step_UpdateList : forall (lower : lbl -> lbl) st l,
  valid_list st l = true -> (forall tr, In tr (l_trees (getlist st l)) -> tr < length (s_trees st)) ->
  step lower st (UpdateList l) = obs_unit (py_TreeList_update_taxon_namespace st l).
Proof. exact step_UpdateList_gen. Qed.
Print Assumptions gen_step_UpdateList.

Theorem gen_step_MigrateMat : forall (lower : lbl -> lbl) st m n u,
  valid_mat st m && valid_ns st n = true -> NoDup (m_rows (getmat st m)) ->
  step lower st (MigrateMat m n u) = obs_unit (py_CharacterMatrix_migrate_taxon_namespace lower st m (Some n) u None).
Proof. exact step_MigrateMat_gen. Qed.
Print Assumptions gen_step_MigrateMat.

Theorem gen_step_ReconstructMat : forall (lower : lbl -> lbl) st m u,
  valid_mat st m = true -> NoDup (m_rows (getmat st m)) ->
  step lower st (ReconstructMat m u) = obs_unit (py_CharacterMatrix_reconstruct_taxon_namespace lower st m u None).
Proof. exact step_ReconstructMat_gen. Qed.
Print Assumptions gen_step_ReconstructMat.

Theorem gen_step_UpdateMat : forall (lower : lbl -> lbl) st m,
  valid_mat st m = true -> step lower st (UpdateMat m) = obs_unit (py_CharacterMatrix_update_taxon_namespace st m).
Proof. exact step_UpdateMat_gen. Qed.
Print Assumptions gen_step_UpdateMat.

Theorem gen_step_NewSeq : forall (lower : lbl -> lbl) st m x,
  valid_mat st m && valid_taxon st x = true ->
  step lower st (NewSeq m x) = obs_unit (py_CharacterMatrix_new_sequence st m x tt).
Proof. exact step_NewSeq_gen. Qed.
Print Assumptions gen_step_NewSeq.

Theorem gen_step_SetRow : forall (lower : lbl -> lbl) st m k,
  valid_mat st m && match k with KeyTaxon x => valid_taxon st x | _ => true end = true ->
  step lower st (SetRow m k) = obs_unit (py_CharacterMatrix___setitem__ lower st m k tt).
Proof. exact step_SetRow_gen. Qed.
Print Assumptions gen_step_SetRow.

Theorem gen_step_Attach : forall (lower : lbl -> lbl) st d n,
  valid_ds st d && valid_ns st n = true ->
  step lower st (Attach d n) = obs_unit (py_DataSet_attach_taxon_namespace st d (Some n)).
Proof. exact step_Attach_gen. Qed.
Print Assumptions gen_step_Attach.

Theorem gen_step_DsAdd : forall (lower : lbl -> lbl) st d o,
  valid_ds st d = true ->
  match o with ObjNs n => valid_ns st n | ObjList l => valid_list st l | ObjMat m => valid_mat st m end = true ->
  step lower st (DsAdd d o) = obs_unit (py_DataSet_add st d o).
Proof. exact step_DsAdd_gen. Qed.
Print Assumptions gen_step_DsAdd.

(* DataSet.unify_taxon_namespaces: the tree lists first, then the matrices, ONE memo *)
Theorem gen_step_Unify : forall (lower : lbl -> lbl) st d nsarg attach,
  valid_ds st d && valid_nsopt st nsarg = true ->
  (forall l, In l (d_lists (getds st d)) -> l < length (s_lists st)) ->
  (forall l tr, In l (d_lists (getds st d)) -> In tr (l_trees (getlist st l)) -> tr < length (s_trees st)) ->
  NoDup (d_mats (getds st d)) ->
  (forall m, In m (d_mats (getds st d)) -> m < length (s_mats st) /\ NoDup (m_rows (getmat st m))) ->
  step lower st (Unify d nsarg attach) = obs_unit (py_DataSet_unify_taxon_namespaces lower st d nsarg true attach).
Proof. exact step_Unify_gen. Qed.
Print Assumptions gen_step_Unify.

(* purge_taxon_namespace: the code removes the un-polled taxa one by one, the model filters the member list
   once: same objects, same members of every namespace (`state_eqv`), same outcome *)
Theorem gen_step_PurgeTree : forall (lower : lbl -> lbl) st tr,
  valid_tree st tr = true -> NoDup (members st (t_ns (gettree st tr))) ->
  snd (py_Tree_purge_taxon_namespace st tr) = Ok tt
  /\ snd (step lower st (PurgeTree tr)) = OUnit
  /\ state_eqv (fst (py_Tree_purge_taxon_namespace st tr)) (fst (step lower st (PurgeTree tr))).
Proof. exact step_PurgeTree_gen. Qed.
Print Assumptions gen_step_PurgeTree.

Theorem gen_step_PurgeList : forall (lower : lbl -> lbl) st l,
  valid_list st l = true -> NoDup (members st (l_ns (getlist st l))) ->
  snd (py_TreeList_purge_taxon_namespace st l) = Ok tt
  /\ snd (step lower st (PurgeList l)) = OUnit
  /\ state_eqv (fst (py_TreeList_purge_taxon_namespace st l)) (fst (step lower st (PurgeList l))).
Proof. exact step_PurgeList_gen. Qed.
Print Assumptions gen_step_PurgeList.

Theorem gen_step_PurgeMat : forall (lower : lbl -> lbl) st m,
  valid_mat st m = true -> NoDup (members st (m_ns (getmat st m))) ->
  snd (py_CharacterMatrix_purge_taxon_namespace st m) = Ok tt
  /\ snd (step lower st (PurgeMat m)) = OUnit
  /\ state_eqv (fst (py_CharacterMatrix_purge_taxon_namespace st m)) (fst (step lower st (PurgeMat m))).
Proof. exact step_PurgeMat_gen. Qed.
Print Assumptions gen_step_PurgeMat.

(* ================= wave 7: shallow copies of containers, caller-owned memos ================= *)
(* Model/C11W7Model.v extends the history language: `step7 lower x o : xstate * out` over
   x = (state of C11Model, store of memo objects); op7 = Base (every operation above) | FreeTaxon | NewMemo |
   CopyMat | CopyList (copy.copy / clone(0)) | AppendM | InsertM | MigrateTreeM | ReconstructTreeM |
   MigrateListM | ReconstructListM | MigrateMatM | ReconstructMatM (the documented keyword
   taxon_mapping_memo=<memo object k>, filled in place, re-usable across namespaces). *)
From DV Require Import Model.C11W7Model Model.C11ObjModel Proofs.C11W7 Proofs.C11W7b Proofs.C11W7Obj Proofs.C11W7Examples.
From DV Require Import Model.C11ObjPrims Gen.ContainersCopyObj Proofs.C11GenCopyObj.

(* the closure invariant is preserved by every operation of the extended language, under the discipline of
   the operation without the keyword and the same error proviso: whatever the caller's memo contains *)
Theorem closed_step7 : forall (lower : lbl -> lbl) (x : xstate) (o : op7),
  Closed (x_st x) -> disciplined7 x o = true -> snd (step7 lower x o) <> ORecon ->
  Closed (x_st (fst (step7 lower x o))).
Proof. exact closed_step7_l. Qed.
Print Assumptions closed_step7.

Theorem closed_reachable7 : forall (lower : lbl -> lbl) (ops : list op7),
  hist_ok7 lower x_init ops = true -> Closed (x_st (run_state7 lower x_init ops)).
Proof. exact closed_reachable7_l. Qed.
Print Assumptions closed_reachable7.

(* the old language is the Base fragment: same state change, same outcome, memo store untouched *)
Theorem base_step7 : forall (lower : lbl -> lbl) (x : xstate) (o : op),
  step7 lower x (Base o) = (mkX (fst (step lower (x_st x) o)) (x_memos x), snd (step lower (x_st x) o)).
Proof. exact base_step_l. Qed.
Print Assumptions base_step7.

(* non-vacuity: five histories over the extended language (matrix copy then migrate / unify one of the two;
   tree-list copy; explicit mapping to a free Taxon through append / insert / Tree.migrate; one memo carried
   across three namespaces; matrix migrations under a memo) keep to the discipline *)
Theorem hist_ok7_example :
  hist_ok7 w7_lower x_init w7_history0 = true /\ hist_ok7 w7_lower x_init w7_history1 = true
  /\ hist_ok7 w7_lower x_init w7_history2 = true /\ hist_ok7 w7_lower x_init w7_history3 = true
  /\ hist_ok7 w7_lower x_init (firstn 24 w7_history4) = true
  /\ length (s_mats (x_st (run_state7 w7_lower x_init w7_history0))) = 3
  /\ length (x_memos (run_state7 w7_lower x_init w7_history4)) = 2.
Proof. exact w7_hist_ok_l. Qed.
Print Assumptions hist_ok7_example.

(* ---- the caller's memo (seeded change C11-8 removes exactly the clause `In t (members ...)`) ----
   tree.migrate_taxon_namespace(n, unify_taxa_by_label=True, taxon_mapping_memo=memo k), whatever the memo
   contains: the call succeeds, the tree refers to n, EVERY node taxon is a member of n afterwards, a node
   whose taxon a is a key of the memo carries the memo's value t - and t is a member of n -, and no entry
   the caller supplied is overwritten *)
Theorem memo_supplied_taxon_is_member : forall (lower : lbl -> lbl) (x : xstate) (tr n k : oid),
  valid_tree (x_st x) tr = true -> valid_ns (x_st x) n = true -> valid_memo x k = true ->
  let x' := fst (step7 lower x (MigrateTreeM tr n true k)) in
  snd (step7 lower x (MigrateTreeM tr n true k)) = OUnit
  /\ t_ns (gettree (x_st x') tr) = n
  /\ (forall y, In y (t_refs (gettree (x_st x') tr)) -> In y (members (x_st x') n))
  /\ (forall i a t, nth_error (t_refs (gettree (x_st x) tr)) i = Some a -> alookup a (getmemo x k) = Some t ->
        nth_error (t_refs (gettree (x_st x') tr)) i = Some t /\ In t (members (x_st x') n))
  /\ (forall a t, alookup a (getmemo x k) = Some t -> alookup a (getmemo x' k) = Some t).
Proof. exact migrate_tree_memo_step_l. Qed.
Print Assumptions memo_supplied_taxon_is_member.

(* its hypotheses hold in a state where the memo's target is a free Taxon, in no namespace before the call *)
Theorem memo_supplied_taxon_example :
  let x := run_state7 w7_lower x_init (firstn 18 w7_history2) in
  valid_tree (x_st x) 1 = true /\ valid_ns (x_st x) 0 = true /\ valid_memo x 0 = true
  /\ nth_error (t_refs (gettree (x_st x) 1)) 0 = Some 2 /\ alookup 2 (getmemo x 0) = Some 6
  /\ memb 6 (members (x_st x) 0) = false
  /\ memb 6 (members (x_st (fst (step7 w7_lower x (MigrateTreeM 1 0 true 0)))) 0) = true
  /\ t_refs (gettree (x_st (fst (step7 w7_lower x (MigrateTreeM 1 0 true 0)))) 1) = [6; 6].
Proof. exact w7_memo_example_l. Qed.
Print Assumptions memo_supplied_taxon_example.

(* ---- frame: an operation on one matrix object changes no other matrix object ---- *)
Theorem matrix_op_frame : forall (lower : lbl -> lbl) (x : xstate) (o : op7) (m j : oid),
  mat_target o = Some m -> j <> m -> j < length (s_mats (x_st x)) ->
  nth_error (s_mats (x_st (fst (step7 lower x o)))) j = nth_error (s_mats (x_st x)) j.
Proof. exact matrix_op_frame_l. Qed.
Print Assumptions matrix_op_frame.

(* copy.copy(m) / m.clone(0) returns a new matrix c with m's namespace and row keys, m is untouched, and every
   later new_sequence / [] = / migrate_ / reconstruct_ / update_ / purge_taxon_namespace (with or without memo)
   / copy applied to one of the two leaves the other one exactly as it was *)
Theorem shallow_copy_independent : forall (lower : lbl -> lbl) (x : xstate) (m : oid),
  valid_mat (x_st x) m = true ->
  let x1 := fst (step7 lower x (CopyMat m)) in
  let c := length (s_mats (x_st x)) in
  snd (step7 lower x (CopyMat m)) = OId c
  /\ getmat (x_st x1) c = getmat (x_st x) m
  /\ getmat (x_st x1) m = getmat (x_st x) m
  /\ (forall o, mat_target o = Some c -> getmat (x_st (fst (step7 lower x1 o))) m = getmat (x_st x) m)
  /\ (forall o, mat_target o = Some m -> getmat (x_st (fst (step7 lower x1 o))) c = getmat (x_st x) m).
Proof. exact shallow_copy_independent_l. Qed.
Print Assumptions shallow_copy_independent.

(* ---- object level (Model/C11ObjModel.v): matrices hold a reference to a dict object, operations mutate
   that object in place; __copy__ transcribed as in the library (fresh dict, entries copied) ---- *)
(* no dict object is held by two matrix objects, in any state of any history of the library's operations *)
Theorem no_row_dict_shared : forall (lower : lbl -> lbl) (ops : list oop),
  forallb oop_ok ops = true ->
  let os := o_run lower o_init ops in
  NoDup (map om_dict (o_mats os)) /\ (forall om, In om (o_mats os) -> om_dict om < length (o_dicts os)).
Proof. intros lower ops H. exact (no_dict_shared_history_l lower ops o_init H no_dict_shared_init). Qed.
Print Assumptions no_row_dict_shared.

(* and therefore the object level, read through the dict store, is the value level: the closure theorems
   above are theorems about the matrix OBJECTS *)
Theorem object_level_refines_value_level : forall (lower : lbl -> lbl) (ops : list oop) (os : ostate) (mm : list memo),
  forallb oop_ok ops = true ->
  (NoDup (map om_dict (o_mats os)) /\ (forall om, In om (o_mats os) -> om_dict om < length (o_dicts os))) ->
  read (o_run lower os ops) = x_st (run_state7 lower (mkX (read os) mm) (map embed ops)).
Proof. exact object_level_refines_value_level_l. Qed.
Print Assumptions object_level_refines_value_level.

Theorem faithful_copy_example :
  let os := o_run al_lower o_init (al_prefix ++ [OCopy 0; OOn (MigrateMat 1 1 true)]) in
  no_dict_sharedb os = true /\ closedb (read os) = true
  /\ getmat (read os) 0 = mkMat 0 [0; 1] /\ getmat (read os) 1 = mkMat 1 [2; 3].
Proof. exact faithful_copy_example_l. Qed.
Print Assumptions faithful_copy_example.

(* with `other._taxon_sequence_map = self._taxon_sequence_map` (seeded change C11-7) the invariant fails at the
   copy, and migrating the COPY re-keys the ORIGINAL: it keeps ns0 but its rows are taxa of ns1 - not Closed,
   and not what the value level computes *)
Theorem aliasing_copy_refuted :
  let os1 := o_run al_lower o_init (al_prefix ++ [OCopyAlias 0]) in
  let os2 := o_step al_lower os1 (OOn (MigrateMat 1 1 true)) in
  ~ (NoDup (map om_dict (o_mats os1)) /\ (forall om, In om (o_mats os1) -> om_dict om < length (o_dicts os1)))
  /\ Closed (read os1)
  /\ getmat (read os2) 0 = mkMat 0 [2; 3]
  /\ ~ Closed (read os2)
  /\ read os2 <> x_st (fst (step7 al_lower (mkX (read os1) []) (embed (OOn (MigrateMat 1 1 true))))).
Proof. exact alias_copy_refuted_l. Qed.
Print Assumptions aliasing_copy_refuted.

(* translator tie, object level: the code generated on every run from the CURRENT text of
   CharacterMatrix.__copy__ (py/dv/gen_containers_copy_obj.py -> coq/Gen/ContainersCopyObj.v) is the OCopy step of
   the object-level model - a new dict object, filled with the source's entries - for every receiver that exists
   and holds a dict (whose keys, as in any Python dict, are pairwise different).  If __copy__ binds the source's
   dict instead, the generated code is o_rebind_dict and this theorem no longer compiles. *)
Theorem gen_copy_obj : forall (lower : lbl -> lbl) (os : ostate) (m : oid),
  m < length (o_mats os) -> om_dict (nth m (o_mats os) domat) < length (o_dicts os) ->
  NoDup (nth (om_dict (nth m (o_mats os) domat)) (o_dicts os) []) ->
  py_CharacterMatrix___copy__ os m = (o_step lower os (OCopy m), length (o_mats os)).
Proof. exact gen_copy_obj_l. Qed.
Print Assumptions gen_copy_obj.

Theorem gen_copy_obj_example :
  let os := o_run al_lower o_init al_prefix in
  0 < length (o_mats os) /\ om_dict (nth 0 (o_mats os) domat) < length (o_dicts os)
  /\ NoDup (nth (om_dict (nth 0 (o_mats os) domat)) (o_dicts os) [])
  /\ o_dicts (fst (py_CharacterMatrix___copy__ os 0)) = [[0; 1]; [0; 1]]
  /\ map om_dict (o_mats (fst (py_CharacterMatrix___copy__ os 0))) = [0; 1].
Proof. exact gen_copy_obj_example_l. Qed.
Print Assumptions gen_copy_obj_example.

(* ================= wave 8: refused calls; first matching member ================= *)
(* Model/C11W8Model.v: op8 = Op7 (every operation above) | BadKw o (the call o with one more keyword the API
   does not know, unify_taxa_by_labels=True: TypeError where Python / Tree.migrate_taxon_namespace sees it -
   always for the closed signatures, for TreeList.append / insert only on the 'migrate' branch of a tree under
   another namespace -, the plain call where the keyword is never looked at). *)
From DV Require Import Model.C11W8Model Proofs.C11W8 Proofs.C11W8First Proofs.C11W8Examples.

Theorem closed_step8 : forall (lower : lbl -> lbl) (x : xstate) (o : op8),
  Closed (x_st x) -> disciplined8 x o = true -> snd (step8 lower x o) <> ORecon ->
  Closed (x_st (fst (step8 lower x o))).
Proof. exact closed_step8_l. Qed.
Print Assumptions closed_step8.

Theorem closed_reachable8 : forall (lower : lbl -> lbl) (ops : list op8),
  hist_ok8 lower x_init ops = true -> Closed (x_st (run_state8 lower x_init ops)).
Proof. exact closed_reachable8_l. Qed.
Print Assumptions closed_reachable8.

Theorem op7_step8 : forall (lower : lbl -> lbl) (x : xstate) (o : op7), step8 lower x (Op7 o) = step7 lower x o.
Proof. exact op7_step8_l. Qed.
Print Assumptions op7_step8.

(* A refused operation changes nothing (seeded change C11-9 breaks exactly this for append / insert): when a call
   of the class - any call with the unknown keyword; append / insert with or without a memo (unknown
   taxon_import_strategy); new_tree with a foreign taxon_namespace; pop / remove; TreeArray.add_tree of a tree
   under another namespace; new_sequence / []= on a matrix; DataSet.new_tree_list / new_char_matrix with a
   namespace that is not the attached one - ends in an exception, the WHOLE state (every namespace, tree, list,
   matrix, data set, the taxon registry, every memo object) is what it was before the call. *)
Theorem refused_changes_nothing : forall (lower : lbl -> lbl) (x : xstate) (o : op8),
  refusal_class o = true -> is_err (snd (step8 lower x o)) = true -> fst (step8 lower x o) = x.
Proof. exact refused_changes_nothing_l. Qed.
Print Assumptions refused_changes_nothing.

(* the unknown keyword IS refused on the migrate branch: list.append(tree under another namespace,
   unify_taxa_by_labels=True) raises TypeError and nothing has changed (so the corrected call that follows is a
   first call) *)
Theorem badkw_append_refused : forall (lower : lbl -> lbl) (x : xstate) (l tr : oid) (u : bool),
  valid_list (x_st x) l = true -> valid_tree (x_st x) tr = true ->
  t_ns (gettree (x_st x) tr) <> l_ns (getlist (x_st x) l) ->
  step8 lower x (BadKw (Base (Append l tr (SMigrate u)))) = (x, OErr TypeErr).
Proof. exact badkw_append_refused_l. Qed.
Print Assumptions badkw_append_refused.

(* either the plain call, or nothing at all *)
Theorem badkw_plain_or_nothing : forall (lower : lbl -> lbl) (x : xstate) (o : op7),
  step8 lower x (BadKw o) = step7 lower x o
  \/ (fst (step8 lower x (BadKw o)) = x
      /\ (snd (step8 lower x (BadKw o)) = OBadArg \/ snd (step8 lower x (BadKw o)) = OErr TypeErr)).
Proof. exact step8_badkw_cases. Qed.
Print Assumptions badkw_plain_or_nothing.

(* non-vacuity: the four fixed wave-8 histories (replayed on the library on every run) keep to the discipline,
   9 resp. 11 of their steps are refused calls, and after history 0 namespace 0 holds six taxa (labels twice) *)
Theorem hist_ok8_example :
  hist_ok8 w8_lower x_init w8_history0 = true /\ hist_ok8 w8_lower x_init w8_history1 = true
  /\ hist_ok8 w8_lower x_init w8_history2 = true /\ hist_ok8 w8_lower x_init w8_history3 = true
  /\ n_refused w8_history2 = 9 /\ n_refused w8_history3 = 11
  /\ length (members (x_st (run_state8 w8_lower x_init w8_history0)) 0) = 6.
Proof. exact w8_hist_ok_l. Qed.
Print Assumptions hist_ok8_example.

Theorem refused_example :
  let x := run_state8 w8_lower x_init (firstn 16 w8_history2) in
  let o := Op7 (Base (Append 0 1 SBogus)) in
  refusal_class o = true /\ is_err (snd (step8 w8_lower x o)) = true /\ nth_error w8_history2 16 = Some o.
Proof. exact w8_refused_example_l. Qed.
Print Assumptions refused_example.

Theorem badkw_example :
  let x := run_state8 w8_lower x_init (firstn 18 w8_history2) in
  valid_list (x_st x) 0 = true /\ valid_tree (x_st x) 2 = true
  /\ t_ns (gettree (x_st x) 2) = 2 /\ l_ns (getlist (x_st x) 0) = 0
  /\ nth_error w8_history2 18 = Some (BadKw (Base (Insert 0 0%Z 2 (SMigrate true)))).
Proof. exact w8_badkw_example_l. Qed.
Print Assumptions badkw_example.

(* ---- every import route resolves a label to the FIRST matching member (seeded change C11-10 makes the clone
   route take the last one; the translated Tree._clone_from is tied to clone_memo by gen_Tree__clone_from) ----
   clone route: Tree(t0, taxon_namespace=n) maps every member x of the source namespace (ms) to
   n.require_taxon(x.label); in the namespace as it is after the call that is the first member matching x's label *)
Theorem clone_resolves_first_match : forall (lower : lbl -> lbl) (st : state) (n : oid) (ms : list oid)
    (st' : state) (memo : list (oid * oid)),
  (forall x, In x (members st n) -> x < length (s_lab st)) ->
  (forall x, In x ms -> x < length (s_lab st)) ->
  clone_memo lower st n ms [] = (st', memo) ->
  forall x t, alookup x memo = Some t -> first_match lower st' n (ns_cs st' n) (label st' x) = Some t.
Proof. exact clone_resolves_first_match_l. Qed.
Print Assumptions clone_resolves_first_match.

(* migrate route: Tree.reconstruct_taxon_namespace(unify_taxa_by_label=True) over the node taxa refs: node i ends
   on the first member matching the label of the taxon it carried *)
Theorem migrate_resolves_first_match : forall (lower : lbl -> lbl) (st : state) (n : oid) (refs : list oid)
    (st' : state) (refs' : list oid) (memo' : list (oid * oid)),
  (forall x, In x (members st n) -> x < length (s_lab st)) ->
  (forall x, In x refs -> x < length (s_lab st)) ->
  recon_refs lower st n true refs [] = (st', refs', memo') ->
  length refs' = length refs
  /\ forall i, i < length refs ->
       first_match lower st' n (ns_cs st' n) (label st' (nth i refs 0)) = Some (nth i refs' 0).
Proof. exact migrate_resolves_first_match_l. Qed.
Print Assumptions migrate_resolves_first_match.

(* non-vacuity, and the route that does NOT: in the state after the two ADDs of history 0 (namespace 0 = A B a C A a,
   case-insensitive) both routes put the label a on taxon 0, the readers' symbol table (read_refs) on taxon 5 *)
Theorem first_match_example :
  members w8_dup_state 0 = [0; 1; 2; 3; 4; 5] /\ members w8_dup_state 3 = [6; 7; 8]
  /\ map (label w8_dup_state) [0; 1; 2; 3; 4; 5; 6; 7; 8] = [0; 1; 3; 2; 0; 3; 3; 2; 1]
  /\ forallb (fun x => Nat.ltb x (length (s_lab w8_dup_state))) (members w8_dup_state 0 ++ members w8_dup_state 3) = true
  /\ snd (clone_memo w8_lower w8_dup_state 0 (members w8_dup_state 3) []) = [(8, 1); (7, 3); (6, 0)]
  /\ snd (fst (recon_refs w8_lower w8_dup_state 0 true [7; 6; 8; 7] [])) = [3; 0; 1; 3]
  /\ first_match w8_lower w8_dup_state 0 false 3 = Some 0
  /\ snd (fst (read_refs w8_lower w8_dup_state 0 false [3] [])) = [5].
Proof. exact w8_first_match_example_l. Qed.
Print Assumptions first_match_example.

(* ================= wave 9: the first-match theorems lifted to the operations (step8) =================
   Proofs/C11W9First.v, C11W9Step.v, C11W9Examples.v.
   imports8 x o  says which items the call o imports BY LABEL, into which namespace n, under which caller's
   memo m0 (the memo as it was before the call; [] when the keyword is not given):
     RMove n m0 trs     the tree objects trs are re-mapped in place:
                          append / insert / [i]= of a tree under another namespace (trs = [] when the tree is
                          already under the list's namespace), extend / += / + / slice assignment from an iterable of
                          trees (the trees not yet under the namespace), Tree.migrate / reconstruct,
                          TreeList.migrate / reconstruct (the trees the list holds exactly once: a tree object held
                          twice is re-mapped twice), all with unify_taxa_by_label=True, with or without memo;
     RClone n srcs base the j-th tree of srcs is cloned (Tree(t0, taxon_namespace=n)) into the NEW tree object
                          base + j:  extend / += / + / slice assignment from a TreeList;
     RMat n m0 m        the rows of matrix m are re-mapped in place: CharacterMatrix.migrate / reconstruct.
   (taxon_import_strategy="add", unify_taxa_by_label=False, the readers and DataSet.unify_taxon_namespaces are
   not imports by label of one item into one namespace in this sense: imports8 = None.)
   taxa_wf x: the identifiers in the state name existing objects and the row keys of a matrix are distinct
   (executable: taxa_wfb, taxa_wfb_sound).  It is an invariant of ALL histories (taxa_wf_step8, taxa_wf_reachable8
   below), so for reachable states the theorem holds without it: import_resolves_first_match_reachable8. *)
From DV Require Import Proofs.C11W9First Proofs.C11W9Step Proofs.C11W9Examples.

Theorem taxa_wf_meaning : forall x : xstate,
  taxa_wf x <->
  ((forall n y, In y (members (x_st x) n) -> y < length (s_lab (x_st x))) /\
   (forall j y, In y (t_refs (gettree (x_st x) j)) -> y < length (s_lab (x_st x))) /\
   (forall l tr, In tr (l_trees (getlist (x_st x) l)) -> tr < length (s_trees (x_st x))) /\
   (forall m, NoDup (m_rows (getmat (x_st x) m))
              /\ forall y, In y (m_rows (getmat (x_st x) m)) -> y < length (s_lab (x_st x))) /\
   (forall k a t, alookup a (getmemo x k) = Some t -> t < length (s_lab (x_st x)))).
Proof. intro x. split; intro H; exact H. Qed.
Print Assumptions taxa_wf_meaning.

Theorem taxa_wfb_sound : forall x : xstate, taxa_wfb x = true -> taxa_wf x.
Proof. exact Proofs.C11W9Step.taxa_wfb_sound. Qed.
Print Assumptions taxa_wfb_sound.

Theorem imports8_table : forall (x : xstate) (l l2 tr n m k : oid) (i : Z) (a b : option Z) (ts : list oid),
  let st := x_st x in
  let ln := l_ns (getlist st l) in
  let fresh := fun trs => filter (fun t => negb (Nat.eqb (t_ns (gettree st t)) ln)) trs in
  let once := fun trs => filter (fun t => Nat.eqb (count_occ Nat.eq_dec trs t) 1) trs in
  (forall o, imports8 x (BadKw o) = imports8 x (Op7 o))
  /\ imports8 x (Op7 (Base (Append l tr (SMigrate true)))) = Some (RMove ln [] (fresh [tr]))
  /\ imports8 x (Op7 (Base (Insert l i tr (SMigrate true)))) = Some (RMove ln [] (fresh [tr]))
  /\ imports8 x (Op7 (Base (SetItem l i tr))) = Some (RMove ln [] (fresh [tr]))
  /\ imports8 x (Op7 (AppendM l tr (SMigrate true) k)) = Some (RMove ln (getmemo x k) (fresh [tr]))
  /\ imports8 x (Op7 (InsertM l i tr (SMigrate true) k)) = Some (RMove ln (getmemo x k) (fresh [tr]))
  /\ imports8 x (Op7 (Base (Extend l (SrcTrees ts)))) = Some (RMove ln [] (fresh ts))
  /\ imports8 x (Op7 (Base (IAdd l (SrcTrees ts)))) = Some (RMove ln [] (fresh ts))
  /\ imports8 x (Op7 (Base (AddOp l (SrcTrees ts)))) = Some (RMove ln [] (fresh ts))
  /\ imports8 x (Op7 (Base (SetSlice l a b (SrcTrees ts)))) = Some (RMove ln [] (fresh ts))
  /\ imports8 x (Op7 (Base (Extend l (SrcList l2)))) = Some (RClone ln (l_trees (getlist st l2)) (length (s_trees st)))
  /\ imports8 x (Op7 (Base (IAdd l (SrcList l2)))) = Some (RClone ln (l_trees (getlist st l2)) (length (s_trees st)))
  /\ imports8 x (Op7 (Base (SetSlice l a b (SrcList l2)))) = Some (RClone ln (l_trees (getlist st l2)) (length (s_trees st)))
  /\ imports8 x (Op7 (Base (AddOp l (SrcList l2))))
     = Some (RClone ln (l_trees (getlist st l2)) (length (s_trees st) + length (l_trees (getlist st l))))
  /\ imports8 x (Op7 (Base (MigrateTree tr n true))) = Some (RMove n [] [tr])
  /\ imports8 x (Op7 (Base (ReconstructTree tr true))) = Some (RMove (t_ns (gettree st tr)) [] [tr])
  /\ imports8 x (Op7 (MigrateTreeM tr n true k)) = Some (RMove n (getmemo x k) [tr])
  /\ imports8 x (Op7 (ReconstructTreeM tr true k)) = Some (RMove (t_ns (gettree st tr)) (getmemo x k) [tr])
  /\ imports8 x (Op7 (Base (MigrateList l n true))) = Some (RMove n [] (once (l_trees (getlist st l))))
  /\ imports8 x (Op7 (Base (ReconstructList l true))) = Some (RMove ln [] (once (l_trees (getlist st l))))
  /\ imports8 x (Op7 (MigrateListM l n true k)) = Some (RMove n (getmemo x k) (once (l_trees (getlist st l))))
  /\ imports8 x (Op7 (ReconstructListM l true k)) = Some (RMove ln (getmemo x k) (once (l_trees (getlist st l))))
  /\ imports8 x (Op7 (Base (MigrateMat m n true))) = Some (RMat n [] m)
  /\ imports8 x (Op7 (Base (ReconstructMat m true))) = Some (RMat (m_ns (getmat st m)) [] m)
  /\ imports8 x (Op7 (MigrateMatM m n true k)) = Some (RMat n (getmemo x k) m)
  /\ imports8 x (Op7 (ReconstructMatM m true k)) = Some (RMat (m_ns (getmat st m)) (getmemo x k) m).
Proof. intros. repeat split. Qed.
Print Assumptions imports8_table.

(* after a SUCCESSFUL step (outcome OUnit / OId) every label of the imported item that the caller's memo does not
   name is resolved to the FIRST member of the destination namespace - as it is after the call, where a member made
   by the call for a label without match sits at the end - that matches it under the namespace's case rule *)
Theorem import_resolves_first_match_step8 : forall (lower : lbl -> lbl) (x : xstate) (o : op8) (x' : xstate) (y : out)
    (r : route),
  step8 lower x o = (x', y) -> succeeded y = true -> taxa_wf x -> imports8 x o = Some r ->
  let st := x_st x in
  let st' := x_st x' in
  match r with
  | RMove n m0 trs =>
    forall tr, In tr trs ->
      let refs := t_refs (gettree st tr) in
      let refs' := t_refs (gettree st' tr) in
      t_ns (gettree st' tr) = n /\ length refs' = length refs /\
      forall i, i < length refs -> alookup (nth i refs 0) m0 = None ->
        first_match lower st' n (ns_cs st' n) (label st (nth i refs 0)) = Some (nth i refs' 0)
  | RClone n srcs base =>
    forall j, j < length srcs -> Nat.eqb (t_ns (gettree st (nth j srcs 0))) n = false ->
      let refs := t_refs (gettree st (nth j srcs 0)) in
      let refs' := t_refs (gettree st' (base + j)) in
      t_ns (gettree st' (base + j)) = n /\ length refs' = length refs /\
      (* Tree._clone_from maps the MEMBERS of the source namespace; any other node taxon is deep-copied *)
      forall i, i < length refs -> In (nth i refs 0) (members st (t_ns (gettree st (nth j srcs 0)))) ->
        first_match lower st' n (ns_cs st' n) (label st (nth i refs 0)) = Some (nth i refs' 0)
  | RMat n m0 m =>
    let rows := m_rows (getmat st m) in
    let rows' := m_rows (getmat st' m) in
    m_ns (getmat st' m) = n /\ length rows' = length rows /\
    forall i, i < length rows -> alookup (nth i rows 0) m0 = None ->
      first_match lower st' n (ns_cs st' n) (label st (nth i rows 0)) = Some (nth i rows' 0)
  end.
Proof. exact import_resolves_first_match_step8_l. Qed.
Print Assumptions import_resolves_first_match_step8.

(* hence: labels of one imported tree that are equal under the destination's case rule sit on ONE taxon object *)
Theorem import_equal_labels_one_taxon_step8 : forall (lower : lbl -> lbl) (x : xstate) (o : op8) (x' : xstate) (y : out)
    (n : oid) (m0 : memo) (trs : list oid),
  step8 lower x o = (x', y) -> succeeded y = true -> taxa_wf x -> imports8 x o = Some (RMove n m0 trs) ->
  forall tr, In tr trs ->
  let refs := t_refs (gettree (x_st x) tr) in
  let refs' := t_refs (gettree (x_st x') tr) in
  forall i j, i < length refs -> j < length refs ->
    alookup (nth i refs 0) m0 = None -> alookup (nth j refs 0) m0 = None ->
    key lower (ns_cs (x_st x') n) (label (x_st x) (nth i refs 0)) = key lower (ns_cs (x_st x') n) (label (x_st x) (nth j refs 0)) ->
    nth i refs' 0 = nth j refs' 0.
Proof. exact import_equal_labels_one_taxon_step8_l. Qed.
Print Assumptions import_equal_labels_one_taxon_step8.

(* the hypotheses are satisfiable on the states of the fixed histories (duplicate-label namespace 0 = A B a C A a,
   case-insensitive): migrate route, clone route, a caller's memo naming one of two taxa, matrix route *)
Theorem import_first_match_example :
  taxa_wfb w9_xa = true /\ nth_error w8_history0 25 = Some (Op7 (Base (Append 0 5 (SMigrate true))))
  /\ imports8 w9_xa (Op7 (Base (Append 0 5 (SMigrate true)))) = Some (RMove 0 [] [5])
  /\ snd (step8 w8_lower w9_xa (Op7 (Base (Append 0 5 (SMigrate true))))) = OUnit
  /\ members (x_st w9_xa) 0 = [0; 1; 2; 3; 4; 5]
  /\ map (label (x_st w9_xa)) [0; 1; 2; 3; 4; 5; 6; 7; 8] = [0; 1; 3; 2; 0; 3; 3; 2; 1]
  /\ t_refs (gettree (x_st w9_xa) 5) = [7; 6]
  /\ t_refs (gettree (x_st (fst (step8 w8_lower w9_xa (Op7 (Base (Append 0 5 (SMigrate true))))))) 5) = [3; 0]
  /\ taxa_wfb w9_xb = true /\ nth_error w8_history0 26 = Some (Op7 (Base (Extend 0 (SrcList 3))))
  /\ imports8 w9_xb (Op7 (Base (Extend 0 (SrcList 3)))) = Some (RClone 0 [4] 6)
  /\ snd (step8 w8_lower w9_xb (Op7 (Base (Extend 0 (SrcList 3))))) = OUnit
  /\ t_refs (gettree (x_st w9_xb) 4) = [6; 7; 8] /\ t_ns (gettree (x_st w9_xb) 4) = 3
  /\ t_refs (gettree (x_st (fst (step8 w8_lower w9_xb (Op7 (Base (Extend 0 (SrcList 3))))))) 6) = [0; 3; 1]
  /\ taxa_wfb w9_xc = true
  /\ imports8 w9_xc (Op7 (MigrateTreeM 5 0 true 0)) = Some (RMove 0 [(7, 4)] [5])
  /\ snd (step8 w8_lower w9_xc (Op7 (MigrateTreeM 5 0 true 0))) = OUnit
  /\ t_refs (gettree (x_st (fst (step8 w8_lower w9_xc (Op7 (MigrateTreeM 5 0 true 0))))) 5) = [4; 0]
  /\ taxa_wfb w9_xm = true /\ nth_error w8_history3 22 = Some (Op7 (Base (MigrateMat 0 1 true)))
  /\ imports8 w9_xm (Op7 (Base (MigrateMat 0 1 true))) = Some (RMat 1 [] 0)
  /\ snd (step8 w8_lower w9_xm (Op7 (Base (MigrateMat 0 1 true)))) = OUnit
  /\ m_rows (getmat (x_st w9_xm) 0) = [0]
  /\ m_rows (getmat (x_st (fst (step8 w8_lower w9_xm (Op7 (Base (MigrateMat 0 1 true)))))) 0) = [2].
Proof. exact w9_example_l. Qed.
Print Assumptions import_first_match_example.

(* the read route does NOT resolve to the first match (unchanged library: listed finding
   read-resolves-duplicate-label-to-last-member): TreeList.read of the label a into namespace 0 = A B a C A a
   makes tree 4 with taxon 5, the last of the three members matching a; the first is taxon 0 *)
Theorem read_resolves_first_match_refuted :
  exists (x : xstate) (o : op8) (x' : xstate),
    taxa_wf x /\ step8 w8_lower x o = (x', OUnit) /\ o = Op7 (Base (ReadList 0 Newick false None [[3]]))
    /\ l_ns (getlist (x_st x) 0) = 0 /\ length (s_trees (x_st x)) = 4
    /\ t_ns (gettree (x_st x') 4) = 0 /\ t_refs (gettree (x_st x') 4) = [5]
    /\ first_match w8_lower (x_st x') 0 (ns_cs (x_st x') 0) 3 = Some 0.
Proof. exact w9_read_refuted_l. Qed.
Print Assumptions read_resolves_first_match_refuted.

(* ---- taxa_wf is an invariant of the extended history language: EVERY operation (disciplined or not, successful or
   not) keeps it, so it holds in every state of every history (Proofs/C11W9Wf.v) and the step theorem needs no
   hypothesis about reachable states ---- *)
From DV Require Import Proofs.C11W9Wf.

Theorem taxa_wf_step8 : forall (lower : lbl -> lbl) (x : xstate) (o : op8),
  taxa_wf x -> taxa_wf (fst (step8 lower x o)).
Proof. exact taxa_wf_step8_l. Qed.
Print Assumptions taxa_wf_step8.

Theorem taxa_wf_reachable8 : forall (lower : lbl -> lbl) (ops : list op8), taxa_wf (run_state8 lower x_init ops).
Proof. exact taxa_wf_reachable8_l. Qed.
Print Assumptions taxa_wf_reachable8.

Theorem import_resolves_first_match_reachable8 : forall (lower : lbl -> lbl) (ops : list op8) (o : op8) (x' : xstate)
    (y : out) (r : route),
  let x := run_state8 lower x_init ops in
  step8 lower x o = (x', y) -> succeeded y = true -> imports8 x o = Some r ->
  let st := x_st x in
  let st' := x_st x' in
  match r with
  | RMove n m0 trs =>
    forall tr, In tr trs ->
      let refs := t_refs (gettree st tr) in
      let refs' := t_refs (gettree st' tr) in
      t_ns (gettree st' tr) = n /\ length refs' = length refs /\
      forall i, i < length refs -> alookup (nth i refs 0) m0 = None ->
        first_match lower st' n (ns_cs st' n) (label st (nth i refs 0)) = Some (nth i refs' 0)
  | RClone n srcs base =>
    forall j, j < length srcs -> Nat.eqb (t_ns (gettree st (nth j srcs 0))) n = false ->
      let refs := t_refs (gettree st (nth j srcs 0)) in
      let refs' := t_refs (gettree st' (base + j)) in
      t_ns (gettree st' (base + j)) = n /\ length refs' = length refs /\
      forall i, i < length refs -> In (nth i refs 0) (members st (t_ns (gettree st (nth j srcs 0)))) ->
        first_match lower st' n (ns_cs st' n) (label st (nth i refs 0)) = Some (nth i refs' 0)
  | RMat n m0 m =>
    let rows := m_rows (getmat st m) in
    let rows' := m_rows (getmat st' m) in
    m_ns (getmat st' m) = n /\ length rows' = length rows /\
    forall i, i < length rows -> alookup (nth i rows 0) m0 = None ->
      first_match lower st' n (ns_cs st' n) (label st (nth i rows 0)) = Some (nth i rows' 0)
  end.
Proof. exact import_resolves_first_match_reachable8_l. Qed.
Print Assumptions import_resolves_first_match_reachable8.

(* ---- the history corollary (Proofs/C11W9Hist.v): a tree that is RESOLVED - every node taxon is the first member of
   the tree's namespace matching its label, which is what every memo-free import by label establishes
   (canon_after_import8) - stays resolved through every later operation that does not re-write that tree object
   (touched8: the tree-level operations on it, the list-level operations on a list holding it, + / extend / slice
   assignment from an iterable containing it, DataSet.unify_taxon_namespaces) and is not a purge
   (purge_taxon_namespace removes members).  Reads, clones, operations on other trees / lists / matrices /
   data sets, refused calls, growth of the namespace by any route: all allowed.  Hence labels equal under the case
   rule, of resolved trees under one namespace (e.g. the trees of one list that arrived by the import routes), sit
   on ONE taxon in every later state.  The trees MADE by the read route in a namespace with duplicate labels are not
   resolved (read_resolves_first_match_refuted), nor are those imported with taxon_import_strategy="add"
   (history_resolved_example: trees 1, 2). ---- *)
From DV Require Import Proofs.C11W9Hist.

Theorem canon_meaning : forall (lower : lbl -> lbl) (st : state) (tr : oid),
  canon lower st tr <->
  (tr < length (s_trees st) /\ t_ns (gettree st tr) < s_nns st /\
   forall y, In y (t_refs (gettree st tr)) ->
     first_match lower st (t_ns (gettree st tr)) (ns_cs st (t_ns (gettree st tr))) (label st y) = Some y).
Proof. intros. split; intro H; exact H. Qed.
Print Assumptions canon_meaning.

Theorem touched8_table : forall (x : xstate) (j l l2 t n d m k : oid) (i : Z) (a b : option Z) (ts : list oid) (s : strat)
    (u at_ : bool) (nsarg : option oid) (sc : schema) (trees : list (list lbl)),
  let st := x_st x in
  (forall o, touched8 x (BadKw o) j = touched8 x (Op7 o) j) /\ (forall o, is_purge8 (BadKw o) = is_purge8 (Op7 o))
  /\ touched8 x (Op7 (Base (Append l t s))) j = (j = t) /\ touched8 x (Op7 (Base (Insert l i t s))) j = (j = t)
  /\ touched8 x (Op7 (Base (SetItem l i t))) j = (j = t) /\ touched8 x (Op7 (AppendM l t s k)) j = (j = t)
  /\ touched8 x (Op7 (InsertM l i t s k)) j = (j = t)
  /\ touched8 x (Op7 (Base (MigrateTree t n u))) j = (j = t) /\ touched8 x (Op7 (Base (ReconstructTree t u))) j = (j = t)
  /\ touched8 x (Op7 (Base (UpdateTree t))) j = (j = t)
  /\ touched8 x (Op7 (MigrateTreeM t n u k)) j = (j = t) /\ touched8 x (Op7 (ReconstructTreeM t u k)) j = (j = t)
  /\ touched8 x (Op7 (Base (Extend l (SrcTrees ts)))) j = In j ts /\ touched8 x (Op7 (Base (IAdd l (SrcTrees ts)))) j = In j ts
  /\ touched8 x (Op7 (Base (AddOp l (SrcTrees ts)))) j = In j ts
  /\ touched8 x (Op7 (Base (SetSlice l a b (SrcTrees ts)))) j = In j ts
  /\ touched8 x (Op7 (Base (Extend l (SrcList l2)))) j = False /\ touched8 x (Op7 (Base (IAdd l (SrcList l2)))) j = False
  /\ touched8 x (Op7 (Base (AddOp l (SrcList l2)))) j = False
  /\ touched8 x (Op7 (Base (SetSlice l a b (SrcList l2)))) j = False
  /\ touched8 x (Op7 (Base (MigrateList l n u))) j = In j (l_trees (getlist st l))
  /\ touched8 x (Op7 (Base (ReconstructList l u))) j = In j (l_trees (getlist st l))
  /\ touched8 x (Op7 (Base (UpdateList l))) j = In j (l_trees (getlist st l))
  /\ touched8 x (Op7 (Base (GetSlice l a b))) j = In j (l_trees (getlist st l))
  /\ touched8 x (Op7 (MigrateListM l n u k)) j = In j (l_trees (getlist st l))
  /\ touched8 x (Op7 (ReconstructListM l u k)) j = In j (l_trees (getlist st l))
  /\ touched8 x (Op7 (Base (Unify d nsarg at_))) j = True
  /\ touched8 x (Op7 (Base (ReadList l sc u nsarg trees))) j = False
  /\ touched8 x (Op7 (Base (DsReadTrees d sc u nsarg trees))) j = False
  /\ touched8 x (Op7 (Base (MigrateMat m n u))) j = False /\ touched8 x (Op7 (Base (NewTaxon n k))) j = False
  /\ is_purge8 (Op7 (Base (PurgeList l))) = true /\ is_purge8 (Op7 (Base (PurgeTree t))) = true
  /\ is_purge8 (Op7 (Base (PurgeMat m))) = true /\ is_purge8 (Op7 (Base (Append l t s))) = false
  /\ is_purge8 (Op7 (Base (ReadList l sc u nsarg trees))) = false.
Proof. intros. repeat split. Qed.
Print Assumptions touched8_table.

Theorem canon_after_import8 : forall (lower : lbl -> lbl) (x : xstate) (o : op8) (x' : xstate) (y : out) (n : oid)
    (trs : list oid) (tr : oid),
  step8 lower x o = (x', y) -> succeeded y = true -> taxa_wf x -> imports8 x o = Some (RMove n [] trs) -> In tr trs ->
  tr < length (s_trees (x_st x')) -> n < s_nns (x_st x') -> canon lower (x_st x') tr.
Proof. exact canon_after_import8_l. Qed.
Print Assumptions canon_after_import8.

Theorem canon_kept_step8 : forall (lower : lbl -> lbl) (x : xstate) (o : op8) (tr : oid),
  taxa_wf x -> is_purge8 o = false -> ~ touched8 x o tr -> canon lower (x_st x) tr ->
  canon lower (x_st (fst (step8 lower x o))) tr /\ gettree (x_st (fst (step8 lower x o))) tr = gettree (x_st x) tr.
Proof. exact canon_kept_step8_l. Qed.
Print Assumptions canon_kept_step8.

Theorem quiet_hist_meaning : forall (lower : lbl -> lbl) (x : xstate) (o : op8) (r : list op8) (tr : oid),
  (quiet_hist lower x [] tr <-> True)
  /\ (quiet_hist lower x (o :: r) tr <->
      (is_purge8 o = false /\ ~ touched8 x o tr /\ quiet_hist lower (fst (step8 lower x o)) r tr)).
Proof. intros. split; split; intro H; exact H. Qed.
Print Assumptions quiet_hist_meaning.

Theorem canon_kept_history8 : forall (lower : lbl -> lbl) (ops : list op8) (x : xstate) (tr : oid),
  taxa_wf x -> canon lower (x_st x) tr -> quiet_hist lower x ops tr ->
  canon lower (x_st (run_state8 lower x ops)) tr
  /\ gettree (x_st (run_state8 lower x ops)) tr = gettree (x_st x) tr.
Proof. exact canon_kept_history8_l. Qed.
Print Assumptions canon_kept_history8.

Theorem history_equal_labels_one_taxon8 : forall (lower : lbl -> lbl) (ops : list op8) (x : xstate) (t1 t2 : oid),
  taxa_wf x -> canon lower (x_st x) t1 -> canon lower (x_st x) t2 ->
  t_ns (gettree (x_st x) t1) = t_ns (gettree (x_st x) t2) ->
  quiet_hist lower x ops t1 -> quiet_hist lower x ops t2 ->
  let st' := x_st (run_state8 lower x ops) in
  forall y1 y2, In y1 (t_refs (gettree st' t1)) -> In y2 (t_refs (gettree st' t2)) ->
    key lower (ns_cs st' (t_ns (gettree st' t1))) (label st' y1) = key lower (ns_cs st' (t_ns (gettree st' t1))) (label st' y2) ->
    y1 = y2.
Proof. exact history_equal_labels_one_taxon8_l. Qed.
Print Assumptions history_equal_labels_one_taxon8.

Theorem history_resolved_example :
  taxa_wfb w9_xb = true
  /\ canon w8_lower (x_st w9_xb) 5 /\ canon w8_lower (x_st w9_xb) 0
  /\ t_ns (gettree (x_st w9_xb) 5) = t_ns (gettree (x_st w9_xb) 0)
  /\ skipn 26 w8_history0 = [Op7 (Base (Extend 0 (SrcList 3))); Op7 (Base (IAdd 0 (SrcList 3)));
                             Op7 (Base (SetSlice 0 (Some 1%Z) (Some 2%Z) (SrcList 3))); Op7 (Base (AddOp 0 (SrcList 3)))]
  /\ quiet_hist w8_lower w9_xb (skipn 26 w8_history0) 5 /\ quiet_hist w8_lower w9_xb (skipn 26 w8_history0) 0
  /\ canonb w8_lower (x_st w9_xb) 1 = false /\ canonb w8_lower (x_st w9_xb) 2 = false
  /\ t_refs (gettree (x_st (run_state8 w8_lower w9_xb (skipn 26 w8_history0))) 5) = [3; 0]
  /\ t_refs (gettree (x_st (run_state8 w8_lower w9_xb (skipn 26 w8_history0))) 0) = [0; 1].
Proof. exact w9_history_example_l. Qed.
Print Assumptions history_resolved_example.

(* ---- the read route and namespaces WITHOUT duplicate labels (Proofs/C11W9Read.v): there the readers' look-up (the
   LAST matching member) and require_taxon (the FIRST) agree, TreeList.read keeps the namespace free of duplicates,
   and every tree under it whose node taxa are members - so, in a closed state, every tree the read makes - is
   resolved.  The read route therefore leaves the history corollary only in namespaces that hold several members with
   one label: exactly the listed finding read-resolves-duplicate-label-to-last-member. ---- *)
From DV Require Import Proofs.C11W9Read.

Theorem readers_agree_without_duplicates : forall (lower : lbl -> lbl) (st : state) (n : oid) (l : lbl),
  (forall y z, In y (members st n) -> In z (members st n) ->
     key lower (ns_cs st n) (label st y) = key lower (ns_cs st n) (label st z) -> y = z) ->
  last_match lower st n (ns_cs st n) l = first_match lower st n (ns_cs st n) l.
Proof. exact last_first_uniq. Qed.
Print Assumptions readers_agree_without_duplicates.

Theorem read_keeps_no_duplicates : forall (lower : lbl -> lbl) (st : state) (l : oid) (sc : schema) (cskw : bool)
    (nsarg : option oid) (trees : list (list lbl)),
  let n := l_ns (getlist st l) in
  let st' := fst (step lower st (ReadList l sc cskw nsarg trees)) in
  (forall y, In y (members st n) -> y < length (s_lab st)) ->
  (forall y z, In y (members st n) -> In z (members st n) ->
     key lower (ns_cs st n) (label st y) = key lower (ns_cs st n) (label st z) -> y = z) ->
  (forall y z, In y (members st' n) -> In z (members st' n) ->
     key lower (ns_cs st' n) (label st' y) = key lower (ns_cs st' n) (label st' z) -> y = z).
Proof. exact read_keeps_uniq_l. Qed.
Print Assumptions read_keeps_no_duplicates.

Theorem read_without_duplicates_resolved : forall (lower : lbl -> lbl) (st : state) (l : oid) (sc : schema) (cskw : bool)
    (nsarg : option oid) (trees : list (list lbl)) (tr : oid),
  Closed st -> (forall n y, In y (members st n) -> y < length (s_lab st)) ->
  (forall y z, In y (members st (l_ns (getlist st l))) -> In z (members st (l_ns (getlist st l))) ->
     key lower (ns_cs st (l_ns (getlist st l))) (label st y) = key lower (ns_cs st (l_ns (getlist st l))) (label st z) -> y = z) ->
  l_ns (getlist st l) < s_nns st ->
  let st' := fst (step lower st (ReadList l sc cskw nsarg trees)) in
  tr < length (s_trees st') -> t_ns (gettree st' tr) = l_ns (getlist st l) -> canon lower st' tr.
Proof. exact read_without_duplicates_resolved_l. Qed.
Print Assumptions read_without_duplicates_resolved.

Theorem read_without_duplicates_example :
  let st := x_st w9_xb in
  let o := ReadList 3 Newick false None [[3; 1]; [2; 4]] in
  closedb st = true /\ taxa_wfb w9_xb = true /\ uniqb w8_lower st 3 = true /\ uniqb w8_lower st 0 = false
  /\ l_ns (getlist st 3) = 3 /\ s_nns st = 4 /\ length (s_trees st) = 6
  /\ snd (step w8_lower st o) = OUnit
  /\ map (fun t => (t_ns (gettree (fst (step w8_lower st o)) t), t_refs (gettree (fst (step w8_lower st o)) t))) [6; 7]
     = [(3, [6; 8]); (3, [7; 8])].
Proof. exact w9_read_example_l. Qed.
Print Assumptions read_without_duplicates_example.

Theorem uniqb_sound : forall (lower : lbl -> lbl) (st : state) (n : oid), uniqb lower st n = true ->
  forall y z, In y (members st n) -> In z (members st n) ->
    key lower (ns_cs st n) (label st y) = key lower (ns_cs st n) (label st z) -> y = z.
Proof. exact Proofs.C11W9Read.uniqb_sound. Qed.
Print Assumptions uniqb_sound.

(* ---- wave 11: the history corollary for MATRICES (Proofs/C11W11Mat.v).  A matrix is RESOLVED (canon_mat) when every
   row taxon is the first member of the matrix' namespace matching its own label; that is what the memo-free by-label
   migrate / reconstruct of a matrix establishes (canon_mat_after_import8); every later operation that is not a purge
   and does not re-write that matrix object (touchedm8: new_sequence / []= / migrate / reconstruct on it, with or
   without memo, and DataSet.unify_taxon_namespaces) keeps it resolved together with its rows (frame relation MF proved
   for all 41 + 13 operations and BadKw); hence, for two resolved containers - trees or matrices - under one namespace,
   labels equal under the case rule sit on ONE taxon in every later state. ---- *)
From DV Require Import Proofs.C11W11Mat Proofs.C11W11Read Proofs.C11W11Examples.

Theorem canon_mat_meaning : forall (lower : lbl -> lbl) (st : state) (m : oid),
  canon_mat lower st m <->
  (m < length (s_mats st) /\ m_ns (getmat st m) < s_nns st /\
   forall y, In y (m_rows (getmat st m)) ->
     first_match lower st (m_ns (getmat st m)) (ns_cs st (m_ns (getmat st m))) (label st y) = Some y).
Proof. intros. split; intro H; exact H. Qed.
Print Assumptions canon_mat_meaning.

Theorem touchedm8_table : forall (j l t n d m k x : oid) (rk : rowkey) (u at_ : bool) (nsarg : option oid) (rows : list lbl)
    (s : strat) (sc : schema) (trees : list (list lbl)),
  (forall o, touchedm8 (BadKw o) j = touchedm8 (Op7 o) j)
  /\ touchedm8 (Op7 (Base (NewSeq m x))) j = (j = m) /\ touchedm8 (Op7 (Base (SetRow m rk))) j = (j = m)
  /\ touchedm8 (Op7 (Base (MigrateMat m n u))) j = (j = m) /\ touchedm8 (Op7 (Base (ReconstructMat m u))) j = (j = m)
  /\ touchedm8 (Op7 (MigrateMatM m n u k)) j = (j = m) /\ touchedm8 (Op7 (ReconstructMatM m u k)) j = (j = m)
  /\ touchedm8 (Op7 (Base (Unify d nsarg at_))) j = True
  /\ touchedm8 (Op7 (Base (UpdateMat m))) j = False /\ touchedm8 (Op7 (Base (NewMat n))) j = False
  /\ touchedm8 (Op7 (Base (DsNewMat d nsarg))) j = False /\ touchedm8 (Op7 (Base (DsReadFasta d nsarg rows))) j = False
  /\ touchedm8 (Op7 (CopyMat m)) j = False /\ touchedm8 (Op7 (Base (DsAdd d (ObjMat m)))) j = False
  /\ touchedm8 (Op7 (Base (Append l t s))) j = False /\ touchedm8 (Op7 (Base (MigrateTree t n u))) j = False
  /\ touchedm8 (Op7 (Base (MigrateList l n u))) j = False /\ touchedm8 (Op7 (Base (NewTaxon n k))) j = False
  /\ touchedm8 (Op7 (Base (DsReadTrees d sc u nsarg trees))) j = False.
Proof. intros. repeat split. Qed.
Print Assumptions touchedm8_table.

Theorem canon_mat_after_import8 : forall (lower : lbl -> lbl) (x : xstate) (o : op8) (x' : xstate) (y : out) (n m : oid),
  step8 lower x o = (x', y) -> succeeded y = true -> taxa_wf x -> imports8 x o = Some (RMat n [] m) ->
  m < length (s_mats (x_st x')) -> n < s_nns (x_st x') -> canon_mat lower (x_st x') m.
Proof. exact canon_mat_after_import8_l. Qed.
Print Assumptions canon_mat_after_import8.

Theorem canon_mat_kept_step8 : forall (lower : lbl -> lbl) (x : xstate) (o : op8) (m : oid),
  taxa_wf x -> is_purge8 o = false -> ~ touchedm8 o m -> canon_mat lower (x_st x) m ->
  canon_mat lower (x_st (fst (step8 lower x o))) m /\ getmat (x_st (fst (step8 lower x o))) m = getmat (x_st x) m.
Proof. exact canon_mat_kept_step8_l. Qed.
Print Assumptions canon_mat_kept_step8.

Theorem quiet_hist_mat_meaning : forall (lower : lbl -> lbl) (x : xstate) (o : op8) (r : list op8) (m : oid),
  (quiet_hist_mat lower x [] m <-> True)
  /\ (quiet_hist_mat lower x (o :: r) m <->
      (is_purge8 o = false /\ ~ touchedm8 o m /\ quiet_hist_mat lower (fst (step8 lower x o)) r m)).
Proof. intros. split; split; intro H; exact H. Qed.
Print Assumptions quiet_hist_mat_meaning.

Theorem canon_mat_kept_history8 : forall (lower : lbl -> lbl) (ops : list op8) (x : xstate) (m : oid),
  taxa_wf x -> canon_mat lower (x_st x) m -> quiet_hist_mat lower x ops m ->
  canon_mat lower (x_st (run_state8 lower x ops)) m
  /\ getmat (x_st (run_state8 lower x ops)) m = getmat (x_st x) m.
Proof. exact canon_mat_kept_history8_l. Qed.
Print Assumptions canon_mat_kept_history8.

(* a container: a tree or a matrix *)
Theorem container_meaning : forall (lower : lbl -> lbl) (st : state) (x : xstate) (ops : list op8) (t m : oid),
  c_ns st (CTree t) = t_ns (gettree st t) /\ c_ns st (CMat m) = m_ns (getmat st m)
  /\ c_taxa st (CTree t) = t_refs (gettree st t) /\ c_taxa st (CMat m) = m_rows (getmat st m)
  /\ canon_c lower st (CTree t) = canon lower st t /\ canon_c lower st (CMat m) = canon_mat lower st m
  /\ quiet_c lower x ops (CTree t) = quiet_hist lower x ops t /\ quiet_c lower x ops (CMat m) = quiet_hist_mat lower x ops m.
Proof. intros. repeat split. Qed.
Print Assumptions container_meaning.

Theorem history_equal_labels_one_taxon_mat8 : forall (lower : lbl -> lbl) (ops : list op8) (x : xstate) (c1 c2 : cont),
  taxa_wf x -> canon_c lower (x_st x) c1 -> canon_c lower (x_st x) c2 -> c_ns (x_st x) c1 = c_ns (x_st x) c2 ->
  quiet_c lower x ops c1 -> quiet_c lower x ops c2 ->
  let st' := x_st (run_state8 lower x ops) in
  forall y1 y2, In y1 (c_taxa st' c1) -> In y2 (c_taxa st' c2) ->
    key lower (ns_cs st' (c_ns st' c1)) (label st' y1) = key lower (ns_cs st' (c_ns st' c1)) (label st' y2) ->
    y1 = y2.
Proof. exact history_equal_labels_one_taxon_mat8_l. Qed.
Print Assumptions history_equal_labels_one_taxon_mat8.

Theorem canon_matb_sound : forall (lower : lbl -> lbl) (st : state) (m : oid), canon_matb lower st m = true -> canon_mat lower st m.
Proof. exact Proofs.C11W11Mat.canon_matb_sound. Qed.
Print Assumptions canon_matb_sound.

Theorem matrix_history_example :
  taxa_wfb w9_xm = true /\ imports8 w9_xm (Op7 (Base (MigrateMat 0 1 true))) = Some (RMat 1 [] 0)
  /\ step8 w8_lower w9_xm (Op7 (Base (MigrateMat 0 1 true))) = (w11_x, OUnit)
  /\ taxa_wfb w11_x = true
  /\ canon_mat w8_lower (x_st w11_x) 0 /\ canon w8_lower (x_st w11_x) 1
  /\ m_ns (getmat (x_st w11_x) 0) = t_ns (gettree (x_st w11_x) 1)
  /\ w11_ops = [Op7 (Base NewDs); Op7 (Base (Attach 0 1)); Op7 (Base (DsAdd 0 (ObjMat 0))); Op7 (Base (DsNewList 0 (Some 0)));
                Op7 (Base (DsNewList 0 (Some 1))); Op7 (Base (DsReadFasta 0 (Some 2) [0; 1]));
                Op7 (Base (DsReadFasta 0 None [0; 1]))]
  /\ quiet_hist_mat w8_lower w11_x w11_ops 0 /\ quiet_hist w8_lower w11_x w11_ops 1
  /\ members (x_st w11_y) 1 = [2; 3; 6]
  /\ m_rows (getmat (x_st w11_y) 0) = [2] /\ t_refs (gettree (x_st w11_y) 1) = [2; 3]
  /\ canon_matb w8_lower (x_st w11_y) 1 = true.
Proof. exact w11_mat_history_example_l. Qed.
Print Assumptions matrix_history_example.

(* ---- wave 11: the two read theorems for the DataSet.read operations of the model (Proofs/C11W11Read.v): DsReadTrees
   (Newick / NEXUS tree source) and DsReadFasta.  s1 is the state after the namespace choice of the read
   (ds_read_namespace_choice: the taxa and the members of every namespace as before, and s1 = st unless the data set
   is un-attached and no namespace is given - then a new empty namespace has been made). ---- *)
Theorem ds_read_namespace_choice : forall (st : state) (d : oid) (nsarg : option oid) (s1 : state) (n : oid),
  ds_read_ns st d nsarg = Some (s1, n) ->
  s_lab s1 = s_lab st /\ s_mem s1 = s_mem st /\ s_nns st <= s_nns s1
  /\ (d_att (getds st d) <> None \/ nsarg <> None -> s1 = st).
Proof.
  intros st d nsarg s1 n H. destruct (ds_read_ns_tables _ _ _ _ _ H) as [A [B C]].
  split; [exact A|]. split; [exact B|]. split; [exact C|]. exact (ds_read_ns_unchanged _ _ _ _ _ H).
Qed.
Print Assumptions ds_read_namespace_choice.

Theorem ds_read_keeps_no_duplicates : forall (lower : lbl -> lbl) (st : state) (d : oid) (sc : schema) (cskw : bool)
    (nsarg : option oid) (trees : list (list lbl)) (s1 : state) (n : oid),
  valid_ds st d && valid_nsopt st nsarg = true -> ds_read_ns st d nsarg = Some (s1, n) ->
  let st' := fst (step lower st (DsReadTrees d sc cskw nsarg trees)) in
  (forall y, In y (members s1 n) -> y < length (s_lab s1)) ->
  (forall y z, In y (members s1 n) -> In z (members s1 n) ->
     key lower (ns_cs s1 n) (label s1 y) = key lower (ns_cs s1 n) (label s1 z) -> y = z) ->
  (forall y z, In y (members st' n) -> In z (members st' n) ->
     key lower (ns_cs st' n) (label st' y) = key lower (ns_cs st' n) (label st' z) -> y = z).
Proof. exact ds_read_keeps_uniq_l. Qed.
Print Assumptions ds_read_keeps_no_duplicates.

Theorem ds_read_without_duplicates_resolved : forall (lower : lbl -> lbl) (st : state) (d : oid) (sc : schema) (cskw : bool)
    (nsarg : option oid) (trees : list (list lbl)) (s1 : state) (n tr : oid),
  Closed st -> (forall k y, In y (members st k) -> y < length (s_lab st)) ->
  valid_ds st d && valid_nsopt st nsarg = true -> ds_read_ns st d nsarg = Some (s1, n) ->
  (forall y z, In y (members s1 n) -> In z (members s1 n) ->
     key lower (ns_cs s1 n) (label s1 y) = key lower (ns_cs s1 n) (label s1 z) -> y = z) ->
  n < s_nns s1 ->
  let st' := fst (step lower st (DsReadTrees d sc cskw nsarg trees)) in
  tr < length (s_trees st') -> t_ns (gettree st' tr) = n -> canon lower st' tr.
Proof. exact ds_read_without_duplicates_resolved_l. Qed.
Print Assumptions ds_read_without_duplicates_resolved.

Theorem ds_readfasta_keeps_no_duplicates : forall (lower : lbl -> lbl) (st : state) (d : oid) (nsarg : option oid)
    (rows : list lbl) (s1 : state) (n : oid),
  valid_ds st d && valid_nsopt st nsarg = true -> ds_read_ns st d nsarg = Some (s1, n) ->
  let st' := fst (step lower st (DsReadFasta d nsarg rows)) in
  (forall y, In y (members s1 n) -> y < length (s_lab s1)) ->
  (forall y z, In y (members s1 n) -> In z (members s1 n) ->
     key lower (ns_cs s1 n) (label s1 y) = key lower (ns_cs s1 n) (label s1 z) -> y = z) ->
  (forall y z, In y (members st' n) -> In z (members st' n) ->
     key lower (ns_cs st' n) (label st' y) = key lower (ns_cs st' n) (label st' z) -> y = z).
Proof. exact ds_readfasta_keeps_uniq_l. Qed.
Print Assumptions ds_readfasta_keeps_no_duplicates.

Theorem ds_readfasta_without_duplicates_resolved : forall (lower : lbl -> lbl) (st : state) (d : oid) (nsarg : option oid)
    (rows : list lbl) (s1 : state) (n m : oid),
  Closed st -> (forall k y, In y (members st k) -> y < length (s_lab st)) ->
  valid_ds st d && valid_nsopt st nsarg = true -> ds_read_ns st d nsarg = Some (s1, n) ->
  (forall y z, In y (members s1 n) -> In z (members s1 n) ->
     key lower (ns_cs s1 n) (label s1 y) = key lower (ns_cs s1 n) (label s1 z) -> y = z) ->
  n < s_nns s1 ->
  let st' := fst (step lower st (DsReadFasta d nsarg rows)) in
  m < length (s_mats st') -> m_ns (getmat st' m) = n -> canon_mat lower st' m.
Proof. exact ds_readfasta_without_duplicates_resolved_l. Qed.
Print Assumptions ds_readfasta_without_duplicates_resolved.

Theorem ds_read_without_duplicates_example :
  let st := x_st w11_y in
  closedb st = true /\ taxa_wfb w11_y = true /\ uniqb w8_lower st 1 = true
  /\ valid_ds st 0 && valid_nsopt st None = true /\ ds_read_ns st 0 None = Some (st, 1) /\ s_nns st = 3
  /\ length (s_trees st) = 4 /\ length (s_mats st) = 2
  /\ snd (step w8_lower st w11_rd) = OUnit
  /\ map (fun t => (t_ns (gettree (fst (step w8_lower st w11_rd)) t), t_refs (gettree (fst (step w8_lower st w11_rd)) t))) [4; 5]
     = [(1, [2; 3]); (1, [3; 6])]
  /\ snd (step w8_lower st w11_rf) = OUnit
  /\ getmat (fst (step w8_lower st w11_rf)) 2 = mkMat 1 [3; 6].
Proof. exact w11_ds_read_example_l. Qed.
Print Assumptions ds_read_without_duplicates_example.

(* why new_sequence / []= are in touchedm8: without "~ touchedm8 o m" the statement canon_mat_kept_step8 is false
   (a member that is not the first one matching its label is accepted as a new row) *)
Theorem canon_mat_kept_without_untouched_refuted :
  exists (x : xstate) (o : op8) (m : oid),
    taxa_wf x /\ is_purge8 o = false /\ o = Op7 (Base (NewSeq m 2)) /\ snd (step8 w8_lower x o) = OUnit
    /\ canon_mat w8_lower (x_st x) m /\ ~ canon_mat w8_lower (x_st (fst (step8 w8_lower x o))) m.
Proof. exact w11_touched_needed_l. Qed.
Print Assumptions canon_mat_kept_without_untouched_refuted.
