(* C20 property theorems: statements only, each closed by `exact`.
   Readers terminate on every input and report bad data as a parse error.

   Models: Gen/ReaderLoops.v (regenerated from the source on every run), Model/C20Model.v (progress
   rule; PHYLIP and FASTA readers at character level), Model/C20Nexus.v (NEXUS control skeleton at
   token level on C02's Model/Tokenizer.v and Model/Newick.v).
   Python runtime functions (isspace, digit values, lower/upper, the state-alphabet symbol table,
   float()) are universally quantified parameters of the theorems.

   Sites where the CURRENT library violates the property are modelled in both forms (DESIGN 5.2):
   the full statement is proved for the repaired form and refuted (`_refuted`, concrete witness) for
   the current form; `_partial` is what holds for both. *)
From Coq Require Import String ZArith List Bool.
From DV Require Import Model.PyPrims Gen.ReaderLoops Model.Tokenizer Model.Newick Model.C20Model Model.C20Nexus
                       Proofs.C20Proofs Proofs.C20NexusProofs Proofs.C20Tok Proofs.C20Newick Proofs.C20NexusTotal.
Import ListNotations.
Close Scope string_scope.
Open Scope list_scope.
Open Scope Z_scope.

(* ========================================================================================== *)
(* 1. every reader loop makes progress                                                         *)
(* ========================================================================================== *)

(* Every `while` (and `for .. in itertools.count()`) of tokenizer.py, nexusprocessing.py,
   newickreader.py, nexusreader.py, nexusyielder.py in the CURRENT source satisfies the progress rule
   `loop_ok` (R0-R3 in C20Model.v), or is on the explicit allow-list (4 loops, each justified in
   C20Model.v and pinned to the loop's AST digest), or is one of the recorded defect sites.
   Changing `require_next_token` to `next_token` in a statement loop, or adding an unguarded loop,
   makes this false. *)
Theorem loop_progress :
  forallb (fun l => loop_ok l || loop_in allow_list l || loop_in known_defect_loops l) reader_loops = true.
Proof. exact loop_progress_l. Qed.
Print Assumptions loop_progress.

Theorem loop_progress_lifted : forall l, In l reader_loops ->
  loop_ok l = true \/ loop_in allow_list l = true \/ loop_in known_defect_loops l = true.
Proof. exact loop_progress_lifted_l. Qed.
Print Assumptions loop_progress_lifted.

(* The loops that are neither discharged mechanically nor allow-listed are exactly the recorded
   defect sites still present in the source (both sides are [] once they are repaired): no loop is
   passed silently, and no allow-list entry shadows a loop the rule discharges anyway. *)
Theorem loop_defects_exact :
  filter (fun l => negb (loop_ok l || loop_in allow_list l)) reader_loops
  = filter (loop_in known_defect_loops) reader_loops
  /\ forallb (fun l => negb (loop_in allow_list l && loop_ok l)) reader_loops = true
  /\ excluded_loops = [].
Proof. exact (conj loop_defects_exact_l (conj allow_list_needed_l excluded_loops_none_l)). Qed.
Print Assumptions loop_defects_exact.

(* the only self-recursive functions of the reader modules are the two justified in C20Model.v *)
Theorem recursion_sites_known : forallb recursion_known reader_recursions = true.
Proof. exact recursion_sites_known_l. Qed.
Print Assumptions recursion_sites_known.

(* ========================================================================================== *)
(* 2. PHYLIP                                                                                   *)
(* ========================================================================================== *)

(* For EVERY character list and every option setting the PHYLIP reader model terminates (it is
   structurally recursive; no fuel) and ends in: a matrix with exactly the declared number of rows
   (and, on the repaired form, the declared number of columns in every row) - or DataParseError -
   or, only on the current form of the `%d` site, TypeError.  Never Hang / AttributeError /
   IndexError (the positional lookup taxon_namespace[paged_row] of the interleaved reader is always
   in range) / KeyError / ValueError. *)
Theorem phylip_reader_total :
  forall (isspace : Z -> bool) (dval : Z -> option Z) (lower : str -> str) (sym : Z -> option Z)
         (o : popts) (text : str),
  match phylip_read isspace dval lower sym o text with
  | Ok rows =>
      exists ntax nchar,
        phylip_declared isspace dval text = Some (ntax, nchar)
        /\ zlen rows = ntax
        /\ (po_fix_dims o = true -> Forall (fun r => zlen (snd r) = nchar) rows)
  | Err e => e = ParseErr \/ (po_fix_fmt o = false /\ e = TypeErr)
  | OutOfFuel => False
  end.
Proof. exact phylip_reader_total_l. Qed.
Print Assumptions phylip_reader_total.

(* declared-versus-found dimensions: refuted for the current form (a short last row is accepted) *)
Theorem dims_consistent_refuted :
  exists text rows ntax nchar,
    phylip_read py_isspace ascii_dval ascii_lower dna4 popts_default text = Ok rows
    /\ phylip_declared py_isspace ascii_dval text = Some (ntax, nchar)
    /\ Exists (fun r => zlen (snd r) <> nchar) rows.
Proof. exact phylip_dims_refuted_l. Qed.
Print Assumptions dims_consistent_refuted.

(* "never TypeError": refuted for the current form (a repeated complete sequence) *)
Theorem phylip_reader_total_refuted :
  exists text, phylip_read py_isspace ascii_dval ascii_lower dna4 popts_default text = Err TypeErr.
Proof. exact phylip_typeerr_refuted_l. Qed.
Print Assumptions phylip_reader_total_refuted.

(* ========================================================================================== *)
(* 3. FASTA                                                                                    *)
(* ========================================================================================== *)

(* For EVERY character list: a matrix whose sequence names are pairwise distinct under the
   namespace's label matching, or DataParseError.  (FASTA declares no dimensions.) *)
Theorem fasta_reader_total :
  forall (isspace : Z -> bool) (lower : str -> str) (sym : Z -> option Z) (cs : bool) (text : str),
  match fasta_read isspace lower sym cs text with
  | Ok rows => NoDup (map (fun r : row => if cs then fst r else lower (fst r)) rows)
  | Err e => e = ParseErr
  | OutOfFuel => False
  end.
Proof. exact fasta_reader_total_l. Qed.
Print Assumptions fasta_reader_total.

(* ========================================================================================== *)
(* 4. NEXUS control skeleton                                                                   *)
(* ========================================================================================== *)

(* nexus_skeleton_total - "for every text the skeleton ends in Ok or ParseErr within the budget
   2*|text| + 16" - is REFUTED for the current form of the reader: *)

(* it hangs on two complete documents *)
Theorem nexus_skeleton_total_refuted_hang :
  cls (run nfix_none w_link) = Some Hang /\ cls (run nfix_none w_positions) = Some Hang.
Proof. exact nexus_hang_witnesses_l. Qed.
Print Assumptions nexus_skeleton_total_refuted_hang.

(* the LINK loop genuinely diverges: with ANY budget, from any state, on any token other than
   ";", TAXA, CHARACTERS *)
Theorem nexus_link_loop_diverges :
  forall (upper : str -> str) (fuel : nat) tok st lt lc,
  tok_is tok ";" = false -> tok_is tok "TAXA" = false -> tok_is tok "CHARACTERS" = false ->
  link_loop upper nfix_none fuel tok st lt lc = RFuel.
Proof. exact link_loop_diverges. Qed.
Print Assumptions nexus_link_loop_diverges.

(* it raises AttributeError / TypeError / ValueError / a leaked internal exception *)
Theorem nexus_skeleton_total_refuted_internal_errors :
  cls (run nfix_none w_empty) = Some AttrErr
  /\ cls (run nfix_none w_taxlabels_eof) = Some AttrErr
  /\ cls (run nfix_none w_taxlabels_nodims) = Some TypeErr
  /\ cls (run nfix_none w_tree_eof) = Some AttrErr
  /\ cls (run nfix_none w_untitled) = Some AttrErr
  /\ cls (run nfix_none w_blockterm) = Some OtherErr
  /\ cls (run nfix_none w_datatype) = Some TypeErr
  /\ cls (run nfix_none w_charsetdup) = Some ValueErr
  /\ cls (run nfix_none w_step0) = Some ValueErr.
Proof. exact nexus_internal_error_witnesses_l. Qed.
Print Assumptions nexus_skeleton_total_refuted_internal_errors.

(* and it returns a matrix with fewer rows than NTAX declares for a document cut inside MATRIX *)
Theorem nexus_dims_consistent_refuted :
  match run nfix_none w_truncmatrix with
  | ROk st => match n_ntax st, n_mats st with
              | Some ntax, [m] => (Z.of_nat (length (m_rows m)) <? ntax) = true
              | _, _ => False
              end
  | _ => False
  end.
Proof. exact nexus_truncated_matrix_witness_l. Qed.
Print Assumptions nexus_dims_consistent_refuted.

(* On the repaired form the same documents are parse errors (or, for the two complete documents
   `LINK FOO = x;` and TAXLABELS without DIMENSIONS, are read), and every prefix of a valid document
   with TAXA, CHARACTERS, TREES+TRANSLATE and SETS blocks is read or is a parse error, which is false
   on the current form (crash-point quantifier, one concrete document; the harness checks the same
   for generated documents of every block structure). *)
Theorem nexus_repaired_examples :
  forallb (fun w => match cls (run nfix_all w) with Some ParseErr => true | _ => false end)
          [w_positions; w_step0; w_empty; w_taxlabels_eof; w_tree_eof; w_untitled; w_blockterm;
           w_truncmatrix; w_charsetdup] = true
  /\ cls (run nfix_all w_link) = None
  /\ cls (run nfix_all w_taxlabels_nodims) = None
  /\ cls (run nfix_all w_valid) = None /\ cls (run nfix_none w_valid) = None.
Proof. exact nexus_witnesses_repaired_l. Qed.
Print Assumptions nexus_repaired_examples.

Theorem prefix_closed_errors_example :
  prefixes_ok nfix_all w_valid = true /\ prefixes_ok nfix_none w_valid = false.
Proof. exact nexus_prefix_closed_example_l. Qed.
Print Assumptions prefix_closed_errors_example.

(* nexus_skeleton_total: on the REPAIRED form (every recorded defect site in its fixed form,
   `nfix_all`), for EVERY character list and every choice of the runtime functions, the skeleton
   ends within its budget 2*|text| + 16 in Ok or DataParseError (or leaves the modelled fragment,
   RUnm: interleaved / continuous / non-DNA matrices, multistate groups, SYMBOLS, MATCHCHAR):
   never out of budget (no hang), never AttributeError / TypeError / ValueError / IndexError / a
   leaked internal exception.  The guards and fetch primitives of all 17 loops are the ones of the
   GENERATED records, so the proof is re-checked against the current source on every run. *)
Theorem nexus_skeleton_total :
  forall (upper lower : Tokenizer.str -> Tokenizer.str) (dval : Z -> option Z) (sym_ok : Z -> bool)
         (is_float : Tokenizer.str -> bool) (text : Tokenizer.str),
  match nexus_read upper lower dval sym_ok is_float nfix_all text with
  | ROk _ => True
  | RErr e => e = ParseErr
  | RFuel => False
  | RUnm => True
  end.
Proof. exact nexus_skeleton_total_l. Qed.
Print Assumptions nexus_skeleton_total.

(* the same for any token stream and any budget above twice its weight + 8 *)
Theorem nexus_skeleton_total_tokens :
  forall (upper lower : Tokenizer.str -> Tokenizer.str) (dval : Z -> option Z) (sym_ok : Z -> bool)
         (is_float : Tokenizer.str -> bool) (F : nat) (toks : list token * tend),
  snd toks <> EndFuel -> (forall e, snd toks = EndErr e -> e = ParseErr) ->
  (2 * wsum (fst toks) + 8 <= F)%nat ->
  match parse_nexus_stream upper lower dval sym_ok is_float nfix_all F toks with
  | ROk _ => True
  | RErr e => e = ParseErr
  | RFuel => False
  | RUnm => True
  end.
Proof. exact parse_nexus_stream_tot. Qed.
Print Assumptions nexus_skeleton_total_tokens.

(* ========================================================================================== *)
(* 5. tokenizer and Newick reader (C02's models Model/Tokenizer.v, Model/Newick.v)             *)
(* ========================================================================================== *)

(* The contract of the fetch primitives that the progress rule of section 1 relies on: for EVERY
   tokenizer configuration and character list, `__next__` returns a token and strictly shortens
   the input, or reports end of stream, or raises UnterminatedQuoteError (a DataParseError). *)
Theorem tokenizer_progress : forall (cfg : tok_cfg) (s : Tokenizer.str),
  match Tokenizer.next_token cfg s with
  | TTok t q cs rest => (length rest < length s)%nat
  | TEof _ => True
  | TErr e => e = ParseErr
  | TFuel => False
  end.
Proof. exact tokenizer_progress_l. Qed.
Print Assumptions tokenizer_progress.

Theorem tokenize_total : forall (cfg : tok_cfg) (s : Tokenizer.str),
  snd (tokenize cfg s) <> EndFuel /\ (forall e, snd (tokenize cfg s) = EndErr e -> e = ParseErr).
Proof. exact tokenize_total_l. Qed.
Print Assumptions tokenize_total.

(* NewickReader._read for EVERY character list, namespace, edge-length parser, str.lower and option
   setting with terminating_semicolon_required = True (the default): trees (inductive values: every
   returned tree is a finite, well-formed rose tree by construction) or DataParseError; the reader
   never runs out of the fuel 2 * tokens + 8.  (CPython's recursion limit, which turns nesting deeper
   than about 1000 into RecursionError, is outside the model; the harness tests it.) *)
Theorem newick_reader_total :
  forall (L : Type) (parse_len : Tokenizer.str -> option L) (lower : Tokenizer.str -> Tokenizer.str)
         (o : ropts) (ns : list Tokenizer.str) (text : Tokenizer.str),
  ro_terminating_semicolon_required o = true ->
  match read_newick L parse_len lower o ns text with
  | Ok _ => True
  | Err e => e = ParseErr
  | OutOfFuel => False
  end.
Proof. exact newick_reader_total_l. Qed.
Print Assumptions newick_reader_total.
